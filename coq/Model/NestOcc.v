(* Occupancy partitioning in the loop-nest abstraction (C03).  uniform_occupancy(leader.n) on rank r is DYNAMIC in the
   emitted programs: when the nest reaches rank r the leader's CURRENT fiber is cut into chunks of n elements
   (splitEqual(n): upper coordinate = first coordinate of the chunk) and every follower's current fiber of rank r is cut
   at those boundaries (splitNonUniform(boundaries): partition b holds b <= c < next boundary, elements below the first
   boundary and empty partitions are dropped); then r1 (upper) and r0 (lower) are iterated.  Definitions only. *)
From Coq Require Import ZArith List Bool Lia String Sorted.
Require TV.Model.Rt.
Require Import TV.Model.Nest TV.Model.NestPart.
Import ListNotations.
Open Scope Z_scope.

(* ---------- boundaries ---------- *)
(* partition of coordinate c for increasing boundaries bs: the last boundary <= c (same function as OccLaws.part_of) *)
Fixpoint part_of (bs : list Z) (c : Z) : option Z :=
  match bs with
  | [] => None
  | b :: bs' => if c <? b then None
                else match part_of bs' c with Some b' => Some b' | None => Some b end
  end.

(* the window of boundary b when the boundaries after it are bs' *)
Definition in_window (b : Z) (bs' : list Z) (c : Z) : bool :=
  (b <=? c) && match bs' with [] => true | b' :: _ => c <? b' end.

(* splitNonUniform(bs) of one fiber (Rt.split_bounds on Nest tries): one partition per boundary whose window holds an
   element, the elements kept in order *)
Fixpoint bounds_split (bs : list Z) (l : list (coord * trie)) : list (coord * trie) :=
  match bs with
  | [] => []
  | b :: bs' =>
      match filter (fun ct : coord * trie => in_window b bs' (fst ct)) l with
      | [] => bounds_split bs' l
      | sel => (b, Node sel) :: bounds_split bs' l
      end
  end.

(* ---------- the leader ---------- *)
(* first coordinate of every chunk of n consecutive elements: k = elements still to skip before the next chunk starts *)
Fixpoint starts_aux (n k : nat) (l : list (coord * trie)) : list Z :=
  match l with
  | [] => []
  | ct :: l' => match k with
                | O => fst ct :: starts_aux n (Nat.pred n) l'
                | S k' => starts_aux n k' l'
                end
  end.
Definition chunk_starts (n : nat) (l : list (coord * trie)) : list Z := starts_aux n 0 l.

(* splitEqual(n) of one fiber, structurally (Rt.split_equal on Nest tries) *)
Fixpoint equal_split (fuel n : nat) (l : list (coord * trie)) : list (coord * trie) :=
  match fuel with
  | O => []
  | S f => match l with
           | [] => []
           | ct :: _ => (fst ct, Node (firstn n l)) :: equal_split f n (skipn n l)
           end
  end.

(* ---------- the state transformation ---------- *)
Definition children (t : trie) : list (coord * trie) := match t with Node l => l | Leaf _ => [] end.

(* a tensor in flight whose NEXT rank is r: its current fiber is cut at bs, r becomes (r1, r0) *)
Definition occ_tstate (r r1 r0 : rank) (bs : list Z) (t : tstate) : tstate :=
  match rem t with
  | x :: rest => if String.eqb x r
                 then {| rem := r1 :: r0 :: rest; cur := Node (bounds_split bs (children (cur t))) |}
                 else t
  | [] => t
  end.

Definition split_term_at (r r1 r0 : rank) (bs : list Z) (tm : term) : term := map (occ_tstate r r1 r0 bs) tm.

(* the boundaries: chunk starts of the current fiber of the leader (the tensor at position k of the term) *)
Definition leader_bounds (n k : nat) (tm : term) : list Z := chunk_starts n (children (cur (nth k tm dummy_t))).

Definition occ_split (r r1 r0 : rank) (n k : nat) (tm : term) : term :=
  split_term_at r r1 r0 (leader_bounds n k tm) tm.

(* a point of the partitioned space is consistent when its upper coordinate is the partition of its lower one *)
Definition occ_consistent (bs : list Z) (r1 r0 : rank) (p : point) : bool :=
  match part_of bs (p r0) with Some b => Z.eqb b (p r1) | None => false end.

(* ---------- dynamic position: outer levels first, then the split, then the inner levels ---------- *)
(* the nest over the levels Lo whose body is any continuation k of the reached state *)
Fixpoint run_k (Lo : list rank) (k : list term -> list contrib) (tms : list term) : list contrib :=
  match Lo with
  | [] => k tms
  | r :: Lo' => flat_map (fun c => map (fun qv => ((r, c) :: fst qv, snd qv)) (run_k Lo' k (map (step_term r c) tms)))
                         (visited r tms)
  end.

(* run Louter, apply the split to every reached state, run Linner *)
Definition run_then_split (Lo : list rank) (split : term -> term) (Li : list rank) (tms : list term) : list contrib :=
  run_k Lo (fun s => run Li (map split s)) tms.

(* the state reached along Lo at the coordinates of p, and whether every level visits that coordinate *)
Fixpoint reach (Lo : list rank) (p : point) (tms : list term) : list term :=
  match Lo with [] => tms | r :: Lo' => reach Lo' p (map (step_term r (p r)) tms) end.
Fixpoint along (Lo : list rank) (p : point) (tms : list term) : bool :=
  match Lo with
  | [] => true
  | r :: Lo' => (if in_dec Z.eq_dec (p r) (visited r tms) then true else false) && along Lo' p (map (step_term r (p r)) tms)
  end.

(* ---------- hereditarily sorted tries (every fiber strictly increasing in its coordinates) ---------- *)
Fixpoint sortedb (l : list Z) : bool :=
  match l with
  | [] => true
  | a :: l' => match l' with [] => true | b :: _ => a <? b end && sortedb l'
  end.
Fixpoint tsortedb (t : trie) : bool :=
  match t with
  | Leaf _ => true
  | Node l => sortedb (keys l) && forallb (fun ct => tsortedb (snd ct)) l
  end.

(* ---------- executable checks of the hypotheses ---------- *)
Fixpoint nodupb (l : list rank) : bool :=
  match l with [] => true | x :: l' => negb (existsb (String.eqb x) l') && nodupb l' end.

(* every tensor of the term: distinct ranks, and r (if held) is the NEXT rank *)
Definition rems_okb (r : rank) (rs : list rank) : bool := nodupb rs && (negb (rmem r rs) || heads r rs).
Definition term_okb (r : rank) (tm : term) : bool := forallb (fun t => rems_okb r (rem t)) tm.

(* the leader (position k): next rank r, current fiber sorted *)
Definition leader_okb (r : rank) (k : nat) (tm : term) : bool :=
  match nth_error tm k with Some ld => participates r ld && sortedb (keys (children (cur ld))) | None => false end.

(* well-formedness of the outer levels: every term has a participant at every level, and Q holds of every state the
   levels can reach (Nest.wf L = wf_outer L "all tensors exhausted") *)
Fixpoint wf_outer (Lo : list rank) (Q : list term -> Prop) (tms : list term) : Prop :=
  match Lo with
  | [] => Q tms
  | r :: Lo' => (forall tm, In tm tms -> exists t, In t tm /\ participates r t = true)
                /\ forall c, wf_outer Lo' Q (map (step_term r c) tms)
  end.

(* rank structure of an occupancy split *)
Definition occ_rems (r r1 r0 : rank) (rs : list rank) : list rank :=
  match rs with x :: rest => if String.eqb x r then r1 :: r0 :: rest else rs | [] => rs end.

(* static validator of a dynamically placed occupancy split of one product term with rank structure sh: the outer levels
   Lo (not r) each have a participant; when they are done every tensor has distinct ranks and holds r only as its next
   rank, the leader (position k) holds r, and the inner levels Li are well-formed for the split rank structure *)
Fixpoint occ_dyn_okb (Lo : list rank) (r r1 r0 : rank) (k : nat) (Li : list rank) (sh : list (list rank)) : bool :=
  match Lo with
  | [] => forallb (rems_okb r) sh
          && match nth_error sh k with Some rs => heads r rs | None => false end
          && swf Li [map (occ_rems r r1 r0) sh]
  | x :: Lo' => negb (String.eqb x r) && existsb (heads x) sh && occ_dyn_okb Lo' r r1 r0 k Li (step_rems x sh)
  end.

(* the state one product term reaches along Lo at the coordinates of p *)
Fixpoint reach_term (Lo : list rank) (p : point) (tm : term) : term :=
  match Lo with [] => tm | r :: Lo' => reach_term Lo' p (step_term r (p r) tm) end.

(* ---------- the hypotheses of the theorems (Proofs/NestOccProofs.v) ---------- *)
(* every tensor of the term has distinct ranks and holds r, if at all, as its NEXT rank *)
Definition term_ok (r : rank) (tm : term) : Prop :=
  forall t, In t tm -> NoDup (rem t) /\ (holds r t = true -> participates r t = true).

(* the leader: the tensor at position k of the term, next rank r, current fiber sorted *)
Definition leader_ok (r : rank) (k : nat) (tm : term) : Prop :=
  exists ld, nth_error tm k = Some ld /\ participates r ld = true /\ StronglySorted Z.lt (keys (children (cur ld))).

(* what must hold of every state at which the split is applied *)
Definition occ_state_ok (r r1 r0 : rank) (n k : nat) (Li : list rank) (s : list term) : Prop :=
  (forall tm, In tm s -> term_ok r tm /\ leader_ok r k tm) /\ wf Li (map (occ_split r r1 r0 n k) s).

(* first coordinate of a chunk *)
Definition head_key (ch : list (coord * trie)) : Z := match ch with ct :: _ => fst ct | [] => 0 end.

(* ---------- occupancy beneath occupancy ---------- *)
(* run Lo1, split (r -> r2, rx), run Lo2, split (rx -> r1, r0), run Li *)
Definition run_split_split (Lo1 : list rank) (split2 : term -> term) (Lo2 : list rank) (split1 : term -> term)
                           (Li : list rank) (tms : list term) : list contrib :=
  run_k Lo1 (fun s => run_then_split Lo2 split1 Li (map split2 s)) tms.

Definition occ2_state_ok (r r2 rx : rank) (n2 k2 : nat) (Lo2 : list rank) (r1 r0 : rank) (n1 k1 : nat) (Li : list rank)
                         (s : list term) : Prop :=
  (forall tm, In tm s -> term_ok r tm /\ leader_ok r k2 tm) /\
  forall tm, In tm s -> wf_outer Lo2 (occ_state_ok rx r1 r0 n1 k1 Li) [occ_split r r2 rx n2 k2 tm].

(* static validator of the two-level stack *)
Fixpoint occ2_dyn_okb (Lo1 : list rank) (r r2 rx : rank) (k2 : nat) (Lo2 : list rank) (r1 r0 : rank) (k1 : nat)
                      (Li : list rank) (sh : list (list rank)) : bool :=
  match Lo1 with
  | [] => forallb (rems_okb r) sh
          && match nth_error sh k2 with Some rs => heads r rs | None => false end
          && occ_dyn_okb Lo2 rx r1 r0 k1 Li (map (occ_rems r r2 rx) sh)
  | x :: Lo1' => negb (String.eqb x r) && negb (String.eqb x rx) && existsb (heads x) sh
                 && occ2_dyn_okb Lo1' r r2 rx k2 Lo2 r1 r0 k1 Li (step_rems x sh)
  end.

(* ---------- summing over the upper coordinate ---------- *)
(* the contributions whose key agrees with p on every rank except r1, summed (what an output that does not hold r1 receives) *)
Definition matches_except (r1 : rank) (p : point) (q : list (rank * coord)) : bool :=
  forallb (fun rc => String.eqb (fst rc) r1 || Z.eqb (p (fst rc)) (snd rc)) q.
Fixpoint sum_except (r1 : rank) (p : point) (cs : list contrib) : Z :=
  match cs with
  | [] => 0
  | qv :: cs' => if matches_except r1 p (fst qv) then snd qv + sum_except r1 p cs' else sum_except r1 p cs'
  end.

(* ---------- a shape split beneath an occupancy split ---------- *)
(* a shape split beneath an occupancy split: after Lo, r is occupancy-split into (r2, rx) and rx (now the second rank of
   the split tensors) is shape-split by step s into (r1, r0); then Li *)
Definition occ_then_shape (r r2 rx : rank) (n k : nat) (r1 r0 : rank) (s : Z) (tm : term) : term :=
  map (part_tstate rx r1 r0 s) (occ_split r r2 rx n k tm).
Definition occ_shape_state_ok (r r2 rx : rank) (n k : nat) (r1 r0 : rank) (s : Z) (Li : list rank) (st : list term) : Prop :=
  (forall tm, In tm st -> term_ok r tm /\ leader_ok r k tm /\ forall t, In t tm -> ~ In r2 (rem t) /\ ~ In rx (rem t)) /\
  wf Li (map (occ_then_shape r r2 rx n k r1 r0 s) st).

(* ---------- the embedding of Nest tries into the tries of the modelled runtime (Model/Rt.v) ---------- *)
Fixpoint to_rt (t : trie) : Rt.trie :=
  match t with
  | Leaf v => Rt.TLeaf (Rt.VInt v)
  | Node l => Rt.TNode (map (fun ct : coord * trie => (Rt.VInt (fst ct), to_rt (snd ct))) l)
  end.
Definition to_rt_ct (ct : coord * trie) : Rt.value * Rt.trie := (Rt.VInt (fst ct), to_rt (snd ct)).
