(* Model of teaal/trans/utils.py TransUtils.next_tmp / curr_tmp: one counter per HiFiber
   translation, never reset between Einsums.  State n = number of temporaries issued so far
   (the code's `count` + 1).  A name is its index; the code spells it "tmp" ++ decimal. *)
From Coq Require Import String List Arith.
Require Import TV.Model.Show.
Import ListNotations.

Inductive tmp_op := TNext | TCurr.

(* output None = curr_tmp raising "No previous temporary" *)
Definition tmp_step (n : nat) (o : tmp_op) : nat * option nat :=
  match o with
  | TNext => (S n, Some n)
  | TCurr => (n, match n with O => None | S k => Some k end)
  end.

Fixpoint tmp_run (n : nat) (ops : list tmp_op) : list (tmp_op * option nat) :=
  match ops with
  | [] => []
  | o :: ops' => (o, snd (tmp_step n o)) :: tmp_run (fst (tmp_step n o)) ops'
  end.

Fixpoint tmp_final (n : nat) (ops : list tmp_op) : nat :=
  match ops with [] => n | o :: ops' => tmp_final (fst (tmp_step n o)) ops' end.

(* the temporaries issued by next_tmp, in order *)
Fixpoint issued (tr : list (tmp_op * option nat)) : list nat :=
  match tr with
  | (TNext, Some k) :: tr' => k :: issued tr'
  | _ :: tr' => issued tr'
  | [] => []
  end.

Definition tmp_ok (tr : list (tmp_op * option nat)) : bool :=
  forallb (fun x => match snd x with Some _ => true | None => false end) tr.

Local Open Scope string_scope.
Definition show_tmp_out (x : tmp_op * option nat) : string :=
  match snd x with Some k => "tmp" ++ show_nat k | None => "ERR" end.
Definition show_tmp_run (ops : list tmp_op) : string := String.concat "," (map show_tmp_out (tmp_run 0 ops)).
