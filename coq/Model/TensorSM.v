(* Model of teaal/ir/tensor.py : the per-Einsum state of a Tensor (ranks, pointers, flags). *)
From Coq Require Import String List Bool Arith.
Require Import TV.Model.Show.
Import ListNotations.
Open Scope string_scope.

Record tensor := mkT {
  t_name : string;
  t_ranks : list string;
  t_init : list string;
  t_iter : nat;
  t_rank : nat;
  t_out : bool;
  t_flat : bool }.

Definition tinit (name : string) (ranks : list string) : tensor := mkT name ranks ranks 0 0 false false.

Inductive top :=
| OSwizzle (order : list string)
| OUpdate (ranks : list string)
| OFromFiber
| OPop
| OSetOut (b : bool)
| OReset.

Fixpoint strs_eqb (a b : list string) : bool :=
  match a, b with [], [] => true | x :: a', y :: b' => String.eqb x y && strs_eqb a' b' | _, _ => false end.

Definition active (t : tensor) : list string := skipn (t_rank t) (t_ranks t).

Definition treset (t : tensor) : tensor := mkT (t_name t) (t_init t) (t_init t) 0 0 false false.

Definition tstep (t : tensor) (o : top) : tensor :=
  match o with
  | OSwizzle order =>
      mkT (t_name t) (firstn (t_rank t) (t_ranks t) ++ order) (t_init t) (t_iter t) (t_rank t) (t_out t)
          (if t_flat t then strs_eqb (active t) order else false)
  | OUpdate ranks =>
      mkT (t_name t) (firstn (t_rank t) (t_ranks t) ++ ranks) (t_init t) (t_iter t) (t_rank t) (t_out t)
          (Nat.ltb (length ranks) (length (t_ranks t) - t_rank t))
  | OFromFiber =>
      mkT (t_name t) (t_ranks t) (t_init t) (t_iter t) (t_iter t) (t_out t)
          (if t_flat t then Nat.eqb (t_rank t) (t_iter t) else false)
  | OPop => mkT (t_name t) (t_ranks t) (t_init t) (S (t_iter t)) (t_rank t) (t_out t) (t_flat t)
  | OSetOut b => mkT (t_name t) (t_ranks t) (t_init t) (t_iter t) (t_rank t) b (t_flat t)
  | OReset => treset t
  end.

Definition trun (t : tensor) (ops : list top) : tensor := fold_left tstep ops t.

Definition lower_ascii (c : Ascii.ascii) : Ascii.ascii :=
  let n := Ascii.nat_of_ascii c in
  if (Nat.leb 65 n && Nat.leb n 90)%bool then Ascii.ascii_of_nat (n + 32) else c.
Fixpoint lower (s : string) : string :=
  match s with EmptyString => EmptyString | String c s' => String (lower_ascii c) (lower s') end.

Definition tensor_name (t : tensor) : string :=
  t_name t ++ "_" ++ String.concat "" (active t) ++ (if t_flat t && negb (t_out t) then "_flat" else "").

Definition fiber_name (t : tensor) : string :=
  lower (t_name t) ++ "_" ++
  match nth_error (t_ranks t) (t_iter t) with
  | Some r => lower r
  | None => if t_out t then "ref" else "val"
  end.

Definition show_tensor (t : tensor) : string := tensor_name t ++ "|" ++ fiber_name t ++ "|" ++ String.concat "," (active t).
Definition show_tensor_run (name : string) (ranks : list string) (ops : list top) : string :=
  let t := trun (tinit name ranks) ops in
  show_tensor t ++ "|" ++ tensor_name (treset t) ++ "|" ++ String.concat "," (active (treset t)).
