(* Running one emitted program on concrete inputs inside the kernel's VM and
   rendering a flat, canonical report that the Python harness compares. *)
From Coq Require Import String List ZArith Bool FMapPositive.
Require Import TV.Model.Show TV.Model.Py TV.Model.Rt TV.Model.Interp TV.Model.Einsum.
Import ListNotations.
Open Scope string_scope.

Fixpoint show_value (fuel : nat) (v : value) : string :=
  match fuel with
  | O => "?"
  | S f =>
      match v with
      | VInt z => show_Z z
      | VFloat x => match f_integral x with Some z => show_Z z ++ ".0" | None => "<float>" end
      | VStr s => s
      | VBool b => show_bool b
      | VNone => "None"
      | VTuple l => "(" ++ String.concat "," (map (show_value f) l) ++ ")"
      | VList l => "[" ++ String.concat "," (map (show_value f) l) ++ "]"
      | VLoc _ => "<obj>"
      | VLam _ _ => "<lambda>"
      | VIter _ => "<iter>"
      | VZero => "0"
      | VGlobal g => g
      | VOpaque => "<opaque>"
      end
  end.
Definition showv := show_value 8.

Definition show_err (e : err) : string :=
  match e with
  | ErrUnbound x => "unbound:" ++ show_N (Npos x)
  | ErrFuel => "fuel"
  | ErrType s => "type:" ++ s
  | ErrApi s => "api:" ++ s
  end.

Definition show_data (d : list (list value * value)) : string :=
  String.concat " " (map (fun kv => String.concat "," (map showv (fst kv)) ++ "=" ++ showv (snd kv)) d).

Record input := mkInput {
  i_var : positive; i_ids : list string; i_name : string;
  i_data : list (list Z * Z) }.                      (* coordinates in the order of i_ids *)

Definition init_state (globals : list (positive * string)) (ints : list (positive * Z)) (ins : list input) : state :=
  let st0 := mkSt (PM.empty value) (PM.empty obj) 1%positive [] in
  let st1 := fold_left (fun st g => setenv (fst g) (VGlobal (snd g)) st) globals st0 in
  let st2 := fold_left (fun st g => setenv (fst g) (VInt (snd g)) st) ints st1 in
  fold_left (fun st i =>
               let t := tbuild (map (fun kv => (map VInt (fst kv), VInt (snd kv))) (i_data i)) in
               let '(tv, st') := new_tensor (i_ids i) t (i_name i) st in
               setenv (i_var i) tv st') ins st2.

(* the non-zero content of the tensor bound to variable x, with its rank ids *)
Definition tensor_of_var (st : state) (x : positive) : option (list string * list (list value * value)) :=
  match PM.find x (env st) with
  | Some tv =>
      match get_tensor st tv with
      | Some (ids, root, _) =>
          match load (length ids) st root with
          | Some t => Some (ids, dense t)
          | None => None
          end
      | None => None
      end
  | None => None
  end.

Definition zdata_values (d : list (list Z * Z)) : list (list value * value) :=
  map (fun kv => (map VInt (fst kv), VInt (snd kv))) d.

Fixpoint path_ltb (a b : list value) : bool :=
  match a, b with
  | [], [] => false | [], _ => true | _, [] => false
  | x :: a', y :: b' => vltb x y || (veqb x y && path_ltb a' b')
  end.
Fixpoint pinsert (k : list value) (v : value) (d : list (list value * value)) :=
  match d with
  | [] => [(k, v)]
  | (k', w) :: d' => if path_ltb k k' then (k, v) :: d else (k', w) :: pinsert k v d'
  end.
Definition psort (d : list (list value * value)) := fold_left (fun acc kv => pinsert (fst kv) (snd kv) acc) d [].

Record outcheck := mkOut {
  o_var : positive; o_ids : list string;
  o_perm : list nat;                                  (* declared position -> position in o_ids *)
  o_expected : list (list Z * Z) }.                   (* declared order *)

Fixpoint strs_eqb_simple (a b : list string) : bool :=
  match a, b with [], [] => true | x :: a', y :: b' => String.eqb x y && strs_eqb_simple a' b' | _, _ => false end.

Definition check_out (st : state) (o : outcheck) : string :=
  match tensor_of_var st (o_var o) with
  | None => "NOTENSOR"
  | Some (ids, d) =>
      if negb (strs_eqb_simple ids (o_ids o)) then "RANKIDS:" ++ String.concat "," ids
      else
        let got := psort (map (fun kv => (nth_perm (o_perm o) (fst kv) VNone, snd kv)) d) in
        let exp := show_data (zdata_values (o_expected o)) in
        if String.eqb (show_data got) exp then "OK" else "DIFF got[" ++ show_data got ++ "] exp[" ++ exp ++ "]"
  end.

(* C07: an input variable still holds a tensor with the same rank ids and data *)
Definition check_input (st : state) (i : input) : string :=
  match tensor_of_var st (i_var i) with
  | None => "NOTENSOR"
  | Some (ids, d) =>
      if negb (strs_eqb_simple ids (i_ids i)) then "RANKIDS:" ++ String.concat "," ids
      else if String.eqb (show_data d) (show_data (psort (zdata_values (filter (fun kv => negb (Z.eqb (snd kv) 0)) (i_data i))))) then "OK"
      else "DATA"
  end.

(* C07: a variable spelled <Name>_<Ranks>[_flat] holds a tensor whose rank ids spell <Ranks> *)
Definition check_name (st : state) (xs : positive * string) : string :=
  match PM.find (fst xs) (env st) with
  | None => "OK"                      (* never bound on this run *)
  | Some tv =>
      match get_tensor st tv with
      | Some (ids, _, _) => if String.eqb (String.concat "" ids) (snd xs) then "OK" else "LIE:" ++ String.concat "," ids
      | None => "NOTTENSOR"
      end
  end.

Definition count_log (st : state) (name : string) : nat :=
  length (filter (fun ev => String.eqb (fst ev) name) (log st)).

Definition all_ok (l : list string) : string :=
  match filter (fun s => negb (String.eqb s "OK")) l with
  | [] => "OK"
  | bad => String.concat "/" bad
  end.

(* C16: what each canvas saw.  activities / executed updates ; every point has one coordinate per rank of
   the tensor handed to createCanvas ; all (space, time) stamps of one canvas distinct *)
Definition canvas_one (st : state) (cv : value) (tensors : list value) : nat * bool * bool :=
  let acts := filter (fun ev => String.eqb (fst ev) "canvas.addActivity" &&
                                match snd ev with c :: _ => veqb c cv | [] => false end) (log st) in
  let ranks := map (fun tv => match get_tensor st tv with Some (ids, _, _) => Some (length ids) | None => None end) tensors in
  let arity_ok :=
    forallb (fun ev =>
               let pts := removelast (tl (snd ev)) in
               Nat.eqb (length pts) (length ranks) &&
               forallb (fun pr => match pr with
                                  | (VTuple cs, Some n) => Nat.eqb (length cs) n
                                  | _ => false end) (combine pts ranks)) acts in
  let stamps := map (fun ev => last (snd ev) VNone) acts in
  let distinct :=
    (fix go (l : list value) : bool :=
       match l with [] => true | x :: l' => negb (existsb (veqb x) l') && go l' end) stamps in
  (length acts, arity_ok, distinct).

(* updates executed while a canvas is open (between a createCanvas and the next displayCanvas, chronologically): in a cascade
   only the Einsums that carry a spacetime report activities.  `evs` is chronological. *)
Fixpoint displayed_updates (evs : list (string * list value)) (open : bool) (acc : nat) : nat :=
  match evs with
  | [] => acc
  | (n, _) :: r =>
      if String.eqb n "createCanvas" then displayed_updates r true acc
      else if String.eqb n "displayCanvas" then displayed_updates r false acc
      else if String.eqb n "update" then displayed_updates r open (if open then S acc else acc)
      else displayed_updates r open acc
  end.

(* activities / all executed updates , arities ok , stamps distinct per canvas , updates executed under an open canvas , canvases *)
Definition canvas_report (st : state) : string :=
  let cvs := filter (fun ev => String.eqb (fst ev) "createCanvas") (log st) in
  let rs := map (fun ev => match snd ev with c :: ts => canvas_one st c ts | [] => (O, false, false) end) cvs in
  show_nat (fold_left (fun acc r => Nat.add acc (fst (fst r))) rs O) ++ "/" ++ show_nat (count_log st "update") ++ "," ++
  show_bool (forallb (fun r => snd (fst r)) rs) ++ "," ++ show_bool (forallb (fun r => snd r) rs) ++ "," ++
  show_nat (displayed_updates (rev (log st)) false O) ++ "," ++ show_nat (length cvs).

Record rcase := mkCase {
  c_prog : program;
  c_globals : list (positive * string);
  c_ints : list (positive * Z);
  c_inputs : list input;
  c_outs : list outcheck;
  c_names : list (positive * string) }.

Definition run_state (c : rcase) : res state :=
  exec_prog 400 (c_prog c) (init_state (c_globals c) (c_ints c) (c_inputs c)).

(* report:  <exec status> ; outputs ; inputs preserved ; names truthful *)
Definition report (c : rcase) : string :=
  match run_state c with
  | Er e => "ERR " ++ show_err e
  | Ok st =>
      "RAN;" ++ all_ok (map (check_out st) (c_outs c)) ++ ";" ++ all_ok (map (check_input st) (c_inputs c)) ++ ";" ++
      all_ok (map (check_name st) (c_names c)) ++ ";" ++ canvas_report st
  end.

(* expected outputs computed by the dense oracle *)
Definition expected_of (es : list einsum) (ins : tensors) (scalars : point) (name : string) : list (list Z * Z) :=
  tlookup name (denote_all es ins scalars).
