(* Model of the statement ordering of teaal/ir/flow_graph.py (FlowGraph.__sort / __hoist) and of the
   bracket consumption of teaal/trans/hifiber.py (HiFiber.__trans_nodes).
   Executable Gallina only; specifications and proofs are in Proofs/FlowOrderProofs.v.

   A flow graph is a list of edges over interned node identifiers (the harness interns repr(node) to
   positive).  An edge (a, b) reads "b depends on a": b must be emitted after a. *)
From Coq Require Import String List Bool PArith Arith.
Require Import TV.Model.Show.
Import ListNotations.
Open Scope list_scope.

Definition node := positive.
Definition graph := list (node * node).

Definition memb (x : node) (l : list node) : bool := existsb (Pos.eqb x) l.

Fixpoint nodupb (l : list node) : bool :=
  match l with
  | [] => true
  | x :: t => negb (memb x t) && nodupb t
  end.

(* a occurs before an occurrence of b *)
Fixpoint precb (l : list node) (a b : node) : bool :=
  match l with
  | [] => false
  | x :: t => if Pos.eqb x a then memb b t else precb t a b   (* lazy: the VM evaluates && eagerly *)
  end.

(* ---- "l is a topological order of g" (decision procedure) ---- *)
Definition topo_okb (g : graph) (l : list node) : bool :=
  nodupb l && forallb (fun e => precb l (fst e) (snd e)) g.

(* l lists exactly the nodes `ns` of the graph *)
Definition covers_okb (ns l : list node) : bool :=
  forallb (fun x => memb x l) ns && forallb (fun x => memb x ns) l.

(* ---- descendants, computed in ONE pass along a topological order ----
   D accumulates the root and every node already known to be reachable from it; because every
   predecessor of x occurs before x in a topological order, one pass decides every node. *)
Fixpoint desc_pass (g : graph) (l : list node) (D : list node) : list node :=
  match l with
  | [] => D
  | x :: t =>
      if existsb (fun e => if Pos.eqb (snd e) x then memb (fst e) D else false) g
      then desc_pass g t (x :: D)
      else desc_pass g t D
  end.

Definition desc_set (g : graph) (l : list node) (r : node) : list node := desc_pass g l [r].

(* nx.descendants(graph, r): reachable in one or more steps (r itself excluded) *)
Definition descb_in (D : list node) (r x : node) : bool := negb (Pos.eqb x r) && memb x D.
Definition descb (g : graph) (l : list node) (r x : node) : bool := descb_in (desc_set g l r) r x.

(* ---- FlowGraph.__hoist ---- *)
Fixpoint split_at (r : node) (l : list node) : option (list node * list node) :=
  match l with
  | [] => None
  | x :: t =>
      if Pos.eqb x r then Some ([], t)
      else match split_at r t with
           | Some (a, b) => Some (x :: a, b)
           | None => None
           end
  end.

(* one iteration of the `for rank in reversed(loop_order)` loop:
     loop = sorted.index(LoopNode(rank)); every node at an index in (loop, end) that is not a
     descendant of the loop node is moved, in order, in front of the loop node; end := new index of
     the loop node.  `endp` is Python's `end`.  (sorted.index raises when the loop node is absent;
     the model then leaves the list alone.) *)
Definition hoist_one (D : node -> bool) (r : node) (l : list node) (endp : nat) : list node * nat :=
  match split_at r l with
  | None => (l, endp)
  | Some (pre, rest) =>
      let k := endp - (length pre + 1) in
      let mid := firstn k rest in
      let post := skipn k rest in
      let up := filter (fun x => negb (D x)) mid in
      (pre ++ up ++ r :: filter D mid ++ post, length pre + length up)
  end.

(* `rloops` is the loop order REVERSED (innermost loop first); `l0` is the list the descendants are
   computed on (the graph does not change while hoisting, so the pre-hoist order serves every loop) *)
Fixpoint hoist_loops (g : graph) (l0 : list node) (rloops : list node) (l : list node) (endp : nat) : list node :=
  match rloops with
  | [] => l
  | r :: rs =>
      let D := desc_set g l0 r in   (* computed once per loop *)
      let '(l', e') := hoist_one (descb_in D r) r l endp in
      hoist_loops g l0 rs l' e'
  end.

Definition hoist (g : graph) (loops : list node) (l : list node) : list node :=
  hoist_loops g l (rev loops) l (length l).

(* ---- brackets: Loop r1 .. Loop rn, Body, EndLoop rn .. EndLoop r1 ---- *)
Definition chain (loops : list node) (body : node) (ends : list node) : list node :=
  loops ++ body :: rev ends.

Fixpoint nodes_eqb (a b : list node) : bool :=
  match a, b with
  | [], [] => true
  | x :: a', y :: b' => Pos.eqb x y && nodes_eqb a' b'
  | _, _ => false
  end.

(* the sub-sequence of loop openings, update and loop closings of l is exactly the chain
   (ends are given in loop order, like loops: ends[i] closes loops[i]) *)
Definition brackets_okb (loops : list node) (body : node) (ends : list node) (l : list node) : bool :=
  Nat.eqb (length loops) (length ends) &&
  nodes_eqb (filter (fun x => memb x (chain loops body ends)) l) (chain loops body ends).

(* ---- the specification of hoisting, evaluated on the code's own pre- and post-hoist lists ---- *)
Definition permb (a b : list node) : bool :=
  nodupb a && nodupb b && forallb (fun x => memb x b) a && forallb (fun x => memb x a) b.

(* every node that was below Loop r and ends above it does not depend on Loop r *)
Definition lifted_indepb (g : graph) (loops pre post : list node) : bool :=
  forallb (fun r => let D := desc_set g pre r in
     forallb (fun x => if (if precb pre r x then precb post x r else false) then negb (descb_in D r x) else true) pre) loops.

(* every pair whose relative order was inverted is justified by a loop: the node that went down the
   list is a loop node or depends on one, the node that went up does not depend on that loop.
   (stronger than the property; recorded, not part of the verdict) *)
Definition inversions_justifiedb (g : graph) (loops pre post : list node) : bool :=
  let sets := map (fun r => (r, desc_set g pre r)) loops in
  forallb (fun y => forallb (fun x =>
     if (if precb pre y x then precb post x y else false) then
       existsb (fun rD => let r := fst rD in let D := snd rD in
                (Pos.eqb y r || descb_in D r y) && negb (descb_in D r x) && negb (Pos.eqb x r)) sets
     else true) pre) pre.

Definition hoist_spec_okb (g : graph) (loops pre post : list node) : bool :=
  permb pre post && topo_okb g post && lifted_indepb g loops pre post.

(* ---- FlowGraph.__prune: pass-through nodes (fibers, ranks, tensors, StartLoop) are removed and every
   predecessor is connected to every successor ---- *)
Definition prune_node (g : graph) (n : node) : graph :=
  filter (fun e => negb (Pos.eqb (fst e) n) && negb (Pos.eqb (snd e) n)) g ++
  flat_map (fun ein => if Pos.eqb (snd ein) n then
              flat_map (fun eout => if Pos.eqb (fst eout) n then [(fst ein, snd eout)] else []) g
            else []) g.

Definition prune (g : graph) (ns : list node) : graph := fold_left prune_node ns g.

Definition same_setb (a b : list node) : bool :=
  forallb (fun x => memb x b) a && forallb (fun x => memb x a) b.

(* gu/lu: the graph before pruning with a topological order of it; gp/lp: after.  Every kept node
   reaches exactly the same kept nodes before and after: no dependence lost, none invented. *)
Definition prune_okb (gu : graph) (lu : list node) (gp : graph) (lp : list node) : bool :=
  forallb (fun x => memb x lu) lp &&
  forallb (fun a => same_setb (filter (fun x => memb x lp) (desc_set gu lu a)) (desc_set gp lp a)) lp.

Definition edges_subsetb (a b : graph) : bool :=
  forallb (fun e => existsb (fun f => Pos.eqb (fst e) (fst f) && Pos.eqb (snd e) (snd f)) b) a.
Definition same_edgesb (a b : graph) : bool := edges_subsetb a b && edges_subsetb b a.

(* ---- HiFiber.__trans_nodes: consumption of the brackets into a statement tree ----
   The Python function recurses at a LoopNode and returns at an EndLoopNode (whose rank it does not
   look at).  On a well-bracketed list this is the stack machine below; on an ill-bracketed list the
   Python code silently drops the tail / closes loops at the end of the list, the model answers None. *)
Inductive kind := KLoop | KEnd | KStmt.
Inductive tree := Leaf (n : node) | For (n : node) (body : list tree).

Fixpoint consume (cls : node -> kind) (l : list node) (stack : list (node * list tree)) (cur : list tree)
  : option (list tree) :=
  match l with
  | [] => match stack with [] => Some (rev cur) | _ :: _ => None end
  | x :: t =>
      match cls x with
      | KStmt => consume cls t stack (Leaf x :: cur)
      | KLoop => consume cls t ((x, cur) :: stack) []
      | KEnd => match stack with
                | [] => None
                | (m, outer) :: st => consume cls t st (For m (rev cur) :: outer)
                end
      end
  end.

Definition trans_nodes (cls : node -> kind) (l : list node) : option (list tree) := consume cls l [] [].

(* nesting depth of every element of the list: a loop opening sits at the depth of its `for`
   statement, its closing at the depth of the body it closes *)
Fixpoint depths (cls : node -> kind) (d : nat) (l : list node) : list nat :=
  match l with
  | [] => []
  | x :: t =>
      match cls x with
      | KStmt => d :: depths cls d t
      | KLoop => d :: depths cls (S d) t
      | KEnd => d :: depths cls (pred d) t
      end
  end.

Fixpoint balancedb (cls : node -> kind) (d : nat) (l : list node) : bool :=
  match l with
  | [] => Nat.eqb d 0
  | x :: t =>
      match cls x with
      | KStmt => balancedb cls d t
      | KLoop => balancedb cls (S d) t
      | KEnd => match d with O => false | S d' => balancedb cls d' t end
      end
  end.

Definition classify (loops ends : list node) (x : node) : kind :=
  if memb x loops then KLoop else if memb x ends then KEnd else KStmt.

(* ---- rendering for the harness ---- *)
Open Scope string_scope.
Definition show_nodes (l : list node) : string := String.concat "," (map (fun p => show_N (Npos p)) l).
Definition show_nats (l : list nat) : string := String.concat "," (map show_nat l).

(* first edge of g that is not respected by l *)
Definition first_bad_edge (g : graph) (l : list node) : string :=
  match filter (fun e => negb (precb l (fst e) (snd e))) g with
  | [] => "-"
  | (a, b) :: _ => show_N (Npos a) ++ ">" ++ show_N (Npos b)
  end.

(* first (loop, node) pair lifted above a loop it depends on *)
Definition first_bad_lift (g : graph) (loops pre post : list node) : string :=
  match flat_map (fun r => let D := desc_set g pre r in map (fun x => (r, x))
          (filter (fun x => if precb pre r x then if precb post x r then descb_in D r x else false else false) pre)) loops with
  | [] => "-"
  | (r, x) :: _ => show_N (Npos r) ++ ">" ++ show_N (Npos x)
  end.

(* the whole per-graph verdict as one flat string:
   covers(pre) topo(pre) perm topo(post) lifted-independent brackets balanced model-equal inversions-justified
   ; first bad edge of post ; first bad lift ; depths of post *)
Definition c10_report (ns : list node) (g : graph) (loops : list node) (body : node) (ends : list node)
  (pre post : list node) : string :=
  let cls := classify loops ends in
  show_bool (covers_okb ns pre) ++ show_bool (topo_okb g pre) ++ show_bool (permb pre post) ++
  show_bool (topo_okb g post) ++ show_bool (lifted_indepb g loops pre post) ++
  show_bool (brackets_okb loops body ends post) ++ show_bool (balancedb cls 0 post) ++
  show_bool (nodes_eqb (hoist g loops pre) post) ++ show_bool (inversions_justifiedb g loops pre post) ++
  ";" ++ first_bad_edge g post ++ ";" ++ first_bad_lift g loops pre post ++ ";" ++ show_nats (depths cls 0 post).

(* verdict on pruning: topo(unpruned order) reach-preserved model-equal *)
Definition c10_prune_report (gu : graph) (lu removed : list node) (gp : graph) (lp : list node) : string :=
  show_bool (topo_okb gu lu) ++ show_bool (prune_okb gu lu gp lp) ++ show_bool (same_edgesb (prune gu removed) gp).

(* ---- completeness of the graph w.r.t. name-level conflicts of the emitted statements ----
   groups: (a, [b1; b2; ..]) = statement a and later statements b_i touch a common name, at least one
   of the two writing it.  Each b_i must transitively depend on a in the graph. *)
Definition conflicts_okb (g : graph) (l : list node) (groups : list (node * list node)) : bool :=
  forallb (fun sp => let D := desc_set g l (fst sp) in forallb (fun b => descb_in D (fst sp) b) (snd sp)) groups.

Definition first_bad_conflict (g : graph) (l : list node) (groups : list (node * list node)) : string :=
  match flat_map (fun sp => let D := desc_set g l (fst sp) in
                   map (fun b => (fst sp, b)) (filter (fun b => negb (descb_in D (fst sp) b)) (snd sp))) groups with
  | [] => "-"
  | (a, b) :: _ => show_N (Npos a) ++ ">" ++ show_N (Npos b)
  end.

Definition c10_conflicts_report (g : graph) (l : list node) (groups : list (node * list node)) : string :=
  show_bool (topo_okb g l) ++ show_bool (conflicts_okb g l groups) ++ ";" ++ first_bad_conflict g l groups.
