(* Shared tokenizer of the five specification grammars of teaal/parse
   (equation.py, partitioning.py x2, spacetime.py, level.py).
   Executable Gallina only (no proofs here, see Proofs/LexProofs.v).

   Token set = the terminals of the Lark grammars:
     NAME   = common.CNAME        ("_"|LETTER) ("_"|LETTER|DIGIT)*   (ASCII letters only)
     NUMBER = the integer literals of common.NUMBER (DIGIT+).  The non-integer NUMBERs Lark admits
              ("4.5", "1e1", ".5") are outside the model: the code rejects them at int(), the model at the
              lexer/parser; the tie compares the two outcomes as "rejected".
     "take(" "nway_shape(" "uniform_shape(" "uniform_occupancy(" "flatten(" "follow("
            = literal terminals: an identifier IMMEDIATELY followed by "(" is one token [TKw]
     ".pos" ".coord" = literal terminals of the stamp grammar: "." immediately followed by a word [TDotW]
            (mode MDot only; in the other grammars "." is the separator of uniform_occupancy)
     "[0.." = literal terminal of the level grammar [TRange] (mode MRange only; elsewhere "[" is a bracket)
     single characters [ ] , + * - = ( ) .
   Whitespace = WS_INLINE = blanks and tabs, ignored between tokens, never inside one. *)
From Coq Require Import String Ascii List Bool Arith NArith.
Import ListNotations.
Open Scope string_scope.

Definition n_in (lo hi n : N) : bool := N.leb lo n && N.leb n hi.
Definition is_blank (c : ascii) : bool := let n := N_of_ascii c in N.eqb n 32 || N.eqb n 9.
Definition is_digit (c : ascii) : bool := n_in 48 57 (N_of_ascii c).
Definition is_alpha (c : ascii) : bool :=
  let n := N_of_ascii c in n_in 65 90 n || n_in 97 122 n || N.eqb n 95.
Definition is_alnum (c : ascii) : bool := is_alpha c || is_digit c.

Inductive sym := SLBrack | SRBrack | SComma | SPlus | SStar | SMinus | SEq | SLPar | SRPar | SDot.

Definition sym_char (s : sym) : ascii :=
  match s with
  | SLBrack => "["%char | SRBrack => "]"%char | SComma => ","%char | SPlus => "+"%char | SStar => "*"%char
  | SMinus => "-"%char | SEq => "="%char | SLPar => "("%char | SRPar => ")"%char | SDot => "."%char
  end.

Definition sym_of_char (c : ascii) : option sym :=
  let n := N_of_ascii c in
  if N.eqb n 91 then Some SLBrack else if N.eqb n 93 then Some SRBrack else if N.eqb n 44 then Some SComma
  else if N.eqb n 43 then Some SPlus else if N.eqb n 42 then Some SStar else if N.eqb n 45 then Some SMinus
  else if N.eqb n 61 then Some SEq else if N.eqb n 40 then Some SLPar else if N.eqb n 41 then Some SRPar
  else if N.eqb n 46 then Some SDot else None.

Definition sym_eqb (a b : sym) : bool :=
  match a, b with
  | SLBrack, SLBrack | SRBrack, SRBrack | SComma, SComma | SPlus, SPlus | SStar, SStar
  | SMinus, SMinus | SEq, SEq | SLPar, SLPar | SRPar, SRPar | SDot, SDot => true
  | _, _ => false
  end.

Inductive token :=
| TName (s : string)
| TNum (s : string)
| TKw (s : string)
| TDotW (s : string)
| TRange
| TSym (s : sym).

Definition tok_eqb (a b : token) : bool :=
  match a, b with
  | TName x, TName y | TNum x, TNum y | TKw x, TKw y | TDotW x, TDotW y => String.eqb x y
  | TRange, TRange => true
  | TSym x, TSym y => sym_eqb x y
  | _, _ => false
  end.

Inductive lmode := MPlain | MDot | MRange.

(* longest prefix of characters satisfying p, and the rest *)
Fixpoint span (p : ascii -> bool) (s : string) : string * string :=
  match s with
  | EmptyString => (EmptyString, EmptyString)
  | String c r => if p c then let (a, b) := span p r in (String c a, b) else (EmptyString, s)
  end.

Definition ocons {A : Type} (a : A) (o : option (list A)) : option (list A) :=
  match o with Some l => Some (a :: l) | None => None end.

Definition is_mdot (m : lmode) : bool := match m with MDot => true | _ => false end.
Definition is_mrange (m : lmode) : bool := match m with MRange => true | _ => false end.

(* fuel: one unit per token or blank; [lex] supplies S (length s), which is always enough
   (LexProofs.lex_print / lex_sound do not mention fuel). *)
Fixpoint lex_fuel (m : lmode) (n : nat) (s : string) : option (list token) :=
  match n with
  | O => None
  | S n' =>
    match s with
    | EmptyString => Some []
    | String c r =>
      if is_blank c then lex_fuel m n' r
      else if is_alpha c then
        let (w, r1) := span is_alnum r in
        match r1 with
        | String c1 r2 =>
            if Ascii.eqb c1 "("%char then ocons (TKw (String c w)) (lex_fuel m n' r2)
            else ocons (TName (String c w)) (lex_fuel m n' r1)
        | EmptyString => ocons (TName (String c w)) (lex_fuel m n' r1)
        end
      else if is_digit c then
        let (w, r1) := span is_digit r in ocons (TNum (String c w)) (lex_fuel m n' r1)
      else
        match sym_of_char c with
        | None => None
        | Some SDot =>
            if is_mdot m then let (w, r1) := span is_alnum r in ocons (TDotW w) (lex_fuel m n' r1)
            else ocons (TSym SDot) (lex_fuel m n' r)
        | Some SLBrack =>
            if is_mrange m then
              match r with
              | String a (String b (String d r3)) =>
                  if Ascii.eqb a "0"%char && Ascii.eqb b "."%char && Ascii.eqb d "."%char
                  then ocons TRange (lex_fuel m n' r3) else None
              | _ => None
              end
            else ocons (TSym SLBrack) (lex_fuel m n' r)
        | Some y => ocons (TSym y) (lex_fuel m n' r)
        end
    end
  end.

Definition lex (m : lmode) (s : string) : option (list token) := lex_fuel m (S (String.length s)) s.

(* the text of a token, and a token list written out with the given blank strings around the tokens *)
Definition text (t : token) : string :=
  match t with
  | TName s => s
  | TNum s => s
  | TKw s => s ++ "("
  | TDotW s => String "."%char s
  | TRange => "[0.."
  | TSym y => String (sym_char y) EmptyString
  end.

Fixpoint render (ts : list token) (ws : list string) : string :=
  match ts with
  | [] => hd EmptyString ws
  | t :: ts' => hd EmptyString ws ++ text t ++ render ts' (tl ws)
  end.

Fixpoint all_chars (p : ascii -> bool) (s : string) : bool :=
  match s with EmptyString => true | String c r => p c && all_chars p r end.

Definition blank (s : string) : bool := all_chars is_blank s.
Definition blanks (ws : list string) : bool := forallb blank ws.

(* CNAME *)
Definition is_ident (s : string) : bool :=
  match s with EmptyString => false | String c r => is_alpha c && all_chars is_alnum r end.
(* DIGIT+ *)
Definition is_digits (s : string) : bool :=
  match s with EmptyString => false | String c r => is_digit c && all_chars is_digit r end.

(* which tokens the lexer of mode m can produce *)
Definition tok_ok (m : lmode) (t : token) : bool :=
  match t with
  | TName s => is_ident s
  | TNum s => is_digits s
  | TKw s => is_ident s
  | TDotW s => is_mdot m && all_chars is_alnum s
  | TRange => is_mrange m
  | TSym SDot => negb (is_mdot m)
  | TSym SLBrack => negb (is_mrange m)
  | TSym _ => true
  end.

(* two tokens that may not be written without a blank between them (they would be read as one token,
   or as different ones).  No token list of the five grammars contains such a pair, so every gap may be empty. *)
Definition starts_word (t : token) : bool :=
  match t with TName _ | TNum _ | TKw _ => true | _ => false end.
Definition glue_bad (t1 t2 : token) : bool :=
  match t1 with
  | TName _ => starts_word t2 || tok_eqb t2 (TSym SLPar)
  | TNum _ | TDotW _ => starts_word t2
  | _ => false
  end.
Fixpoint sepfree (ts : list token) : bool :=
  match ts with
  | t1 :: ((t2 :: _) as r) => negb (glue_bad t1 t2) && sepfree r
  | _ => true
  end.

(* decimal value of a digit string (Python's int() on a DIGIT+ token, leading zeros allowed) *)
Definition digit_val (c : ascii) : N := (N_of_ascii c - 48)%N.
Fixpoint value_acc (acc : N) (s : string) : N :=
  match s with EmptyString => acc | String c r => value_acc (acc * 10 + digit_val c)%N r end.
Definition value (s : string) : N := value_acc 0%N s.

(* arbitrary byte strings for the harness *)
Fixpoint string_of_codes (l : list nat) : string :=
  match l with [] => EmptyString | n :: r => String (ascii_of_nat n) (string_of_codes r) end.
