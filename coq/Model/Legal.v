(* Model of the legality guards of teaal-compiler (property C18).
   Executable Gallina only (no proofs here, see Proofs/LegalProofs.v).

   A specification is abstracted to what the guards look at:
     - the declaration and the rank-order section (dictionaries, kept in YAML order),
     - per Einsum: the output access, the terms (each a list of tensor accesses whose index
       expressions are affine: lists of (coefficient, VARIABLE-upper-cased)), the partitioning
       dictionary of the Einsum's output (YAML order), the explicit loop order if any,
     - the bindings section: per Einsum entry, which list items carry a `config` key.

   The guards are written FROM THE CODE, in the order the code runs them:
     Bindings.__init__                      -> bind_guard
     Program.__init__ / Tensor.__init__     -> decl_guard
     Equation.__build_einsum_ranks / __build_tensors_trees(__get_tensor) / __build_active_tensors -> eq_guard
     Partitioning.__build_part_graph (__nway_after_dyn, __check_flatten, the static-split loop)    -> part_guard
     trans.Equation.make_iter_expr / __make_output_only_iter_expr                                  -> flow_guard
   Everything between the guards (graph construction, translation) is NOT modelled; where the code
   would fail with something that is not a ValueError the model answers Crash. *)
From Coq Require Import String List Bool ZArith Ascii.
Require Import TV.Model.Fusion.   (* strs_eqb, mem *)
Import ListNotations.
Open Scope string_scope.

(* ---------------------------------------------------------------- specification *)

Inductive directive :=
| DUShape                 (* uniform_shape(_)            *)
| DNway                   (* nway_shape(_)               *)
| DUOcc (leader : string) (* uniform_occupancy(leader._) *)
| DFlatten                (* flatten()                   *)
| DFollow (leader : string).

Record pentry := mkPE { pe_ranks : list string; pe_parts : list directive }.

Definition iexpr := list (Z * string).           (* 2*q + s  =  [(2,"Q"); (1,"S")] *)
Record access := mkAcc { a_name : string; a_idx : list iexpr }.

Record einsum := mkEin {
  e_out : access;
  e_terms : list (list access);                   (* tensor factors of each term *)
  e_parts : list pentry;                          (* mapping.partitioning[<output>] *)
  e_loop : option (list string) }.                (* mapping.loop-order[<output>] *)

Record spec := mkSpec {
  s_decl : list (string * list string);
  s_rorder : list (string * list string);
  s_einsums : list einsum;
  s_bind : option (list (string * list bool)) }.  (* per Einsum entry: item has a `config` key *)

Inductive err :=
| EDupRank | EDupRankOrder | EUndeclared | ERepeated | ETermRanks
| ENwayAfterDyn | EDirectiveOnTuple | EFlattenCombined | EFlattenLt2 | EFlattenIndexMath
| EFlattenPartitioned | EFlattenFlattened | EMultiplePart | EShapeAfterFlatten
| EProjectOutput | EOutputOnlyFlat | ENoConfig.

Inductive result := Ok | Err (e : err) | Crash.

(* ---------------------------------------------------------------- small helpers *)

Fixpoint nodupb (l : list string) : bool :=
  match l with
  | [] => true
  | x :: l' => negb (mem x l') && nodupb l'
  end.

Definition inclb (a b : list string) : bool := forallb (fun x => mem x b) a.
Definition set_eqb (a b : list string) : bool := inclb a b && inclb b a.

Fixpoint assoc {A} (k : string) (d : list (string * A)) : option A :=
  match d with
  | [] => None
  | (k', v) :: d' => if String.eqb k' k then Some v else assoc k d'
  end.

Definition is_static (d : directive) : bool := match d with DUShape | DNway => true | _ => false end.
Definition is_nway (d : directive) : bool := match d with DNway => true | _ => false end.
Definition is_flatten (d : directive) : bool := match d with DFlatten => true | _ => false end.
Definition is_occ (d : directive) : bool := match d with DUOcc _ => true | _ => false end.

(* ---------------------------------------------------------------- Bindings.__init__ *)

Definition bind_guard (s : spec) : result :=
  match s_bind s with
  | None => Ok
  | Some bs => if forallb (fun b => existsb (fun c => c) (snd b)) bs then Ok else Err ENoConfig
  end.

(* ---------------------------------------------------------------- Program.__init__ *)

Definition decl_ranks (s : spec) (t : string) : list string :=
  match assoc t (s_decl s) with Some rs => rs | None => [] end.

(* the ranks of self.tensors[t]: the rank-order entry when there is one *)
Definition eff_ranks (s : spec) (t : string) : list string :=
  match assoc t (s_rorder s) with Some rs => rs | None => decl_ranks s t end.

Definition decl_guard (s : spec) : result :=
  if forallb (fun d => nodupb (snd d)) (s_decl s) then
    if forallb (fun d => nodupb (eff_ranks s (fst d))) (s_decl s) then Ok else Err EDupRankOrder
  else Err EDupRank.

(* ---------------------------------------------------------------- ir.Equation.__init__ *)

Definition iexpr_vars (x : iexpr) : list string := map snd x.
Definition acc_vars (a : access) : list string := concat (map iexpr_vars (a_idx a)).
Definition term_vars (t : list access) : list string := concat (map acc_vars t).

(* es_tensors: the output, then every tensor of the right-hand side *)
Definition es_names (e : einsum) : list string := a_name (e_out e) :: map a_name (concat (e_terms e)).
Definition es_accesses (e : einsum) : list access := e_out e :: concat (e_terms e).

Definition eq_guard (s : spec) (e : einsum) : result :=
  match e_terms e with
  | [] => Crash                                    (* next(term_iter): the grammar has at least one term *)
  | t0 :: ts =>
      if forallb (fun t => set_eqb (term_vars t) (term_vars t0)) ts then
        if forallb (fun n => mem n (map fst (s_decl s))) (es_names e) then
          if nodupb (es_names e) then Ok else Err ERepeated
        else Err EUndeclared
      else Err ETermRanks
  end.

(* ---------------------------------------------------------------- CoordMath.add: which index variables
   take part in a non-trivial coordinate relation  (len(get_all_exprs(r)) > 1) *)

Definition coef_of (v : string) (x : iexpr) : Z :=
  fold_right (fun cv acc => if String.eqb (snd cv) v then (fst cv + acc)%Z else acc) 0%Z x.

(* net coefficient of v in  (x - D)  where D is the declared rank of the position *)
Definition net_coef (d : string) (x : iexpr) (v : string) : Z :=
  (coef_of v x - (if String.eqb d v then 1 else 0))%Z.

Definition rel_has (d : string) (x : iexpr) (v : string) : bool :=
  mem v (d :: iexpr_vars x) && negb (Z.eqb (net_coef d x v) 0).

Definition acc_rel_has (s : spec) (a : access) (v : string) : bool :=
  existsb (fun dx => rel_has (fst dx) (snd dx) v) (combine (decl_ranks s (a_name a)) (a_idx a)).

Definition imath (s : spec) (e : einsum) (v : string) : bool :=
  existsb (fun a => acc_rel_has s a v) (es_accesses e).

(* ---------------------------------------------------------------- Partitioning.__build_part_graph *)

Definition orig_ranks (s : spec) (e : einsum) : list string :=
  concat (map (eff_ranks s) (es_names e)).

(* the dictionary all_parts *)
Definition part_of (entries : list pentry) (key : list string) : option (list directive) :=
  match find (fun en => strs_eqb (pe_ranks en) key) entries with
  | Some en => Some (pe_parts en)
  | None => None
  end.

Definition partitioned_indep (entries : list pentry) (r : string) : bool :=
  match part_of entries [r] with Some (_ :: _) => true | _ => false end.

Fixpoint nway_after_dyn_aux (dyn : bool) (ps : list directive) : bool :=
  match ps with
  | [] => false
  | p :: ps' =>
      if is_static p then (if is_nway p && dyn then true else nway_after_dyn_aux dyn ps')
      else nway_after_dyn_aux true ps'
  end.
Definition nway_after_dyn (ps : list directive) : bool := nway_after_dyn_aux false ps.

(* rank[:-1] in orig_ranks and rank[-1] == "0" *)
Definition bottom_of_orig (orig : list string) (r : string) : bool :=
  existsb (fun x => String.eqb (x ++ "0") r) orig.

Fixpoint check_tuple_ranks (entries : list pentry) (orig all : list string) (T : list string) : result :=
  match T with
  | [] => Ok
  | r :: T' =>
      if partitioned_indep entries r then Err EFlattenPartitioned
      else if negb (mem r orig) then
        if mem r all then Err EFlattenFlattened
        else if negb (bottom_of_orig orig r) then Err EMultiplePart
        else check_tuple_ranks entries orig all T'
      else check_tuple_ranks entries orig all T'
  end.

Definition check_flatten (im : string -> bool) (entries : list pentry) (orig all : list string)
           (T : list string) (parts : list directive) : result :=
  if negb (existsb is_flatten parts) then
    if Nat.eqb (length T) 1 then Ok else Err EDirectiveOnTuple
  else if Nat.ltb 1 (length parts) then Err EFlattenCombined
  else if Nat.ltb (length T) 2 then Err EFlattenLt2
  else if existsb im T then Err EFlattenIndexMath
  else check_tuple_ranks entries orig all T.

(* the directive list the split loop runs over: a follower takes its leader's list *)
Definition eff_parts (entries : list pentry) (parts : list directive) : option (list directive) :=
  match parts with
  | DFollow l :: _ => part_of entries [l]          (* None: KeyError *)
  | _ => Some parts
  end.

(* one iteration of `for part_ranks, parts in all_parts.items()`: result and the new all_ranks *)
Definition part_step (im : string -> bool) (entries : list pentry) (orig : list string)
           (all : list string) (en : pentry) : result * list string :=
  match pe_parts en with
  | [] => (Ok, all)
  | _ =>
      if nway_after_dyn (pe_parts en) then (Err ENwayAfterDyn, all) else
      match check_flatten im entries orig all (pe_ranks en) (pe_parts en) with
      | Ok =>
          match pe_ranks en with
          | [] => (Crash, all)
          | [src] =>
              match eff_parts entries (pe_parts en) with
              | None => (Crash, all)
              | Some ps => if negb (mem src orig) && existsb is_static ps then (Err EShapeAfterFlatten, all)
                           else (Ok, all)
              end
          | T => (Ok, (all ++ [String.concat "" T])%list)
          end
      | r => (r, all)
      end
  end.

Fixpoint part_loop (im : string -> bool) (entries : list pentry) (orig : list string)
         (all : list string) (todo : list pentry) : result :=
  match todo with
  | [] => Ok
  | en :: rest =>
      match part_step im entries orig all en with
      | (Ok, all') => part_loop im entries orig all' rest
      | (r, _) => r
      end
  end.

Definition part_guard (s : spec) (e : einsum) : result :=
  let orig := orig_ranks s e in
  part_loop (imath s e) (e_parts e) orig orig (e_parts e).

(* ---------------------------------------------------------------- dataflow guards
   (make_iter_expr / __make_output_only_iter_expr).  The loop-nest construction between the
   partitioning and these two raises is not modelled: the conditions below are the situations in
   which the two raises are reached, stated on the specification. *)

(* a tensor holds rank r of a flatten tuple: r itself, or r = X0 with X one of its ranks *)
Definition holds (ranks : list string) (r : string) : bool :=
  mem r ranks || existsb (fun x => String.eqb (x ++ "0") r) ranks.
Definition holds_all (ranks T : list string) : bool := forallb (holds ranks) T.

Definition flat_entries (entries : list pentry) : list (list string) :=
  map pe_ranks (filter (fun en => existsb is_flatten (pe_parts en)) entries).

Definition in_loop (e : einsum) (r : string) : bool :=
  match e_loop e with Some l => mem r l | None => true end.

(* the flattened rank of tuple T is iterated, the output holds every rank of T, no input does *)
Definition output_only_flat (s : spec) (e : einsum) (T : list string) : bool :=
  in_loop e (String.concat "" T)
  && holds_all (eff_ranks s (a_name (e_out e))) T
  && forallb (fun a => negb (holds_all (eff_ranks s (a_name a)) T)) (concat (e_terms e)).

(* the name the innermost level of rank r has in the loop order *)
Definition innermost (entries : list pentry) (r : string) : string :=
  if partitioned_indep entries r then r ++ "0" else r.

(* an output rank that takes part in index math is absent from the explicit loop order:
   its coordinate would have to be projected from the ranks that are iterated *)
Definition projects_output (s : spec) (e : einsum) : bool :=
  match e_loop e with
  | None => false
  | Some l => existsb (fun q => imath s e q && negb (mem (innermost (e_parts e) q) l)) (acc_vars (e_out e))
  end.

Definition flow_guard (s : spec) (e : einsum) : result :=
  if existsb (output_only_flat s e) (flat_entries (e_parts e)) then Err EOutputOnlyFlat
  else if projects_output s e then Err EProjectOutput
  else Ok.

(* ---------------------------------------------------------------- the whole pipeline *)

Fixpoint first_nonok (l : list result) : result :=
  match l with
  | [] => Ok
  | Ok :: l' => first_nonok l'
  | r :: _ => r
  end.

Definition einsum_stages (s : spec) (e : einsum) : list result :=
  [eq_guard s e; part_guard s e; flow_guard s e].

Definition stages (s : spec) : list result :=
  bind_guard s :: decl_guard s :: flat_map (einsum_stages s) (s_einsums s).

(* Bindings.from_str, then HiFiber(...): Program.__init__, then per Einsum add_einsum + translation *)
Definition guard (s : spec) : result := first_nonok (stages s).

(* ---------------------------------------------------------------- the stated rules
   Decidable predicates written from the PROPERTY TEXT (not from the code): what it means for a
   specification to be an instance of each rule.  Their Prop readings are in Proofs/LegalProofs.v
   (lemmas *_iff); the harness evaluates these booleans in the kernel on every generated case. *)

Definition flatten_entry_b (en : pentry) : bool := existsb is_flatten (pe_parts en).
Definition flat_name (en : pentry) : string := String.concat "" (pe_ranks en).
Definition any_einsum (f : einsum -> bool) (s : spec) : bool := existsb f (s_einsums s).

(* duplicate rank in a declaration *)
Definition r_dup_rank (s : spec) : bool := existsb (fun d => negb (nodupb (snd d))) (s_decl s).
(* undeclared tensor in an Einsum *)
Definition r_undeclared (s : spec) : bool :=
  any_einsum (fun e => existsb (fun n => negb (mem n (map fst (s_decl s)))) (es_names e)) s.
(* repeated tensor in an Einsum *)
Definition r_repeated (s : spec) : bool := any_einsum (fun e => negb (nodupb (es_names e))) s.
(* terms ranging over different rank sets *)
Definition r_term_mismatch (s : spec) : bool :=
  any_einsum (fun e => existsb (fun t1 => existsb (fun t2 => negb (set_eqb (term_vars t1) (term_vars t2)))
                                                 (e_terms e)) (e_terms e)) s.
(* flatten() combined with other directives *)
Definition r_flatten_with_others (s : spec) : bool :=
  any_einsum (fun e => existsb (fun en => flatten_entry_b en && Nat.leb 2 (length (pe_parts en))) (e_parts e)) s.
(* flatten() on fewer than two ranks *)
Definition r_flatten_lt2 (s : spec) : bool :=
  any_einsum (fun e => existsb (fun en => flatten_entry_b en && Nat.ltb (length (pe_ranks en)) 2) (e_parts e)) s.
(* flatten() on index-math ranks *)
Definition r_flatten_index_math (s : spec) : bool :=
  any_einsum (fun e => existsb (fun en => flatten_entry_b en && existsb (imath s e) (pe_ranks en)) (e_parts e)) s.
(* flatten() on ranks also partitioned independently *)
Definition r_flatten_and_partitioned (s : spec) : bool :=
  any_einsum (fun e => existsb (fun en => flatten_entry_b en && existsb (partitioned_indep (e_parts e)) (pe_ranks en))
                               (e_parts e)) s.
(* a name that only flattening produces: not a rank of the Einsum's tensors, not the bottom level X0 of one *)
Definition derived_name (orig : list string) (r : string) : bool :=
  negb (mem r orig) && negb (bottom_of_orig orig r).
(* flatten() on already flattened ranks *)
Definition r_flatten_of_flattened (s : spec) : bool :=
  any_einsum (fun e => existsb (fun en1 => flatten_entry_b en1 && derived_name (orig_ranks s e) (flat_name en1) &&
                         existsb (fun en2 => flatten_entry_b en2 && mem (flat_name en1) (pe_ranks en2)) (e_parts e))
                               (e_parts e)) s.
(* an n-way split after an occupancy split *)
Fixpoint occ_then_nway (seen : bool) (ps : list directive) : bool :=
  match ps with
  | [] => false
  | p :: ps' => (is_nway p && seen) || occ_then_nway (seen || is_occ p) ps'
  end.
Definition r_nway_after_occupancy (s : spec) : bool :=
  any_einsum (fun e => existsb (fun en => occ_then_nway false (pe_parts en)) (e_parts e)) s.
(* a shape split after flattening (the directives that apply to the flattened rank: its own list, or its leader's) *)
Definition shape_split_applies (entries : list pentry) (en : pentry) : bool :=
  match eff_parts entries (pe_parts en) with Some ps => existsb is_static ps | None => false end.
Definition r_shape_after_flatten (s : spec) : bool :=
  any_einsum (fun e => existsb (fun en1 => flatten_entry_b en1 && negb (mem (flat_name en1) (orig_ranks s e)) &&
                         existsb (fun en2 => strs_eqb (pe_ranks en2) [flat_name en1] && shape_split_applies (e_parts e) en2)
                                 (e_parts e)) (e_parts e)) s.
(* a non-flatten directive on a rank tuple *)
Definition r_directive_on_tuple (s : spec) : bool :=
  any_einsum (fun e => existsb (fun en => negb (Nat.eqb (length (pe_ranks en)) 1) &&
                                          negb (Nat.eqb (length (pe_parts en)) 0) && negb (flatten_entry_b en)) (e_parts e)) s.
(* a loop order that projects into the output *)
Definition r_project_into_output (s : spec) : bool := any_einsum (projects_output s) s.
(* a loop order that iterates an output-only flattened rank *)
Definition r_output_only_flattened_loop (s : spec) : bool :=
  any_einsum (fun e => existsb (output_only_flat s e) (flat_entries (e_parts e))) s.
(* an Einsum without accelerator config in the bindings *)
Definition r_missing_config (s : spec) : bool :=
  match s_bind s with
  | Some bs => existsb (fun b => negb (existsb (fun c => c) (snd b))) bs
  | None => false
  end.

Definition rules : list (string * (spec -> bool)) :=
  [("dup_rank", r_dup_rank); ("undeclared_tensor", r_undeclared); ("repeated_tensor", r_repeated);
   ("term_rank_mismatch", r_term_mismatch); ("flatten_with_others", r_flatten_with_others);
   ("flatten_lt2", r_flatten_lt2); ("flatten_index_math", r_flatten_index_math);
   ("flatten_and_partitioned", r_flatten_and_partitioned); ("flatten_of_flattened", r_flatten_of_flattened);
   ("nway_after_occupancy", r_nway_after_occupancy); ("shape_after_flatten", r_shape_after_flatten);
   ("directive_on_tuple", r_directive_on_tuple); ("project_into_output", r_project_into_output);
   ("output_only_flattened_loop", r_output_only_flattened_loop); ("missing_config", r_missing_config)].

Definition violated (s : spec) : list string :=
  map fst (filter (fun nr => snd nr s) rules).

(* ---------------------------------------------------------------- rendering for the harness *)

Definition show_err (e : err) : string :=
  match e with
  | EDupRank => "dup_rank" | EDupRankOrder => "dup_rank_order" | EUndeclared => "undeclared_tensor"
  | ERepeated => "repeated_tensor" | ETermRanks => "term_rank_mismatch"
  | ENwayAfterDyn => "nway_after_occupancy" | EDirectiveOnTuple => "directive_on_tuple"
  | EFlattenCombined => "flatten_with_others" | EFlattenLt2 => "flatten_lt2"
  | EFlattenIndexMath => "flatten_index_math" | EFlattenPartitioned => "flatten_and_partitioned"
  | EFlattenFlattened => "flatten_of_flattened" | EMultiplePart => "multiple_partitionings"
  | EShapeAfterFlatten => "shape_after_flatten" | EProjectOutput => "project_into_output"
  | EOutputOnlyFlat => "output_only_flattened_loop" | ENoConfig => "missing_config"
  end.

Definition show_result (r : result) : string :=
  match r with Ok => "ok" | Err e => "err:" ++ show_err e | Crash => "crash" end.

(* one line per case: the stated rules the specification violates, and the verdict of the guard model *)
Definition verdict (s : spec) : string :=
  String.concat "," (violated s) ++ "#" ++ show_result (guard s).
