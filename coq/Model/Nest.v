(* Abstract loop-nest semantics for plain Einsums (C01): tensors in flight as tries, per-level
   union over terms of the intersection of the participating tensors, structural defaults for killed terms.
   Definitions only; the soundness induction is in Proofs/NestProofs.v. *)
From Coq Require Import ZArith List Bool Lia String.
Import ListNotations.
Open Scope Z_scope.

(* ---------- tries ---------- *)
Definition coord := Z.
Inductive trie := Leaf (v : Z) | Node (l : list (coord * trie)).

Fixpoint lookup (c : coord) (l : list (coord * trie)) : option trie :=
  match l with
  | [] => None
  | (c', t) :: l' => if Z.eqb c c' then Some t else lookup c l'
  end.

Definition keys (l : list (coord * trie)) : list coord := map fst l.

Definition rank := string.
Definition point := rank -> coord.
Definition upd (p : point) (r : rank) (c : coord) : point :=
  fun r' => if String.eqb r' r then c else p r'.

(* denotation of a trie whose remaining ranks are rs, at point p *)
Fixpoint den (rs : list rank) (t : trie) (p : point) : Z :=
  match rs, t with
  | [], Leaf v => v
  | r :: rs', Node l => match lookup (p r) l with Some t' => den rs' t' p | None => 0 end
  | _, _ => 0
  end.

(* ---------- nest state ---------- *)
(* one tensor in flight: remaining ranks and current sub-trie *)
Record tstate := { rem : list rank; cur : trie }.
(* a term is a list of tensors (product); an einsum body is a list of terms *)
Definition term := list tstate.

Definition participates (r : rank) (t : tstate) : bool :=
  match rem t with r' :: _ => String.eqb r' r | [] => false end.

Definition has_coord (c : coord) (t : tstate) : bool :=
  match cur t with Node l => match lookup c l with Some _ => true | None => false end | Leaf _ => false end.

Definition default_of (rs : list rank) : trie := match rs with [] => Leaf 0 | _ => Node [] end.

(* advance a participant at coordinate c (present) *)
Definition advance (c : coord) (t : tstate) : tstate :=
  match rem t, cur t with
  | _ :: rs', Node l => match lookup c l with
                        | Some t' => {| rem := rs'; cur := t' |}
                        | None => {| rem := rs'; cur := default_of rs' |} end
  | _ :: rs', Leaf _ => {| rem := rs'; cur := default_of rs' |}     (* ill-shaped: treated as absent *)
  | [], _ => t
  end.
Definition kill (t : tstate) : tstate :=
  match rem t with _ :: rs' => {| rem := rs'; cur := default_of rs' |} | [] => t end.

Definition term_alive (r : rank) (c : coord) (tm : term) : bool :=
  forallb (fun t => negb (participates r t) || has_coord c t) tm.

Definition step_term (r : rank) (c : coord) (tm : term) : term :=
  if term_alive r c tm
  then map (fun t => if participates r t then advance c t else t) tm
  else map (fun t => if participates r t then kill t else t) tm.

(* coordinates visited at level r: union over terms of (intersection over participants) ;
   we abstract the iteration set as any list [cs] with: NoDup, and c in cs <-> some term alive at c *)
Definition visited_ok (r : rank) (tms : list term) (cs : list coord) : Prop :=
  NoDup cs /\ forall c, In c cs <-> existsb (term_alive r c) tms = true.

Definition term_leaf (tm : term) : Z :=
  fold_right (fun t acc => match cur t with Leaf v => v * acc | Node _ => 0 end) 1 tm.

Definition term_den (tm : term) (p : point) : Z :=
  fold_right (fun t acc => den (rem t) (cur t) p * acc) 1 tm.

Definition body_den (tms : list term) (p : point) : Z :=
  fold_right (fun tm acc => term_den tm p + acc) 0 tms.

(* ---------- the key per-term invariant ---------- *)
(* ---------- the nest ---------- *)
Definition tkeys (t : tstate) : list coord := match cur t with Node l => keys l | Leaf _ => [] end.
Definition term_coords (r : rank) (tm : term) : list coord :=
  match filter (participates r) tm with
  | [] => []
  | t :: _ => filter (fun c => term_alive r c tm) (tkeys t)
  end.
Definition visited (r : rank) (tms : list term) : list coord :=
  nodup Z.eq_dec (flat_map (term_coords r) tms).

Definition contrib := (list (rank * coord) * Z)%type.

Fixpoint run (L : list rank) (tms : list term) : list contrib :=
  match L with
  | [] => [([], fold_right (fun tm acc => term_leaf tm + acc) 0 tms)]
  | r :: L' => flat_map (fun c => map (fun qv => ((r, c) :: fst qv, snd qv)) (run L' (map (step_term r c) tms)))
                        (visited r tms)
  end.

Definition matches (p : point) (q : list (rank * coord)) : bool :=
  forallb (fun rc => Z.eqb (p (fst rc)) (snd rc)) q.
Fixpoint sum_at (p : point) (cs : list contrib) : Z :=
  match cs with [] => 0 | qv :: cs' => if matches p (fst qv) then snd qv + sum_at p cs' else sum_at p cs' end.

Fixpoint wf (L : list rank) (tms : list term) : Prop :=
  match L with
  | [] => forall tm, In tm tms -> forall t, In t tm -> rem t = []
  | r :: L' => (forall tm, In tm tms -> exists t, In t tm /\ participates r t = true)
               /\ forall c, wf L' (map (step_term r c) tms)
  end.


(* ---------- the static side condition (rank structure only) ---------- *)
Definition shape := list (list (list rank)).            (* per term, per tensor: remaining ranks *)

Definition heads (r : rank) (rs : list rank) : bool := match rs with r' :: _ => String.eqb r' r | [] => false end.
Definition step_rems (r : rank) (tm : list (list rank)) : list (list rank) :=
  map (fun rs => if heads r rs then tl rs else rs) tm.

(* every term has a participant at every level, and at the bottom every tensor is exhausted *)
Fixpoint swf (L : list rank) (sh : shape) : bool :=
  match L with
  | [] => forallb (forallb (fun rs => match rs with [] => true | _ :: _ => false end)) sh
  | r :: L' => forallb (existsb (heads r)) sh && swf L' (map (step_rems r) sh)
  end.

(* what an emitted loop nest shows, level by level: the rank and, per term, which tensors (by position in
   the term) are co-iterated there *)
Definition level_view := (rank * list (list nat))%type.

Fixpoint positions (n : nat) (bs : list bool) : list nat :=
  match bs with [] => [] | b :: bs' => (if b then [n] else []) ++ positions (S n) bs' end.

Fixpoint expected_views (L : list rank) (sh : shape) : list level_view :=
  match L with
  | [] => []
  | r :: L' => (r, map (fun tm => positions 0 (map (heads r) tm)) sh) :: expected_views L' (map (step_rems r) sh)
  end.

Fixpoint nats_eqb (a b : list nat) : bool :=
  match a, b with [], [] => true | x :: a', y :: b' => Nat.eqb x y && nats_eqb a' b' | _, _ => false end.
Fixpoint natss_eqb (a b : list (list nat)) : bool :=
  match a, b with [], [] => true | x :: a', y :: b' => nats_eqb x y && natss_eqb a' b' | _, _ => false end.
Fixpoint views_eqb (a b : list level_view) : bool :=
  match a, b with
  | [], [] => true
  | (r, x) :: a', (r', y) :: b' => String.eqb r r' && natss_eqb x y && views_eqb a' b'
  | _, _ => false
  end.

(* the certified validator of C01: rank structure is well-formed AND the text co-iterates, at every level,
   exactly the tensors the proven nest semantics `run` co-iterates *)
Definition nest_okb (L : list rank) (sh : shape) (views : list level_view) : bool :=
  swf L sh && views_eqb (expected_views L sh) views.


(* ---------- the update statement and the output tensor ---------- *)
(* What the innermost statement of an emitted nest shows: whether it accumulates (`+=`) or assigns (`<<=`), and per
   term the operands (by position in the term; scalar factors are rank-0 operands) whose leaf values are multiplied. *)
Definition leaf_view := list (list nat).

Definition leaf_val (t : tstate) : Z := match cur t with Leaf v => v | Node _ => 0 end.
Definition dummy_t : tstate := {| rem := []; cur := Leaf 0 |}.
Definition leaf_term_eval (tm : term) (ps : list nat) : Z :=
  fold_right (fun i acc => leaf_val (nth i tm dummy_t) * acc) 1 ps.
Fixpoint leaf_eval (lv : leaf_view) (tms : list term) : Z :=
  match lv, tms with
  | ps :: lv', tm :: tms' => leaf_term_eval tm ps + leaf_eval lv' tms'
  | _, _ => 0
  end.

(* the nest as the text writes it: at the bottom the update expression the text shows *)
Fixpoint run_lv (lv : leaf_view) (L : list rank) (tms : list term) : list contrib :=
  match L with
  | [] => [([], leaf_eval lv tms)]
  | r :: L' => flat_map (fun c => map (fun qv => ((r, c) :: fst qv, snd qv)) (run_lv lv L' (map (step_term r c) tms)))
                        (visited r tms)
  end.

(* the text multiplies, in every term, every operand exactly once *)
Fixpoint leaf_okb (lv : leaf_view) (lens : list nat) : bool :=
  match lv, lens with
  | [], [] => true
  | ps :: lv', n :: lens' => nats_eqb ps (seq 0 n) && leaf_okb lv' lens'
  | _, _ => false
  end.

(* the output tensor: an output point fixes the coordinates of the output ranks only *)
Definition rmem (r : rank) (out : list rank) : bool := existsb (String.eqb r) out.
Definition matches_out (out : list rank) (o : point) (q : list (rank * coord)) : bool :=
  forallb (fun rc => negb (rmem (fst rc) out) || Z.eqb (o (fst rc)) (snd rc)) q.
(* `+=` : the output point holds the sum of every contribution written to it *)
Fixpoint out_sum_at (out : list rank) (o : point) (cs : list contrib) : Z :=
  match cs with [] => 0 | qv :: cs' => if matches_out out o (fst qv) then snd qv + out_sum_at out o cs' else out_sum_at out o cs' end.
(* `<<=` : the output point holds the last contribution written to it (0 when none) *)
Fixpoint out_assign_at (out : list rank) (o : point) (cs : list contrib) : Z :=
  match cs with
  | [] => 0
  | qv :: cs' => if matches_out out o (fst qv) && negb (existsb (fun qv' => matches_out out o (fst qv')) cs')
                 then snd qv else out_assign_at out o cs'
  end.
Definition nest_result (acc : bool) (out : list rank) (o : point) (cs : list contrib) : Z :=
  if acc then out_sum_at out o cs else out_assign_at out o cs.

(* an assignment is only allowed when no loop rank is reduced away *)
Definition op_okb (acc : bool) (L out : list rank) : bool := acc || forallb (fun r => rmem r out) L.

(* the full certified validator of one emitted sum-of-products program *)
Definition nest_full_okb (L : list rank) (sh : shape) (views : list level_view) (acc : bool) (lv : leaf_view) (out : list rank) : bool :=
  nest_okb L sh views && leaf_okb lv (map (@List.length _) sh) && op_okb acc L out.
