(* Model of how components consume the parsed Bindings (teaal/ir/hardware.py
   __build_component, teaal/ir/component.py BuffetComponent.__init__ / expand_eager):
   a store of binding dictionaries, the view a buffet derives from them (default style,
   root of eager bindings, per-rank expansion of eager bindings), and whether the view is
   built on the store's own dictionaries (sharing, the pinned tree) or on a copy. *)
From Coq Require Import String List Bool.
Import ListNotations.
Open Scope string_scope.

Definition bd := list (string * string).

Fixpoint bget (k : string) (b : bd) : option string :=
  match b with [] => None | (k', v) :: b' => if String.eqb k k' then Some v else bget k b' end.
Fixpoint bset (k v : string) (b : bd) : bd :=
  match b with
  | [] => [(k, v)]
  | (k', v') :: b' => if String.eqb k k' then (k, v) :: b' else (k', v') :: bset k v b'
  end.

Definition is_eager (b : bd) : bool := match bget "style" b with Some s => String.eqb s "eager" | None => false end.

(* BuffetComponent.__init__ *)
Definition buffet_default (b : bd) : bd :=
  let b1 := match bget "style" b with Some _ => b | None => bset "style" "lazy" b end in
  if is_eager b1 then match bget "rank" b1 with Some r => bset "root" r b1 | None => b1 end else b1.

Fixpoint drop_until (r : string) (ranks : list string) (types : list (list string)) : option (list string * list (list string)) :=
  match ranks, types with
  | r' :: ranks', t :: types' => if String.eqb r r' then Some (ranks, types) else drop_until r ranks' types'
  | _, _ => None
  end.

Definition strs_mem (x : string) (l : list string) : bool := existsb (String.eqb x) l.

(* expand_eager for one eager binding of format fmt *)
Definition expand_one (fmt : string) (ranks : list string) (types : list (list string)) (b : bd) : list bd :=
  if negb (is_eager b) then [] else
  match bget "format" b, bget "rank" b, bget "tensor" b, bget "evict-on" b, bget "type" b with
  | Some f, Some root, Some tensor, Some ev, Some ty =>
      if negb (String.eqb f fmt) then [] else
      match drop_until root ranks types with
      | Some (_ :: ranks', t0 :: types') =>
          let tmpl := [("tensor", tensor); ("evict-on", ev); ("style", "eager"); ("format", f); ("root", root)] in
          ((if String.eqb ty "coord" && strs_mem "payload" t0 then [(tmpl ++ [("rank", root); ("type", "payload")])%list] else []) ++
          flat_map (fun rt => map (fun ty' => (tmpl ++ [("rank", fst rt); ("type", ty')])%list) (snd rt)) (combine ranks' types'))%list
      | _ => []
      end
  | _, _, _, _, _ => []
  end.

Definition component_view (fmt : string) (ranks : list string) (types : list (list string)) (bs : list bd) : list bd :=
  let d := map buffet_default bs in
  (d ++ flat_map (expand_one fmt ranks types) d)%list.

Definition store := list (string * list bd).
Fixpoint slookup (n : string) (st : store) : list bd :=
  match st with [] => [] | (n', bs) :: st' => if String.eqb n n' then bs else slookup n st' end.
Fixpoint supdate (n : string) (bs : list bd) (st : store) : store :=
  match st with
  | [] => []
  | (n', bs') :: st' => if String.eqb n n' then (n', bs) :: st' else (n', bs') :: supdate n bs st'
  end.

(* build one component; `copy = false` is the pinned tree: the component works on the store's own dictionaries *)
Definition build (copy : bool) (fmt : string) (ranks : list string) (types : list (list string)) (st : store) (n : string)
  : list bd * store :=
  let v := component_view fmt ranks types (slookup n st) in
  (v, if copy then st else supdate n v st).

Definition show_bd (b : bd) : string := String.concat "," (map (fun kv => fst kv ++ "=" ++ snd kv) b).
Definition show_view (bs : list bd) : string := String.concat ";" (map show_bd bs).
