(* Shape partitioning in the loop-nest abstraction (C02): splitting rank r of a tensor with step s replaces r by two
   ranks (r1: the partition's first coordinate s*(c/s), r0: the original coordinate c).  Definitions only. *)
From Coq Require Import ZArith List Bool Lia String.
Require Import TV.Model.Nest.
Import ListNotations.
Open Scope Z_scope.

Definition bucket (s c : Z) : Z := s * (c / s).

(* splitUniform(s) of one fiber: one partition per bucket that holds an element, elements kept in order *)
Definition split_node (s : Z) (l : list (coord * trie)) : list (coord * trie) :=
  map (fun p => (p, Node (filter (fun ct => Z.eqb (bucket s (fst ct)) p) l)))
      (nodup Z.eq_dec (map (fun ct => bucket s (fst ct)) l)).

(* ... applied to every fiber at depth d *)
Fixpoint split_at (d : nat) (s : Z) (t : trie) {struct d} : trie :=
  match d, t with
  | O, Node l => Node (split_node s l)
  | S d', Node l => Node (map (fun ct => (fst ct, split_at d' s (snd ct))) l)
  | _, Leaf v => Leaf v
  end.

Fixpoint split_ranks (d : nat) (r1 r0 : rank) (rs : list rank) : list rank :=
  match d, rs with
  | O, _ :: rs' => r1 :: r0 :: rs'
  | S d', x :: rs' => x :: split_ranks d' r1 r0 rs'
  | _, [] => []
  end.

Fixpoint index_of (r : rank) (rs : list rank) : option nat :=
  match rs with
  | [] => None
  | x :: rs' => if String.eqb x r then Some O else option_map S (index_of r rs')
  end.

(* partition rank r of one tensor in flight (tensors not holding r are untouched) *)
Definition part_tstate (r r1 r0 : rank) (s : Z) (t : tstate) : tstate :=
  match index_of r (rem t) with
  | Some d => {| rem := split_ranks d r1 r0 (rem t); cur := split_at d s (cur t) |}
  | None => t
  end.
Definition part_terms (r r1 r0 : rank) (s : Z) (tms : list term) : list term := map (map (part_tstate r r1 r0 s)) tms.

(* a point of the partitioned iteration space is consistent when its upper coordinate is the bucket of its lower one;
   it then stands for the original point whose r-coordinate is the lower coordinate *)
Definition consistent (r1 r0 : rank) (s : Z) (p : point) : bool := Z.eqb (p r1) (bucket s (p r0)).
Definition collapse (r r0 : rank) (p : point) : point := upd p r (p r0).

Definition holds (r : rank) (t : tstate) : bool := match index_of r (rem t) with Some _ => true | None => false end.
