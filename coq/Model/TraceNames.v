(* C12 - model of the two derivations of trace names inside the compiler (executable, no proofs).

   Registration side: Collector.start / __build_trace_ranks / set_collecting driven by
   Metrics.get_collected_tensor_info (which walks the traffic paths of the format SELECTED for the loop
   nest) and by the sequencer / intersector bindings.
   Consumption side: Collector.__build_traffic / __get_trace (which walks ALL bindings of every buffer
   bound for the Einsum that pass the cbits/pbits filter), __build_sequencers, consume_traces.
   Both sides obtain labels from Metrics.get_fiber_trace, here the table [c_ftrace].

   The inputs ([cfg]) are read off the real Hardware / Metrics objects by tools/props/c12.py; the
   outputs ([registered], [dump_events], [feed_events]) are compared with the emitted text on every run. *)
From Coq Require Import String List Bool Arith PeanoNat Ascii.
Require Import TV.Model.XRef.
Import ListNotations.
Open Scope string_scope.
Open Scope list_scope.
Local Infix "^^" := String.append (at level 60, right associativity).

Inductive btype := Coord | Payload | Elem.

Record binding := mkB {
  b_tensor : string;
  b_rank : string;
  b_type : btype;
  b_format : string;
  b_root : option string;   (* Some root: eager binding (root rank of the eagerly loaded subtree) *)
  b_bits : bool             (* the format gives this (rank, type) a non-zero number of bits: __build_traffic keeps it *)
}.

Record buffer := mkBuf {
  buf_in_tree : bool;       (* the component belongs to the architecture tree of the Einsum's configuration *)
  buf_bindings : list binding   (* its bindings for the Einsum, eager ones expanded *)
}.

Record isect := mkI {
  i_lf : bool;              (* leader-follower *)
  i_leader : string;
  i_rank : string
}.

Record cfg := mkCfg {
  c_prefix : string;
  c_output : string;                                   (* name of the Einsum's output tensor *)
  c_inputs : list string;                              (* the other tensors of the equation, in order *)
  c_ftrace : list ((string * string * bool) * string); (* Metrics.get_fiber_trace(tensor, rank, is_read) *)
  c_loopfmt : list (string * string);                  (* Metrics.get_loop_formats(): tensor -> selected format *)
  c_fmt_ranks : list ((string * string) * list string);(* ranks described by format[tensor][fmt] *)
  c_buffers : list buffer;                             (* BufferComponents bound for the Einsum *)
  c_seqs : list (list string);                         (* ranks of each sequencer bound for the Einsum *)
  c_isects : list isect;                               (* intersector bindings *)
  c_final_ranks : list (string * list string)          (* tensor -> its ranks after all partitioning *)
}.

Definition eqb3 (a b : string * string * bool) : bool :=
  match a, b with (t, r, x), (t', r', x') => String.eqb t t' && String.eqb r r' && Bool.eqb x x' end.

Fixpoint assoc {A B : Type} (eqb : A -> A -> bool) (k : A) (l : list (A * B)) : option B :=
  match l with
  | [] => None
  | (k', v) :: r => if eqb k k' then Some v else assoc eqb k r
  end.

Definition ftrace (c : cfg) (t r : string) (rd : bool) : string :=
  match assoc eqb3 (t, r, rd) (c_ftrace c) with Some l => l | None => "?" end.

Definition is_out (c : cfg) (t : string) : bool := String.eqb t (c_output c).

(* lower-casing, as Python's str.lower() on ASCII *)
Definition lower_ascii (a : ascii) : ascii :=
  let n := nat_of_ascii a in if Nat.leb 65 n && Nat.leb n 90 then ascii_of_nat (n + 32) else a.
Fixpoint lower (s : string) : string :=
  match s with EmptyString => EmptyString | String a r => String (lower_ascii a) (lower r) end.

Definition eager_label (t root : string) (rd : bool) : string :=
  "eager_" ^^ lower t ^^ "_" ^^ lower root ^^ (if rd then "_read" else "_write").

(* the label both sides use for a binding *)
Definition label (c : cfg) (b : binding) (rd : bool) : string :=
  match b_root b with
  | Some root => eager_label (b_tensor b) root rd
  | None => ftrace c (b_tensor b) (b_rank b) rd
  end.

Definition is_payload (b : binding) : bool := match b_type b with Payload => true | _ => false end.

(* "fiber_trace != 'iter' and fiber_trace[:11] != 'get_payload'" *)
Definition filterable (l : string) : bool := negb (String.eqb l "iter") && negb (prefix "get_payload" l).

(* ---------------------------------------------------------------------------------------- *)
(* consumption: Collector.__get_trace                                                          *)
(* ---------------------------------------------------------------------------------------- *)

Definition payload_file (p r l : string) : string := p ^^ "-" ^^ r ^^ "-" ^^ l ^^ "_payload.csv".

Definition get_trace (c : cfg) (b : binding) (rd : bool) : string * list ev :=
  let p := c_prefix c in let r := b_rank b in
  match b_root b with
  | Some root => (fname p r (eager_label (b_tensor b) root rd), [])
  | None =>
      let l := ftrace c (b_tensor b) r rd in
      if is_payload b && filterable l
      then (payload_file p r l, [Filter (fname p r l) (fname p r "iter") (payload_file p r l)])
      else (fname p r l, [])
  end.

Definition directions (c : cfg) (b : binding) : list bool :=
  if is_out c (b_tensor b) then [true; false] else [true].

(* the traces dictionary: later entries with the same key (tensor, rank, type, direction) replace earlier ones *)
Definition tkey := (string * string * btype * bool)%type.
Definition btype_eqb (a b : btype) : bool :=
  match a, b with Coord, Coord | Payload, Payload | Elem, Elem => true | _, _ => false end.
Definition tkey_eqb (a b : tkey) : bool :=
  match a, b with (t, r, y, d), (t', r', y', d') => String.eqb t t' && String.eqb r r' && btype_eqb y y' && Bool.eqb d d' end.

Fixpoint dict_set (k : tkey) (v : string) (d : list (tkey * string)) : list (tkey * string) :=
  match d with
  | [] => [(k, v)]
  | (k', v') :: r => if tkey_eqb k k' then (k', v) :: r else (k', v') :: dict_set k v r
  end.

Definition active (bf : buffer) : list binding := filter b_bits (buf_bindings bf).

Definition buffer_dict (c : cfg) (bf : buffer) : list (tkey * string) :=
  fold_left (fun d b => fold_left (fun d rd => dict_set (b_tensor b, b_rank b, b_type b, rd) (fst (get_trace c b rd)) d) (directions c b) d)
            (active bf) [].

Definition buffer_events (c : cfg) (bf : buffer) : list ev :=
  flat_map (fun b => flat_map (fun rd => snd (get_trace c b rd)) (directions c b)) (active bf)
  ++ [Traffic (map snd (buffer_dict c bf))].

Definition seq_events (c : cfg) : list ev :=
  flat_map (fun rs => map (fun r => NumIters (fname (c_prefix c) r "iter")) rs) (c_seqs c).

(* what follows endCollect in the dump, as far as traces are concerned *)
Definition dump_events (c : cfg) : list ev := flat_map (buffer_events c) (c_buffers c) ++ seq_events c.

(* ---------------------------------------------------------------------------------------- *)
(* registration                                                                                *)
(* ---------------------------------------------------------------------------------------- *)

Definition str_in (s : string) (l : list string) : bool := existsb (String.eqb s) l.

Definition loopfmt (c : cfg) (t : string) : option string := assoc String.eqb t (c_loopfmt c).

Definition pair_eqb (a b : string * string) : bool := String.eqb (fst a) (fst b) && String.eqb (snd a) (snd b).
Definition fmt_ranks (c : cfg) (t f : string) : list string :=
  match assoc pair_eqb (t, f) (c_fmt_ranks c) with Some l => l | None => [] end.

(* the binding lies on a traffic path of the tensor: its format is the one selected for the loop nest *)
Definition on_path (c : cfg) (bf : buffer) (b : binding) : bool :=
  buf_in_tree bf
  && match loopfmt c (b_tensor b) with Some f => String.eqb f (b_format b) | None => false end
  && str_in (b_rank b) (fmt_ranks c (b_tensor b) (b_format b)).

(* registrations caused by one binding on a traffic path (get_collected_tensor_info + __build_trace_ranks) *)
Definition regs_of (c : cfg) (b : binding) : list (string * string) :=
  map (fun rd => (b_rank b, label c b rd)) (directions c b)
  ++ match b_root b with
     | Some _ => []
     | None => if is_payload b && filterable (ftrace c (b_tensor b) (b_rank b) true) then [(b_rank b, "iter")] else []
     end.

Definition final_ranks (c : cfg) (t : string) : list string :=
  match assoc String.eqb t (c_final_ranks c) with Some l => l | None => [] end.

(* tensors whose fiber at the intersector's rank is collected for it *)
Definition isect_tensors (c : cfg) (i : isect) : list string :=
  filter (fun t => (negb (i_lf i) || String.eqb (i_leader i) t) && str_in (i_rank i) (final_ranks c t)) (c_inputs c).

Definition registered (c : cfg) : list (string * string) :=
  flat_map (fun rs => map (fun r => (r, "iter")) rs) (c_seqs c)
  ++ flat_map (fun bf => flat_map (fun b => if on_path c bf b then regs_of c b else []) (buf_bindings bf)) (c_buffers c)
  ++ flat_map (fun i => map (fun t => (i_rank i, ftrace c t (i_rank i) true)) (isect_tensors c i)) (c_isects c).

(* what each intersector is fed: consume_traces / Metrics.coiter_traces *)
Definition isect_consumes (c : cfg) (i : isect) : list (string * string) :=
  if i_lf i then [(i_rank i, ftrace c (i_leader i) (i_rank i) true)]
  else map (fun t => (i_rank i, ftrace c t (i_rank i) true)) (isect_tensors c i).

Definition feed_events (c : cfg) : list ev :=
  flat_map (fun i => map (fun p => Consume (fst p) (snd p)) (isect_consumes c i)) (c_isects c).

(* ---------------------------------------------------------------------------------------- *)
(* the condition under which consumption is covered by registration                            *)
(* ---------------------------------------------------------------------------------------- *)

(* read and write labels of an output are both or neither filterable *)
Definition coherent (c : cfg) (b : binding) : bool :=
  match b_root b with
  | Some _ => true
  | None => Bool.eqb (filterable (ftrace c (b_tensor b) (b_rank b) true)) (filterable (ftrace c (b_tensor b) (b_rank b) false))
            || negb (is_out c (b_tensor b))
  end.

Definition hypb (c : cfg) : bool :=
  forallb (fun bf => forallb (fun b => on_path c bf b && coherent c b) (active bf)) (c_buffers c)
  && forallb (fun i => negb (i_lf i) || (str_in (i_leader i) (c_inputs c) && str_in (i_rank i) (final_ranks c (i_leader i)))) (c_isects c).

(* ---------------------------------------------------------------------------------------- *)
(* the proposed repair of F8: __build_traffic skips the bindings that are not on a traffic path *)
(* ---------------------------------------------------------------------------------------- *)

Definition sel_buffer (c : cfg) (bf : buffer) : buffer :=
  mkBuf (buf_in_tree bf) (filter (fun b => negb (b_bits b) || on_path c bf b) (buf_bindings bf)).

Definition sel_cfg (c : cfg) : cfg :=
  mkCfg (c_prefix c) (c_output c) (c_inputs c) (c_ftrace c) (c_loopfmt c) (c_fmt_ranks c)
        (map (sel_buffer c) (c_buffers c)) (c_seqs c) (c_isects c) (c_final_ranks c).

(* what remains of the hypothesis once the off-path bindings are skipped *)
Definition hyp_rest (c : cfg) : bool :=
  forallb (fun bf => forallb (fun b => negb (on_path c bf b) || coherent c b) (active bf)) (c_buffers c)
  && forallb (fun i => negb (i_lf i) || (str_in (i_leader i) (c_inputs c) && str_in (i_rank i) (final_ranks c (i_leader i)))) (c_isects c).

(* ---------------------------------------------------------------------------------------- *)
(* rendering for the comparison with the emitted text (sets, sorted by the harness)            *)
(* ---------------------------------------------------------------------------------------- *)

Definition show_pairs (l : list (string * string)) : string :=
  String.concat ";" (map (fun p => fst p ^^ "/" ^^ snd p) l).

Definition names_report1 (c : cfg) : string :=
  (if hypb c then "T" else "F") ^^ "#" ^^ show_pairs (registered c)
  ^^ "#" ^^ String.concat ";" (map (show_ev []) (dump_events c))
  ^^ "#" ^^ String.concat ";" (map (show_ev []) (feed_events c)).

(* the model as the compiler stands, then '@', then the model with the proposed repair of F8 *)
Definition names_report (c : cfg) : string := names_report1 c ^^ "@" ^^ names_report1 (sel_cfg c).
