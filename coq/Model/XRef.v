(* C12 - every trace the metrics dump consumes is produced during collection.

   Executable part (no proofs):
   * [events]: reading of an emitted program (Model/Py.v term produced by tools/py2coq.py together
     with its table of identifier spellings) as the flat sequence of metrics-API events the property
     talks about (observe_at of the property): Metrics.beginCollect / trace / consumeTrace /
     endCollect, <fiber>.trace, Traffic.filterTrace / buffetTraffic / cacheTraffic (with the `traces`
     dictionary it is handed), Compute.numIters, *Intersector(), addTraces, getNumIntersects, and the
     brackets of every `for`.  Unknown uses of the metrics API are read as [Bad] (fail closed).
   * [prog_ok]: the property on such a sequence, [prog_failures]: its decision procedure, which
     lists every failing item (Proofs/XRefProofs.v: prog_failures n l = [] <-> prog_ok n l). *)
From Coq Require Import String List Bool Arith PeanoNat Ascii PArith BinPos.
Require Import TV.Model.Py TV.Model.Show.
Import ListNotations.
Open Scope string_scope.
Open Scope list_scope.
Local Infix "^^" := String.append (at level 60, right associativity).

(* ------------------------------------------------------------------------------------------ *)
(* Events                                                                                      *)
(* ------------------------------------------------------------------------------------------ *)

Inductive ev :=
| Begin (prefix : string)            (* Metrics.beginCollect(prefix) *)
| End                                (* Metrics.endCollect() *)
| Reg (rank lab : string)            (* Metrics.trace(rank, type_=lab, ...) *)
| Emit (lab : string)                (* <fiber>.trace(lab, ...) *)
| Filter (inp flt out : string)      (* Traffic.filterTrace(inp, flt, out) *)
| Traffic (files : list string)      (* Traffic.buffetTraffic/cacheTraffic(_, _, traces, ...): the values of traces *)
| NumIters (f : string)              (* Compute.numIters(f) *)
| Consume (rank lab : string)        (* Metrics.consumeTrace(rank, lab) *)
| Create (x : positive)              (* x = <...>Intersector(...) *)
| Feed (x : positive)                (* x.addTraces(...) *)
| Query (x : positive)               (* x.getNumIntersects() *)
| LoopIn | LoopOut                   (* brackets of a `for` body *)
| Bad (why : string).                (* a use of the metrics API this reading does not understand *)

(* what an event needs to have been produced earlier *)
Inductive need :=
| NFile (f : string)                 (* a trace file, by name *)
| NLab (rank lab : string).          (* the trace of (rank, lab) of the open collection *)

Definition needs (e : ev) : list need :=
  match e with
  | Filter i f _ => [NFile i; NFile f]
  | Traffic fs => map NFile fs
  | NumIters f => [NFile f]
  | Consume r l => [NLab r l]
  | _ => []
  end.

Definition is_end (e : ev) : bool := match e with End => true | _ => false end.
Definition is_marker (e : ev) : bool := match e with LoopIn | LoopOut => true | _ => false end.
Definition is_loopin (e : ev) : bool := match e with LoopIn => true | _ => false end.

(* the file a registered trace is written to *)
Definition fname (prefix rank lab : string) : string := prefix ^^ "-" ^^ rank ^^ "-" ^^ lab ^^ ".csv".

(* labels of eagerly traced subtrees; they are only written by an emitted <fiber>.trace(lab) *)
Definition is_eager (lab : string) : bool := prefix "eager_" lab.

(* the part of a section (events after its Begin) that lies before the first End *)
Fixpoint window (l : list ev) : list ev :=
  match l with
  | [] => []
  | End :: _ => []
  | e :: r => e :: window r
  end.

(* what follows the first End *)
Fixpoint after_end (l : list ev) : option (list ev) :=
  match l with
  | [] => None
  | End :: r => Some r
  | _ :: r => after_end r
  end.

(* nesting depth after the events of l, starting at depth d; None when a loop is closed that was not opened *)
Fixpoint depth (l : list ev) (d : nat) : option nat :=
  match l with
  | [] => Some d
  | LoopIn :: r => depth r (S d)
  | LoopOut :: r => match d with O => None | S d' => depth r d' end
  | _ :: r => depth r d
  end.

(* ------------------------------------------------------------------------------------------ *)
(* The property on one section (= the events after one Begin up to the next Begin)             *)
(* ------------------------------------------------------------------------------------------ *)

(* (rank, lab) is registered in w - and, for an eager label, a fiber trace with that label is emitted in w *)
Definition reg_ok (w : list ev) (rank lab : string) : Prop :=
  In (Reg rank lab) w /\ (is_eager lab = true -> In (Emit lab) w).

(* q is produced by the events `a` of the section that precede its use *)
Definition produced (p : string) (a : list ev) (q : need) : Prop :=
  match q with
  | NLab r lab => reg_ok (window a) r lab
  | NFile f => (exists r lab, reg_ok (window a) r lab /\ f = fname p r lab)
               \/ (exists i fl, In (Filter i fl f) a)
  end.

(* x is created before any loop *)
Definition created (x : positive) (body : list ev) : Prop :=
  exists a b, body = a ++ Create x :: b /\ ~ In LoopIn a.

(* x is fed in w at the exit of a loop: the closest loop bracket before the feed closes a loop *)
Definition fed (x : positive) (w : list ev) : Prop :=
  exists a b c, w = a ++ LoopOut :: b ++ Feed x :: c /\ (forall e, In e b -> is_marker e = false).

(* intersectors created between the dump of the previous Einsum and this section's beginCollect: the
   Create events that end the preceding segment (nothing but creations after them) *)
Definition is_create (e : ev) : bool := match e with Create _ => true | _ => false end.
Fixpoint carry_rev (l : list ev) : list ev :=
  match l with
  | Create x :: r => Create x :: carry_rev r
  | _ => []
  end.
Definition carry (l : list ev) : list ev := rev (carry_rev (rev l)).

(* c = the creations carried over from the preceding segment *)
Definition sec_ok (p : string) (c body : list ev) : Prop :=
  (* closed exactly once, at nesting depth 0, after every loop *)
  (exists post, body = window body ++ End :: post /\ ~ In End post
                /\ (forall e, In e post -> is_marker e = false)
                /\ depth (window body) 0 = Some 0)
  (* every use of the metrics API was understood *)
  /\ (forall w, ~ In (Bad w) body)
  (* every trace handed to a model was produced earlier in the section *)
  /\ (forall a e b q, body = a ++ e :: b -> In q (needs e) -> produced p a q)
  (* every intersector queried was created before the loops and fed at a loop exit inside the window *)
  /\ (forall x, In (Query x) body -> created x (c ++ body) /\ fed x (window body)).

(* ------------------------------------------------------------------------------------------ *)
(* Sections                                                                                    *)
(* ------------------------------------------------------------------------------------------ *)

Fixpoint split_secs (l : list ev) : list ev * list (string * list ev) :=
  match l with
  | [] => ([], [])
  | Begin p :: r => let (b, ss) := split_secs r in ([], (p, b) :: ss)
  | e :: r => let (b, ss) := split_secs r in (e :: b, ss)
  end.

Fixpoint secs_ok (c : list ev) (secs : list (string * list ev)) : Prop :=
  match secs with
  | [] => True
  | s :: r => sec_ok (fst s) c (snd s) /\ secs_ok (carry (snd s)) r
  end.

(* n Einsums: nothing but intersector creations (no other event, no loop) before the first beginCollect,
   exactly n collections, each of them ok *)
Definition prog_ok (n : nat) (l : list ev) : Prop :=
  (forall e, In e (fst (split_secs l)) -> is_create e = true) /\ length (snd (split_secs l)) = n
  /\ secs_ok (carry (fst (split_secs l))) (snd (split_secs l)).

(* ------------------------------------------------------------------------------------------ *)
(* Decision procedure with diagnostics                                                         *)
(* ------------------------------------------------------------------------------------------ *)

Inductive failure :=
| FNoEnd | FEndTwice | FLoopAfterEnd | FEndNested
| FBad (why : string)
| FUnproduced (q : need)
| FNotCreated (x : positive) | FNotFed (x : positive)
| FPreamble | FCount (expected got : nat).

Definition has_reg (w : list ev) (r lab : string) : bool :=
  existsb (fun e => match e with Reg r' l' => String.eqb r' r && String.eqb l' lab | _ => false end) w.
Definition has_emit (w : list ev) (lab : string) : bool :=
  existsb (fun e => match e with Emit l' => String.eqb l' lab | _ => false end) w.
Definition reg_okb (w : list ev) (r lab : string) : bool :=
  has_reg w r lab && (negb (is_eager lab) || has_emit w lab).

Definition producedb (p : string) (a : list ev) (q : need) : bool :=
  match q with
  | NLab r lab => reg_okb (window a) r lab
  | NFile f =>
      existsb (fun e => match e with Reg r lab => reg_okb (window a) r lab && String.eqb f (fname p r lab) | _ => false end) (window a)
      || existsb (fun e => match e with Filter _ _ o => String.eqb o f | _ => false end) a
  end.

(* a = the events already seen (in order), rest = those still to come *)
Fixpoint prod_failures (p : string) (a rest : list ev) : list failure :=
  match rest with
  | [] => []
  | e :: r => map FUnproduced (filter (fun q => negb (producedb p a q)) (needs e)) ++ prod_failures p (a ++ [e]) r
  end.

Fixpoint createdb (x : positive) (body : list ev) : bool :=
  match body with
  | [] => false
  | LoopIn :: _ => false
  | Create y :: r => Pos.eqb y x || createdb x r
  | _ :: r => createdb x r
  end.

(* st = true when the closest bracket seen so far is a LoopOut *)
Fixpoint fedb (x : positive) (w : list ev) (st : bool) : bool :=
  match w with
  | [] => false
  | LoopOut :: r => fedb x r true
  | LoopIn :: r => fedb x r false
  | Feed y :: r => (st && Pos.eqb y x) || fedb x r st
  | _ :: r => fedb x r st
  end.

Definition queries (body : list ev) : list positive :=
  flat_map (fun e => match e with Query x => [x] | _ => [] end) body.
Definition bads (body : list ev) : list string :=
  flat_map (fun e => match e with Bad w => [w] | _ => [] end) body.

Definition window_failures (body : list ev) : list failure :=
  match after_end body with
  | None => [FNoEnd]
  | Some post =>
      (if existsb is_end post then [FEndTwice] else [])
      ++ (if existsb is_marker post then [FLoopAfterEnd] else [])
      ++ (match depth (window body) 0 with Some O => [] | _ => [FEndNested] end)
  end.

Definition isect_failures (c body : list ev) : list failure :=
  flat_map (fun x => (if createdb x (c ++ body) then [] else [FNotCreated x])
                     ++ (if fedb x (window body) false then [] else [FNotFed x])) (queries body).

Definition sec_failures (p : string) (c body : list ev) : list failure :=
  window_failures body ++ map FBad (bads body) ++ prod_failures p [] body ++ isect_failures c body.

Fixpoint secs_failures (c : list ev) (secs : list (string * list ev)) : list failure :=
  match secs with
  | [] => []
  | s :: r => sec_failures (fst s) c (snd s) ++ secs_failures (carry (snd s)) r
  end.

Definition prog_failures (n : nat) (l : list ev) : list failure :=
  (if forallb is_create (fst (split_secs l)) then [] else [FPreamble])
  ++ (if Nat.eqb (length (snd (split_secs l))) n then [] else [FCount n (length (snd (split_secs l)))])
  ++ secs_failures (carry (fst (split_secs l))) (snd (split_secs l)).

(* ------------------------------------------------------------------------------------------ *)
(* Reading an emitted program                                                                  *)
(* ------------------------------------------------------------------------------------------ *)

Definition suffixb (suf s : string) : bool :=
  let n := String.length s in let k := String.length suf in
  Nat.leb k n && String.eqb (substring (n - k) k s) suf.

Definition is_ctor (s : string) : bool := suffixb "Intersector" s.

Definition str_of (e : expr) : option string := match e with EStr s => Some s | _ => None end.

Fixpoint strs_of (l : list expr) : option (list string) :=
  match l with
  | [] => Some []
  | e :: r => match str_of e, strs_of r with Some s, Some t => Some (s :: t) | _, _ => None end
  end.

Fixpoint kwarg (k : string) (kw : list (string * expr)) : option expr :=
  match kw with
  | [] => None
  | (k', e) :: r => if String.eqb k k' then Some e else kwarg k r
  end.

(* variables currently holding a dictionary literal whose values are all string literals *)
Definition env := list (positive * option (list string)).
Fixpoint lookup (x : positive) (en : env) : option (list string) :=
  match en with
  | [] => None
  | (y, v) :: r => if Pos.eqb x y then v else lookup x r
  end.

Section Read.
  Variable names : list string.
  Definition nm (x : positive) : string := nth (pred (Pos.to_nat x)) names "".

  Definition traces_arg (en : env) (e : expr) : option (list string) :=
    match e with
    | EName x => lookup x en
    | EDict kv => strs_of (map snd kv)
    | _ => None
    end.

  (* a call o.m(args, kw) where o is a plain name *)
  Definition classify (en : env) (o : positive) (m : string) (args : list expr) (kw : list (string * expr)) : list ev :=
    let on := nm o in
    if String.eqb on "Metrics" then
      if String.eqb m "beginCollect" then
        match args, kw with [EStr p], [] => [Begin p] | _, _ => [Bad "Metrics.beginCollect: arguments"] end
      else if String.eqb m "endCollect" then
        match args, kw with [], [] => [End] | _, _ => [Bad "Metrics.endCollect: arguments"] end
      else if String.eqb m "trace" then
        match args, kwarg "type_" kw with
        | [EStr r], Some (EStr l) => [Reg r l]
        | _, _ => [Bad "Metrics.trace: arguments"]
        end
      else if String.eqb m "consumeTrace" then
        match args, kw with [EStr r; EStr l], [] => [Consume r l] | _, _ => [Bad "Metrics.consumeTrace: arguments"] end
      else if String.eqb m "registerRank" || String.eqb m "matchRanks" || String.eqb m "associateShape"
              || String.eqb m "getIter" || String.eqb m "dump" then []
      else [Bad ("Metrics." ^^ m ^^ ": unknown method")]
    else if String.eqb on "Traffic" then
      if String.eqb m "filterTrace" then
        match args, kw with [EStr a; EStr b; EStr c], [] => [Filter a b c] | _, _ => [Bad "Traffic.filterTrace: arguments"] end
      else if String.eqb m "buffetTraffic" || String.eqb m "cacheTraffic" then
        match args with
        | _ :: _ :: t :: _ => match traces_arg en t with Some fs => [Traffic fs] | None => [Bad ("Traffic." ^^ m ^^ ": traces argument is not a dictionary of string literals")] end
        | _ => [Bad ("Traffic." ^^ m ^^ ": arguments")]
        end
      else [Bad ("Traffic." ^^ m ^^ ": unknown method")]
    else if String.eqb on "Compute" then
      if String.eqb m "numIters" then
        match args, kw with [EStr f], [] => [NumIters f] | _, _ => [Bad "Compute.numIters: arguments"] end
      else if String.eqb m "numSwaps" then []
      else [Bad ("Compute." ^^ m ^^ ": unknown method")]
    else if String.eqb m "addTraces" then [Feed o]
    else if String.eqb m "getNumIntersects" then [Query o]
    else if String.eqb m "trace" then
      match args with EStr l :: _ => [Emit l] | _ => [Bad "<fiber>.trace: label is not a string literal"] end
    else [].

  Definition sensitive (m : string) : bool :=
    String.eqb m "addTraces" || String.eqb m "getNumIntersects" || String.eqb m "trace" || String.eqb m "consumeTrace"
    || String.eqb m "beginCollect" || String.eqb m "endCollect" || String.eqb m "filterTrace" || String.eqb m "numIters"
    || String.eqb m "buffetTraffic" || String.eqb m "cacheTraffic".

  (* events of an expression, in evaluation order (arguments before the call) *)
  Fixpoint ev_expr (en : env) (e : expr) : list ev :=
    match e with
    | EName x => if (String.eqb (nm x) "Metrics" || String.eqb (nm x) "Traffic" || String.eqb (nm x) "Compute")
                 then [Bad ("bare use of " ^^ nm x)] else []
    | EInt _ | EStr _ | EBool _ | ENone => []
    | EBin _ a b => ev_expr en a ++ ev_expr en b
    | ENeg a => ev_expr en a
    | ECmp _ a b => ev_expr en a ++ ev_expr en b
    | ECall f args kw =>
        let sub := flat_map (ev_expr en) args ++ flat_map (fun p => match p with (_, a) => ev_expr en a end) kw in
        match f with
        | EAttr (EName o) m => sub ++ classify en o m args kw
        | EAttr o m => ev_expr en o ++ sub ++ (if sensitive m then [Bad ("." ^^ m ^^ " on a compound object")] else [])
        | EName c => sub ++ (if is_ctor (nm c) then [Bad "intersector constructed outside a plain assignment"] else [])
        | _ => ev_expr en f ++ sub
        end
    | EAttr a m => ev_expr en a ++ (if sensitive m then [Bad ("." ^^ m ^^ " not called")] else [])
    | ESub a i => ev_expr en a ++ ev_expr en i
    | ETuple l => flat_map (ev_expr en) l
    | EList l => flat_map (ev_expr en) l
    | EDict kv => flat_map (fun p => match p with (k, v) => ev_expr en k ++ ev_expr en v end) kv
    | ELam _ b => ev_expr en b
    | EComp a _ b => ev_expr en b ++ ev_expr en a
    end.

  Definition ev_target (en : env) (t : target) : list ev :=
    match t with
    | TName _ => []
    | TSub a i => ev_expr en a ++ ev_expr en i
    end.

  Definition bind (en : env) (t : target) (e : expr) : env :=
    match t with
    | TName x => (x, match e with EDict kv => strs_of (map snd kv) | _ => None end) :: en
    | _ => en
    end.

  Fixpoint ev_stmt (en : env) (s : stmt) : env * list ev :=
    let blk := fix blk (en : env) (l : list stmt) : env * list ev :=
      match l with
      | [] => (en, [])
      | s :: t => let (e1, v1) := ev_stmt en s in let (e2, v2) := blk e1 t in (e2, v1 ++ v2)
      end in
    match s with
    | SAssign t e =>
        match t, e with
        | TName x, ECall (EName c) args kw =>
            if is_ctor (nm c)
            then (bind en t e, flat_map (ev_expr en) args ++ flat_map (fun p => match p with (_, a) => ev_expr en a end) kw ++ [Create x])
            else (bind en t e, ev_expr en e)
        | _, _ => (bind en t e, ev_target en t ++ ev_expr en e)
        end
    | SAug _ t e => (en, ev_target en t ++ ev_expr en e)
    | SExpr e => (en, ev_expr en e)
    | SFor _ e body => let (e1, v) := blk en body in (e1, ev_expr en e ++ LoopIn :: v ++ [LoopOut])
    | SIf c a b => let (e1, va) := blk en a in let (e2, vb) := blk e1 b in (e2, ev_expr en c ++ va ++ vb)
    end.

  Fixpoint ev_block (en : env) (l : list stmt) : env * list ev :=
    match l with
    | [] => (en, [])
    | s :: t => let (e1, v1) := ev_stmt en s in let (e2, v2) := ev_block e1 t in (e2, v1 ++ v2)
    end.

  Definition events (p : program) : list ev := snd (ev_block [] p).
End Read.

(* ------------------------------------------------------------------------------------------ *)
(* Rendering (one line, no newlines)                                                           *)
(* ------------------------------------------------------------------------------------------ *)

Definition show_need (q : need) : string :=
  match q with NFile f => "file " ^^ f | NLab r l => "trace " ^^ r ^^ "/" ^^ l end.

Definition show_failure (names : list string) (f : failure) : string :=
  match f with
  | FNoEnd => "no-endCollect"
  | FEndTwice => "endCollect-twice"
  | FLoopAfterEnd => "loop-outside-collection"
  | FEndNested => "endCollect-inside-loop"
  | FBad w => "unreadable: " ^^ w
  | FUnproduced q => "unproduced: " ^^ show_need q
  | FNotCreated x => "not-created-before-loops: " ^^ nm names x
  | FNotFed x => "not-fed-at-loop-exit: " ^^ nm names x
  | FPreamble => "events-before-first-beginCollect"
  | FCount a b => "collections: expected " ^^ show_nat a ^^ " got " ^^ show_nat b
  end.

Definition show_ev (names : list string) (e : ev) : string :=
  match e with
  | Begin p => "Begin " ^^ p
  | End => "End"
  | Reg r l => "Reg " ^^ r ^^ "/" ^^ l
  | Emit l => "Emit " ^^ l
  | Filter a b c => "Filter " ^^ a ^^ "," ^^ b ^^ "->" ^^ c
  | Traffic fs => "Traffic " ^^ String.concat "," fs
  | NumIters f => "NumIters " ^^ f
  | Consume r l => "Consume " ^^ r ^^ "/" ^^ l
  | Create x => "Create " ^^ nm names x
  | Feed x => "Feed " ^^ nm names x
  | Query x => "Query " ^^ nm names x
  | LoopIn => "{"
  | LoopOut => "}"
  | Bad w => "Bad " ^^ w
  end.

(* the report of one program: failures '|' separated, then '#', then the event sequence *)
Definition xref_report (names : list string) (n : nat) (p : program) : string :=
  let l := events names p in
  String.concat "|" (map (show_failure names) (prog_failures n l)) ^^ "#" ^^ String.concat ";" (map (show_ev names) l).
