(* Rendering of model values as flat strings for the correspondence harness. *)
From Coq Require Import String List ZArith Ascii Bool.
Import ListNotations.
Open Scope string_scope.

Definition show_bool (b : bool) : string := if b then "T" else "F".
Definition show_strs (sep : string) (l : list string) : string := String.concat sep l.
Definition show_blocks (bs : list (list string)) : string := String.concat "|" (map (String.concat ",") bs).

Fixpoint show_pos_aux (fuel : nat) (n : N) (acc : string) : string :=
  match fuel with
  | O => acc
  | S f =>
      let d := N.modulo n 10 in
      let acc' := String (ascii_of_N (48 + d)) acc in
      let q := N.div n 10 in
      if N.eqb q 0 then acc' else show_pos_aux f q acc'
  end.
Definition show_N (n : N) : string := show_pos_aux (S (N.to_nat (N.log2 n))) n "".
Definition show_Z (z : Z) : string :=
  match z with
  | Z0 => "0"
  | Zpos p => show_N (Npos p)
  | Zneg p => "-" ++ show_N (Npos p)
  end.
Definition show_nat (n : nat) : string := show_N (N.of_nat n).
