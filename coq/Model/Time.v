(* Model for property C14 - execution time is the bottleneck-per-block roll-up.
   Executable Gallina only (proofs: Proofs/TimeProofs.v).

   Part 1  the expression fragment of metrics["time"] and its evaluation in ANY structure (add, max, zero)
   Part 2  the specification of the roll-up (sum over blocks of max over active components of the
           component's time summed over the block's Einsums)
   Part 3  build_time: teaal/trans/collector.py Collector.__build_time, literally (insertion-ordered dict,
           sorted keys, and the reuse of the loop variable `comp` for single-component blocks)
   Part 4  a validator for an arbitrary time expression (accepts every re-association / commutation)
   Part 5  the architecture tree: level names NAME[0..N], instance counts, divisors
   Part 6  a small interpreter for the straight-line dump section (exact rationals Qc) and the
           independent roll-up computed from the specification. *)
From Coq Require Import String List Bool Ascii ZArith QArith Qcanon.
Require Import TV.Model.Fusion TV.Model.Show.
Import ListNotations.
Open Scope string_scope.
Open Scope list_scope.

(* ------------------------------------------------------------------------- *)
(* Part 1: expressions                                                        *)
(* ------------------------------------------------------------------------- *)

(* TLeaf e c  is  metrics[e][c]["time"];  Python's max(a, b, c) is read as TMax (TMax a b) c *)
Inductive texp :=
| TLeaf (e c : string)
| TZero
| TAdd (a b : texp)
| TMax (a b : texp).

Definition leaf := (string * string)%type.

Section Eval.
  Context {T : Type}.
  Variable add mx : T -> T -> T.
  Variable zero : T.
  Variable rho : string -> string -> T.

  Fixpoint eval (x : texp) : T :=
    match x with
    | TLeaf e c => rho e c
    | TZero => zero
    | TAdd a b => add (eval a) (eval b)
    | TMax a b => mx (eval a) (eval b)
    end.

  Definition sum_list (l : list T) : T := fold_right add zero l.
  Definition maxl (x : T) (xs : list T) : T := fold_left mx xs x.
  Definition rho_l (p : leaf) : T := rho (fst p) (snd p).
  Definition sum_leaves (l : list leaf) : T := sum_list (map rho_l l).

  (* ----------------------------------------------------------------------- *)
  (* Part 2: the specification                                                *)
  (* ----------------------------------------------------------------------- *)
  (* comps e = the components whose time the dump computes for Einsum e (registration order) *)
  Variable comps : string -> list string.

  Definition pairs_of (b : list string) : list leaf := flat_map (fun e => map (pair e) (comps e)) b.
  Definition of_comp (c : string) (l : list leaf) : list leaf := filter (fun p => String.eqb (snd p) c) l.
  Fixpoint nodup_s (l : list string) : list string :=
    match l with
    | [] => []
    | x :: l' => x :: filter (fun y => negb (String.eqb y x)) (nodup_s l')
    end.
  (* components active in the block, first registration first *)
  Definition active (b : list string) : list string := nodup_s (map snd (pairs_of b)).
  (* that component's time summed over the block's Einsums *)
  Definition ctime (b : list string) (c : string) : T := sum_leaves (of_comp c (pairs_of b)).
  (* maximum over the components active in the block (0 for a block without timed components) *)
  Definition block_time (b : list string) : T :=
    match active b with
    | [] => zero
    | c :: cs => maxl (ctime b c) (map (ctime b) cs)
    end.
  Definition rollup (blocks : list (list string)) : T := sum_list (map block_time blocks).
End Eval.

Fixpoint leaves (x : texp) : list leaf :=
  match x with
  | TLeaf e c => [(e, c)]
  | TZero => []
  | TAdd a b | TMax a b => leaves a ++ leaves b
  end.

(* every (Einsum, component) pair registered, block by block *)
Definition all_pairs (comps : string -> list string) (blocks : list (list string)) : list leaf :=
  flat_map (pairs_of comps) blocks.

(* ------------------------------------------------------------------------- *)
(* Part 3: Collector.__build_time                                             *)
(* ------------------------------------------------------------------------- *)

Definition dict := list (string * texp).

(* component_time[comp] = component_time[comp] + new  /  component_time[comp] = new  (insertion order kept) *)
Fixpoint dict_add (d : dict) (c : string) (t : texp) : dict :=
  match d with
  | [] => [(c, t)]
  | (k, v) :: d' => if String.eqb k c then (k, TAdd v t) :: d' else (k, v) :: dict_add d' c t
  end.

Fixpoint dict_get (d : dict) (c : string) : option texp :=
  match d with
  | [] => None
  | (k, v) :: d' => if String.eqb k c then Some v else dict_get d' c
  end.

(* state of the two nested loops: the dict and the loop variable `comp` (which outlives both loops) *)
Definition bstate := (dict * option string)%type.
Definition bstep (st : bstate) (p : leaf) : bstate :=
  (dict_add (fst st) (snd p) (TLeaf (fst p) (snd p)), Some (snd p)).

Fixpoint insert_s (x : string) (l : list string) : list string :=
  match l with
  | [] => [x]
  | y :: l' => if String.leb x y then x :: l else y :: insert_s x l'
  end.
Definition sort_s (l : list string) : list string := fold_right insert_s [] l.

Fixpoint get_all (d : dict) (ks : list string) : option (list texp) :=
  match ks with
  | [] => Some []
  | k :: ks' => match dict_get d k, get_all d ks' with
                | Some v, Some vs => Some (v :: vs)
                | _, _ => None
                end
  end.

(* None = the Python code raises (NameError / KeyError / AssertionError) *)
Definition block_expr (comps : string -> list string) (last : option string) (b : list string)
  : option texp * option string :=
  let st := fold_left bstep (pairs_of comps b) ([], last) in
  let d := fst st in
  let ks := sort_s (map fst d) in
  (match ks with
   | [] => Some TZero
   | [_] => match snd st with Some c => dict_get d c | None => None end
   | k :: ks' => match get_all d (k :: ks') with
                 | Some (v :: vs) => Some (fold_left TMax vs v)
                 | _ => None
                 end
   end, snd st).

Fixpoint build_time_from (comps : string -> list string) (time : option texp) (last : option string)
         (blocks : list (list string)) : option texp :=
  match blocks with
  | [] => time                                    (* assert time is not None *)
  | b :: bs =>
      match block_expr comps last b with
      | (Some bt, last') =>
          build_time_from comps (Some (match time with Some t => TAdd t bt | None => bt end)) last' bs
      | (None, _) => None
      end
  end.

Definition build_time (comps : string -> list string) (blocks : list (list string)) : option texp :=
  build_time_from comps None None blocks.

(* ------------------------------------------------------------------------- *)
(* Part 4: validator for an arbitrary expression                              *)
(* ------------------------------------------------------------------------- *)

Fixpoint summands (x : texp) : list texp :=
  match x with
  | TAdd a b => summands a ++ summands b
  | TZero => []
  | _ => [x]
  end.

Fixpoint maxargs (x : texp) : list texp :=
  match x with
  | TMax a b => maxargs a ++ maxargs b
  | _ => [x]
  end.

Fixpoint as_leaves (l : list texp) : option (list leaf) :=
  match l with
  | [] => Some []
  | TLeaf e c :: l' => option_map (cons (e, c)) (as_leaves l')
  | _ :: _ => None
  end.

Fixpoint map_opt {A B} (f : A -> option B) (l : list A) : option (list B) :=
  match l with
  | [] => Some []
  | a :: l' => match f a, map_opt f l' with
               | Some b, Some bs => Some (b :: bs)
               | _, _ => None
               end
  end.

(* loose leaves, and one group list per max(...) node *)
Definition shape := (list leaf * list (list (list leaf)))%type.

Fixpoint shape_of_summands (l : list texp) : option shape :=
  match l with
  | [] => Some ([], [])
  | s :: l' =>
      match shape_of_summands l' with
      | None => None
      | Some (lo, mg) =>
          match s with
          | TLeaf e c => Some ((e, c) :: lo, mg)
          | TMax _ _ => match map_opt (fun a => as_leaves (summands a)) (maxargs s) with
                        | Some gs => Some (lo, gs :: mg)
                        | None => None
                        end
          | _ => None
          end
      end
  end.

Definition shape_of (x : texp) : option shape := shape_of_summands (summands x).

Definition groups_of (comps : string -> list string) (b : list string) : list (list leaf) :=
  map (fun c => of_comp c (pairs_of comps b)) (active comps b).

Fixpoint spec_shape (comps : string -> list string) (blocks : list (list string)) : shape :=
  match blocks with
  | [] => ([], [])
  | b :: bs =>
      let '(lo, mg) := spec_shape comps bs in
      match groups_of comps b with
      | [] => (lo, mg)
      | [g] => (g ++ lo, mg)
      | gs => (lo, gs :: mg)
      end
  end.

Fixpoint remove1 {A} (eqb : A -> A -> bool) (a : A) (l : list A) : option (list A) :=
  match l with
  | [] => None
  | b :: l' => if eqb a b then Some l' else option_map (cons b) (remove1 eqb a l')
  end.

(* equality of multisets, elements compared by eqb *)
Fixpoint msetb {A} (eqb : A -> A -> bool) (l1 l2 : list A) : bool :=
  match l1 with
  | [] => match l2 with [] => true | _ => false end
  | a :: l1' => match remove1 eqb a l2 with
                | Some l2' => msetb eqb l1' l2'
                | None => false
                end
  end.

Definition leaf_eqb (p q : leaf) : bool := String.eqb (fst p) (fst q) && String.eqb (snd p) (snd q).

Definition shape_eqb (s1 s2 : shape) : bool :=
  msetb leaf_eqb (fst s1) (fst s2) && msetb (msetb (msetb leaf_eqb)) (snd s1) (snd s2).

(* x is, up to associativity and commutativity of + and max, the roll-up of `blocks` over `comps` *)
Definition time_okb (comps : string -> list string) (blocks : list (list string)) (x : texp) : bool :=
  match shape_of x with
  | Some s => shape_eqb s (spec_shape comps blocks)
  | None => false
  end.

Fixpoint nodup_leafb (l : list leaf) : bool :=
  match l with
  | [] => true
  | p :: l' => negb (existsb (leaf_eqb p) l') && nodup_leafb l'
  end.

(* ------------------------------------------------------------------------- *)
(* Part 5: architecture tree, level names, instance counts, divisors          *)
(* ------------------------------------------------------------------------- *)

Definition is_ws (a : ascii) : bool := (Ascii.eqb a " " || Ascii.eqb a (ascii_of_nat 9))%bool.
Definition is_digit (a : ascii) : bool := let n := nat_of_ascii a in (Nat.leb 48 n && Nat.leb n 57)%bool.
Definition is_alpha_ (a : ascii) : bool :=
  let n := nat_of_ascii a in
  ((Nat.leb 65 n && Nat.leb n 90) || (Nat.leb 97 n && Nat.leb n 122) || Nat.eqb n 95)%bool.

Fixpoint skip_ws (s : string) : string :=
  match s with
  | String a s' => if is_ws a then skip_ws s' else s
  | EmptyString => s
  end.

Fixpoint span (p : ascii -> bool) (s : string) : string * string :=
  match s with
  | String a s' => if p a then let '(x, r) := span p s' in (String a x, r) else (EmptyString, s)
  | EmptyString => (EmptyString, EmptyString)
  end.

Fixpoint digits_val (s : string) (acc : Z) : Z :=
  match s with
  | String a s' => digits_val s' (10 * acc + Z.of_nat (nat_of_ascii a - 48))%Z
  | EmptyString => acc
  end.

Fixpoint strip_prefix (p s : string) : option string :=
  match p with
  | EmptyString => Some s
  | String a p' => match s with
                   | String b s' => if Ascii.eqb a b then strip_prefix p' s' else None
                   | EmptyString => None
                   end
  end.

(* teaal/parse/level.py grammar + Architecture.__init__:  NAME -> (NAME, 1) ;  NAME[0..N] -> (NAME, N + 1).
   Blanks are allowed between tokens; `[0..` is one token. *)
Definition parse_level (s : string) : option (string * Z) :=
  let s0 := skip_ws s in
  match s0 with
  | String a _ =>
      if is_alpha_ a then
        let '(name, r) := span (fun c => is_alpha_ c || is_digit c)%bool s0 in
        let r1 := skip_ws r in
        match r1 with
        | EmptyString => Some (name, 1%Z)
        | _ => match strip_prefix "[0.." r1 with
               | Some r2 =>
                   let '(ds, r3) := span is_digit (skip_ws r2) in
                   match ds with
                   | EmptyString => None
                   | _ => match skip_ws r3 with
                          | String c r4 => if (Ascii.eqb c "]" && String.eqb (skip_ws r4) "")%bool
                                           then Some (name, (digits_val ds 0 + 1)%Z) else None
                          | EmptyString => None
                          end
                   end
               | None => None
               end
        end
      else None
  | EmptyString => None
  end.

(* a component declaration: name, class (lower case), bandwidth (0 when not a memory / unspecified) *)
Record cdecl := mkC { c_name : string; c_class : string; c_bw : Z }.
(* a level: raw name as written in the YAML, clock_frequency attribute (0 when absent), locals, subtrees *)
Inductive level := Level (raw : string) (freq : Z) (locals : list cdecl) (subs : list level).
Definition arch := list (string * level).

Definition is_memory (cls : string) : bool :=
  (String.eqb cls "dram" || String.eqb cls "cache" || String.eqb cls "buffet")%bool.

(* what Hardware.__build_component records: (name, (instances of its level, class, bandwidth)) in build
   order: the locals of a level first, then its subtrees, configuration after configuration *)
Definition cinfo := (Z * string * Z)%type.

Fixpoint built_level (lv : level) : list (string * cinfo) :=
  match lv with
  | Level raw _ locals subs =>
      let n := match parse_level raw with Some (_, n) => n | None => 0%Z end in
      map (fun c => (c_name c, (n, c_class c, c_bw c))) locals
      ++ flat_map built_level subs
  end.

Definition built (a : arch) : list (string * cinfo) := flat_map (fun cl => built_level (snd cl)) a.

Fixpoint lookup_last {B} (k : string) (l : list (string * B)) : option B :=
  match l with
  | [] => None
  | (k', v) :: l' => match lookup_last k l' with
                     | Some r => Some r
                     | None => if String.eqb k' k then Some v else None
                     end
  end.

Fixpoint lookup_first {B} (k : string) (l : list (string * B)) : option B :=
  match l with
  | [] => None
  | (k', v) :: l' => if String.eqb k' k then Some v else lookup_first k l'
  end.

(* the code: Hardware.components is ONE dictionary keyed by component name over all configurations *)
Definition code_cinfo (a : arch) (c : string) : option cinfo := lookup_last c (built a).
(* the property: "the component's instance count given by the architecture tree" of the Einsum's configuration *)
Definition spec_cinfo (a : arch) (cfg c : string) : option cinfo :=
  match lookup_first cfg a with
  | Some lv => lookup_last c (built_level lv)
  | None => None
  end.

Definition cfg_freq (a : arch) (cfg : string) : Z :=
  match lookup_first cfg a with Some (Level _ f _ _) => f | None => 0%Z end.

(* clock frequency (or bandwidth) times the instance count *)
Definition divisor_of (f : Z) (ci : cinfo) : Z :=
  let '(n, cls, bw) := ci in if is_memory cls then (bw * n)%Z else (f * n)%Z.

Definition spec_divisor (a : arch) (cfg c : string) : option Z :=
  option_map (divisor_of (cfg_freq a cfg)) (spec_cinfo a cfg c).
Definition code_divisor (a : arch) (cfg c : string) : option Z :=
  option_map (divisor_of (cfg_freq a cfg)) (code_cinfo a c).

Fixpoint count_decl (c : string) (l : list (string * cinfo)) : nat :=
  match l with
  | [] => O
  | (k, _) :: l' => (if String.eqb k c then 1 else 0) + count_decl c l'
  end.

(* ------------------------------------------------------------------------- *)
(* Part 6: the dump section, executed on stand-in counts                      *)
(* ------------------------------------------------------------------------- *)

(* stand-in runtime: every count the dump reads from the runtime is a number determined by a key
   (collection prefix + what is asked); the harness supplies distinct primes *)
Definition skey := list string.
Definition senv := list (skey * Z).

Fixpoint lookup_key (k : skey) (l : senv) : option Z :=
  match l with
  | [] => None
  | (k', v) :: l' => if strs_eqb k' k then Some v else lookup_key k l'
  end.

Inductive mexp :=
| MInt (z : Z)
| MGet (path : list string)                 (* metrics[k1][k2]... *)
| MStand (k : skey)                         (* a runtime count; the current collection prefix is prepended *)
| MTraffic (tensor rw : string)             (* traffic[0][tensor][rw] *)
| MAdd (a b : mexp)
| MDiv (a b : mexp)
| MMax (a b : mexp)
| MEmptyDict
| MOpaque.                                  (* a list / other literal stored under a key *)

Inductive dstmt :=
| DBegin (prefix : string)                                  (* Metrics.beginCollect(prefix) *)
| DReset                                                    (* metrics = {} *)
| DBindings (tensors : list string)                         (* bindings = [...] *)
| DTraffic (fn : string)                                    (* traffic = Traffic.<fn>(bindings, ...) *)
| DSet (path : list string) (e : mexp)                      (* metrics[path] = e *)
| DInc (path : list string) (e : mexp).                     (* metrics[path] += e *)

Inductive val := VNum (q : Qc) | VDict (d : list (string * val)) | VOpq.

Fixpoint find_key (k : string) (d : list (string * val)) : option val :=
  match d with
  | [] => None
  | (k', v') :: d' => if String.eqb k' k then Some v' else find_key k d'
  end.

Fixpoint vget (v : val) (path : list string) : option val :=
  match path with
  | [] => Some v
  | k :: path' =>
      match v with
      | VDict d => match find_key k d with Some v' => vget v' path' | None => None end
      | _ => None
      end
  end.

Fixpoint upd_key (k : string) (x : val) (d : list (string * val)) : list (string * val) :=
  match d with
  | [] => [(k, x)]
  | (k', v') :: d' => if String.eqb k' k then (k', x) :: d' else (k', v') :: upd_key k x d'
  end.

(* m[path] = x : every proper prefix must already be a dict (KeyError / TypeError otherwise) *)
Fixpoint vset (v : val) (path : list string) (x : val) : option val :=
  match path with
  | [] => Some x
  | k :: path' =>
      match v with
      | VDict d =>
          match path' with
          | [] => Some (VDict (upd_key k x d))
          | _ => match find_key k d with
                 | Some v' => match vset v' path' x with
                              | Some nv => Some (VDict (upd_key k nv d))
                              | None => None
                              end
                 | None => None
                 end
          end
      | _ => None
      end
  end.

Record dstate := mkD {
  d_metrics : option val;          (* None until `metrics = {}` *)
  d_prefix : string;               (* current collection *)
  d_ntraffic : nat;                (* traffic calls since beginCollect *)
  d_bindings : list string;        (* tensors of the `bindings` variable *)
  d_traffic : option (skey * list string) }.  (* key head of the `traffic` variable, tensors it holds *)

Definition dinit : dstate := mkD None "" 0 [] None.

Definition Qc_of_Z (z : Z) : Qc := Q2Qc (inject_Z z).
Definition Qcmax (a b : Qc) : Qc := if Qle_bool (this a) (this b) then b else a.

Inductive res (A : Type) := Ok (a : A) | Err (msg : string).
Arguments Ok {A}. Arguments Err {A}.

Definition show_key (k : skey) : string := String.concat "/" k.

Fixpoint meval (env : senv) (st : dstate) (e : mexp) : res val :=
  match e with
  | MInt z => Ok (VNum (Qc_of_Z z))
  | MGet path =>
      match d_metrics st with
      | Some m => match vget m path with Some v => Ok v | None => Err ("KeyError metrics/" ++ show_key path)%string end
      | None => Err "NameError metrics"
      end
  | MStand k =>
      match lookup_key (d_prefix st :: k) env with
      | Some z => Ok (VNum (Qc_of_Z z))
      | None => Err ("unexpected runtime count " ++ show_key (d_prefix st :: k))%string
      end
  | MTraffic t rw =>
      match d_traffic st with
      | Some (kh, ts) =>
          if mem t ts then
            match lookup_key (kh ++ [t; rw]) env with
            | Some z => Ok (VNum (Qc_of_Z z))
            | None => Err ("unexpected traffic count " ++ show_key (kh ++ [t; rw])%list)%string
            end
          else Err ("KeyError traffic/" ++ t)%string
      | None => Err "NameError traffic"
      end
  | MAdd a b =>
      match meval env st a, meval env st b with
      | Ok (VNum x), Ok (VNum y) => Ok (VNum (x + y)%Qc)
      | Err m, _ => Err m
      | _, Err m => Err m
      | _, _ => Err "TypeError +"
      end
  | MDiv a b =>
      match meval env st a, meval env st b with
      | Ok (VNum x), Ok (VNum y) => if Qc_eq_dec y 0%Qc then Err "ZeroDivisionError" else Ok (VNum (x / y)%Qc)
      | Err m, _ => Err m
      | _, Err m => Err m
      | _, _ => Err "TypeError /"
      end
  | MMax a b =>
      match meval env st a, meval env st b with
      | Ok (VNum x), Ok (VNum y) => Ok (VNum (Qcmax x y))
      | Err m, _ => Err m
      | _, Err m => Err m
      | _, _ => Err "TypeError max"
      end
  | MEmptyDict => Ok (VDict [])
  | MOpaque => Ok VOpq
  end.

Definition nat_key (n : nat) : string := String (ascii_of_nat (48 + n)) "".

Definition dstep (env : senv) (st : dstate) (s : dstmt) : res dstate :=
  match s with
  | DBegin p => Ok (mkD (d_metrics st) p 0 [] None)
  | DReset => Ok (mkD (Some (VDict [])) (d_prefix st) (d_ntraffic st) (d_bindings st) (d_traffic st))
  | DBindings ts => Ok (mkD (d_metrics st) (d_prefix st) (d_ntraffic st) ts (d_traffic st))
  | DTraffic fn =>
      Ok (mkD (d_metrics st) (d_prefix st) (S (d_ntraffic st)) (d_bindings st)
              (Some ([d_prefix st; fn; nat_key (d_ntraffic st)], d_bindings st)))
  | DSet path e =>
      match meval env st e with
      | Ok v => match d_metrics st with
                | Some m => match vset m path v with
                            | Some m' => Ok (mkD (Some m') (d_prefix st) (d_ntraffic st) (d_bindings st) (d_traffic st))
                            | None => Err ("KeyError/TypeError storing metrics/" ++ show_key path)%string
                            end
                | None => Err "NameError metrics"
                end
      | Err m => Err m
      end
  | DInc path e =>
      match meval env st (MAdd (MGet path) e) with
      | Ok v => match d_metrics st with
                | Some m => match vset m path v with
                            | Some m' => Ok (mkD (Some m') (d_prefix st) (d_ntraffic st) (d_bindings st) (d_traffic st))
                            | None => Err ("KeyError storing metrics/" ++ show_key path)%string
                            end
                | None => Err "NameError metrics"
                end
      | Err m => Err m
      end
  end.

Fixpoint drun (env : senv) (st : dstate) (p : list dstmt) : res dstate :=
  match p with
  | [] => Ok st
  | s :: p' => match dstep env st s with Ok st' => drun env st' p' | Err m => Err m end
  end.

(* the time expression as written: the right-hand side of the last  metrics["time"] = ...  *)
Fixpoint to_texp (e : mexp) : option texp :=
  match e with
  | MGet [e'; c; "time"] => Some (TLeaf e' c)
  | MInt 0 => Some TZero
  | MAdd a b => match to_texp a, to_texp b with Some x, Some y => Some (TAdd x y) | _, _ => None end
  | MMax a b => match to_texp a, to_texp b with Some x, Some y => Some (TMax x y) | _, _ => None end
  | _ => None
  end.

Fixpoint time_rhs (p : list dstmt) (acc : option mexp) : option mexp :=
  match p with
  | [] => acc
  | DSet ["time"] e :: p' => time_rhs p' (Some e)
  | _ :: p' => time_rhs p' acc
  end.

(* every  metrics[e][c]["time"] = X / k  of the dump: (e, c, X, k) in program order *)
Fixpoint time_assigns (p : list dstmt) : list (string * string * mexp * option Z) :=
  match p with
  | [] => []
  | DSet [e; c; "time"] MEmptyDict :: p' => time_assigns p'      (* the traffic entry of a tensor named "time" *)
  | DSet [e; c; "time"] rhs :: p' =>
      (e, c, match rhs with MDiv x _ => x | _ => rhs end,
       match rhs with MDiv _ (MInt k) => Some k | _ => None end) :: time_assigns p'
  | _ :: p' => time_assigns p'
  end.

(* ---- the independent roll-up from the specification ---- *)
(* per Einsum: name, configuration, collection prefix, and for every timed component the keys of the runtime
   counts that make up its operation / bit count (computed by the harness from the bindings alone) *)
Record espec := mkES {
  es_name : string;
  es_config : string;
  es_prefix : string;
  es_timed : list (string * list skey) }.

Definition count_of (env : senv) (ks : list skey) : option Z :=
  fold_right (fun k acc => match lookup_key k env, acc with Some z, Some a => Some (z + a)%Z | _, _ => None end)
             (Some 0%Z) ks.

Definition find_espec (es : list espec) (e : string) : option espec :=
  find (fun s => String.eqb (es_name s) e) es.

(* time of component c for Einsum e by the property: count / (frequency-or-bandwidth * instances) *)
Definition spec_ctime (divf : arch -> string -> string -> option Z) (a : arch) (env : senv) (es : list espec)
           (e c : string) : Qc :=
  match find_espec es e with
  | Some s =>
      match lookup_first c (es_timed s), divf a (es_config s) c with
      | Some ks, Some k =>
          match count_of env ks with
          | Some n => (Qc_of_Z n / Qc_of_Z k)%Qc
          | None => 0%Qc
          end
      | _, _ => 0%Qc
      end
  | None => 0%Qc
  end.

Definition spec_comps (es : list espec) (e : string) : list string :=
  match find_espec es e with Some s => map fst (es_timed s) | None => [] end.

Definition oracle_time (divf : arch -> string -> string -> option Z) (a : arch) (env : senv) (es : list espec)
           (blocks : list (list string)) : Qc :=
  rollup Qcplus Qcmax 0%Qc (spec_ctime divf a env es) (spec_comps es) blocks.

(* ------------------------------------------------------------------------- *)
(* Part 7: the per-program report evaluated by the kernel (tools/props/c14.py) *)
(* ------------------------------------------------------------------------- *)
Fixpoint texp_eqb (x y : texp) : bool :=
  match x, y with
  | TLeaf e c, TLeaf e' c' => String.eqb e e' && String.eqb c c'
  | TZero, TZero => true
  | TAdd a b, TAdd a' b' | TMax a b, TMax a' b' => texp_eqb a a' && texp_eqb b b'
  | _, _ => false
  end.

Definition show_Qc (q : Qc) : string := (show_Z (Qnum q) ++ "/" ++ show_Z (Zpos (Qden q)))%string.

(* an unknown runtime count is an opaque value: harmless unless it flows into a time *)
Definition lenient (r : res val) : res val :=
  match r with
  | Err m => if String.prefix "unexpected" m then Ok VOpq else Err m
  | ok => ok
  end.

Fixpoint meval_l (env : senv) (st : dstate) (e : mexp) : res val :=
  match e with
  | MAdd a b =>
      match meval_l env st a, meval_l env st b with
      | Ok (VNum x), Ok (VNum y) => Ok (VNum (x + y)%Qc)
      | Err m, _ => Err m
      | _, Err m => Err m
      | Ok VOpq, Ok (VNum _) | Ok (VNum _), Ok VOpq | Ok VOpq, Ok VOpq => Ok VOpq
      | _, _ => Err "TypeError +"
      end
  | MDiv a b =>
      match meval_l env st a, meval_l env st b with
      | Ok (VNum x), Ok (VNum y) => if Qc_eq_dec y 0%Qc then Err "ZeroDivisionError" else Ok (VNum (x / y)%Qc)
      | Err m, _ => Err m
      | _, Err m => Err m
      | Ok VOpq, Ok (VNum _) | Ok (VNum _), Ok VOpq | Ok VOpq, Ok VOpq => Ok VOpq
      | _, _ => Err "TypeError /"
      end
  | MMax a b =>
      match meval_l env st a, meval_l env st b with
      | Ok (VNum x), Ok (VNum y) => Ok (VNum (Qcmax x y))
      | Err m, _ => Err m
      | _, Err m => Err m
      | Ok VOpq, Ok (VNum _) | Ok (VNum _), Ok VOpq | Ok VOpq, Ok VOpq => Ok VOpq
      | _, _ => Err "TypeError max"
      end
  | _ => lenient (meval env st e)
  end.

Definition set_metrics (st : dstate) (m : val) : dstate :=
  mkD (Some m) (d_prefix st) (d_ntraffic st) (d_bindings st) (d_traffic st).

Definition dstep_l (env : senv) (st : dstate) (s : dstmt) : res dstate :=
  match s with
  | DSet path e =>
      match meval_l env st e with
      | Ok v => match d_metrics st with
                | Some m => match vset m path v with
                            | Some m' => Ok (set_metrics st m')
                            | None => Err ("KeyError/TypeError storing metrics/" ++ show_key path)%string
                            end
                | None => Err "NameError metrics"
                end
      | Err m => Err m
      end
  | DInc path e =>
      match meval_l env st (MAdd (MGet path) e) with
      | Ok v => match d_metrics st with
                | Some m => match vset m path v with
                            | Some m' => Ok (set_metrics st m')
                            | None => Err ("KeyError storing metrics/" ++ show_key path)%string
                            end
                | None => Err "NameError metrics"
                end
      | Err m => Err m
      end
  | _ => dstep env st s
  end.

Fixpoint drun_l (env : senv) (st : dstate) (p : list dstmt) : res dstate :=
  match p with
  | [] => Ok st
  | s :: p' => match dstep_l env st s with Ok st' => drun_l env st' p' | Err m => Err m end
  end.

(* the same run, also recording every component time when it is stored (the Einsum's dictionary may be
   overwritten later, e.g. by metrics["time"] itself for an Einsum named `time`) *)
Fixpoint drun_log (env : senv) (st : dstate) (p : list dstmt) (log : list (string * string * option Qc))
  : res (dstate * list (string * string * option Qc)) :=
  match p with
  | [] => Ok (st, rev log)
  | s :: p' =>
      match dstep_l env st s with
      | Ok st' =>
          let log' := match s with
                      | DSet [e; c; "time"] MEmptyDict => log
                      | DSet [e; c; "time"] _ =>
                          (e, c, match d_metrics st' with
                                 | Some m => match vget m [e; c; "time"] with Some (VNum q) => Some q | _ => None end
                                 | None => None
                                 end) :: log
                      | _ => log
                      end in
          drun_log env st' p' log'
      | Err m => Err m
      end
  end.

Definition final_num (st : dstate) (path : list string) : option Qc :=
  match d_metrics st with
  | Some m => match vget m path with Some (VNum q) => Some q | _ => None end
  | None => None
  end.

Definition text_comps (p : list dstmt) (e : string) : list string :=
  map (fun a => snd (fst (fst a))) (filter (fun a => String.eqb (fst (fst (fst a))) e) (time_assigns p)).

Definition opt_Z (o : option Z) : string := match o with Some z => show_Z z | None => "-" end.

(* env-independent part *)
Definition static_report (a : arch) (blocks : list (list string)) (es : list espec) (p : list dstmt) : string :=
  let comps := text_comps p in
  let tas := time_assigns p in
  let targets := map (fun t => (fst (fst (fst t)), snd (fst (fst t)))) tas in
  let ox := match time_rhs p None with Some m => to_texp m | None => None end in
  let names := map es_name es in
  String.concat "#"
    [ show_blocks blocks;
      match ox with Some x => show_bool (time_okb comps blocks x) | None => "-" end;
      match ox, build_time comps blocks with
      | Some x, Some y => show_bool (texp_eqb x y)
      | _, _ => "-"
      end;
      match ox with
      | Some x => show_bool (nodup_leafb (leaves x) && msetb leaf_eqb (leaves x) targets)
      | None => "-"
      end;
      show_bool (forallb (fun e => msetb String.eqb (comps e) (spec_comps es e)) names
                 && forallb (fun t => mem (fst t) names) targets);
      String.concat ";"
        (map (fun t =>
                let '(e, c, _, k) := t in
                let cfg := match find_espec es e with Some s => es_config s | None => "" end in
                String.concat "," [e; c; opt_Z k; opt_Z (spec_divisor a cfg c); opt_Z (code_divisor a cfg c)])
             tas) ]%string.

(* one execution of the dump on the stand-in counts `env` *)
Definition run_report (a : arch) (blocks : list (list string)) (es : list espec) (p : list dstmt) (env : senv) : string :=
  let exp_s := oracle_time spec_divisor a env es blocks in
  let exp_c := oracle_time code_divisor a env es blocks in
  match drun_log env dinit p [] with
  | Err m => ("ERR " ++ m ++ "@-@" ++ show_Qc exp_s ++ "@" ++ show_Qc exp_c ++ "@")%string
  | Ok (st, log) =>
      String.concat "@"
        [ "OK";
          match final_num st ["time"] with Some q => show_Qc q | None => "-" end;
          show_Qc exp_s; show_Qc exp_c;
          String.concat ";"
            (map (fun t =>
                    let '(e, c, oq) := t in
                    match oq with
                    | Some q => String.concat "," [e; c;
                                  show_bool (Qc_eq_bool q (spec_ctime spec_divisor a env es e c));
                                  show_bool (Qc_eq_bool q (spec_ctime code_divisor a env es e c))]
                    | None => String.concat "," [e; c; "-"; "-"]
                    end)
                 log) ]%string
  end.

Definition c14_report (a : arch) (blocks : list (list string)) (es : list espec) (p : list dstmt) (envs : list senv) : string :=
  (static_report a blocks es p ++ "#" ++ String.concat "|" (map (run_report a blocks es p) envs))%string.
