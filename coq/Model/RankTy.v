(* C07, data-independent half: a RANK-ID SEMANTICS of emitted programs and a static checker.

   (a) The abstract semantics (`sem`, all paths: a loop runs its body zero or more times, an
       `if` takes either branch - as Model/Closed.v does for names).  Values are abstracted to
       what C07's static half speaks about:
         - a tensor OBJECT is (location, rank ids, who allocated the object, whose data it holds);
         - fibers / payloads keep only the provenance of the tensor data they belong to, and the
           tuple structure loop patterns destructure;
         - everything else (numbers, strings, dicts, results of observation-only API calls) is
           one opaque value.
       Every statement form has its effect, written from Model/Interp.v / Model/Rt.v:
         Tensor(rank_ids=..)                          allocates (ids, Prog, Prog)
         X.swizzleRanks(rank_ids=..)                  allocates with those ids (must be a permutation)
         X.splitUniform/splitEqual/splitNonUniform    allocate, the rank at `depth` replaced by R.1, R.0
         X.flattenRanks/mergeRanks(depth, levels)     allocate, levels+1 ranks replaced by their concatenation
         X.unflattenRanks(depth, levels)              allocates, one rank replaced by levels+1 unnamed ranks
         Tensor.fromFiber(rank_ids=.., fiber=f)       allocates a NEW object over f's data (a view)
         X.setRankIds(rank_ids=..)                    MUTATES X's object in place (seen through every alias)
         a = b                                        aliases
         getRoot / getPayload / & / | / << / loops    do not change any tensor's rank ids
       An execution goes BAD when it renames a user-supplied tensor object in place, populates
       (`<<`, getPayloadRef, iterRangeShapeRef) or updates (`+=`, `<<=`) user-supplied data, or
       leaves the modelled subset (a tensor stored in a container, an unknown method, ...).
       Reading an unbound name ends the execution without an outcome (that is C06's subject).

   (b) The checker `chk` computes an abstract final state with the SAME transfer function
       (`step`) on straight-line code; at an `if` it joins, at a loop it looks for an invariant
       (`find_inv`: candidates come from the unverified heuristic `widen`, each candidate is
       CHECKED with `leb`).  In a checker state a variable is absent (definitely unbound), or
       (must-bound?, value) where the value may be ATop (differs between paths; reading it is
       rejected).  `rankty_ok` then decides the post-condition on the final state.

   Soundness (Proofs/RankTyProofs.v): rankty_ok = true -> no execution goes bad and every
   terminating execution ends in a state satisfying `post`.  Executable Gallina only here. *)
From Coq Require Import String List Bool PArith ZArith FMapPositive.
Require Import TV.Model.Show TV.Model.Py.
Import ListNotations.
Open Scope string_scope.

Module PM := PositiveMap.

(* ------------------------------------------------------------------ abstract values *)
Inductive prov := User | Prog.
Definition prov_eqb (a b : prov) : bool :=
  match a, b with User, User | Prog, Prog => true | _, _ => false end.

(* rank ids; who allocated the tensor object (only Prog objects may be renamed);
   whose data its fibers are (only Prog data may be populated / updated) *)
Record tobj := mkT { t_ids : list string; t_oprov : prov; t_dprov : prov }.

(* payload-like values: a fiber / payload cell of some tensor's data, tuples of them as the
   co-iteration operators build, everything else *)
Inductive pval :=
| PvFib (p : prov)
| PvTup (l : list pval)
| PvOther.

Inductive aval :=
| ATensor (c : positive)            (* reference to a tensor object *)
| AP (p : pval)
| AIt (pay : pval)                  (* fiber-like sequence of (coordinate, pay) *)
| AList (el : pval)                 (* Python list whose elements look like el (enumerate) *)
| AGlob (g : string)                (* an API name supplied by the environment *)
| ATop.                             (* checker only: differs between paths *)

(* what an expression evaluates to: tensor references are resolved to the object *)
Inductive rval :=
| RTensor (o : tobj)
| RP (p : pval)
| RIt (pay : pval)
| RList (el : pval)
| RGlob (g : string).

Inductive rres (A : Type) :=
| ROk (a : A)
| RBad (why : string)               (* C07's static discipline is violated / outside the modelled subset *)
| RUnbound (x : positive).          (* an unbound name is read: the concrete run raises NameError *)
Arguments ROk {A} a.
Arguments RBad {A} why.
Arguments RUnbound {A} x.

Definition rbind {A B} (r : rres A) (f : A -> rres B) : rres B :=
  match r with ROk a => f a | RBad w => RBad w | RUnbound x => RUnbound x end.
Notation "'dor' x <- r ; k" := (rbind r (fun x => k)) (at level 200, x name, r at level 100, k at level 200).

Fixpoint inert (p : pval) : bool :=
  match p with
  | PvOther => true
  | PvFib _ => false
  | PvTup l => forallb inert l
  end.
Definition rinert (r : rval) : bool := match r with RP p => inert p | _ => false end.

Fixpoint pval_eqb (a b : pval) {struct a} : bool :=
  match a, b with
  | PvFib p, PvFib q => prov_eqb p q
  | PvOther, PvOther => true
  | PvTup l, PvTup m =>
      (fix go (l m : list pval) : bool :=
         match l, m with
         | [], [] => true
         | x :: l', y :: m' => pval_eqb x y && go l' m'
         | _, _ => false
         end) l m
  | _, _ => false
  end.

Fixpoint strs_eqb (a b : list string) : bool :=
  match a, b with
  | [], [] => true
  | x :: a', y :: b' => String.eqb x y && strs_eqb a' b'
  | _, _ => false
  end.
Definition tobj_eqb (a b : tobj) : bool :=
  strs_eqb (t_ids a) (t_ids b) && prov_eqb (t_oprov a) (t_oprov b) && prov_eqb (t_dprov a) (t_dprov b).

(* ------------------------------------------------------------------ syntax helpers *)
Definition kw_find {A} (k : string) (kw : list (string * A)) : option A :=
  match find (fun p => String.eqb (fst p) k) kw with Some p => Some (snd p) | None => None end.

Definition lit_ids (e : expr) : option (list string) :=
  match e with
  | EList l =>
      (fix go (l : list expr) : option (list string) :=
         match l with
         | [] => Some []
         | EStr s :: l' => match go l' with Some r => Some (s :: r) | None => None end
         | _ :: _ => None
         end) l
  | _ => None
  end.

Definition lit_nat (d : nat) (o : option expr) : option nat :=
  match o with
  | None => Some d
  | Some (EInt z) => if (z <? 0)%Z then None else Some (Z.to_nat z)
  | Some _ => None
  end.

(* lambda bodies (project / prune): arithmetic on coordinates only *)
Fixpoint pure_expr (e : expr) : bool :=
  match e with
  | EName _ | EInt _ | EStr _ | EBool _ | ENone => true
  | EBin op a b => match op with BAnd | BOr | BShl => false | _ => pure_expr a && pure_expr b end
  | ENeg a => pure_expr a
  | ECmp _ a b => pure_expr a && pure_expr b
  | ETuple l => forallb pure_expr l
  | _ => false
  end.

Definition mem_str (s : string) (l : list string) : bool := existsb (String.eqb s) l.

(* ------------------------------------------------------------------ rank ids after a tensor operation
   (the naming of Model/Interp.v: tensor_method / tensor_op) *)
Definition splice {A} (l : list A) (d n : nat) (mid : list A) : list A := firstn d l ++ mid ++ skipn (d + n) l.

Definition ids_op (ids : list string) (d consumed : nat) (mid : list string -> list string) : rres (list string) :=
  if Nat.ltb (length ids) (d + consumed) then RBad "tensor operation: depth out of range"
  else ROk (splice ids d consumed (mid (firstn consumed (skipn d ids)))).

Definition split_mid (r : list string) : list string :=
  match r with [x] => [x ++ ".1"; x ++ ".0"] | _ => r end.

Definition alloc_methods : list string :=
  ["swizzleRanks"; "splitUniform"; "splitEqual"; "splitNonUniform"; "flattenRanks"; "mergeRanks"; "unflattenRanks"].

Definition ids_after (m : string) (kw : list (string * expr)) (ids : list string) : rres (list string) :=
  if String.eqb m "swizzleRanks" then
    match kw_find "rank_ids" kw with
    | Some e =>
        match lit_ids e with
        | Some ids' =>
            if Nat.eqb (length ids') (length ids) && forallb (fun r => mem_str r ids) ids' && forallb (fun r => mem_str r ids') ids
            then ROk ids' else RBad "swizzleRanks: not a permutation of the tensor's rank ids"
        | None => RBad "rank_ids is not a literal list of strings"
        end
    | None => RBad "swizzleRanks: rank_ids missing"
    end
  else if mem_str m ["splitUniform"; "splitEqual"; "splitNonUniform"] then
    match lit_nat 0 (kw_find "depth" kw) with
    | Some d => ids_op ids d 1 split_mid
    | None => RBad "depth is not a literal"
    end
  else if mem_str m ["flattenRanks"; "mergeRanks"] then
    match lit_nat 0 (kw_find "depth" kw), lit_nat 1 (kw_find "levels" kw), kw_find "coord_style" kw with
    | Some d, Some lv, Some (EStr cs) =>
        if mem_str cs ["tuple"; "absolute"] then ids_op ids d (S lv) (fun r => [String.concat "" r])
        else RBad "flatten/merge: coord_style"
    | _, _, _ => RBad "flatten/merge: depth/levels/coord_style is not a literal"
    end
  else if String.eqb m "unflattenRanks" then
    match lit_nat 0 (kw_find "depth" kw), lit_nat 1 (kw_find "levels" kw) with
    | Some d, Some lv => ids_op ids d 1 (fun r => match r with [x] => repeat (x ++ "?") (S lv) | _ => r end)
    | _, _ => RBad "unflattenRanks: depth/levels is not a literal"
    end
  else RBad "not an allocating tensor method".

(* ------------------------------------------------------------------ expressions (pure in the state) *)
Definition payload_of (r : rval) : rres pval :=
  match r with
  | RP (PvFib p) => ROk (PvFib p)
  | RIt pay => ROk pay
  | _ => RBad "co-iteration of something that is not a fiber"
  end.

Definition method_call (vr : rval) (m : string) (vs : list rval) (kvs : list (string * rval)) : rres rval :=
  match vr with
  | RTensor o =>
      if String.eqb m "getRoot" then ROk (RP (PvFib (t_dprov o)))
      else if String.eqb m "getRankIds" then ROk (RP PvOther)
      else RBad ("tensor method outside `x = T.m(..)` / `T.setRankIds(..)` statement position, or unknown: " ++ m)
  | RP (PvFib p) =>
      if String.eqb m "getPayload" then ROk (RP (PvFib p))
      else if String.eqb m "getPayloadRef" then
        match p with User => RBad "getPayloadRef creates payloads in a user-supplied tensor" | Prog => ROk (RP (PvFib Prog)) end
      else if String.eqb m "iterRangeShapeRef" then
        match p with User => RBad "iterRangeShapeRef creates payloads in a user-supplied tensor" | Prog => ROk (RIt (PvFib Prog)) end
      else if String.eqb m "project" || String.eqb m "prune" then ROk (RIt (PvFib p))
      else if String.eqb m "getCoords" || String.eqb m "trace" then ROk (RP PvOther)
      else RBad ("unknown fiber method " ++ m)
  | RIt pay =>
      if String.eqb m "project" || String.eqb m "prune" then ROk (RIt pay)
      else if String.eqb m "getCoords" then ROk (RP PvOther)
      else RBad ("unknown method of a co-iteration result: " ++ m)
  | RGlob g =>
      if String.eqb g "Tensor" && String.eqb m "fromFiber" then RBad "Tensor.fromFiber outside `x = Tensor.fromFiber(..)`"
      else if String.eqb g "Fiber" && String.eqb m "fromLazy" then
        match vs with
        | [v] => dor p <- payload_of v; ROk (RIt p)
        | _ => RBad "Fiber.fromLazy: arguments"
        end
      else if String.eqb g "Fiber" && String.eqb m "intersection" then
        (* n-ary intersection, right-nested payload tuples *)
        match vs with
        | [] => RBad "Fiber.intersection of nothing"
        | _ =>
            dor r <- fold_right (fun a acc =>
                                   dor acc' <- acc; dor pa <- payload_of a;
                                   ROk (match acc' with None => Some pa | Some pb => Some (PvTup [pa; pb]) end))
                                (ROk None) vs;
            match r with Some p => ROk (RIt p) | None => RBad "Fiber.intersection of nothing" end
        end
      else ROk (RP PvOther)                               (* observation-only API: Metrics.*, Traffic.*, Compute.* *)
  | RP PvOther =>
      if forallb rinert vs && forallb (fun kv => rinert (snd kv)) kvs then ROk (RP PvOther)
      else RBad ("a tensor / fiber is passed to a method of an untracked object: " ++ m)
  | _ => RBad ("method call on a tuple / list: " ++ m)
  end.

Definition global_call (g : string) (vs : list rval) (kvs : list (string * rval)) : rres rval :=
  if String.eqb g "enumerate" then
    match vs with
    | [RIt pay] => ROk (RList (PvTup [PvOther; PvTup [PvOther; pay]]))
    | [RP (PvFib p)] => ROk (RList (PvTup [PvOther; PvTup [PvOther; PvFib p]]))
    | [RList el] => ROk (RList (PvTup [PvOther; el]))
    | [RP PvOther] => ROk (RP PvOther)
    | _ => RBad "enumerate: argument"
    end
  else if String.eqb g "min" || String.eqb g "max" then
    if forallb rinert vs then ROk (RP PvOther) else RBad "min/max of payloads"
  else ROk (RP PvOther).                                  (* len, int, set, range, createCanvas, Format, ... *)

Fixpoint aeval (rho : positive -> rres rval) (e : expr) {struct e} : rres rval :=
  let evals :=
    fix go (l : list expr) : rres (list rval) :=
      match l with
      | [] => ROk []
      | e :: l' => dor v <- aeval rho e; dor vs <- go l'; ROk (v :: vs)
      end in
  let evalkw :=
    fix go (l : list (string * expr)) : rres (list (string * rval)) :=
      match l with
      | [] => ROk []
      | (k, e) :: l' => dor v <- aeval rho e; dor vs <- go l'; ROk ((k, v) :: vs)
      end in
  match e with
  | EName x => rho x
  | EInt _ | EStr _ | EBool _ | ENone => ROk (RP PvOther)
  | EBin op a b =>
      dor va <- aeval rho a; dor vb <- aeval rho b;
      match op with
      | BAnd => dor pa <- payload_of va; dor pb <- payload_of vb; ROk (RIt (PvTup [pa; pb]))
      | BOr => dor pa <- payload_of va; dor pb <- payload_of vb; ROk (RIt (PvTup [PvOther; pa; pb]))
      | BShl =>
          match va with
          | RP (PvFib User) => RBad "`<<` populates a fiber of a user-supplied tensor"
          | RP (PvFib Prog) => dor pb <- payload_of vb; ROk (RIt (PvTup [PvFib Prog; pb]))
          | _ => RBad "left operand of `<<` is not a fiber of a tensor"
          end
      | _ => ROk (RP PvOther)
      end
  | ENeg a => dor _ <- aeval rho a; ROk (RP PvOther)
  | ECmp _ a b => dor _ <- aeval rho a; dor _ <- aeval rho b; ROk (RP PvOther)
  | ETuple l | EList l =>
      dor vs <- evals l;
      if forallb rinert vs then ROk (RP PvOther) else RBad "a tensor / fiber / payload is stored in a tuple or list"
  | EDict l =>
      dor vs <- (fix go (l : list (expr * expr)) : rres (list rval) :=
                   match l with
                   | [] => ROk []
                   | (k, v) :: l' => dor vk <- aeval rho k; dor vv <- aeval rho v; dor r <- go l'; ROk (vk :: vv :: r)
                   end) l;
      if forallb rinert vs then ROk (RP PvOther) else RBad "a tensor / fiber / payload is stored in a dict"
  | ELam _ body => if pure_expr body then ROk (RP PvOther) else RBad "lambda body is not pure arithmetic"
  | EComp _ _ _ => RBad "comprehension (not in the modelled subset)"
  | EAttr a attr =>
      dor va <- aeval rho a;
      match va with
      | RGlob g => ROk (RGlob (g ++ "." ++ attr))
      | RP PvOther => ROk (RP PvOther)
      | _ => RBad ("attribute of a tensor / fiber: " ++ attr)
      end
  | ESub a i =>
      dor va <- aeval rho a; dor _ <- aeval rho i;
      match va with
      | RP PvOther => ROk (RP PvOther)
      | _ => RBad "subscript of something that is not an untracked container"
      end
  | ECall f args kw =>
      match f with
      | EAttr re m =>
          dor vr <- aeval rho re; dor vs <- evals args; dor kvs <- evalkw kw;
          method_call vr m vs kvs
      | _ =>
          dor vf <- aeval rho f; dor vs <- evals args; dor kvs <- evalkw kw;
          match vf with
          | RGlob g =>
              if String.eqb g "Tensor" then
                (* an anonymous tensor handed to an observation-only call (Format(Tensor(..), ..)) *)
                match kw_find "rank_ids" kw with
                | Some ie => match lit_ids ie with
                             | Some ids => ROk (RTensor (mkT ids Prog Prog))
                             | None => RBad "rank_ids is not a literal list of strings" end
                | None => RBad "Tensor: rank_ids missing"
                end
              else global_call g vs kvs
          | RP PvOther => ROk (RP PvOther)
          | _ => RBad "call of a non-function"
          end
      end
  end.

Fixpoint aevals (rho : positive -> rres rval) (l : list expr) : rres (list rval) :=
  match l with
  | [] => ROk []
  | e :: l' => dor v <- aeval rho e; dor vs <- aevals rho l'; ROk (v :: vs)
  end.
Fixpoint aevalkw (rho : positive -> rres rval) (l : list (string * expr)) : rres (list (string * rval)) :=
  match l with
  | [] => ROk []
  | (k, e) :: l' => dor v <- aeval rho e; dor vs <- aevalkw rho l'; ROk ((k, v) :: vs)
  end.

(* ------------------------------------------------------------------ states *)
Record st := mkS {
  env : PM.t (bool * aval);          (* absent = unbound; (must-bound?, value) *)
  heap : PM.t tobj;
  next : positive }.

Definition rho (s : st) (x : positive) : rres rval :=
  match PM.find x (env s) with
  | None => RUnbound x
  | Some (_, v) =>
      match v with
      | ATensor c => match PM.find c (heap s) with Some o => ROk (RTensor o) | None => RBad "dangling tensor reference" end
      | AP p => ROk (RP p)
      | AIt p => ROk (RIt p)
      | AList p => ROk (RList p)
      | AGlob g => ROk (RGlob g)
      | ATop => RBad "a variable whose value differs between paths is read"
      end
  end.

Definition bind (x : positive) (v : aval) (s : st) : st := mkS (PM.add x (true, v) (env s)) (heap s) (next s).
Definition alloc (o : tobj) (s : st) : positive * st :=
  (next s, mkS (env s) (PM.add (next s) o (heap s)) (Pos.succ (next s))).
Definition hset (c : positive) (o : tobj) (s : st) : st := mkS (env s) (PM.add c o (heap s)) (next s).

Definition rv_to_aval (r : rval) : option aval :=
  match r with
  | RTensor _ => None
  | RP p => Some (AP p)
  | RIt p => Some (AIt p)
  | RList p => Some (AList p)
  | RGlob g => Some (AGlob g)
  end.

(* ------------------------------------------------------------------ simple statements
   (the parts that only READ the state take the lookup function, so that they are monotone in it) *)
(* `x = <allocating form>`: Some (the new object) ; None: not an allocating form *)
Definition alloc_form (rh : positive -> rres rval) (e : expr) : rres (option tobj) :=
  match e with
  | ECall (EName g) args kw =>
      dor vg <- rh g;
      match vg with
      | RGlob gn =>
          if String.eqb gn "Tensor" then
            dor _ <- aevals rh args; dor _ <- aevalkw rh kw;
            match kw_find "rank_ids" kw with
            | Some ie => match lit_ids ie with
                         | Some ids => ROk (Some (mkT ids Prog Prog))
                         | None => RBad "rank_ids is not a literal list of strings" end
            | None => RBad "Tensor: rank_ids missing"
            end
          else ROk None
      | _ => ROk None
      end
  | ECall (EAttr (EName y) m) args kw =>
      dor vy <- rh y;
      match vy with
      | RGlob gn =>
          if String.eqb gn "Tensor" && String.eqb m "fromFiber" then
            dor _ <- aevals rh args; dor kvs <- aevalkw rh kw;
            match kw_find "rank_ids" kw, kw_find "fiber" kvs with
            | Some ie, Some (RP (PvFib p)) =>
                match lit_ids ie with
                | Some ids => ROk (Some (mkT ids Prog p))
                | None => RBad "rank_ids is not a literal list of strings" end
            | _, _ => RBad "Tensor.fromFiber: rank_ids / fiber"
            end
          else ROk None
      | RTensor o =>
          if mem_str m alloc_methods then
            dor _ <- aevals rh args; dor _ <- aevalkw rh kw;
            dor ids' <- ids_after m kw (t_ids o); ROk (Some (mkT ids' Prog Prog))
          else ROk None
      | _ => ROk None
      end
  | _ => ROk None
  end.

Definition assign_name (s : st) (x : positive) (e : expr) : rres st :=
  match e with
  | EName y => match PM.find y (env s) with None => RUnbound y | Some (_, v) => ROk (bind x v s) end
  | _ =>
      dor r <- alloc_form (rho s) e;
      match r with
      | Some o => ROk (bind x (ATensor (next s)) (snd (alloc o s)))
      | None =>
          dor v <- aeval (rho s) e;
          match rv_to_aval v with
          | Some a => ROk (bind x a s)
          | None => RBad "a tensor flows through an untracked expression"
          end
      end
  end.

Definition assign_sub_chk (rh : positive -> rres rval) (a i e : expr) : rres unit :=
  dor va <- aeval rh a; dor _ <- aeval rh i; dor v <- aeval rh e;
  match va with
  | RP PvOther => if rinert v then ROk tt else RBad "a tensor / fiber / payload is stored in a container"
  | _ => RBad "subscript assignment to something that is not an untracked container"
  end.

Definition is_shl (op : binop) : bool := match op with BShl => true | _ => false end.

Definition aug_chk (rh : positive -> rres rval) (op : binop) (t : target) (e : expr) : rres unit :=
  dor v <- aeval rh e;
  match t with
  | TName x =>
      dor xv <- rh x;
      match xv with
      | RP (PvFib User) => RBad "`+=` / `<<=` updates a payload of a user-supplied tensor"
      | RP (PvFib Prog) => ROk tt
      | RP PvOther => if is_shl op && negb (rinert v) then RBad "`<<=` copies a payload into a plain variable" else ROk tt
      | _ => RBad "augmented assignment to something that is neither a payload nor a number"
      end
  | TSub a i =>
      dor va <- aeval rh a; dor _ <- aeval rh i;
      match va with
      | RP PvOther => if is_shl op && negb (rinert v) then RBad "`<<=` copies a payload into a container" else ROk tt
      | _ => RBad "subscript update of something that is not an untracked container"
      end
  end.

(* `Y.setRankIds(..)` with Y a variable, as a statement *)
Definition setrank_syntax (e : expr) : option (positive * list expr * list (string * expr)) :=
  match e with
  | ECall (EAttr (EName y) m) args kw => if String.eqb m "setRankIds" then Some (y, args, kw) else None
  | _ => None
  end.

Definition setrank_ids (rh : positive -> rres rval) (args : list expr) (kw : list (string * expr)) : rres (list string) :=
  dor _ <- aevals rh args; dor _ <- aevalkw rh kw;
  match kw_find "rank_ids" kw with
  | Some ie => match lit_ids ie with
               | Some ids => ROk ids
               | None => RBad "rank_ids is not a literal list of strings" end
  | None => RBad "setRankIds: rank_ids missing"
  end.

Definition expr_stmt (s : st) (e : expr) : rres st :=
  match setrank_syntax e with
  | Some (y, args, kw) =>
      dor ids <- setrank_ids (rho s) args kw;
      match PM.find y (env s) with
      | None => RUnbound y
      | Some (_, ATensor c) =>
          match PM.find c (heap s) with
          | Some o =>
              match t_oprov o with
              | User => RBad "setRankIds renames a user-supplied tensor in place"
              | Prog => if Nat.eqb (length ids) (length (t_ids o))
                        then ROk (hset c (mkT ids Prog (t_dprov o)) s)
                        else RBad "setRankIds: wrong number of ranks"
              end
          | None => RBad "dangling tensor reference"
          end
      | Some _ => RBad "setRankIds on something that is not (known to be) a tensor"
      end
  | None => dor _ <- aeval (rho s) e; ROk s
  end.

Definition step (s : st) (c : stmt) : rres st :=
  match c with
  | SAssign (TName x) e => assign_name s x e
  | SAssign (TSub a i) e => dor _ <- assign_sub_chk (rho s) a i e; ROk s
  | SAug op t e => dor _ <- aug_chk (rho s) op t e; ROk s
  | SExpr e => expr_stmt s e
  | _ => RBad "not a simple statement"
  end.

Definition is_simple (c : stmt) : bool :=
  match c with SFor _ _ _ | SIf _ _ _ => false | _ => true end.

(* ------------------------------------------------------------------ loops *)
Definition iter_elem (v : rval) : rres pval :=
  match v with
  | RP (PvFib p) => ROk (PvTup [PvOther; PvFib p])
  | RIt pay => ROk (PvTup [PvOther; pay])
  | RList el => ROk el
  | RP PvOther => ROk PvOther
  | _ => RBad "for over a tensor / tuple / API name"
  end.
Definition for_elem (s : st) (e : expr) : rres pval := dor v <- aeval (rho s) e; iter_elem v.

(* the names a loop pattern binds against an element, left to right.  A missing union side is a
   structural default: a tuple pattern against one fiber-like value binds every name of the
   pattern to it (Interp.bind_pat on VZero) *)
Fixpoint pat_binds (p : pat) (v : pval) {struct p} : rres (list (positive * pval)) :=
  match p with
  | PName x => ROk [(x, v)]
  | PTup ps =>
      match v with
      | PvTup vs =>
          (fix go (ps : list pat) (vs : list pval) : rres (list (positive * pval)) :=
             match ps, vs with
             | [], [] => ROk []
             | p :: ps', v :: vs' => dor b <- pat_binds p v; dor bs <- go ps' vs'; ROk (b ++ bs)%list
             | _, _ => RBad "cannot unpack: arity mismatch"
             end) ps vs
      | _ =>
          (fix go (ps : list pat) : rres (list (positive * pval)) :=
             match ps with
             | [] => ROk []
             | p :: ps' => dor b <- pat_binds p v; dor bs <- go ps'; ROk (b ++ bs)%list
             end) ps
      end
  end.

Definition bind_all (bs : list (positive * pval)) (s : st) : st :=
  fold_left (fun s b => bind (fst b) (AP (snd b)) s) bs s.

Definition bind_pat (p : pat) (v : pval) (s : st) : rres st :=
  dor bs <- pat_binds p v; ROk (bind_all bs s).

(* ------------------------------------------------------------------ the all-paths semantics *)
Inductive outcome := OFine (s : st) | OBad (why : string).

Inductive sem : st -> stmt -> outcome -> Prop :=
| sem_step_ok s c s' : is_simple c = true -> step s c = ROk s' -> sem s c (OFine s')
| sem_step_bad s c w : is_simple c = true -> step s c = RBad w -> sem s c (OBad w)
| sem_for_bad s p e body w : for_elem s e = RBad w -> sem s (SFor p e body) (OBad w)
| sem_for s p e body el o : for_elem s e = ROk el -> sem_loop s p el body o -> sem s (SFor p e body) o
| sem_if_bad s c a b w : aeval (rho s) c = RBad w -> sem s (SIf c a b) (OBad w)
| sem_if_then s c a b v o : aeval (rho s) c = ROk v -> sem_block s a o -> sem s (SIf c a b) o
| sem_if_else s c a b v o : aeval (rho s) c = ROk v -> sem_block s b o -> sem s (SIf c a b) o
(* zero or more iterations; the iterable was evaluated once, its elements all look like el *)
with sem_loop : st -> pat -> pval -> list stmt -> outcome -> Prop :=
| loop_done s p el body : sem_loop s p el body (OFine s)
| loop_bind_bad s p el body w : bind_pat p el s = RBad w -> sem_loop s p el body (OBad w)
| loop_body_bad s p el body s1 w : bind_pat p el s = ROk s1 -> sem_block s1 body (OBad w) -> sem_loop s p el body (OBad w)
| loop_iter s p el body s1 s2 o :
    bind_pat p el s = ROk s1 -> sem_block s1 body (OFine s2) -> sem_loop s2 p el body o -> sem_loop s p el body o
with sem_block : st -> list stmt -> outcome -> Prop :=
| block_nil s : sem_block s [] (OFine s)
| block_cons s c ss s1 o : sem s c (OFine s1) -> sem_block s1 ss o -> sem_block s (c :: ss) o
| block_bad s c ss w : sem s c (OBad w) -> sem_block s (c :: ss) (OBad w).

(* ------------------------------------------------------------------ the order on states, decided *)
Definition aval_eqb_nt (a b : aval) : bool :=
  match a, b with
  | AP p, AP q => pval_eqb p q
  | AIt p, AIt q => pval_eqb p q
  | AList p, AList q => pval_eqb p q
  | AGlob g, AGlob h => String.eqb g h
  | _, _ => false
  end.

Definition vleb (A B : st) (v w : aval) : bool :=
  match w with
  | ATop => true
  | ATensor cb =>
      match v with
      | ATensor ca => match PM.find ca (heap A), PM.find cb (heap B) with
                      | Some oa, Some ob => tobj_eqb oa ob
                      | _, _ => false end
      | _ => false
      end
  | _ => aval_eqb_nt v w
  end.

Definition wfb (A : st) : bool :=
  forallb (fun xv => match snd (snd xv) with
                     | ATensor c => match PM.find c (heap A) with Some _ => true | None => false end
                     | _ => true end) (PM.elements (env A)) &&
  forallb (fun co => Pos.ltb (fst co) (next A)) (PM.elements (heap A)).

Definition tensor_vars (A : st) : list (positive * positive) :=
  flat_map (fun xv => match snd (snd xv) with ATensor c => [(fst xv, c)] | _ => [] end) (PM.elements (env A)).

(* A <= B : everything B claims holds of every state A describes *)
Definition leb (A B : st) : bool :=
  wfb A && wfb B &&
  forallb (fun xv => match PM.find (fst xv) (env B) with Some _ => true | None => false end) (PM.elements (env A)) &&
  forallb (fun xw => match PM.find (fst xw) (env A) with
                     | None => negb (fst (snd xw))
                     | Some (ma, v) => implb (fst (snd xw)) ma && vleb A B v (snd (snd xw))
                     end) (PM.elements (env B)) &&
  (let tv := tensor_vars B in
   forallb (fun xc => forallb (fun yc =>
                                 match PM.find (fst xc) (env A), PM.find (fst yc) (env A) with
                                 | Some (_, ATensor ca), Some (_, ATensor ca') =>
                                     Bool.eqb (Pos.eqb ca ca') (Pos.eqb (snd xc) (snd yc))
                                 | _, _ => true
                                 end) tv) tv).

(* ------------------------------------------------------------------ join candidates (UNVERIFIED heuristic;
   every use is followed by leb checks) *)
Definition joinv (A B : st) (va vb : aval) : aval :=
  match va, vb with
  | ATensor ca, ATensor cb =>
      match PM.find ca (heap A), PM.find cb (heap B) with
      | Some oa, Some ob => if tobj_eqb oa ob then ATensor ca else ATop
      | _, _ => ATop
      end
  | _, _ => if aval_eqb_nt va vb then va else ATop
  end.

Definition widen (A B : st) : st :=
  let k := next A in
  let common :=
    flat_map (fun xv => match snd (snd xv) with
                        | ATensor cb =>
                            match PM.find (fst xv) (env A) with
                            | Some (_, ATensor ca) =>
                                match joinv A B (ATensor ca) (ATensor cb) with ATensor _ => [(cb, ca)] | _ => [] end
                            | _ => []
                            end
                        | _ => [] end) (PM.elements (env B)) in
  let mB := fold_left (fun m p => match PM.find (fst p) m with Some _ => m | None => PM.add (fst p) (snd p) m end)
                      common (PM.empty positive) in
  let cls_b := fun cb => match PM.find cb mB with Some ca => ca | None => Pos.add cb k end in
  let envA := PM.mapi (fun x av => match PM.find x (env B) with
                                   | None => (false, snd av)
                                   | Some bv => (fst av && fst bv, joinv A B (snd av) (snd bv))
                                   end) (env A) in
  let env0 := fold_left (fun acc xv => match PM.find (fst xv) (env A) with
                                       | Some _ => acc
                                       | None => PM.add (fst xv)
                                                        (false, match snd (snd xv) with ATensor cb => ATensor (cls_b cb) | v => v end) acc
                                       end) (PM.elements (env B)) envA in
  let heap0 := fold_left (fun acc co => match PM.find (fst co) mB with
                                        | Some _ => acc
                                        | None => PM.add (Pos.add (fst co) k) (snd co) acc
                                        end) (PM.elements (heap B)) (heap A) in
  (* alias claims must hold on both sides: the later variable of a disagreeing pair is forgotten *)
  let tv := flat_map (fun xv => match snd (snd xv) with ATensor c => [(fst xv, c)] | _ => [] end) (PM.elements env0) in
  let side := fun (S : st) (shift : positive -> positive) (x y cx cy : positive) =>
                match PM.find x (env S), PM.find y (env S) with
                | Some (_, ATensor sx), Some (_, ATensor sy) => Bool.eqb (Pos.eqb sx sy) (Pos.eqb cx cy)
                | _, _ => true
                end in
  let bad := fun (y cy : positive) =>
               existsb (fun xc => negb (Pos.eqb (fst xc) y) && Pos.ltb (fst xc) y &&
                                  negb (side A (fun c => c) (fst xc) y (snd xc) cy && side B cls_b (fst xc) y (snd xc) cy)) tv in
  let env1 := fold_left (fun acc yc => if bad (fst yc) (snd yc)
                                       then match PM.find (fst yc) acc with
                                            | Some (m, _) => PM.add (fst yc) (m, ATop) acc
                                            | None => acc end
                                       else acc) tv env0 in
  (* keep only the objects some variable refers to *)
  let heap1 := fold_left (fun acc xv => match snd (snd xv) with
                                        | ATensor c => match PM.find c heap0 with Some o => PM.add c o acc | None => acc end
                                        | _ => acc end) (PM.elements env1) (PM.empty tobj) in
  mkS env1 heap1 (Pos.add (next B) k).

(* ------------------------------------------------------------------ the checker *)
Definition rounds : nat := 4.

Fixpoint find_inv (run : st -> rres st) (k : nat) (c inv : st) : rres st :=
  match k with
  | O => RBad "no loop invariant found"
  | S k' =>
      match run inv with
      | ROk c1 => if leb c inv && leb c1 inv then ROk inv else find_inv run k' c (widen inv c1)
      | RBad w => RBad w
      | RUnbound x => RUnbound x
      end
  end.

Fixpoint chk (c : st) (s : stmt) {struct s} : rres st :=
  let blk :=
    fix go (c : st) (ss : list stmt) : rres st :=
      match ss with
      | [] => ROk c
      | s :: ss' => dor c' <- chk c s; go c' ss'
      end in
  match s with
  | SFor p e body =>
      dor el <- for_elem c e;
      find_inv (fun i => dor i' <- bind_pat p el i; blk i' body) rounds c c
  | SIf cnd a b =>
      dor _ <- aeval (rho c) cnd;
      dor ca <- blk c a; dor cb <- blk c b;
      let j := widen ca cb in
      if leb ca j && leb cb j then ROk j else RBad "the two branches of an if cannot be joined"
  | _ => step c s
  end.

Fixpoint chk_block (c : st) (ss : list stmt) : rres st :=
  match ss with
  | [] => ROk c
  | s :: ss' => dor c' <- chk c s; chk_block c' ss'
  end.

(* ------------------------------------------------------------------ what the harness supplies, the verdict *)
Record rctx := mkCtx {
  x_inputs : list (positive * list string);            (* user tensors: variable, rank ids *)
  x_globals : list (positive * string);                (* API names *)
  x_others : list positive;                            (* other user names: extents, scalars, symbolic sizes *)
  x_names : list (positive * (string * option (list string)));
                                                       (* tensor-named variables: <Ranks> as spelled, and the exact
                                                          rank list where the specification fixes it (inputs, results) *)
  x_required : list positive }.                        (* must be bound at the end: results and inputs *)

Definition init (c : rctx) : st :=
  let s0 := mkS (PM.empty _) (PM.empty _) 1%positive in
  let s1 := fold_left (fun s g => bind (fst g) (AGlob (snd g)) s) (x_globals c) s0 in
  let s2 := fold_left (fun s x => bind x (AP PvOther) s) (x_others c) s1 in
  fold_left (fun s i => bind (fst i) (ATensor (next s)) (snd (alloc (mkT (snd i) User User) s))) (x_inputs c) s2.

Definition name_okb (s : st) (n : positive * (string * option (list string))) : bool :=
  match PM.find (fst n) (env s) with
  | None => true
  | Some (_, ATensor c) =>
      match PM.find c (heap s) with
      | Some o => String.eqb (String.concat "" (t_ids o)) (fst (snd n)) &&
                  match snd (snd n) with Some l => strs_eqb (t_ids o) l | None => true end
      | None => false
      end
  | Some _ => false
  end.
Definition required_okb (s : st) (x : positive) : bool :=
  match PM.find x (env s) with Some (true, _) => true | _ => false end.

Definition rankty_ok (c : rctx) (p : program) : bool :=
  wfb (init c) &&
  match chk_block (init c) p with
  | ROk s => forallb (name_okb s) (x_names c) && forallb (required_okb s) (x_required c)
  | _ => false
  end.

(* the post-condition on a final state of the semantics *)
Definition name_ok (s : st) (n : positive * (string * option (list string))) : Prop :=
  forall b v, PM.find (fst n) (env s) = Some (b, v) ->
  exists c o, v = ATensor c /\ PM.find c (heap s) = Some o /\
              String.concat "" (t_ids o) = fst (snd n) /\
              (forall l, snd (snd n) = Some l -> t_ids o = l).

Definition post (c : rctx) (s : st) : Prop :=
  (forall n, In n (x_names c) -> name_ok s n) /\
  (forall x, In x (x_required c) -> PM.find x (env s) <> None) /\
  (* every object the user supplied still is what it was: never renamed *)
  (forall l o, PM.find l (heap (init c)) = Some o -> PM.find l (heap s) = Some o).

(* ------------------------------------------------------------------ rendering for the harness *)
Definition show_var (s : st) (x : positive) : string :=
  show_N (Npos x) ++ ":" ++
  match PM.find x (env s) with
  | None => "U"
  | Some (m, ATensor c) =>
      match PM.find c (heap s) with
      | Some o => (if m then "M:" else "m:") ++ String.concat "," (t_ids o)
      | None => "D"
      end
  | Some (_, ATop) => "T"
  | Some _ => "N"
  end.

(* OK|<names>   BAD:<why>   UNBOUND:<x>   NAME:<x>|<names>   MISSING:<x>|<names> *)
Definition rankty_report (c : rctx) (p : program) : string :=
  if negb (wfb (init c)) then "BAD:ill-formed initial state" else
  match chk_block (init c) p with
  | RBad w => "BAD:" ++ w
  | RUnbound x => "UNBOUND:" ++ show_N (Npos x)
  | ROk s =>
      let names := String.concat " " (map (fun n => show_var s (fst n)) (x_names c)) in
      match filter (fun n => negb (name_okb s n)) (x_names c) with
      | n :: _ => "NAME:" ++ show_N (Npos (fst n)) ++ "|" ++ names
      | [] =>
          match filter (fun x => negb (required_okb s x)) (x_required c) with
          | x :: _ => "MISSING:" ++ show_N (Npos x) ++ "|" ++ names
          | [] => "OK|" ++ names
          end
      end
  end.

(* one concrete path, for examples: every loop runs exactly n times, every `if` takes its first branch *)
Fixpoint run_path (n : nat) (c : st) (s : stmt) {struct s} : rres st :=
  let blk :=
    fix go (c : st) (ss : list stmt) : rres st :=
      match ss with
      | [] => ROk c
      | s :: ss' => dor c' <- run_path n c s; go c' ss'
      end in
  match s with
  | SFor p e body =>
      dor el <- for_elem c e;
      (fix it (k : nat) (c : st) : rres st :=
         match k with
         | O => ROk c
         | S k' => dor c1 <- bind_pat p el c; dor c2 <- blk c1 body; it k' c2
         end) n c
  | SIf cnd a b => dor _ <- aeval (rho c) cnd; blk c a
  | _ => step c s
  end.
Fixpoint run_path_block (n : nat) (c : st) (ss : list stmt) : rres st :=
  match ss with
  | [] => ROk c
  | s :: ss' => dor c' <- run_path n c s; run_path_block n c' ss'
  end.
