(* Fuelled big-step interpreter for the Python subset of Model/Py.v over the
   modelled runtime of Model/Rt.v.  Fuel bounds the nesting depth only (loops and
   blocks recurse structurally on their item lists). *)
From Coq Require Import String List ZArith Bool PrimFloat FMapPositive.
Require Import TV.Model.Py TV.Model.Rt.
Import ListNotations.
Open Scope string_scope.
Open Scope Z_scope.

Inductive err :=
| ErrUnbound (x : positive)
| ErrFuel
| ErrType (what : string)
| ErrApi (what : string).

Inductive res (A : Type) := Ok (a : A) | Er (e : err).
Arguments Ok {A} a.
Arguments Er {A} e.

Definition bind {A B} (r : res A) (f : A -> res B) : res B :=
  match r with Ok a => f a | Er e => Er e end.
Notation "'do' x <- r ; k" := (bind r (fun x => k)) (at level 200, x name, r at level 100, k at level 200).
Notation "'do' ' p <- r ; k" := (bind r (fun x => match x with p => k end)) (at level 200, p pattern, r at level 100, k at level 200).
Definition oerr {A} (o : option A) (e : err) : res A := match o with Some a => Ok a | None => Er e end.

Definition kwarg (k : string) (kw : list (string * value)) : option value :=
  match find (fun p => String.eqb (fst p) k) kw with Some p => Some (snd p) | None => None end.
Definition kw_int (k : string) (d : Z) (kw : list (string * value)) : res Z :=
  match kwarg k kw with
  | None => Ok d
  | Some (VInt z) => Ok z
  | Some _ => Er (ErrType ("keyword " ++ k ++ " is not an int"))
  end.
Definition str_list (v : value) : option (list string) :=
  match v with
  | VList l => all_some (map (fun x => match x with VStr s => Some s | _ => None end) l)
  | _ => None
  end.

Fixpoint index_of (s : string) (l : list string) : option nat :=
  match l with
  | [] => None
  | x :: l' => if String.eqb s x then Some O else match index_of s l' with Some n => Some (S n) | None => None end
  end.

Definition truthy (v : value) : option bool :=
  match v with
  | VBool b => Some b
  | VInt z => Some (negb (z =? 0))
  | VNone => Some false
  | VList l => Some (match l with [] => false | _ => true end)
  | _ => None
  end.

(* ------------------------------------------------------------ operators *)
Definition arith (op : binop) (a b : value) : res value :=
  match a, b with
  | VOpaque, _ | _, VOpaque => Ok VOpaque
  | _, _ =>
      match as_num a, as_num b with
      | Some x, Some y =>
          match op with
          | BAdd => Ok (of_num (nadd x y))
          | BSub => Ok (of_num (nsub x y))
          | BMul => Ok (of_num (nmul x y))
          | BDiv => match ndiv x y with Some r => Ok (of_num r) | None => Er (ErrApi "ZeroDivisionError") end
          | BFDiv => match nfdiv x y with Some r => Ok (of_num r) | None => Er (ErrApi "floor division") end
          | BMod => match nmod x y with Some r => Ok (of_num r) | None => Er (ErrApi "modulo") end
          | _ => Er (ErrType "arithmetic operator")
          end
      | _, _ =>
          match op, a, b with
          | BAdd, VStr s, VStr t => Ok (VStr (s ++ t))
          | BAdd, VList s, VList t => Ok (VList (s ++ t))
          | _, _, _ => Er (ErrType "operands of an arithmetic operator are not numbers")
          end
      end
  end.

Definition binop_sem (op : binop) (a b : value) (st : state) : res (value * state) :=
  match op with
  | BAnd =>
      match a, b with
      | VOpaque, _ | _, VOpaque => Ok (VOpaque, st)
      | _, _ => match items_of st a, items_of st b with
                | Some x, Some y => Ok (VIter (isect x y), st)
                | _, _ => Er (ErrType "& on non-fibers")
                end
      end
  | BOr =>
      match items_of st a, items_of st b with
      | Some x, Some y => Ok (VIter (union x y), st)
      | _, _ => Er (ErrType "| on non-fibers")
      end
  | BShl =>
      match items_of st b with
      | Some y => match populate a y st with
                  | Some (out, st') => Ok (VIter out, st')
                  | None => Er (ErrType "<< into a non-fiber")
                  end
      | None => Er (ErrType "<< from a non-fiber")
      end
  | _ => do r <- arith op (deref st a) (deref st b); Ok (r, st)
  end.

Definition cmp_sem (op : cmpop) (a b : value) (st : state) : res value :=
  let a := deref st a in
  match op with
  | CIn | CNotIn =>
      let neg := match op with CNotIn => true | _ => false end in
      match b with
      | VList l | VTuple l => Ok (VBool (xorb neg (existsb (veqb a) l)))
      | VOpaque => Ok VOpaque
      | _ => match hget st b with
             | Some (ODict es) => Ok (VBool (xorb neg (match alookup a es with Some _ => true | None => false end)))
             | _ => Er (ErrType "in: not a container")
             end
      end
  | _ =>
      let b := deref st b in
      match a, b with
      | VOpaque, _ | _, VOpaque => Ok VOpaque
      | _, _ =>
          match op with
          | CEq => Ok (VBool (veqb a b))
          | CNe => Ok (VBool (negb (veqb a b)))
          | _ => match vcmp a b with
                 | Some c => Ok (VBool (match op, c with
                                        | CLt, Lt | CLe, Lt | CLe, Eq | CGt, Gt | CGe, Gt | CGe, Eq => true
                                        | _, _ => false end))
                 | None => Er (ErrType "unordered comparison")
                 end
          end
      end
  end.

(* ------------------------------------------------------------ tensor API *)
Definition get_tensor (st : state) (v : value) : option (list string * value * string) :=
  match hget st v with Some (OTensor ids root nm) => Some (ids, root, nm) | _ => None end.

Definition new_tensor (ids : list string) (t : trie) (nm : string) (st : state) : value * state :=
  let '(root, st1) := store (length ids) t st in
  alloc (OTensor ids root nm) st1.

Definition splice {A} (l : list A) (d n : nat) (mid : list A) : list A := firstn d l ++ mid ++ skipn (d + n) l.

(* a tensor operation that rewrites the trie at depth `d` and replaces the rank id there by `mid ids` *)
Definition tensor_op (tv : value) (d : nat) (consumed : nat) (mid : list string -> list string)
           (f : trie -> option trie) (st : state) : res (value * state) :=
  match get_tensor st tv with
  | None => Er (ErrType "not a tensor")
  | Some (ids, root, nm) =>
      if Nat.ltb (length ids) (d + consumed) then Er (ErrApi "tensor operation: depth out of range") else
      match load (length ids) st root with
      | None => Er (ErrApi "tensor operation: malformed tensor")
      | Some t =>
          match tmap_depth d f t with
          | None => Er (ErrApi "tensor operation failed")
          | Some t' =>
              let ids' := splice ids d consumed (mid (firstn consumed (skipn d ids))) in
              Ok (new_tensor ids' t' nm st)
          end
      end
  end.

Definition nat_kw (k : string) (d : Z) (kw : list (string * value)) : res nat :=
  do z <- kw_int k d kw; if z <? 0 then Er (ErrApi ("negative " ++ k)) else Ok (Z.to_nat z).

Definition coords_of (st : state) (v : value) : option (list value) :=
  match items_of st v with Some l => Some (map fst l) | None => None end.

Definition tensor_method (tv : value) (m : string) (args : list value) (kw : list (string * value)) (st : state)
  : res (value * state) :=
  match get_tensor st tv with
  | None => Er (ErrType "not a tensor")
  | Some (ids, root, nm) =>
      if String.eqb m "getRoot" then Ok (root, st)
      else if String.eqb m "getRankIds" then Ok (VList (map VStr ids), st)
      else if String.eqb m "setRankIds" then
        match kwarg "rank_ids" kw with
        | Some v => match str_list v, tv with
                    | Some ids', VLoc l =>
                        if Nat.eqb (length ids') (length ids) then Ok (VNone, hset l (OTensor ids' root nm) st)
                        else Er (ErrApi "setRankIds: wrong number of ranks")
                    | _, _ => Er (ErrType "setRankIds")
                    end
        | None => Er (ErrType "setRankIds: rank_ids missing")
        end
      else if String.eqb m "swizzleRanks" then
        match kwarg "rank_ids" kw with
        | Some v =>
            match str_list v with
            | Some ids' =>
                match all_some (map (fun r => index_of r ids) ids') with
                | Some perm =>
                    if negb (Nat.eqb (length ids') (length ids)) || negb (forallb (fun r => match index_of r ids' with Some _ => true | None => false end) ids)
                    then Er (ErrApi "swizzleRanks: not a permutation of the tensor's rank ids")
                    else match load (length ids) st root with
                         | Some t => Ok (new_tensor ids' (tswizzle perm t) nm st)
                         | None => Er (ErrApi "swizzleRanks: malformed tensor")
                         end
                | None => Er (ErrApi "swizzleRanks: unknown rank id")
                end
            | None => Er (ErrType "swizzleRanks")
            end
        | None => Er (ErrType "swizzleRanks: rank_ids missing")
        end
      else if String.eqb m "splitUniform" then
        do d <- nat_kw "depth" 0 kw; do pre <- kw_int "pre_halo" 0 kw; do post <- kw_int "post_halo" 0 kw;
        match args with
        | [VInt step] => tensor_op tv d 1 (fun r => match r with [x] => [x ++ ".1"; x ++ ".0"] | _ => r end)
                                   (split_uniform step pre post) st
        | _ => Er (ErrType "splitUniform: step is not an int")
        end
      else if String.eqb m "splitEqual" then
        do d <- nat_kw "depth" 0 kw;
        match args with
        | [VInt n] => tensor_op tv d 1 (fun r => match r with [x] => [x ++ ".1"; x ++ ".0"] | _ => r end) (split_equal n) st
        | _ => Er (ErrType "splitEqual: size is not an int")
        end
      else if String.eqb m "splitNonUniform" then
        do d <- nat_kw "depth" 0 kw;
        match args with
        | [fv] => match coords_of st fv with
                  | Some bs => tensor_op tv d 1 (fun r => match r with [x] => [x ++ ".1"; x ++ ".0"] | _ => r end)
                                         (split_nonuniform bs) st
                  | None => Er (ErrType "splitNonUniform: boundaries are not a fiber")
                  end
        | _ => Er (ErrType "splitNonUniform")
        end
      else if String.eqb m "flattenRanks" || String.eqb m "mergeRanks" then
        do d <- nat_kw "depth" 0 kw; do lv <- nat_kw "levels" 1 kw;
        match kwarg "coord_style" kw with
        | Some (VStr "tuple") => tensor_op tv d (S lv) (fun r => [String.concat "" r]) (flatten_levels lv) st
        | Some (VStr "absolute") => tensor_op tv d (S lv) (fun r => [String.concat "" r]) (merge_levels lv) st
        | _ => Er (ErrApi "flatten/merge: coord_style")
        end
      else if String.eqb m "unflattenRanks" then
        do d <- nat_kw "depth" 0 kw; do lv <- nat_kw "levels" 1 kw;
        tensor_op tv d 1 (fun r => match r with [x] => map (fun i => x ++ "?") (zrange 0 (S lv)) | _ => r end)
                  (unflatten_levels lv) st
      else Er (ErrApi ("unknown tensor method " ++ m))
  end.

Fixpoint get_payload (fv : value) (cs : list value) (st : state) : value :=
  match cs with
  | [] => fv
  | c :: cs' => match items_of st fv with
                | Some l => match alookup c l with Some p => get_payload p cs' st | None => VZero end
                | None => VZero
                end
  end.

Fixpoint get_payload_ref (fv : value) (cs : list value) (st : state) : option (value * state) :=
  match cs with
  | [] => Some (fv, st)
  | c :: cs' => match payload_ref fv c st with
                | Some (p, st') => get_payload_ref p cs' st'
                | None => None
                end
  end.

Fixpoint range_refs (fv : value) (cs : list Z) (st : state) : option (list (value * value) * state) :=
  match cs with
  | [] => Some ([], st)
  | c :: cs' => match payload_ref fv (VInt c) st with
                | Some (p, st') => match range_refs fv cs' st' with
                                   | Some (out, st'') => Some ((VInt c, p) :: out, st'')
                                   | None => None end
                | None => None
                end
  end.

Definition is_fiberlike (st : state) (v : value) : bool :=
  match v with
  | VIter _ | VZero => true
  | _ => match hget st v with Some (OFiber _ _) => true | _ => false end
  end.

(* fiber methods that do not call back into the interpreter *)
Definition fiber_method (fv : value) (m : string) (args : list value) (kw : list (string * value)) (st : state)
  : res (value * state) :=
  if String.eqb m "getPayload" then Ok (get_payload fv args st, st)
  else if String.eqb m "getPayloadRef" then
    match get_payload_ref fv args st with Some r => Ok r | None => Er (ErrApi "getPayloadRef on a non-fiber") end
  else if String.eqb m "getCoords" then
    match coords_of st fv with Some cs => Ok (VList cs, st) | None => Er (ErrType "getCoords") end
  else if String.eqb m "iterRangeShapeRef" then
    match args with
    | [lo; hi; VInt step] =>
        match coordZ lo, coordZ hi with
        | Some lo, Some hi =>
            if step <=? 0 then Er (ErrApi "iterRangeShapeRef: step") else
            let n := Z.to_nat ((hi - lo + step - 1) / step) in
            match range_refs fv (map (fun i => lo + step * i) (zrange 0 n)) st with
            | Some (out, st') => Ok (VIter out, st')
            | None => Er (ErrApi "iterRangeShapeRef on a non-fiber")
            end
        | _, _ => Er (ErrType "iterRangeShapeRef: bounds are not integral")
        end
    | _ => Er (ErrType "iterRangeShapeRef: arguments")
    end
  else if String.eqb m "trace" then Ok (VNone, addlog "fiber.trace" args st)
  else Er (ErrApi ("unknown fiber method " ++ m)).

Definition global_call (g : string) (args : list value) (kw : list (string * value)) (st : state) : res (value * state) :=
  if String.eqb g "Tensor" then
    match kwarg "rank_ids" kw, kwarg "name" kw with
    | Some v, nm =>
        match str_list v with
        | Some ids =>
            let nm := match nm with Some (VStr s) => s | _ => "" end in
            let '(root, st1) := match ids with
                                | [] => alloc (OCell (VInt 0)) st
                                | _ => alloc (OFiber (length ids) []) st end in
            Ok (alloc (OTensor ids root nm) st1)
        | None => Er (ErrType "Tensor: rank_ids")
        end
    | _, _ => Er (ErrType "Tensor: rank_ids missing")
    end
  else if String.eqb g "len" then
    match args with
    | [v] => match v with
             | VList l | VTuple l => Ok (VInt (Z.of_nat (length l)), st)
             | _ => match items_of st v with
                    | Some l => Ok (VInt (Z.of_nat (length l)), st)
                    | None => Er (ErrType "len")
                    end
             end
    | _ => Er (ErrType "len")
    end
  else if String.eqb g "enumerate" then
    match args with
    | [v] => match v with
             | VList l => Ok (VList (map (fun ix => VTuple [VInt (fst ix); snd ix]) (combine (zrange 0 (length l)) l)), st)
             | _ => match items_of st v with
                    | Some l => Ok (VList (map (fun ix => VTuple [VInt (fst ix); VTuple [fst (snd ix); snd (snd ix)]])
                                               (combine (zrange 0 (length l)) l)), st)
                    | None => Er (ErrType "enumerate")
                    end
             end
    | _ => Er (ErrType "enumerate")
    end
  else if String.eqb g "min" || String.eqb g "max" then
    match map (deref st) args with
    | [a; b] => match vcmp a b with
                | Some c => let a_small := match c with Gt => false | _ => true end in
                            Ok (if Bool.eqb a_small (String.eqb g "min") then a else b, st)
                | None => match a, b with
                          | VOpaque, _ | _, VOpaque => Ok (VOpaque, st)
                          | _, _ => Er (ErrType "min/max")
                          end
                end
    | l => if existsb (fun v => match v with VOpaque => true | _ => false end) l then Ok (VOpaque, st)
           else match l with
                | [a] => Ok (a, st)
                | a :: rest =>
                    match fold_left (fun acc b => match acc with
                                                  | Some a => match vcmp a b with
                                                              | Some c => let a_small := match c with Gt => false | _ => true end in
                                                                          Some (if Bool.eqb a_small (String.eqb g "min") then a else b)
                                                              | None => None end
                                                  | None => None end) rest (Some a) with
                    | Some r => Ok (r, st)
                    | None => Er (ErrType "min/max")
                    end
                | [] => Er (ErrType "min/max of nothing")
                end
    end
  else if String.eqb g "int" then
    match map (deref st) args with
    | [VInt z] => Ok (VInt z, st)
    | [VFloat f] => match f2z_trunc f with Some z => Ok (VInt z, st) | None => Er (ErrApi "int of a non-finite float") end
    | [VOpaque] => Ok (VOpaque, st)
    | _ => Er (ErrType "int")
    end
  else if String.eqb g "set" then
    match args with
    | [] => Ok (alloc (ODict []) st)
    | _ => Ok (VOpaque, st)
    end
  else if String.eqb g "createCanvas" then
    let '(c, st1) := alloc (OCanvas (length args)) st in
    Ok (c, addlog "createCanvas" (c :: args) st1)
  else Ok (VOpaque, addlog g (args ++ map snd kw) st).

Definition is_global (v : value) : option string := match v with VGlobal g => Some g | _ => None end.

Fixpoint bind_pat (p : pat) (v : value) (st : state) {struct p} : res state :=
  match p with
  | PName x => Ok (setenv x v st)
  | PTup ps =>
      match v with
      | VTuple vs =>
          (fix go (ps : list pat) (vs : list value) (st : state) : res state :=
             match ps, vs with
             | [], [] => Ok st
             | p :: ps', v :: vs' => do st' <- bind_pat p v st; go ps' vs' st'
             | _, _ => Er (ErrType "cannot unpack: arity mismatch")
             end) ps vs st
      | VZero =>
          (* the default payload of a missing union side is the structural default of its shape *)
          (fix go (ps : list pat) (st : state) : res state :=
             match ps with
             | [] => Ok st
             | p :: ps' => do st' <- bind_pat p VZero st; go ps' st'
             end) ps st
      | _ => Er (ErrType "cannot unpack a non-tuple")
      end
  end.

Definition iter_elems (st : state) (v : value) : option (list value) :=
  match v with
  | VList l | VTuple l => Some l
  | _ => match items_of st v with
         | Some l => Some (map (fun cp => VTuple [fst cp; snd cp]) l)
         | None => None
         end
  end.

Definition aug_value (op : binop) (old new : value) (st : state) : res value :=
  match op with
  | BShl => Ok (deref st new)
  | _ => arith op (deref st old) (deref st new)
  end.

(* ------------------------------------------------------------ the interpreter *)
Fixpoint eval (fuel : nat) (e : expr) (st : state) {struct fuel} : res (value * state) :=
  match fuel with
  | O => Er ErrFuel
  | S f =>
      let eval_list :=
        fix go (es : list expr) (st : state) : res (list value * state) :=
          match es with
          | [] => Ok ([], st)
          | e :: es' => do '(v, st1) <- eval f e st; do '(vs, st2) <- go es' st1; Ok (v :: vs, st2)
          end in
      let eval_kw :=
        fix go (es : list (string * expr)) (st : state) : res (list (string * value) * state) :=
          match es with
          | [] => Ok ([], st)
          | (k, e) :: es' => do '(v, st1) <- eval f e st; do '(vs, st2) <- go es' st1; Ok ((k, v) :: vs, st2)
          end in
      match e with
      | EName x => match PM.find x (env st) with Some v => Ok (v, st) | None => Er (ErrUnbound x) end
      | EInt z => Ok (VInt z, st)
      | EStr s => Ok (VStr s, st)
      | EBool b => Ok (VBool b, st)
      | ENone => Ok (VNone, st)
      | EBin op a b => do '(va, st1) <- eval f a st; do '(vb, st2) <- eval f b st1; binop_sem op va vb st2
      | ENeg a => do '(va, st1) <- eval f a st;
                  match deref st1 va with
                  | VOpaque => Ok (VOpaque, st1)
                  | v => match as_num v with Some n => Ok (of_num (nneg n), st1) | None => Er (ErrType "unary minus") end
                  end
      | ECmp op a b => do '(va, st1) <- eval f a st; do '(vb, st2) <- eval f b st1;
                       do r <- cmp_sem op va vb st2; Ok (r, st2)
      | ETuple l => do '(vs, st1) <- eval_list l st; Ok (VTuple vs, st1)
      | EList l => do '(vs, st1) <- eval_list l st; Ok (VList vs, st1)
      | EDict l =>
          do '(ks, st1) <- eval_list (map fst l) st; do '(vs, st2) <- eval_list (map snd l) st1;
          Ok (alloc (ODict (combine ks vs)) st2)
      | ELam ps body => Ok (VLam ps body, st)
      | EComp elem x it =>
          do '(vi, st1) <- eval f it st;
          match iter_elems st1 vi with
          | None => match vi with VOpaque => Ok (VOpaque, st1) | _ => Er (ErrType "comprehension over a non-iterable") end
          | Some elems =>
              let saved := PM.find x (env st1) in
              do '(out, st2) <-
                 (fix go (vs : list value) (st : state) : res (list value * state) :=
                    match vs with
                    | [] => Ok ([], st)
                    | v :: vs' => do '(r, st') <- eval f elem (setenv x v st); do '(rs, st'') <- go vs' st'; Ok (r :: rs, st'')
                    end) elems st1;
              let st3 := match saved with
                         | Some v => setenv x v st2
                         | None => mkSt (PM.remove x (env st2)) (heap st2) (next st2) (log st2) end in
              Ok (VList out, st3)
          end
      | EAttr a attr =>
          do '(va, st1) <- eval f a st;
          match va with
          | VGlobal g => Ok (VGlobal (g ++ "." ++ attr), st1)
          | VOpaque => Ok (VOpaque, st1)
          | _ => Er (ErrType ("attribute " ++ attr))
          end
      | ESub a i =>
          do '(va, st1) <- eval f a st; do '(vi, st2) <- eval f i st1;
          match va with
          | VOpaque => Ok (VOpaque, st2)
          | VList l | VTuple l =>
              match deref st2 vi with
              | VInt z => if (0 <=? z) && (z <? Z.of_nat (length l)) then Ok (nth (Z.to_nat z) l VNone, st2)
                          else Er (ErrApi "IndexError")
              | _ => Er (ErrType "list index")
              end
          | _ => match hget st2 va with
                 | Some (ODict es) => match alookup (deref st2 vi) es with
                                      | Some v => Ok (v, st2)
                                      | None => Er (ErrApi "KeyError") end
                 | _ => Er (ErrType "subscript of a non-container")
                 end
          end
      | ECall fe args kws =>
          match fe with
          | EAttr re m =>
              do '(recv, st0) <- eval f re st;
              do '(vs, st1) <- eval_list args st0; do '(kvs, st2) <- eval_kw kws st1;
              match recv with
              | VOpaque => Ok (VOpaque, addlog ("opaque." ++ m) (vs ++ map snd kvs) st2)
              | VGlobal g =>
                  if String.eqb g "Tensor" && String.eqb m "fromFiber" then
                    match kwarg "rank_ids" kvs, kwarg "fiber" kvs with
                    | Some ids, Some fv =>
                        match str_list ids with
                        | Some ids => let nm := match kwarg "name" kvs with Some (VStr s) => s | _ => "" end in
                                      Ok (alloc (OTensor ids fv nm) st2)
                        | None => Er (ErrType "fromFiber: rank_ids")
                        end
                    | _, _ => Er (ErrType "fromFiber: arguments")
                    end
                  else if String.eqb g "Fiber" && String.eqb m "fromLazy" then
                    match vs with
                    | [v] => match items_of st2 v with
                             | Some l => Ok (alloc (OFiber 1 l) st2)
                             | None => Er (ErrType "fromLazy") end
                    | _ => Er (ErrType "fromLazy")
                    end
                  else if String.eqb g "Fiber" && String.eqb m "intersection" then
                    match all_some (map (items_of st2) vs) with
                    | Some (x :: rest) =>
                        (* n-ary intersection, right-nested payload tuples as the binary operator builds them *)
                        let r := fold_right (fun a acc => match acc with
                                                          | None => Some a
                                                          | Some b => Some (isect a b) end) None (x :: rest) in
                        Ok (VIter (match r with Some l => l | None => [] end), st2)
                    | _ => Er (ErrType "Fiber.intersection")
                    end
                  else Ok (VOpaque, addlog (g ++ "." ++ m) (vs ++ map snd kvs) st2)
              | _ =>
                  match hget st2 recv with
                  | Some (OTensor _ _ _) => tensor_method recv m vs kvs st2
                  | Some (ODict es) =>
                      if String.eqb m "keys" then Ok (VList (map fst es), st2)
                      else if String.eqb m "add" then
                        match vs, recv with
                        | [k], VLoc l => Ok (VNone, hset l (ODict (aset (deref st2 k) VNone es)) st2)
                        | _, _ => Er (ErrType "set.add")
                        end
                      else Er (ErrApi ("dict method " ++ m))
                  | Some (OCanvas _) => Ok (VNone, addlog ("canvas." ++ m) (recv :: vs ++ map snd kvs) st2)
                  | _ =>
                      if negb (is_fiberlike st2 recv) then Er (ErrType ("method " ++ m ++ " on a non-object")) else
                      if String.eqb m "project" then
                        match kwarg "trans_fn" kvs, items_of st2 recv with
                        | Some (VLam [x] body), Some l =>
                            let saved := PM.find x (env st2) in
                            do '(out, st3) <-
                               (fix go (l : list (value * value)) (st : state) : res (list (value * value) * state) :=
                                  match l with
                                  | [] => Ok ([], st)
                                  | (c, p) :: l' => do '(c', st') <- eval f body (setenv x c st);
                                                    do '(r, st'') <- go l' st'; Ok ((c', p) :: r, st'')
                                  end) l st2;
                            let st4 := match saved with
                                       | Some v => setenv x v st3
                                       | None => mkSt (PM.remove x (env st3)) (heap st3) (next st3) (log st3) end in
                            let out := match kwarg "interval" kvs with
                                       | Some (VTuple [lo; hi]) =>
                                           filter (fun cp => vleb (deref st4 lo) (fst cp) && vltb (fst cp) (deref st4 hi)) out
                                       | _ => out end in
                            let sorted := asort out in
                            if Nat.eqb (length sorted) (length out) then Ok (VIter sorted, st4)
                            else Er (ErrApi "project: two coordinates collide")
                        | _, _ => Er (ErrType "project: trans_fn")
                        end
                      else if String.eqb m "prune" then
                        match kwarg "trans_fn" kvs, items_of st2 recv with
                        | Some (VLam [xi; xc; xp] body), Some l =>
                            let saved := (PM.find xi (env st2), PM.find xc (env st2), PM.find xp (env st2)) in
                            do '(out, st3) <-
                               (fix go (i : Z) (l : list (value * value)) (st : state) : res (list (value * value) * state) :=
                                  match l with
                                  | [] => Ok ([], st)
                                  | (c, p) :: l' =>
                                      do '(b, st') <- eval f body (setenv xp p (setenv xc c (setenv xi (VInt i) st)));
                                      do '(r, st'') <- go (i + 1) l' st';
                                      match truthy b with
                                      | Some true => Ok ((c, p) :: r, st'')
                                      | Some false => Ok (r, st'')
                                      | None => Er (ErrType "prune: condition is not a boolean")
                                      end
                                  end) 0 l st2;
                            let restore x sv (st : state) := match sv with
                                                             | Some v => setenv x v st
                                                             | None => mkSt (PM.remove x (env st)) (heap st) (next st) (log st) end in
                            let '(si, sc, sp) := saved in
                            Ok (VIter out, restore xi si (restore xc sc (restore xp sp st3)))
                        | _, _ => Er (ErrType "prune: trans_fn")
                        end
                      else fiber_method recv m vs kvs st2
                  end
              end
          | _ =>
              do '(fv, st0) <- eval f fe st;
              do '(vs, st1) <- eval_list args st0; do '(kvs, st2) <- eval_kw kws st1;
              match fv with
              | VGlobal g => global_call g vs kvs st2
              | VOpaque => Ok (VOpaque, st2)
              | _ => Er (ErrType "call of a non-function")
              end
          end
      end
  end.

Definition assign (fuel : nat) (t : target) (v : value) (st : state) : res state :=
  match t with
  | TName x => Ok (setenv x v st)
  | TSub a i =>
      do '(va, st1) <- eval fuel a st; do '(vi, st2) <- eval fuel i st1;
      match va, hget st2 va with
      | VLoc l, Some (ODict es) => Ok (hset l (ODict (aset (deref st2 vi) v es)) st2)
      | VOpaque, _ => Ok st2
      | _, _ => Er (ErrType "subscript assignment to a non-dict")
      end
  end.

Fixpoint exec (fuel : nat) (s : stmt) (st : state) {struct fuel} : res state :=
  match fuel with
  | O => Er ErrFuel
  | S f =>
      let exec_block :=
        fix go (ss : list stmt) (st : state) : res state :=
          match ss with
          | [] => Ok st
          | s :: ss' => do st' <- exec f s st; go ss' st'
          end in
      match s with
      | SAssign t e => do '(v, st1) <- eval f e st; assign f t v st1
      | SExpr e => do '(_, st1) <- eval f e st; Ok st1
      | SAug op t e =>
          do '(v, st1) <- eval f e st;
          match t with
          | TName x =>
              match PM.find x (env st1) with
              | None => Er (ErrUnbound x)
              | Some old =>
                  do nv <- aug_value op old v st1;
                  match old, hget st1 old with
                  | VLoc l, Some (OCell _) => Ok (addlog "update" [] (hset l (OCell nv) st1))
                  | VLoc _, _ => Er (ErrType "augmented assignment to a non-payload object")
                  | _, _ => Ok (setenv x nv st1)
                  end
              end
          | TSub a i =>
              do '(old, st2) <- eval f (ESub a i) st1;
              do nv <- aug_value op old v st2;
              match old, hget st2 old with
              | VLoc l, Some (OCell _) => Ok (hset l (OCell nv) st2)
              | _, _ => assign f t nv st2
              end
          end
      | SFor p e body =>
          do '(vi, st1) <- eval f e st;
          match iter_elems st1 vi with
          | None => Er (ErrType "for over a non-iterable")
          | Some elems =>
              (fix go (vs : list value) (st : state) : res state :=
                 match vs with
                 | [] => Ok st
                 | v :: vs' => do st' <- bind_pat p v st; do st'' <- exec_block body st'; go vs' st''
                 end) elems st1
          end
      | SIf c a b =>
          do '(vc, st1) <- eval f c st;
          match truthy (deref st1 vc) with
          | Some true => exec_block a st1
          | Some false => exec_block b st1
          | None => Er (ErrType "condition is not a boolean")
          end
      end
  end.

Fixpoint exec_prog (fuel : nat) (p : program) (st : state) : res state :=
  match p with
  | [] => Ok st
  | s :: p' => do st' <- exec fuel s st; exec_prog fuel p' st'
  end.
