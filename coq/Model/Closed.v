(* C06: definite-assignment analysis of emitted programs (Model/Py.v).
   `da B p = Some D` : starting with the names B bound, no statement of p reads an unbound
   name on ANY path (loops may run zero or more times, either branch of an if), and after
   p at least D is bound.  Loop targets and names first assigned inside a loop body do not
   flow out of the loop (it may run zero times) - which is also "loop variables are used
   only inside their loop".  Lambda parameters and comprehension variables are bound in
   their body only. *)
From Coq Require Import List Bool PArith FSets.FSetPositive.
Require Import TV.Model.Py.
Import ListNotations.

Module PS := PositiveSet.

Fixpoint expr_ok (B : PS.t) (e : expr) {struct e} : bool :=
  match e with
  | EName x => PS.mem x B
  | EInt _ | EStr _ | EBool _ | ENone => true
  | EBin _ a b => expr_ok B a && expr_ok B b
  | ENeg a => expr_ok B a
  | ECmp _ a b => expr_ok B a && expr_ok B b
  | ECall f args kw =>
      expr_ok B f && forallb (expr_ok B) args &&
      (fix go (kw : list (String.string * expr)) : bool :=
         match kw with [] => true | (_, e) :: kw' => expr_ok B e && go kw' end) kw
  | EAttr a _ => expr_ok B a
  | ESub a i => expr_ok B a && expr_ok B i
  | ETuple l | EList l => forallb (expr_ok B) l
  | EDict l =>
      (fix go (l : list (expr * expr)) : bool :=
         match l with [] => true | (k, v) :: l' => expr_ok B k && expr_ok B v && go l' end) l
  | ELam ps body => expr_ok (fold_right PS.add B ps) body
  | EComp elem x it => expr_ok B it && expr_ok (PS.add x B) elem
  end.

Fixpoint pat_vars (p : pat) : list positive :=
  match p with
  | PName x => [x]
  | PTup l => flat_map pat_vars l
  end.

Definition add_all (xs : list positive) (B : PS.t) : PS.t := fold_right PS.add B xs.

Definition target_ok (B : PS.t) (t : target) : bool :=
  match t with
  | TName _ => true
  | TSub a i => expr_ok B a && expr_ok B i
  end.

Fixpoint da (B : PS.t) (s : stmt) {struct s} : option PS.t :=
  let da_block :=
    fix go (B : PS.t) (ss : list stmt) : option PS.t :=
      match ss with
      | [] => Some B
      | s :: ss' => match da B s with Some B' => go B' ss' | None => None end
      end in
  match s with
  | SAssign t e =>
      if expr_ok B e && target_ok B t
      then Some (match t with TName x => PS.add x B | TSub _ _ => B end) else None
  | SAug _ t e =>
      if expr_ok B e && target_ok B t && (match t with TName x => PS.mem x B | TSub _ _ => true end)
      then Some B else None
  | SExpr e => if expr_ok B e then Some B else None
  | SFor p e body =>
      if expr_ok B e
      then match da_block (add_all (pat_vars p) B) body with Some _ => Some B | None => None end
      else None
  | SIf c a b =>
      if expr_ok B c
      then match da_block B a, da_block B b with
           | Some Da, Some Db => Some (PS.inter Da Db)
           | _, _ => None
           end
      else None
  end.

Fixpoint da_block (B : PS.t) (ss : list stmt) : option PS.t :=
  match ss with
  | [] => Some B
  | s :: ss' => match da B s with Some B' => da_block B' ss' | None => None end
  end.

(* first unbound read, for the replay: Some x if the analysis fails because of x *)
Fixpoint first_unbound_expr (B : PS.t) (e : expr) {struct e} : option positive :=
  let first :=
    fix go (l : list expr) : option positive :=
      match l with [] => None | e :: l' => match first_unbound_expr B e with Some x => Some x | None => go l' end end in
  match e with
  | EName x => if PS.mem x B then None else Some x
  | EInt _ | EStr _ | EBool _ | ENone => None
  | EBin _ a b | ECmp _ a b | ESub a b => match first_unbound_expr B a with Some x => Some x | None => first_unbound_expr B b end
  | ENeg a | EAttr a _ => first_unbound_expr B a
  | ECall f args kw =>
      match first_unbound_expr B f with
      | Some x => Some x
      | None => match first args with
                | Some x => Some x
                | None => (fix go (kw : list (String.string * expr)) : option positive :=
                             match kw with [] => None
                                      | (_, e) :: kw' => match first_unbound_expr B e with Some x => Some x | None => go kw' end end) kw
                end
      end
  | ETuple l | EList l => first l
  | EDict l =>
      (fix go (l : list (expr * expr)) : option positive :=
         match l with [] => None
                 | (k, v) :: l' => match first_unbound_expr B k with
                                   | Some x => Some x
                                   | None => match first_unbound_expr B v with Some x => Some x | None => go l' end end end) l
  | ELam ps body => first_unbound_expr (fold_right PS.add B ps) body
  | EComp elem x it => match first_unbound_expr B it with Some x' => Some x' | None => first_unbound_expr (PS.add x B) elem end
  end.

Definition first_unbound_target (B : PS.t) (t : target) : option positive :=
  match t with
  | TName _ => None
  | TSub a i => match first_unbound_expr B a with Some x => Some x | None => first_unbound_expr B i end
  end.

Fixpoint first_unbound (B : PS.t) (s : stmt) {struct s} : option positive :=
  let blk :=
    fix go (B : PS.t) (ss : list stmt) : option positive :=
      match ss with
      | [] => None
      | s :: ss' => match first_unbound B s with
                    | Some x => Some x
                    | None => match da B s with Some B' => go B' ss' | None => None end
                    end
      end in
  match s with
  | SAssign t e => match first_unbound_expr B e with Some x => Some x | None => first_unbound_target B t end
  | SAug _ t e =>
      match first_unbound_expr B e with
      | Some x => Some x
      | None => match first_unbound_target B t with
                | Some x => Some x
                | None => match t with TName x => if PS.mem x B then None else Some x | _ => None end
                end
      end
  | SExpr e => first_unbound_expr B e
  | SFor p e body => match first_unbound_expr B e with Some x => Some x | None => blk (add_all (pat_vars p) B) body end
  | SIf c a b => match first_unbound_expr B c with
                 | Some x => Some x
                 | None => match blk B a with Some x => Some x | None => blk B b end
                 end
  end.

Fixpoint first_unbound_block (B : PS.t) (ss : list stmt) : option positive :=
  match ss with
  | [] => None
  | s :: ss' => match first_unbound B s with
                | Some x => Some x
                | None => match da B s with Some B' => first_unbound_block B' ss' | None => None end
                end
  end.

Definition of_list (xs : list positive) : PS.t := fold_right PS.add PS.empty xs.

(* ------------------------------------------------------------------------------------
   The path semantics the analysis is sound for: only WHICH NAMES ARE BOUND is tracked;
   values are abstracted, so every control path is possible. *)
Inductive outcome := Fine (B : PS.t) | Unbound.

Inductive sem : PS.t -> stmt -> outcome -> Prop :=
| sem_assign_name B x e : expr_ok B e = true -> sem B (SAssign (TName x) e) (Fine (PS.add x B))
| sem_assign_sub B a i e : expr_ok B e = true -> target_ok B (TSub a i) = true -> sem B (SAssign (TSub a i) e) (Fine B)
| sem_assign_unb B t e : expr_ok B e && target_ok B t = false -> sem B (SAssign t e) Unbound
| sem_aug_ok B op t e :
    expr_ok B e && target_ok B t && (match t with TName x => PS.mem x B | TSub _ _ => true end) = true ->
    sem B (SAug op t e) (Fine B)
| sem_aug_unb B op t e :
    expr_ok B e && target_ok B t && (match t with TName x => PS.mem x B | TSub _ _ => true end) = false ->
    sem B (SAug op t e) Unbound
| sem_expr_ok B e : expr_ok B e = true -> sem B (SExpr e) (Fine B)
| sem_expr_unb B e : expr_ok B e = false -> sem B (SExpr e) Unbound
| sem_for_unb_iter B p e body : expr_ok B e = false -> sem B (SFor p e body) Unbound
| sem_for_iters B p e body o : expr_ok B e = true -> sem_loop B p body o -> sem B (SFor p e body) o
| sem_if_unb B c a b : expr_ok B c = false -> sem B (SIf c a b) Unbound
| sem_if_then B c a b o : expr_ok B c = true -> sem_block B a o -> sem B (SIf c a b) o
| sem_if_else B c a b o : expr_ok B c = true -> sem_block B b o -> sem B (SIf c a b) o
(* zero or more iterations; the targets are (re)bound at the start of each one *)
with sem_loop : PS.t -> pat -> list stmt -> outcome -> Prop :=
| loop_done B p body : sem_loop B p body (Fine B)
| loop_iter B p body B1 o :
    sem_block (add_all (pat_vars p) B) body (Fine B1) -> sem_loop B1 p body o -> sem_loop B p body o
| loop_unb B p body : sem_block (add_all (pat_vars p) B) body Unbound -> sem_loop B p body Unbound
with sem_block : PS.t -> list stmt -> outcome -> Prop :=
| block_nil B : sem_block B [] (Fine B)
| block_cons B s ss B1 o : sem B s (Fine B1) -> sem_block B1 ss o -> sem_block B (s :: ss) o
| block_unb B s ss : sem B s Unbound -> sem_block B (s :: ss) Unbound.
