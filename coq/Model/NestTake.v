(* take() terms in the loop-nest abstraction (C01).  A term is a product of all its operands (selector None) or
   take(op_0, ..., op_n, i) (selector Some i): where every operand is non-zero the term's value is operand i's value,
   elsewhere 0.  The emitted program co-iterates a take term exactly like a product (intersection of the participants at
   every level) and its update adds the selected operand's leaf value; `sleaf` is that text-level update, `sden` the
   Einsum-level meaning.  Definitions only; proofs in Proofs/NestTakeProofs.v. *)
From Coq Require Import ZArith List Bool Lia String.
Require Import TV.Model.Nest.
Import ListNotations.
Open Scope Z_scope.

Definition sterm := (option nat * term)%type.

Definition nonzero_at (p : point) (t : tstate) : bool := negb (den (rem t) (cur t) p =? 0).

(* what the term means (Einsum level) *)
Definition sden (st : sterm) (p : point) : Z :=
  match fst st with
  | None => term_den (snd st) p
  | Some i => if forallb (nonzero_at p) (snd st)
              then den (rem (nth i (snd st) dummy_t)) (cur (nth i (snd st) dummy_t)) p else 0
  end.
Definition sbody_den (sts : list sterm) (p : point) : Z := fold_right (fun st acc => sden st p + acc) 0 sts.

(* what the emitted update adds for the term at the bottom of the nest (text level) *)
Definition sleaf (st : sterm) : Z :=
  match fst st with
  | None => term_leaf (snd st)
  | Some i => leaf_val (nth i (snd st) dummy_t)
  end.

Fixpoint runS (L : list rank) (sts : list sterm) : list contrib :=
  match L with
  | [] => [([], fold_right (fun st acc => sleaf st + acc) 0 sts)]
  | r :: L' => flat_map (fun c => map (fun qv => ((r, c) :: fst qv, snd qv))
                                      (runS L' (map (fun st => (fst st, step_term r c (snd st))) sts)))
                        (visited r (map snd sts))
  end.

(* input tries: stored leaves are non-zero, stored fibers are non-empty, depth = number of remaining ranks *)
Fixpoint goodb (rs : list rank) (t : trie) {struct t} : bool :=
  match rs, t with
  | [], Leaf v => negb (v =? 0)
  | _ :: rs', Node l => negb (match l with [] => true | _ => false end)
                        && forallb (fun ct => match ct with (_, t') => goodb rs' t' end) l
  | _, _ => false
  end.

Definition isdef (t : tstate) : bool :=
  match rem t, cur t with
  | [], Leaf v => v =? 0
  | _ :: _, Node [] => true
  | _, _ => false
  end.

(* the side condition for a take term, on the rank structure alone: the selected operand exists and holds every loop
   rank, in loop order (so whenever the term dies at a level the selected operand is among the killed participants) *)
Fixpoint ranks_eqb (a b : list rank) : bool :=
  match a, b with [], [] => true | x :: a', y :: b' => String.eqb x y && ranks_eqb a' b' | _, _ => false end.
Definition take_okb (L : list rank) (sel : option nat) (tm_sh : list (list rank)) : bool :=
  match sel with
  | None => true
  | Some i => (i <? List.length tm_sh)%nat && ranks_eqb (nth i tm_sh []) L
  end.
Definition takes_okb (L : list rank) (sels : list (option nat)) (sh : shape) : bool :=
  (List.length sels =? List.length sh)%nat && forallb (fun x => take_okb L (fst x) (snd x)) (combine sels sh).

(* the update statement of a program with take terms: a product term multiplies every operand once, a take term's
   summand is the selected operand alone *)
Fixpoint sleaf_okb (lv : leaf_view) (sels : list (option nat)) (lens : list nat) : bool :=
  match lv, sels, lens with
  | [], [], [] => true
  | ps :: lv', s :: sels', n :: lens' =>
      nats_eqb ps (match s with None => seq 0 n | Some i => [i] end) && sleaf_okb lv' sels' lens'
  | _, _, _ => false
  end.

Definition nest_take_full_okb (L : list rank) (sh : shape) (views : list level_view) (sels : list (option nat))
           (acc : bool) (lv : leaf_view) (out : list rank) : bool :=
  nest_okb L sh views && takes_okb L sels sh && sleaf_okb lv sels (map (@List.length _) sh) && op_okb acc L out.

(* a single-term program: a take may select ANY of its operands *)
Definition nest_take1_full_okb (L : list rank) (tsh : list (list rank)) (views : list level_view) (s : option nat)
           (acc : bool) (lv : leaf_view) (out : list rank) : bool :=
  nest_okb L [tsh] views && (match s with None => true | Some i => (i <? List.length tsh)%nat end)
  && sleaf_okb lv [s] [List.length tsh] && op_okb acc L out.
