(* Mirror of teaal/hifiber/*.py (constructor for constructor, EParens included), the
   forgetful map `strip` into the Python AST of Model/Py.v, the normal form modulo
   re-association of chains of one associative arithmetic operator, and decidable equality.
   tools/obj2coq.py dumps the object tree the translator built into `hstmt`. *)
From Coq Require Import String List ZArith Bool.
Require Import TV.Model.Py.
Import ListNotations.

Inductive hop := HAdd | HAnd | HDiv | HEqEq | HFDiv | HIn | HLt | HLtLt | HMod | HMul | HNotIn | HOr | HSub.

Inductive hexpr :=
| HAccess (obj ind : hexpr)
| HBinOp (a : hexpr) (op : hop) (b : hexpr)
| HBool (b : bool)
| HComp (elem : hexpr) (var : positive) (iter : hexpr)
| HDict (l : list (hexpr * hexpr))
| HField (obj : positive) (field : string)
| HFloatInf (neg : bool)
| HFloatLit (hex : string)                  (* a finite EFloat: its exact value as float.hex() *)
| HFunc (name : positive) (args : list (option string * hexpr))     (* None: AJust, Some k: AParam k *)
| HInt (z : Z)
| HLambda (args : list positive) (body : hexpr)
| HList (l : list hexpr)
| HMethod (obj : hexpr) (name : string) (args : list (option string * hexpr))
| HParens (e : hexpr)
| HString (s : string)
| HTuple (l : list hexpr)
| HVar (x : positive)
| HNone.                                   (* EVar("None"): the tree spells Python's None as a variable *)

Inductive hassn := HAAccess (obj ind : hexpr) | HAField (obj : positive) (field : string) | HAVar (x : positive).
Inductive hpayload := HPTuple (l : list hpayload) | HPVar (x : positive).

Inductive hstmt :=
| HSAssign (a : hassn) (e : hexpr)
| HSBlock (l : list hstmt)
| HSExpr (e : hexpr)
| HSFor (p : hpayload) (e : hexpr) (body : hstmt)
| HSIAssign (a : hassn) (op : hop) (e : hexpr)
| HSIf (c : hexpr) (t : hstmt) (elifs : list (hexpr * hstmt)) (els : option hstmt).

(* ---- strip: forget parentheses and the Just/Param, BinOp/Compare distinctions ---- *)
Definition op_bin (o : hop) : option binop :=
  match o with
  | HAdd => Some BAdd | HAnd => Some BAnd | HDiv => Some BDiv | HFDiv => Some BFDiv | HLtLt => Some BShl
  | HMod => Some BMod | HMul => Some BMul | HOr => Some BOr | HSub => Some BSub
  | _ => None
  end.
Definition op_cmp (o : hop) : option cmpop :=
  match o with HEqEq => Some CEq | HIn => Some CIn | HLt => Some CLt | HNotIn => Some CNotIn | _ => None end.

Definition int_lit (z : Z) : expr := if (z <? 0)%Z then ENeg (EInt (- z)) else EInt z.

Fixpoint strip (float_id : positive) (h : hexpr) {struct h} : expr :=
  let args_pos := fix go (l : list (option string * hexpr)) : list expr :=
                    match l with
                    | [] => []
                    | (None, e) :: l' => strip float_id e :: go l'
                    | (Some _, _) :: l' => go l'
                    end in
  let args_kw := fix go (l : list (option string * hexpr)) : list (string * expr) :=
                   match l with
                   | [] => []
                   | (Some k, e) :: l' => (k, strip float_id e) :: go l'
                   | (None, _) :: l' => go l'
                   end in
  match h with
  | HAccess o i => ESub (strip float_id o) (strip float_id i)
  | HBinOp a op b =>
      match op_bin op, op_cmp op with
      | Some o, _ => EBin o (strip float_id a) (strip float_id b)
      | None, Some c => ECmp c (strip float_id a) (strip float_id b)
      | None, None => ENone
      end
  | HBool b => EBool b
  | HComp e x it => EComp (strip float_id e) x (strip float_id it)
  | HDict l => EDict ((fix go (l : list (hexpr * hexpr)) : list (expr * expr) :=
                         match l with [] => [] | (k, v) :: l' => (strip float_id k, strip float_id v) :: go l' end) l)
  | HField o f => EAttr (EName o) f
  | HFloatInf neg =>
      let inf := ECall (EName float_id) [EStr "inf"] [] in if neg then ENeg inf else inf
  | HFloatLit hex => ECall (EAttr (EName float_id) "fromhex") [EStr hex] []      (* both sides spell a finite float literal as float.fromhex(<exact value>) *)
  | HFunc n args => ECall (EName n) (args_pos args) (args_kw args)
  | HInt z => int_lit z
  | HLambda ps b => ELam ps (strip float_id b)
  | HList l => EList (map (strip float_id) l)
  | HMethod o n args => ECall (EAttr (strip float_id o) n) (args_pos args) (args_kw args)
  | HParens e => strip float_id e
  | HString s => EStr s
  | HTuple l => ETuple (map (strip float_id) l)
  | HVar x => EName x
  | HNone => ENone
  end.

(* positional arguments must precede keyword arguments for the text to mean the same call *)
Fixpoint args_ordered (l : list (option string * hexpr)) (seen_kw : bool) : bool :=
  match l with
  | [] => true
  | (None, _) :: l' => negb seen_kw && args_ordered l' seen_kw
  | (Some _, _) :: l' => args_ordered l' true
  end.

Definition strip_assn (fid : positive) (a : hassn) : target + expr :=
  match a with
  | HAAccess o i => inl (TSub (strip fid o) (strip fid i))
  | HAVar x => inl (TName x)
  | HAField o f => inr (EAttr (EName o) f)        (* attribute targets are outside Model/Py.v *)
  end.

Fixpoint strip_pat (p : hpayload) : pat :=
  match p with
  | HPVar x => PName x
  | HPTuple l => PTup (map strip_pat l)
  end.

(* a top-level loop target `a, b` is a tuple; a one-element PTuple prints as `(x)` = a name *)
Fixpoint strip_stmt (fid : positive) (s : hstmt) {struct s} : option (list stmt) :=
  let blk := fix go (l : list hstmt) : option (list stmt) :=
               match l with
               | [] => Some []
               | s :: l' => match strip_stmt fid s, go l' with
                            | Some a, Some b => Some (a ++ b)
                            | _, _ => None end
               end in
  match s with
  | HSAssign a e => match strip_assn fid a with inl t => Some [SAssign t (strip fid e)] | inr _ => None end
  | HSBlock l => blk l
  | HSExpr e => Some [SExpr (strip fid e)]
  | HSFor p e body => match strip_stmt fid body with
                      | Some b => Some [SFor (strip_pat p) (strip fid e) b]
                      | None => None end
  | HSIAssign a op e => match strip_assn fid a, op_bin op with
                        | inl t, Some o => Some [SAug o t (strip fid e)]
                        | _, _ => None end
  | HSIf c t elifs els =>
      let tail :=
        (fix go (l : list (hexpr * hstmt)) : option (list stmt) :=
           match l with
           | [] => match els with
                   | None => Some []
                   | Some e => strip_stmt fid e
                   end
           | (c', s') :: l' => match strip_stmt fid s', go l' with
                               | Some a, Some b => Some [SIf (strip fid c') a b]
                               | _, _ => None end
           end) elifs in
      match strip_stmt fid t, tail with
      | Some a, Some b => Some [SIf (strip fid c) a b]
      | _, _ => None
      end
  end.

(* ---- normal form modulo re-association of + chains and of * chains ---- *)
Definition binop_eqb (a b : binop) : bool :=
  match a, b with
  | BAdd, BAdd | BSub, BSub | BMul, BMul | BDiv, BDiv | BFDiv, BFDiv | BMod, BMod | BAnd, BAnd | BOr, BOr | BShl, BShl => true
  | _, _ => false
  end.
Definition assoc_op (o : binop) : bool := match o with BAdd | BMul => true | _ => false end.

(* operands of a left-nested chain of `op` *)
Fixpoint chain (op : binop) (e : expr) : list expr :=
  match e with
  | EBin o l r => if binop_eqb o op then chain op l ++ [r] else [e]
  | _ => [e]
  end.
Definition rebuild (op : binop) (l : list expr) : expr :=
  match l with
  | [] => ENone
  | x :: rest => fold_left (EBin op) rest x
  end.

Fixpoint norm (e : expr) {struct e} : expr :=
  match e with
  | EBin op a b =>
      let a' := norm a in
      let b' := norm b in
      if assoc_op op then rebuild op (chain op a' ++ chain op b') else EBin op a' b'
  | ENeg a => ENeg (norm a)
  | ECmp c a b => ECmp c (norm a) (norm b)
  | ECall f args kw =>
      ECall (norm f) (map norm args)
            ((fix go (l : list (string * expr)) := match l with [] => [] | (k, v) :: l' => (k, norm v) :: go l' end) kw)
  | EAttr a s => EAttr (norm a) s
  | ESub a i => ESub (norm a) (norm i)
  | ETuple l => ETuple (map norm l)
  | EList l => EList (map norm l)
  | EDict l => EDict ((fix go (l : list (expr * expr)) := match l with [] => [] | (k, v) :: l' => (norm k, norm v) :: go l' end) l)
  | ELam ps b => ELam ps (norm b)
  | EComp a x it => EComp (norm a) x (norm it)
  | _ => e
  end.

Definition norm_target (t : target) : target :=
  match t with TName x => TName x | TSub a i => TSub (norm a) (norm i) end.

Fixpoint norm_stmt (s : stmt) {struct s} : stmt :=
  match s with
  | SAssign t e => SAssign (norm_target t) (norm e)
  | SAug o t e => SAug o (norm_target t) (norm e)
  | SExpr e => SExpr (norm e)
  | SFor p e body => SFor p (norm e) (map norm_stmt body)
  | SIf c a b => SIf (norm c) (map norm_stmt a) (map norm_stmt b)
  end.

(* ---- decidable equality (sumbool: sound by construction) ---- *)
Definition binop_eq_dec (a b : binop) : {a = b} + {a <> b}. Proof. decide equality. Defined.
Definition cmpop_eq_dec (a b : cmpop) : {a = b} + {a <> b}. Proof. decide equality. Defined.

Fixpoint expr_eq_dec (a b : expr) {struct a} : {a = b} + {a <> b}.
Proof.
  decide equality;
    try apply Pos.eq_dec; try apply Z.eq_dec; try apply string_dec; try apply bool_dec;
    try apply binop_eq_dec; try apply cmpop_eq_dec;
    try (apply list_eq_dec; try apply Pos.eq_dec; try exact expr_eq_dec;
         intros [x1 y1] [x2 y2]; decide equality; try apply string_dec; apply expr_eq_dec).
Defined.

Fixpoint pat_eq_dec (a b : pat) {struct a} : {a = b} + {a <> b}.
Proof. decide equality; try apply Pos.eq_dec. apply list_eq_dec. exact pat_eq_dec. Defined.

Definition target_eq_dec (a b : target) : {a = b} + {a <> b}.
Proof. decide equality; try apply Pos.eq_dec; apply expr_eq_dec. Defined.

Fixpoint stmt_eq_dec (a b : stmt) {struct a} : {a = b} + {a <> b}.
Proof.
  decide equality; try apply expr_eq_dec; try apply target_eq_dec; try apply binop_eq_dec; try apply pat_eq_dec;
    apply list_eq_dec; exact stmt_eq_dec.
Defined.

(* index of the first top-level statement that differs *)
Fixpoint first_diff (n : nat) (a b : list stmt) : option nat :=
  match a, b with
  | [], [] => None
  | x :: a', y :: b' => if stmt_eq_dec x y then first_diff (S n) a' b' else Some n
  | _, _ => Some n
  end.

(* every call of the tree lists positional arguments before keyword arguments *)
Fixpoint calls_ok (h : hexpr) {struct h} : bool :=
  let all := fix go (l : list (option string * hexpr)) : bool :=
               match l with [] => true | (_, e) :: l' => calls_ok e && go l' end in
  match h with
  | HAccess a b | HBinOp a _ b => calls_ok a && calls_ok b
  | HComp a _ b => calls_ok a && calls_ok b
  | HDict l => (fix go (l : list (hexpr * hexpr)) : bool := match l with [] => true | (k, v) :: l' => calls_ok k && calls_ok v && go l' end) l
  | HFunc _ args => args_ordered args false && all args
  | HMethod o _ args => calls_ok o && args_ordered args false && all args
  | HLambda _ b | HParens b => calls_ok b
  | HList l | HTuple l => forallb calls_ok l
  | _ => true
  end.

Require Import TV.Model.Show.
Open Scope string_scope.
(* C09 verdict for one program: the tree the translator built vs CPython's parse of its text *)
Definition c09_check (fid : positive) (h : hstmt) (p : program) : string :=
  match strip_stmt fid h with
  | None => "UNSTRIPPABLE"
  | Some q => match first_diff 0 (map norm_stmt q) (map norm_stmt p) with
              | None => "OK"
              | Some n => "DIFF@" ++ show_nat n
              end
  end.
(* the same without the associativity normal form (recorded, not required) *)
Definition c09_exact (fid : positive) (h : hstmt) (p : program) : bool :=
  match strip_stmt fid h with
  | None => false
  | Some q => match first_diff 0 q p with None => true | Some _ => false end
  end.
