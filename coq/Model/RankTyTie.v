(* C07: what the concrete interpreter (Model/Interp.v) reports for the tensor-named variables of a final
   state, rendered like Model/RankTy.show_var, so that tools/props/c07.py can compare the prediction of the
   abstract rank-id semantics with the executed program (the cheap correspondence tie). *)
From Coq Require Import String List ZArith Bool FMapPositive.
Require Import TV.Model.Show TV.Model.Py TV.Model.Rt TV.Model.Interp TV.Model.Einsum TV.Model.Harness.
Import ListNotations.
Open Scope string_scope.

Definition final_ids (st : state) (x : positive) : string :=
  show_N (Npos x) ++ ":" ++
  match PM.find x (env st) with
  | None => "U"
  | Some tv => match get_tensor st tv with
               | Some (ids, _, _) => "M:" ++ String.concat "," ids
               | None => "N" end
  end.

(* Harness.report, followed by the rank ids of every tensor-named variable *)
Definition report_c07 (c : rcase) : string :=
  match run_state c with
  | Er e => "ERR " ++ show_err e
  | Ok st =>
      "RAN;" ++ all_ok (map (check_out st) (c_outs c)) ++ ";" ++ all_ok (map (check_input st) (c_inputs c)) ++ ";" ++
      all_ok (map (check_name st) (c_names c)) ++ ";" ++ canvas_report st ++ ";" ++
      String.concat " " (map (fun n => final_ids st (fst n)) (c_names c))
  end.
