(* The modelled runtime: Python numbers (ints and binary64 floats), values, the
   heap, pure fiber tries and the fibertree operations that emitted programs use.
   fibertree itself is not available in the sandbox: this file is the contract
   (DESIGN.md 4.2) and is part of the trusted base of every execution. *)
From Coq Require Import String List ZArith Bool PrimFloat Uint63 FloatOps SpecFloat FMapPositive.
Require Import TV.Model.Py.
Import ListNotations.
Open Scope Z_scope.

(* ------------------------------------------------------------------ numbers *)
Definition z2f (z : Z) : float :=
  match z with
  | Z0 => PrimFloat.zero
  | Zpos p => PrimFloat.of_uint63 (Uint63.of_Z z)
  | Zneg p => PrimFloat.opp (PrimFloat.of_uint63 (Uint63.of_Z (Zpos p)))
  end.

Definition f2z_trunc (f : float) : option Z :=
  match Prim2SF f with
  | S754_zero _ => Some 0
  | S754_finite s m e =>
      let mag := if (0 <=? e) then Z.shiftl (Zpos m) e else Z.shiftr (Zpos m) (- e) in
      Some (if s then - mag else mag)
  | _ => None
  end.

Definition f_integral (f : float) : option Z :=
  match f2z_trunc f with
  | Some z => if PrimFloat.eqb (z2f z) f then Some z else None
  | None => None
  end.

Inductive num := NI (z : Z) | NF (f : float).

Definition n2f (n : num) : float := match n with NI z => z2f z | NF f => f end.
Definition small (z : Z) : bool := Z.abs z <? 9007199254740992.

Definition nadd a b := match a, b with NI x, NI y => NI (x + y) | _, _ => NF (PrimFloat.add (n2f a) (n2f b)) end.
Definition nsub a b := match a, b with NI x, NI y => NI (x - y) | _, _ => NF (PrimFloat.sub (n2f a) (n2f b)) end.
Definition nmul a b := match a, b with NI x, NI y => NI (x * y) | _, _ => NF (PrimFloat.mul (n2f a) (n2f b)) end.
Definition nneg a := match a with NI x => NI (- x) | NF f => NF (PrimFloat.opp f) end.
Definition nis0 a := match a with NI x => x =? 0 | NF f => PrimFloat.eqb f PrimFloat.zero end.
(* true division: always a float, ZeroDivisionError on 0 *)
Definition ndiv a b : option num := if nis0 b then None else Some (NF (PrimFloat.div (n2f a) (n2f b))).
Definition nfdiv a b : option num :=
  match a, b with NI x, NI y => if y =? 0 then None else Some (NI (x / y)) | _, _ => None end.
(* float % 1 as CPython computes it (fmod, then sign adjustment) *)
Definition nmod a b : option num :=
  match a, b with
  | NI x, NI y => if y =? 0 then None else Some (NI (x mod y))
  | NF f, NI 1 =>
      match f2z_trunc f with
      | Some t => let r := PrimFloat.sub f (z2f t) in
                  Some (NF (if PrimFloat.ltb r PrimFloat.zero then PrimFloat.add r PrimFloat.one else r))
      | None => None
      end
  | _, _ => None
  end.
Definition ncmp a b : option comparison :=
  match a, b with
  | NI x, NI y => Some (x ?= y)
  | _, _ => match PrimFloat.compare (n2f a) (n2f b) with
            | FEq => Some Eq | FLt => Some Lt | FGt => Some Gt | FNotComparable => None end
  end.

(* ------------------------------------------------------------------- values *)
Inductive value :=
| VInt (z : Z)
| VFloat (f : float)
| VStr (s : string)
| VBool (b : bool)
| VNone
| VTuple (l : list value)
| VList (l : list value)
| VLoc (l : positive)                       (* heap reference: tensor, fiber, payload cell, dict, canvas *)
| VLam (ps : list positive) (body : expr)
| VIter (items : list (value * value))      (* result of iterating fibers: (coordinate, payload) *)
| VZero                                     (* default payload on a miss: 0 as a number, empty as a fiber *)
| VGlobal (s : string)                      (* an API name supplied by the environment *)
| VOpaque.                                  (* result of an observation-only API call *)

Inductive obj :=
| OCell (v : value)
| OFiber (rem : nat) (elems : list (value * value))
| OTensor (rank_ids : list string) (root : value) (name : string)
| ODict (entries : list (value * value))
| OCanvas (ntensors : nat).

Definition as_num (v : value) : option num :=
  match v with VInt z => Some (NI z) | VFloat f => Some (NF f) | VZero => Some (NI 0)
             | VBool b => Some (NI (if b then 1 else 0)) | _ => None end.
Definition of_num (n : num) : value := match n with NI z => VInt z | NF f => VFloat f end.

Fixpoint vcmp (a b : value) {struct a} : option comparison :=
  match a, b with
  | VTuple la, VTuple lb =>
      (fix go (la lb : list value) : option comparison :=
         match la, lb with
         | [], [] => Some Eq
         | [], _ => Some Lt
         | _, [] => Some Gt
         | x :: la', y :: lb' => match vcmp x y with
                                 | Some Eq => go la' lb'
                                 | r => r end
         end) la lb
  | VStr s, VStr t => Some (String.compare s t)
  | _, _ => match as_num a, as_num b with Some x, Some y => ncmp x y | _, _ => None end
  end.

Definition veqb (a b : value) : bool :=
  match a, b with
  | VLoc x, VLoc y => Pos.eqb x y
  | VNone, VNone => true
  | VBool x, VBool y => Bool.eqb x y
  | _, _ => match vcmp a b with Some Eq => true | _ => false end
  end.
Definition vltb (a b : value) : bool := match vcmp a b with Some Lt => true | _ => false end.
Definition vleb (a b : value) : bool := match vcmp a b with Some Lt | Some Eq => true | _ => false end.

Fixpoint alookup {A} (c : value) (l : list (value * A)) : option A :=
  match l with
  | [] => None
  | (c', x) :: l' => if veqb c c' then Some x else alookup c l'
  end.
Fixpoint aset {A} (c : value) (x : A) (l : list (value * A)) : list (value * A) :=
  match l with
  | [] => [(c, x)]
  | (c', y) :: l' => if veqb c c' then (c, x) :: l' else (c', y) :: aset c x l'
  end.
(* insert keeping coordinates increasing; replaces an equal coordinate *)
Fixpoint ainsert {A} (c : value) (x : A) (l : list (value * A)) : list (value * A) :=
  match l with
  | [] => [(c, x)]
  | (c', y) :: l' => if vltb c c' then (c, x) :: l
                     else if veqb c c' then (c, x) :: l'
                     else (c', y) :: ainsert c x l'
  end.
Definition asort {A} (l : list (value * A)) : list (value * A) :=
  fold_left (fun acc cx => ainsert (fst cx) (snd cx) acc) l [].

(* -------------------------------------------------------------------- tries *)
Inductive trie := TLeaf (v : value) | TNode (l : list (value * trie)).

Definition tchildren (t : trie) : list (value * trie) := match t with TNode l => l | TLeaf _ => [] end.

(* all root-to-leaf paths, in order *)
Fixpoint paths (t : trie) : list (list value * value) :=
  match t with
  | TLeaf v => [([], v)]
  | TNode l => flat_map (fun ct => map (fun pv => (fst ct :: fst pv, snd pv)) (paths (snd ct))) l
  end.

Definition vadd (a b : value) : value :=
  match as_num a, as_num b with Some x, Some y => of_num (nadd x y) | _, _ => VOpaque end.

(* insert one path; equal paths accumulate (visible when something is met twice) *)
Fixpoint tinsert (p : list value) (v : value) (t : trie) : trie :=
  match p with
  | [] => match t with TLeaf w => TLeaf (vadd w v) | TNode [] => TLeaf v | TNode _ => t end
  | c :: p' =>
      let l := tchildren t in
      let sub := match alookup c l with Some s => s | None => TNode [] end in
      TNode (ainsert c (tinsert p' v sub) l)
  end.
Definition tbuild (ps : list (list value * value)) : trie :=
  fold_left (fun t pv => tinsert (fst pv) (snd pv) t) ps (TNode []).

(* apply f to every sub-trie at depth d *)
Fixpoint tmap_depth (d : nat) (f : trie -> option trie) (t : trie) : option trie :=
  match d with
  | O => f t
  | S d' =>
      match t with
      | TLeaf _ => None
      | TNode l =>
          match (fix go (l : list (value * trie)) : option (list (value * trie)) :=
                   match l with
                   | [] => Some []
                   | (c, s) :: l' => match tmap_depth d' f s, go l' with
                                     | Some s', Some r => Some ((c, s') :: r)
                                     | _, _ => None end
                   end) l with
          | Some l' => Some (TNode l')
          | None => None
          end
      end
  end.

Definition nth_perm {A} (idx : list nat) (l : list A) (d : A) : list A := map (fun i => nth i l d) idx.

Definition tswizzle (perm : list nat) (t : trie) : trie :=
  tbuild (map (fun pv => (nth_perm perm (fst pv) VNone, snd pv)) (paths t)).

Definition coordZ (v : value) : option Z :=
  match v with
  | VInt z => Some z
  | VFloat f => f_integral f
  | _ => None
  end.

Fixpoint zrange (lo : Z) (n : nat) : list Z := match n with O => [] | S n' => lo :: zrange (lo + 1) n' end.

Fixpoint zinsert (z : Z) (l : list Z) : list Z :=
  match l with
  | [] => [z]
  | y :: l' => if z <? y then z :: l else if z =? y then l else y :: zinsert z l'
  end.

Fixpoint all_some {A} (l : list (option A)) : option (list A) :=
  match l with
  | [] => Some []
  | Some x :: l' => match all_some l' with Some r => Some (x :: r) | None => None end
  | None :: _ => None
  end.

(* splitUniform(step, pre_halo, post_halo) of one fiber: upper coordinate p ranges over the
   multiples of step (p >= 0); partition p holds the elements with p - pre <= c < p + step + post;
   a partition exists iff it holds an element *)
Definition split_uniform (step pre post : Z) (t : trie) : option trie :=
  if step <=? 0 then None else
  match t with
  | TLeaf _ => None
  | TNode l =>
      match all_some (map (fun ct => coordZ (fst ct)) l) with
      | None => None
      | Some cs =>
          let starts :=
            fold_left (fun acc c =>
                         let kmin := (c - step - post) / step + 1 in
                         let kmax := (c + pre) / step in
                         fold_left (fun acc k => if 0 <=? k then zinsert (step * k) acc else acc)
                                   (zrange kmin (Z.to_nat (kmax - kmin + 1))) acc) cs [] in
          Some (TNode (map (fun p => (VInt p,
                                      TNode (filter (fun ct => match coordZ (fst ct) with
                                                               | Some c => (p - pre <=? c) && (c <? p + step + post)
                                                               | None => false end) l))) starts))
      end
  end.

(* splitEqual(n): chunks of n elements, upper coordinate = first coordinate of the chunk *)
Fixpoint chunks {A} (fuel n : nat) (l : list A) : list (list A) :=
  match fuel with
  | O => []
  | S f => match l with
           | [] => []
           | _ => firstn n l :: chunks f n (skipn n l)
           end
  end.
Definition split_equal (n : Z) (t : trie) : option trie :=
  if n <=? 0 then None else
  match t with
  | TLeaf _ => None
  | TNode l =>
      Some (TNode (map (fun ch => (match ch with (c, _) :: _ => c | [] => VNone end, TNode ch))
                       (chunks (S (length l)) (Z.to_nat n) l)))
  end.

(* splitNonUniform(bounds): partition j holds the elements with b_j <= c < b_{j+1}
   (the last one is unbounded above); empty partitions are dropped *)
Fixpoint split_bounds (bs : list value) (l : list (value * trie)) : list (value * trie) :=
  match bs with
  | [] => []
  | b :: bs' =>
      let hi := match bs' with b' :: _ => Some b' | [] => None end in
      let sel := filter (fun ct => vleb b (fst ct) && match hi with Some h => vltb (fst ct) h | None => true end) l in
      match sel with
      | [] => split_bounds bs' l
      | _ => (b, TNode sel) :: split_bounds bs' l
      end
  end.
Definition split_nonuniform (bs : list value) (t : trie) : option trie :=
  match t with TLeaf _ => None | TNode l => Some (TNode (split_bounds bs l)) end.

Definition tup_parts (c : value) : list value := match c with VTuple l => l | _ => [c] end.

(* flattenRanks(levels=1, "tuple") of one fiber: coordinates become tuples *)
Definition flatten1 (t : trie) : option trie :=
  match t with
  | TLeaf _ => None
  | TNode l =>
      match all_some (map (fun ct => match snd ct with
                                     | TNode l' => Some (map (fun ct' => (VTuple (tup_parts (fst ct) ++ tup_parts (fst ct')), snd ct')) l')
                                     | TLeaf _ => None end) l) with
      | Some ll => Some (TNode (concat ll))
      | None => None
      end
  end.
Fixpoint flatten_levels (n : nat) (t : trie) : option trie :=
  match n with
  | O => Some t
  | S n' => match flatten1 t with Some t' => flatten_levels n' t' | None => None end
  end.

(* union of two tries with addition at the leaves (merging payloads of equal coordinates) *)
Fixpoint tmerge (fuel : nat) (a b : trie) : trie :=
  match fuel with
  | O => a
  | S f =>
      match a, b with
      | TLeaf x, TLeaf y => TLeaf (vadd x y)
      | TNode la, TNode lb =>
          TNode (fold_left (fun acc ct => match alookup (fst ct) acc with
                                          | Some s => ainsert (fst ct) (tmerge f s (snd ct)) acc
                                          | None => ainsert (fst ct) (snd ct) acc end) lb la)
      | _, _ => a
      end
  end.

(* mergeRanks(levels=1, "absolute") of one fiber: the upper coordinate is dropped, the lower
   coordinates are kept, re-sorted; payloads of equal lower coordinates are merged *)
Definition merge1 (t : trie) : option trie :=
  match t with
  | TLeaf _ => None
  | TNode l =>
      match all_some (map (fun ct => match snd ct with TNode l' => Some l' | TLeaf _ => None end) l) with
      | Some ll => Some (fold_left (fun acc l' => tmerge 64 acc (TNode (asort l'))) ll (TNode []))
      | None => None
      end
  end.
Fixpoint merge_levels (n : nat) (t : trie) : option trie :=
  match n with
  | O => Some t
  | S n' => match merge1 t with Some t' => merge_levels n' t' | None => None end
  end.

(* unflattenRanks(levels=1) of one fiber: tuple coordinate (a, rest...) -> a / rest *)
Definition unflatten1 (t : trie) : option trie :=
  match t with
  | TLeaf _ => None
  | TNode l =>
      match all_some (map (fun ct => match fst ct with
                                     | VTuple (a :: b :: rest) =>
                                         Some ([a; match rest with [] => b | _ => VTuple (b :: rest) end], snd ct)
                                     | _ => None end) l) with
      | Some ps =>
          Some (fold_left (fun acc ps => match ps with
                                         | ([a; b], s) =>
                                             let sub := match alookup a (tchildren acc) with Some s' => tchildren s' | None => [] end in
                                             TNode (ainsert a (TNode (ainsert b s sub)) (tchildren acc))
                                         | _ => acc end) ps (TNode []))
      | None => None
      end
  end.
Fixpoint unflatten_levels (n : nat) (t : trie) : option trie :=
  match n with
  | O => Some t
  | S n' => match unflatten1 t with
            | Some (TNode l) =>
                (* further levels apply to the remaining (lower) tuple rank *)
                match all_some (map (fun ct => match unflatten_levels n' (snd ct) with
                                               | Some s => Some (fst ct, s) | None => None end) l) with
                | Some l' => Some (TNode l')
                | None => None
                end
            | _ => None
            end
  end.

(* ----------------------------------------------------------- fiber iteration *)
Definition isect (a b : list (value * value)) : list (value * value) :=
  flat_map (fun cp => match alookup (fst cp) b with
                      | Some q => [(fst cp, VTuple [snd cp; q])]
                      | None => [] end) a.

Open Scope string_scope.
Definition union (a b : list (value * value)) : list (value * value) :=
  let only_b := filter (fun cq => match alookup (fst cq) a with Some _ => false | None => true end) b in
  let from_a := map (fun cp => match alookup (fst cp) b with
                               | Some q => (fst cp, VTuple [VStr "AB"; snd cp; q])
                               | None => (fst cp, VTuple [VStr "A"; snd cp; VZero]) end) a in
  fold_left (fun acc cq => ainsert (fst cq) (VTuple [VStr "B"; VZero; snd cq]) acc) only_b from_a.
Close Scope string_scope.

(* ------------------------------------------------------------------ the heap *)
Module PM := PositiveMap.
Record state := mkSt {
  env : PM.t value;
  heap : PM.t obj;
  next : positive;
  log : list (string * list value) }.

Definition alloc (o : obj) (st : state) : value * state :=
  (VLoc (next st), mkSt (env st) (PM.add (next st) o (heap st)) (Pos.succ (next st)) (log st)).
Definition hget (st : state) (v : value) : option obj :=
  match v with VLoc l => PM.find l (heap st) | _ => None end.
Definition hset (l : positive) (o : obj) (st : state) : state :=
  mkSt (env st) (PM.add l o (heap st)) (next st) (log st).
Definition setenv (x : positive) (v : value) (st : state) : state :=
  mkSt (PM.add x v (env st)) (heap st) (next st) (log st).
Definition addlog (s : string) (args : list value) (st : state) : state :=
  mkSt (env st) (heap st) (next st) ((s, args) :: log st).

(* read a whole trie of depth d rooted at v *)
Fixpoint load (d : nat) (st : state) (v : value) : option trie :=
  match d with
  | O => match v with
         | VLoc _ => match hget st v with Some (OCell x) => Some (TLeaf x) | _ => None end
         | VZero => Some (TLeaf (VInt 0))
         | _ => None
         end
  | S d' =>
      match v with
      | VZero => Some (TNode [])
      | _ =>
          match hget st v with
          | Some (OFiber _ elems) =>
              match all_some (map (fun cp => match load d' st (snd cp) with
                                             | Some t => Some (fst cp, t) | None => None end) elems) with
              | Some l => Some (TNode l)
              | None => None
              end
          | _ => None
          end
      end
  end.

(* allocate a fresh copy of a trie of depth d *)
Fixpoint store (d : nat) (t : trie) (st : state) : value * state :=
  match d with
  | O => alloc (OCell (match t with TLeaf v => v | TNode _ => VInt 0 end)) st
  | S d' =>
      let '(elems, st') :=
        fold_left (fun acc ct => let '(es, s) := acc in
                                 let '(v, s') := store d' (snd ct) s in
                                 (es ++ [(fst ct, v)], s')) (tchildren t) ([], st) in
      alloc (OFiber (S d') elems) st'
  end.

(* the default payload a fiber with `rem` levels creates on getPayloadRef / populate *)
Definition fresh_payload (rem : nat) (st : state) : value * state :=
  match rem with
  | O | S O => alloc (OCell (VInt 0)) st
  | S r => alloc (OFiber r []) st
  end.

(* z.getPayloadRef(c): create on miss *)
Definition payload_ref (fv : value) (c : value) (st : state) : option (value * state) :=
  match fv, hget st fv with
  | VLoc l, Some (OFiber rem elems) =>
      match alookup c elems with
      | Some p => Some (p, st)
      | None => let '(p, st') := fresh_payload rem st in
                Some (p, hset l (OFiber rem (ainsert c p elems)) st')
      end
  | _, _ => None
  end.

(* items of a fiber-like value *)
Definition items_of (st : state) (v : value) : option (list (value * value)) :=
  match v with
  | VIter l => Some l
  | VZero => Some []
  | _ => match hget st v with Some (OFiber _ elems) => Some elems | _ => None end
  end.

(* z << items : populate, yielding (c, (ref, payload)) *)
Fixpoint populate (zv : value) (l : list (value * value)) (st : state) : option (list (value * value) * state) :=
  match l with
  | [] => Some ([], st)
  | (c, p) :: l' =>
      match payload_ref zv c st with
      | Some (r, st') => match populate zv l' st' with
                         | Some (out, st'') => Some ((c, VTuple [r; p]) :: out, st'')
                         | None => None end
      | None => None
      end
  end.

(* value of a payload used in arithmetic *)
Definition deref (st : state) (v : value) : value :=
  match v with
  | VLoc _ => match hget st v with Some (OCell x) => x | _ => v end
  | _ => v
  end.

(* non-zero leaves of a tensor in original coordinates, canonical form for comparison *)
Definition canon_coord (c : value) : value := match coordZ c with Some z => VInt z | None => c end.
Fixpoint canon_coord_deep (c : value) : value :=
  match c with
  | VTuple l => VTuple (map canon_coord_deep l)
  | _ => canon_coord c
  end.
Definition is_zero (v : value) : bool := match as_num v with Some n => nis0 n | None => false end.
Definition dense (t : trie) : list (list value * value) :=
  filter (fun pv => negb (is_zero (snd pv))) (map (fun pv => (map canon_coord_deep (fst pv), snd pv)) (paths t)).
