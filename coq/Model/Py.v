(* The Python subset that emitted HiFiber programs use (object language of the
   executable semantics).  tools/py2coq.py maps `ast.parse(text)` into this type and
   refuses every node kind not listed here.  Identifiers are interned to `positive`
   by the translator (the table of spellings accompanies each program); attribute,
   method and keyword names stay strings. *)
From Coq Require Import String List ZArith.
Import ListNotations.

Inductive binop := BAdd | BSub | BMul | BDiv | BFDiv | BMod | BAnd | BOr | BShl.
Inductive cmpop := CEq | CNe | CLt | CLe | CGt | CGe | CIn | CNotIn.

Inductive expr :=
| EName (x : positive)
| EInt (z : Z)
| EStr (s : string)
| EBool (b : bool)
| ENone
| EBin (op : binop) (a b : expr)
| ENeg (a : expr)
| ECmp (op : cmpop) (a b : expr)
| ECall (f : expr) (args : list expr) (kw : list (string * expr))
| EAttr (e : expr) (attr : string)
| ESub (e : expr) (i : expr)
| ETuple (l : list expr)
| EList (l : list expr)
| EDict (l : list (expr * expr))
| ELam (params : list positive) (body : expr)
| EComp (elem : expr) (var : positive) (iter : expr).

Inductive pat :=
| PName (x : positive)
| PTup (l : list pat).

Inductive target :=
| TName (x : positive)
| TSub (e : expr) (i : expr).

Inductive stmt :=
| SAssign (t : target) (e : expr)
| SAug (op : binop) (t : target) (e : expr)
| SExpr (e : expr)
| SFor (p : pat) (e : expr) (body : list stmt)
| SIf (c : expr) (a b : list stmt).

Definition program := list stmt.
