(* Model of teaal/ir/fusion.py : Fusion.add_einsum as a state machine.
   Executable Gallina only (no proofs here, see Proofs/FusionProofs.v).

   One step receives the per-Einsum features the real method computes from
   Program/Hardware: name, hardware configuration, the temporal loop ranks ahead
   of the first spatial rank, and the names of the functional components with a
   non-empty binding for the Einsum. *)
From Coq Require Import String List Bool.
Import ListNotations.

Record einfo := mkE {
  e_name : string;
  e_config : string;
  e_prefix : list string;
  e_comps : list string }.

(* newest block first; inside a block newest Einsum first *)
Record fstate := mkF {
  f_blocks : list (list einfo);
  f_fused : list string;
  f_config : option string;
  f_used : list string }.

Definition finit : fstate := mkF [] [] None [].

Fixpoint strs_eqb (a b : list string) : bool :=
  match a, b with
  | [], [] => true
  | x :: a', y :: b' => String.eqb x y && strs_eqb a' b'
  | _, _ => false
  end.

Definition mem (x : string) (l : list string) : bool := existsb (String.eqb x) l.
Definition disjointb (a b : list string) : bool := forallb (fun x => negb (mem x b)) a.

Definition cfg_eqb (c : option string) (d : string) : bool :=
  match c with Some c' => String.eqb c' d | None => false end.

Definition fusable (s : fstate) (e : einfo) : bool :=
  cfg_eqb (f_config s) (e_config e) && strs_eqb (e_prefix e) (f_fused s) && disjointb (f_used s) (e_comps e).

Definition fstep (s : fstate) (e : einfo) : fstate :=
  if fusable s e then
    match f_blocks s with
    | b :: bs => mkF ((e :: b) :: bs) (f_fused s) (f_config s) (f_used s ++ e_comps e)
    | [] => (* curr_block is a detached list: the Einsum is lost. Unreachable: config None never equals a str *)
            mkF [] (f_fused s) (f_config s) (f_used s ++ e_comps e)
    end
  else mkF ([e] :: f_blocks s) (e_prefix e) (Some (e_config e)) (e_comps e).

Definition frun (h : list einfo) : fstate := fold_left fstep h finit.

(* chronological view: what Fusion.get_blocks() returns, with the features kept *)
Definition chron (s : fstate) : list (list einfo) := rev (map (@rev einfo) (f_blocks s)).
Definition get_blocks (s : fstate) : list (list string) := map (map e_name) (chron s).

(* The pinned tree's behaviour (finding F1): the new-block branch did not reset components_used *)
Definition fstep_pinned (s : fstate) (e : einfo) : fstate :=
  if fusable s e then fstep s e
  else mkF ([e] :: f_blocks s) (e_prefix e) (Some (e_config e)) (f_used s).
Definition frun_pinned (h : list einfo) : fstate := fold_left fstep_pinned h finit.

(* Decision procedure for the property on a candidate block structure (names only),
   given the history with its features. *)
Fixpoint take_block (n : nat) (h : list einfo) : option (list einfo * list einfo) :=
  match n, h with
  | O, _ => Some ([], h)
  | S n', e :: h' => match take_block n' h' with Some (b, r) => Some (e :: b, r) | None => None end
  | S _, [] => None
  end.

Fixpoint pair_disjb (b : list einfo) : bool :=
  match b with
  | [] => true
  | e :: b' => forallb (fun e' => disjointb (e_comps e) (e_comps e')) b' && pair_disjb b'
  end.

Definition same_cfg_prefixb (b : list einfo) : bool :=
  match b with
  | [] => false
  | e :: b' => forallb (fun e' => String.eqb (e_config e) (e_config e') && strs_eqb (e_prefix e) (e_prefix e')) b'
  end.

Definition block_okb (b : list einfo) : bool := same_cfg_prefixb b && pair_disjb b.

Fixpoint legal_blocks_b (h : list einfo) (bs : list (list string)) : bool :=
  match bs with
  | [] => match h with [] => true | _ => false end
  | names :: bs' =>
      match take_block (length names) h with
      | Some (b, r) => strs_eqb (map e_name b) names && block_okb b && legal_blocks_b r bs'
      | None => false
      end
  end.

(* the prefix the Einsum's features must carry: loop ranks ahead of the first spatial rank *)
Fixpoint temporal_prefix (loop space : list string) : list string :=
  match loop with
  | [] => []
  | r :: loop' => if mem r space then [] else r :: temporal_prefix loop' space
  end.
