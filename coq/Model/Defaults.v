(* Model of the defaults the compiler substitutes for omitted mapping sections (property C19).
   Executable Gallina only (proofs: Proofs/DefaultsProofs.v).

   Two things live here, kept apart on purpose:
   (1) the DECLARATIVE canonical default, read off the property statement
       (`canonical_ranks`, `expand`, `canonical_order`, `declared_rank_orders`) - this is what the
       harness writes into the mapping as the "explicitly written default";
   (2) the OPERATIONAL model of what teaal does when the section is omitted
       (`code_einsum_ranks` = Equation.__build_einsum_ranks, `part_loop` = Partitioning.partition_ranks
       with all levels, `resolve_rank_orders` = Program.__init__, `einsum_parts` = Mapping.__init__ +
       Program.add_einsum + the "if not parts: continue" of Partitioning.__build_part_graph),
       tied to the real objects by T-eq on every run. *)
From Coq Require Import String List Bool ZArith Ascii Arith.
Require Import TV.Model.Show.
Import ListNotations.
Open Scope string_scope.
Open Scope list_scope.

(* ---------------------------------------------------------------------------------------- *)
(* Syntax of one Einsum, exactly as written (grammar of teaal/parse/equation.py)              *)
(* ---------------------------------------------------------------------------------------- *)
Inductive iterm := IJust (v : string) | ITimes (c : Z) (v : string).   (* k  |  2*k *)
Definition iexpr := list iterm.                                       (* 2*k + m *)
Definition access := list iexpr.                                      (* [2*k + m, j] *)
Inductive factor := FVar (n : string) | FTen (n : string) (a : access).
Inductive term := TTimes (fs : list factor) | TTake (fs : list factor) (sel : nat).
Record einsum := mkEinsum { e_out : string; e_oidx : access; e_terms : list term }.

Definition iterm_var (t : iterm) : string := match t with IJust v => v | ITimes _ v => v end.
Definition is_just (t : iterm) : bool := match t with IJust _ => true | ITimes _ _ => false end.
Definition term_factors (t : term) : list factor := match t with TTimes fs => fs | TTake fs _ => fs end.
Definition is_times (t : term) : bool := match t with TTimes _ => true | TTake _ _ => false end.
Definition term_accesses (t : term) : list access :=
  flat_map (fun f => match f with FVar _ => [] | FTen _ a => [a] end) (term_factors t).

(* str.upper() on ASCII *)
Definition upper_ascii (c : ascii) : ascii :=
  let n := nat_of_ascii c in if Nat.leb 97 n && Nat.leb n 122 then ascii_of_nat (n - 32) else c.
Fixpoint upper (s : string) : string :=
  match s with EmptyString => EmptyString | String c s' => String (upper_ascii c) (upper s') end.

Definition smem (x : string) (l : list string) : bool := existsb (String.eqb x) l.

(* ---------------------------------------------------------------------------------------- *)
(* (1) The canonical default, declaratively                                                   *)
(* ---------------------------------------------------------------------------------------- *)

(* keep the first occurrence of every name not already seen *)
Fixpoint uniq_from (seen : list string) (l : list string) : list string :=
  match l with
  | [] => []
  | x :: t => if smem x seen then uniq_from seen t else x :: uniq_from (x :: seen) t
  end.
Definition dedup (l : list string) : list string := uniq_from [] l.

(* rank names of an access in the order they are WRITTEN *)
Definition access_ranks_written (a : access) : list string := map (fun t => upper (iterm_var t)) (concat a).
Definition term_ranks_written (t : term) : list string := flat_map access_ranks_written (term_accesses t).
Definition rhs_ranks_written (e : einsum) : list string := flat_map term_ranks_written (e_terms e).

(* "the output ranks in the order written followed by the remaining ranks in order of first appearance" *)
Definition canonical_ranks (e : einsum) : list string :=
  dedup (access_ranks_written (e_oidx e) ++ rhs_ranks_written e).

(* split partitioning of one Einsum: root rank |-> number of partitioning descriptors n >= 1;
   the levels are R<n> ... R<0> *)
Definition parts := list (string * nat).
Fixpoint lookup {A : Type} (k : string) (m : list (string * A)) : option A :=
  match m with [] => None | (k', v) :: t => if String.eqb k k' then Some v else lookup k t end.

Definition level_name (r : string) (j : nat) : string := (r ++ show_nat j)%string.
(* outermost to innermost: [Rn; ...; R1; R0] *)
Definition level_names (r : string) (n : nat) : list string := map (level_name r) (rev (seq 0 (S n))).

(* "each partitioned rank replaced in place by its levels from outermost to innermost" *)
Definition expand (ps : parts) (ranks : list string) : list string :=
  flat_map (fun r => match lookup r ps with Some n => level_names r n | None => [r] end) ranks.

Definition canonical_order (e : einsum) (ps : parts) : list string := expand ps (canonical_ranks e).

(* "declared rank order" *)
Definition decls := list (string * list string).
Definition declared_rank_orders (d : decls) : decls := d.

(* ---------------------------------------------------------------------------------------- *)
(* (2) What the code does                                                                     *)
(* ---------------------------------------------------------------------------------------- *)

(* `for rank in xs: if rank not in acc: acc.append(rank)` *)
Definition append_new (acc : list string) (xs : list string) : list string :=
  fold_left (fun a r => if smem r a then a else a ++ [r]) xs acc.

(* Equation.__get_tensor_ranks: every `ijust` of the access first, then every `itimes`
   (two Tree.find_data sweeps; nodes of equal depth come out in textual order) *)
Definition access_ranks_code (a : access) : list string :=
  let ts := concat a in
  map (fun t => upper (iterm_var t)) (filter is_just ts ++ filter (fun t => negb (is_just t)) ts).

(* Equation.__get_term_ranks *)
Definition term_ranks_code (t : term) : list string :=
  fold_left (fun acc a => append_new acc (access_ranks_code a)) (term_accesses t) [].

(* chain(find_data("times"), find_data("take")) *)
Definition code_terms (e : einsum) : list term :=
  filter is_times (e_terms e) ++ filter (fun t => negb (is_times t)) (e_terms e).

(* collections.Counter equality *)
Definition counter_eqb (a b : list string) : bool :=
  forallb (fun x => Nat.eqb (count_occ string_dec a x) (count_occ string_dec b x)) (a ++ b).

(* Equation.__build_einsum_ranks; None = ValueError("Malformed einsum ...") (or no term at all) *)
Definition code_einsum_ranks (e : einsum) : option (list string) :=
  match code_terms e with
  | [] => None
  | t :: rest =>
      let tr := term_ranks_code t in
      if forallb (fun t' => counter_eqb (term_ranks_code t') tr) rest
      then Some (append_new (access_ranks_code (e_oidx e)) tr)
      else None
  end.

(* Partitioning.__update_ranks for a split of one rank, all levels *)
Fixpoint index_of (x : string) (l : list string) : nat :=
  match l with [] => 0 | y :: t => if String.eqb x y then 0 else S (index_of x t) end.
Fixpoint remove_first (x : string) (l : list string) : list string :=
  match l with [] => [] | y :: t => if String.eqb x y then t else y :: remove_first x t end.
Fixpoint insert_at (i : nat) (x : string) (l : list string) : list string :=      (* list.insert *)
  match i, l with
  | O, _ => x :: l
  | S i', y :: t => y :: insert_at i' x t
  | S _, [] => [x]
  end.
(* partition_names(.., all_=True): the leaves sorted by ascending priority: R0, R1, ..., Rn *)
Definition names_ascending (r : string) (n : nat) : list string := map (level_name r) (seq 0 (S n)).
Definition update_ranks (r : string) (n : nat) (ranks : list string) : list string :=
  let i := index_of r ranks in
  fold_left (fun acc nm => insert_at i nm acc) (names_ascending r n) (remove_first r ranks).

(* Partitioning.__used_parts restricted to one-rank parts; `ps` is listed in the order in which
   Python happens to iterate the set all_parts *)
Definition used_parts (ps : parts) (ranks : list string) : parts := filter (fun p => smem (fst p) ranks) ps.

(* Partitioning.partition_ranks(ranks, all_parts, True, True); None = the while loop did not
   finish within `fuel` rounds *)
Fixpoint part_loop (fuel : nat) (ps : parts) (ranks : list string) : option (list string) :=
  match fuel with
  | O => None
  | S f =>
      match used_parts ps ranks with
      | [] => Some ranks
      | used => part_loop f ps (fold_left (fun acc p => update_ranks (fst p) (snd p) acc) used ranks)
      end
  end.

(* LoopOrder.__default_loop_order *)
Definition code_default_loop_order (fuel : nat) (e : einsum) (ps : parts) : option (list string) :=
  match code_einsum_ranks e with Some l => part_loop fuel ps l | None => None end.

(* Program.__init__: rank order of every declared tensor given the mapping's rank-order section *)
Definition resolve_rank_orders (d : decls) (ro : decls) : decls :=
  map (fun x => (fst x, match lookup (fst x) ro with Some o => o | None => snd x end)) d.

(* Mapping.__init__ + Program.add_einsum + Partitioning.__build_part_graph: the partitioning that is
   in force for the Einsum whose output is z. A mapping is tensor |-> (rank |-> descriptors);
   a missing tensor, and a rank with an empty descriptor list, contribute nothing. *)
Definition part_section (D : Type) := list (string * list (string * list D)).
Definition einsum_parts {D : Type} (m : part_section D) (z : string) : parts :=
  match lookup z m with
  | None => []
  | Some rs => flat_map (fun rd => match snd rd with [] => [] | ds => [(fst rd, length ds)] end) rs
  end.

(* ---------------------------------------------------------------------------------------- *)
(* Decidable side conditions (evaluated on every generated specification by the harness)      *)
(* ---------------------------------------------------------------------------------------- *)
Fixpoint nodup_b (l : list string) : bool :=
  match l with [] => true | x :: t => negb (smem x t) && nodup_b t end.

(* no level name of a partitioned rank is itself a partitioned rank *)
Definition fresh_b (ps : parts) : bool :=
  forallb (fun p => forallb (fun nm => negb (smem nm (map fst ps))) (level_names (fst p) (snd p))) ps.

Definition subset_b (a b : list string) : bool := forallb (fun x => smem x b) a.

(* every term iterates over the same ranks as the first one written *)
Definition same_ranks_b (e : einsum) : bool :=
  match e_terms e with
  | [] => false
  | t :: rest => forallb (fun t' => subset_b (term_ranks_written t') (term_ranks_written t)
                                   && subset_b (term_ranks_written t) (term_ranks_written t')) rest
  end.

(* inside one access no coefficient index is written before a plain index *)
Fixpoint coeffs_last_l (ts : list iterm) : bool :=
  match ts with
  | [] => true
  | IJust _ :: t => coeffs_last_l t
  | ITimes _ _ :: t => forallb (fun u => negb (is_just u)) t
  end.
Definition coeffs_last (a : access) : bool := coeffs_last_l (concat a).

(* the term the code looks at is the first term written: a product, or there is no product at all *)
Definition head_ok (e : einsum) : bool :=
  match e_terms e with
  | [] => false
  | t :: _ => is_times t || forallb (fun t' => negb (is_times t')) (e_terms e)
  end.

(* the class on which the code's traversal order IS the written order *)
Definition plain_first (e : einsum) : bool :=
  head_ok e && coeffs_last (e_oidx e) && nodup_b (access_ranks_written (e_oidx e)) &&
  match e_terms e with [] => false | t :: _ => forallb coeffs_last (term_accesses t) end.

(* ---------------------------------------------------------------------------------------- *)
(* Rendering for the harness                                                                  *)
(* ---------------------------------------------------------------------------------------- *)
Definition show_opt_strs (o : option (list string)) : string :=
  match o with Some l => ("S:" ++ show_strs "," l)%string | None => "N" end.
Fixpoint strs_eqb (a b : list string) : bool :=
  match a, b with
  | [], [] => true
  | x :: a', y :: b' => String.eqb x y && strs_eqb a' b'
  | _, _ => false
  end.
Definition show_decls (d : decls) : string :=
  String.concat ";" (map (fun x => (fst x ++ "=" ++ show_strs "," (snd x))%string) d).
Definition show_parts (ps : parts) : string :=
  String.concat "," (map (fun p => (fst p ++ ":" ++ show_nat (snd p))%string) ps).
