(* The five specification grammars of teaal/parse as syntax trees, printers and parsers.
   Executable Gallina only (no proofs here, see Proofs/GrammarProofs.v).

     equation.py      EquationParser.grammar + the post-parse rewrites of EquationParser.parse
     partitioning.py  PartitioningParser.partitioning_grammar, ranks_grammar
     spacetime.py     SpaceTimeParser.grammar                  (default style = pos)
     level.py         LevelParser.grammar, arch.py             (instances = N + 1)

   The syntax trees keep what was WRITTEN (digit strings, whether ".pos" was spelled out), so that
   [print] is exact; the [*_view] functions give what the parsed Lark tree CONTAINS after the code's
   rewrites (integers as values, negative coefficients, default style, N+1 instances); the views are
   what the harness compares with the real parsers. *)
From Coq Require Import String Ascii List Bool Arith NArith ZArith Uint63.
Require Import TV.Model.Lex TV.Model.Show.
Import ListNotations.
Open Scope string_scope.

(* ------------------------------------------------------------------ token-level helpers *)

Fixpoint join (sep : token) (l : list (list token)) : list token :=
  match l with
  | [] => []
  | [x] => x
  | x :: r => x ++ sep :: join sep r
  end.

Section SepList.
  Context {A : Type}.
  Variable p : list token -> option (A * list token).
  Variable sep : token.
  Variable cont : list token -> bool.   (* after a separator: is another element coming? *)

  (* elem (sep elem)*  -- fuel = the input itself (one unit per element) *)
  Fixpoint p_sep_aux (fuel ts : list token) : option (list A * list token) :=
    match fuel with
    | [] => None
    | _ :: fuel' =>
      match p ts with
      | None => None
      | Some (a, r) =>
        match r with
        | t :: r' =>
            if tok_eqb t sep && cont r' then
              match p_sep_aux fuel' r' with
              | Some (l, r'') => Some (a :: l, r'')
              | None => None
              end
            else Some ([a], r)
        | [] => Some ([a], r)
        end
      end
    end.
  Definition p_sep (ts : list token) := p_sep_aux ts ts.
End SepList.

Definition always (_ : list token) : bool := true.

(* ------------------------------------------------------------------ Einsum expressions *)

Inductive iterm :=
| IJust (x : string)                                (* k        *)
| ITimes (neg : bool) (ds : string) (x : string).   (* [-]2*k   *)
Definition iexpr := list iterm.                      (* non-empty, "+" *)
Definition ranks := list iexpr.                      (* possibly empty, "," *)
Inductive factor :=
| FVar (x : string)
| FTensor (x : string) (rs : ranks).
Inductive term :=
| TTimes (fs : list factor)                          (* non-empty, "*" *)
| TTake (fs : list factor) (sel : string).           (* take(f, ..., f, sel) *)
Record einsum := mkEinsum { e_out : string; e_ranks : ranks; e_terms : list term }.

Definition toks_iterm (t : iterm) : list token :=
  match t with
  | IJust x => [TName x]
  | ITimes false ds x => [TNum ds; TSym SStar; TName x]
  | ITimes true ds x => [TSym SMinus; TNum ds; TSym SStar; TName x]
  end.
Definition toks_iexpr (e : iexpr) : list token := join (TSym SPlus) (map toks_iterm e).
Definition toks_ranks (rs : ranks) : list token :=
  TSym SLBrack :: join (TSym SComma) (map toks_iexpr rs) ++ [TSym SRBrack].
Definition toks_factor (f : factor) : list token :=
  match f with
  | FVar x => [TName x]
  | FTensor x rs => TName x :: toks_ranks rs
  end.
Definition toks_term (t : term) : list token :=
  match t with
  | TTimes fs => join (TSym SStar) (map toks_factor fs)
  | TTake fs sel => TKw "take" :: join (TSym SComma) (map toks_factor fs) ++ [TSym SComma; TNum sel; TSym SRPar]
  end.
Definition toks_einsum (e : einsum) : list token :=
  TName (e_out e) :: toks_ranks (e_ranks e) ++ TSym SEq :: join (TSym SPlus) (map toks_term (e_terms e)).

Definition p_iterm (ts : list token) : option (iterm * list token) :=
  match ts with
  | TName x :: r => Some (IJust x, r)
  | TNum d :: TSym SStar :: TName x :: r => Some (ITimes false d x, r)
  | TSym SMinus :: TNum d :: TSym SStar :: TName x :: r => Some (ITimes true d x, r)
  | _ => None
  end.
Definition p_iexpr : list token -> option (iexpr * list token) := p_sep p_iterm (TSym SPlus) always.
Definition p_ranks (ts : list token) : option (ranks * list token) :=
  match ts with
  | TSym SLBrack :: TSym SRBrack :: r => Some ([], r)
  | TSym SLBrack :: r =>
      match p_sep p_iexpr (TSym SComma) always r with
      | Some (l, TSym SRBrack :: r') => Some (l, r')
      | _ => None
      end
  | _ => None
  end.
Definition p_factor (ts : list token) : option (factor * list token) :=
  match ts with
  | TName x :: r =>
      match r with
      | TSym SLBrack :: _ =>
          match p_ranks r with Some (rs, r') => Some (FTensor x rs, r') | None => None end
      | _ => Some (FVar x, r)
      end
  | _ => None
  end.
(* inside take( ... ): a "," followed by a NUMBER ends the operand list *)
Definition cont_take (r : list token) : bool := match r with TNum _ :: _ => false | _ => true end.
Definition p_term (ts : list token) : option (term * list token) :=
  match ts with
  | TKw k :: r =>
      if String.eqb k "take" then
        match p_sep p_factor (TSym SComma) cont_take r with
        | Some (fs, TSym SComma :: TNum d :: TSym SRPar :: r') => Some (TTake fs d, r')
        | _ => None
        end
      else None
  | _ =>
      match p_sep p_factor (TSym SStar) always ts with
      | Some (fs, r) => Some (TTimes fs, r)
      | None => None
      end
  end.
Definition p_einsum (ts : list token) : option einsum :=
  match ts with
  | TName z :: r =>
      match p_ranks r with
      | Some (rs, TSym SEq :: r') =>
          match p_sep p_term (TSym SPlus) always r' with
          | Some (tms, []) => Some (mkEinsum z rs tms)
          | _ => None
          end
      | _ => None
      end
  | _ => None
  end.

Definition obind {A B : Type} (o : option A) (f : A -> option B) : option B :=
  match o with Some a => f a | None => None end.

Definition parse_eq (s : string) : option einsum := obind (lex MPlain s) p_einsum.
Definition print_eq (e : einsum) (ws : list string) : string := render (toks_einsum e) ws.

(* well-formedness: names are CNAMEs, numerals are DIGIT+, the lists the grammar makes non-empty are *)
Definition wf_iterm (t : iterm) : bool :=
  match t with IJust x => is_ident x | ITimes _ ds x => is_digits ds && is_ident x end.
Definition nonempty {A : Type} (l : list A) : bool := match l with [] => false | _ => true end.
Definition wf_iexpr (e : iexpr) : bool := nonempty e && forallb wf_iterm e.
Definition wf_ranks (rs : ranks) : bool := forallb wf_iexpr rs.
Definition wf_factor (f : factor) : bool :=
  match f with FVar x => is_ident x | FTensor x rs => is_ident x && wf_ranks rs end.
Definition wf_term (t : term) : bool :=
  match t with
  | TTimes fs => nonempty fs && forallb wf_factor fs
  | TTake fs sel => nonempty fs && forallb wf_factor fs && is_digits sel
  end.
Definition wf_einsum (e : einsum) : bool :=
  is_ident (e_out e) && wf_ranks (e_ranks e) && nonempty (e_terms e) && forallb wf_term (e_terms e).

(* what the Lark tree contains after EquationParser.parse's rewrites: the coefficient as a signed integer *)
Definition coef (t : iterm) : Z :=
  match t with
  | IJust _ => 1%Z
  | ITimes false ds _ => Z.of_N (value ds)
  | ITimes true ds _ => (- Z.of_N (value ds))%Z
  end.
Definition iterm_var (t : iterm) : string := match t with IJust x => x | ITimes _ _ x => x end.

Definition view_iterm (t : iterm) : string :=
  match t with IJust x => x | ITimes _ _ x => show_Z (coef t) ++ "*" ++ x end.
Definition view_iexpr (e : iexpr) : string := String.concat "+" (map view_iterm e).
Definition view_ranks (rs : ranks) : string := "[" ++ String.concat "," (map view_iexpr rs) ++ "]".
Definition view_factor (f : factor) : string :=
  match f with FVar x => x | FTensor x rs => x ++ view_ranks rs end.
Definition view_term (t : term) : string :=
  match t with
  | TTimes fs => String.concat "*" (map view_factor fs)
  | TTake fs sel => "take(" ++ String.concat "," (map view_factor fs) ++ "," ++ show_N (value sel) ++ ")"
  end.
Definition view_einsum (e : einsum) : string :=
  e_out e ++ view_ranks (e_ranks e) ++ "=" ++ String.concat "+" (map view_term (e_terms e)).

(* ------------------------------------------------------------------ partitioning directives *)

Inductive psize := SzInt (ds : string) | SzName (x : string).
Inductive directive :=
| DNway (sz : psize)
| DUOcc (leader : string) (sz : psize)
| DUShape (sz : psize)
| DFlatten
| DFollow (leader : string).

Definition tok_size (sz : psize) : token := match sz with SzInt ds => TNum ds | SzName x => TName x end.
Definition toks_dir (d : directive) : list token :=
  match d with
  | DNway sz => [TKw "nway_shape"; tok_size sz; TSym SRPar]
  | DUOcc l sz => [TKw "uniform_occupancy"; TName l; TSym SDot; tok_size sz; TSym SRPar]
  | DUShape sz => [TKw "uniform_shape"; tok_size sz; TSym SRPar]
  | DFlatten => [TKw "flatten"; TSym SRPar]
  | DFollow l => [TKw "follow"; TName l; TSym SRPar]
  end.
Definition p_size (t : token) : option psize :=
  match t with TNum ds => Some (SzInt ds) | TName x => Some (SzName x) | _ => None end.
Definition p_dir (ts : list token) : option directive :=
  match ts with
  | TKw k :: r =>
      if String.eqb k "nway_shape" then
        match r with [t; TSym SRPar] => option_map DNway (p_size t) | _ => None end
      else if String.eqb k "uniform_occupancy" then
        match r with [TName l; TSym SDot; t; TSym SRPar] => option_map (DUOcc l) (p_size t) | _ => None end
      else if String.eqb k "uniform_shape" then
        match r with [t; TSym SRPar] => option_map DUShape (p_size t) | _ => None end
      else if String.eqb k "flatten" then
        match r with [TSym SRPar] => Some DFlatten | _ => None end
      else if String.eqb k "follow" then
        match r with [TName l; TSym SRPar] => Some (DFollow l) | _ => None end
      else None
  | _ => None
  end.
Definition parse_dir (s : string) : option directive := obind (lex MPlain s) p_dir.
Definition print_dir (d : directive) (ws : list string) : string := render (toks_dir d) ws.

Definition wf_size (sz : psize) : bool := match sz with SzInt ds => is_digits ds | SzName x => is_ident x end.
Definition wf_dir (d : directive) : bool :=
  match d with
  | DNway sz | DUShape sz => wf_size sz
  | DUOcc l sz => is_ident l && wf_size sz
  | DFlatten => true
  | DFollow l => is_ident l
  end.

Definition view_size (sz : psize) : string :=
  match sz with SzInt ds => "int:" ++ show_N (value ds) | SzName x => "str:" ++ x end.
Definition view_dir (d : directive) : string :=
  match d with
  | DNway sz => "nway_shape(" ++ view_size sz ++ ")"
  | DUOcc l sz => "uniform_occupancy(" ++ l ++ "." ++ view_size sz ++ ")"
  | DUShape sz => "uniform_shape(" ++ view_size sz ++ ")"
  | DFlatten => "flatten()"
  | DFollow l => "follow(" ++ l ++ ")"
  end.

(* ------------------------------------------------------------------ rank tuples *)

Inductive rtuple := RSingle (x : string) | RTuple (xs : list string).   (* tuple: at least two *)

Definition toks_rt (r : rtuple) : list token :=
  match r with
  | RSingle x => [TName x]
  | RTuple xs => TSym SLPar :: join (TSym SComma) (map (fun x => [TName x]) xs) ++ [TSym SRPar]
  end.
(* NAME ("," NAME)* ")" up to the end of the input *)
Fixpoint p_names (ts : list token) : option (list string) :=
  match ts with
  | TName x :: TSym SRPar :: [] => Some [x]
  | TName x :: TSym SComma :: r => ocons x (p_names r)
  | _ => None
  end.
Definition p_rt (ts : list token) : option rtuple :=
  match ts with
  | [TName x] => Some (RSingle x)
  | TSym SLPar :: r =>
      match p_names r with
      | Some ((_ :: _ :: _) as xs) => Some (RTuple xs)
      | _ => None
      end
  | _ => None
  end.
Definition parse_rt (s : string) : option rtuple := obind (lex MPlain s) p_rt.
Definition print_rt (r : rtuple) (ws : list string) : string := render (toks_rt r) ws.
Definition wf_rt (r : rtuple) : bool :=
  match r with
  | RSingle x => is_ident x
  | RTuple xs => Nat.leb 2 (List.length xs) && forallb is_ident xs
  end.
Definition view_rt (r : rtuple) : string :=
  match r with
  | RSingle x => "rank(" ++ x ++ ")"
  | RTuple xs => "ranks(" ++ String.concat "," xs ++ ")"
  end.

(* ------------------------------------------------------------------ spacetime stamps *)

Inductive stamp := StBare (x : string) | StPos (x : string) | StCoord (x : string).
Definition toks_st (a : stamp) : list token :=
  match a with
  | StBare x => [TName x]
  | StPos x => [TName x; TDotW "pos"]
  | StCoord x => [TName x; TDotW "coord"]
  end.
Definition p_st (ts : list token) : option stamp :=
  match ts with
  | [TName x] => Some (StBare x)
  | [TName x; TDotW w] =>
      if String.eqb w "pos" then Some (StPos x) else if String.eqb w "coord" then Some (StCoord x) else None
  | _ => None
  end.
Definition parse_st (s : string) : option stamp := obind (lex MDot s) p_st.
Definition print_st (a : stamp) (ws : list string) : string := render (toks_st a) ws.
Definition wf_st (a : stamp) : bool := match a with StBare x | StPos x | StCoord x => is_ident x end.
(* default style = pos *)
Definition st_rank (a : stamp) : string := match a with StBare x | StPos x | StCoord x => x end.
Definition st_is_coord (a : stamp) : bool := match a with StCoord _ => true | _ => false end.
Definition view_st (a : stamp) : string :=
  (if st_is_coord a then "coord(" else "pos(") ++ st_rank a ++ ")".

(* ------------------------------------------------------------------ architecture level names *)

Inductive level := LSingle (x : string) | LMultiple (x : string) (ds : string).
Definition toks_lv (a : level) : list token :=
  match a with
  | LSingle x => [TName x]
  | LMultiple x ds => [TName x; TRange; TNum ds; TSym SRBrack]
  end.
Definition p_lv (ts : list token) : option level :=
  match ts with
  | [TName x] => Some (LSingle x)
  | [TName x; TRange; TNum ds; TSym SRBrack] => Some (LMultiple x ds)
  | _ => None
  end.
Definition parse_lv (s : string) : option level := obind (lex MRange s) p_lv.
Definition print_lv (a : level) (ws : list string) : string := render (toks_lv a) ws.
Definition wf_lv (a : level) : bool :=
  match a with LSingle x => is_ident x | LMultiple x ds => is_ident x && is_digits ds end.
Definition lv_name (a : level) : string := match a with LSingle x | LMultiple x _ => x end.
(* arch.py: "single" -> 1 instance, "multiple" NAME[0..N] -> N + 1 instances *)
Definition lv_instances (a : level) : N :=
  match a with LSingle _ => 1%N | LMultiple _ ds => (value ds + 1)%N end.
Definition view_lv (a : level) : string := lv_name a ++ "#" ++ show_N (lv_instances a).

(* ------------------------------------------------------------------ harness entry points *)

Definition show_opt {A : Type} (f : A -> string) (o : option A) : string :=
  match o with Some a => f a | None => "REJECT" end.
Definition run_eq (s : string) : string := show_opt view_einsum (parse_eq s).
Definition run_dir (s : string) : string := show_opt view_dir (parse_dir s).
Definition run_rt (s : string) : string := show_opt view_rt (parse_rt s).
Definition run_st (s : string) : string := show_opt view_st (parse_st s).
Definition run_lv (s : string) : string := show_opt view_lv (parse_lv s).

(* input strings of the harness, packed 7 bytes per primitive integer (bits 56..58 = how many bytes the word
   holds): coqc reads integer literals natively, string literals go through a Gallina conversion and are
   ~40x slower to read.  Only the harness entry points use this; no theorem depends on primitive integers. *)
Definition ascii_of_int (w : PrimInt63.int) : ascii :=
  Ascii (Uint63.bit w 0) (Uint63.bit w 1) (Uint63.bit w 2) (Uint63.bit w 3)
        (Uint63.bit w 4) (Uint63.bit w 5) (Uint63.bit w 6) (Uint63.bit w 7).
Fixpoint unpack_bytes (k : nat) (w : PrimInt63.int) : string :=
  match k with
  | O => EmptyString
  | S k' => String (ascii_of_int w) (unpack_bytes k' (PrimInt63.lsr w 8))
  end.
Definition count_of (w : PrimInt63.int) : nat :=
  let c := PrimInt63.lsr w 56 in
  if PrimInt63.eqb c 1 then 1 else if PrimInt63.eqb c 2 then 2 else if PrimInt63.eqb c 3 then 3
  else if PrimInt63.eqb c 4 then 4 else if PrimInt63.eqb c 5 then 5 else if PrimInt63.eqb c 6 then 6
  else if PrimInt63.eqb c 7 then 7 else 0.
Fixpoint up (ws : list PrimInt63.int) : string :=
  match ws with
  | [] => EmptyString
  | w :: r => unpack_bytes (count_of w) w ++ up r
  end.

(* generated cases: besides the string s given to the real parser the harness hands over the compact writing s0
   of the generating tree (no blanks) and the blank strings ws it inserted (letters s = blank, t = tab,
   "|"-separated).  The kernel confirms that s0 parses (in the model) to a well-formed tree a and that
   s = print a ws with ws blank, i.e. that s lies in the domain of the parse_print theorems. *)
Definition sc (n : nat) : string := String (ascii_of_nat n) EmptyString.
Fixpoint decode_ws_aux (cur : string) (s : string) : list string :=
  match s with
  | EmptyString => [cur]
  | String c r =>
      if Ascii.eqb c "|"%char then cur :: decode_ws_aux EmptyString r
      else decode_ws_aux (cur ++ (if Ascii.eqb c "t"%char then sc 9 else " ")) r
  end.
Definition decode_ws (s : string) : list string := decode_ws_aux EmptyString s.

(* the comparison with the real parser's answer [code] is made here, so that a shard prints a few bytes per case *)
Definition cmp (code model : string) : string := if String.eqb code model then "=" else "!".

Definition chk {A : Type} (parse : string -> option A) (pr : A -> list string -> string) (wf : A -> bool)
           (run : string -> string) (s0 ws s code : string) : string :=
  match parse s0 with
  | Some a =>
      (if String.eqb (pr a (decode_ws ws)) s then "P" else "p") ++ (if wf a then "W" else "w")
      ++ (if blanks (decode_ws ws) then "B" else "b")
  | None => "n"
  end ++ cmp code (run s).
Definition chk_eq := chk parse_eq print_eq wf_einsum run_eq.
Definition chk_dir := chk parse_dir print_dir wf_dir run_dir.
Definition chk_rt := chk parse_rt print_rt wf_rt run_rt.
Definition chk_st := chk parse_st print_st wf_st run_st.
Definition chk_lv := chk parse_lv print_lv wf_lv run_lv.
Definition cmp_eq (s code : string) : string := cmp code (run_eq s).
Definition cmp_dir (s code : string) : string := cmp code (run_dir s).
Definition cmp_rt (s code : string) : string := cmp code (run_rt s).
Definition cmp_st (s code : string) : string := cmp code (run_st s).
Definition cmp_lv (s code : string) : string := cmp code (run_lv s).
