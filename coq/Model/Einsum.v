(* The mathematical meaning of an Einsum (dense oracle): ~60 lines meant to be read.
   Index expressions are integer-affine in the index variables; a tensor read outside
   the stored data yields 0; take(o_1..o_n, sel) is o_sel where all operands are
   non-zero and 0 elsewhere. *)
From Coq Require Import String List ZArith Bool.
Import ListNotations.
Open Scope Z_scope.

Definition affine := list (Z * string).              (* sum of coef * var *)
Inductive factor :=
| FTensor (name : string) (idx : list affine)
| FVar (name : string).                              (* a scalar operand supplied by the user *)
Record term := mkTerm { t_factors : list factor; t_take : option nat }.
Record einsum := mkEinsum {
  e_out : string;
  e_out_idx : list affine;
  e_terms : list term;
  e_vars : list (string * Z) }.                       (* index variables with their extents *)

Definition point := list (string * Z).
Definition data := list (list Z * Z).                (* sparse tensor contents, original coordinates *)
Definition tensors := list (string * data).

Fixpoint plookup (x : string) (p : point) : Z :=
  match p with [] => 0 | (y, v) :: p' => if String.eqb x y then v else plookup x p' end.
Definition aff_eval (a : affine) (p : point) : Z := fold_left (fun acc cv => acc + fst cv * plookup (snd cv) p) a 0.

Fixpoint zs_eqb (a b : list Z) : bool :=
  match a, b with [], [] => true | x :: a', y :: b' => (x =? y) && zs_eqb a' b' | _, _ => false end.
Fixpoint dlookup (k : list Z) (d : data) : Z :=
  match d with [] => 0 | (k', v) :: d' => if zs_eqb k k' then v else dlookup k d' end.
Fixpoint tlookup (x : string) (ts : tensors) : data :=
  match ts with [] => [] | (y, d) :: ts' => if String.eqb x y then d else tlookup x ts' end.

Definition factor_val (ts : tensors) (scalars : point) (p : point) (f : factor) : Z :=
  match f with
  | FTensor n idx => dlookup (map (fun a => aff_eval a p) idx) (tlookup n ts)
  | FVar n => plookup n scalars
  end.

Definition term_val (ts : tensors) (scalars : point) (p : point) (t : term) : Z :=
  let vs := map (factor_val ts scalars p) (t_factors t) in
  match t_take t with
  | None => fold_left Z.mul vs 1
  | Some sel => if forallb (fun v => negb (v =? 0)) vs then nth sel vs 0 else 0
  end.

Fixpoint points (vars : list (string * Z)) : list point :=
  match vars with
  | [] => [[]]
  | (x, n) :: vars' =>
      flat_map (fun i => map (fun p => (x, i) :: p) (points vars'))
               ((fix range (lo : Z) (k : nat) : list Z := match k with O => [] | S k' => lo :: range (lo + 1) k' end) 0 (Z.to_nat n))
  end.

(* lexicographic sorted accumulate *)
Fixpoint zs_ltb (a b : list Z) : bool :=
  match a, b with
  | [], [] => false | [], _ => true | _, [] => false
  | x :: a', y :: b' => (x <? y) || ((x =? y) && zs_ltb a' b')
  end.
Fixpoint dadd (k : list Z) (v : Z) (d : data) : data :=
  match d with
  | [] => [(k, v)]
  | (k', w) :: d' => if zs_ltb k k' then (k, v) :: d
                     else if zs_eqb k k' then (k', w + v) :: d'
                     else (k', w) :: dadd k v d'
  end.

Definition denote (e : einsum) (ts : tensors) (scalars : point) : data :=
  let acc := fold_left (fun d p =>
                          let v := fold_left (fun s t => s + term_val ts scalars p t) (e_terms e) 0 in
                          if v =? 0 then d else dadd (map (fun a => aff_eval a p) (e_out_idx e)) v d)
                       (points (e_vars e)) [] in
  filter (fun kv => negb (snd kv =? 0)) acc.

(* a cascade: each Einsum reads the results of its predecessors *)
Fixpoint denote_all (es : list einsum) (ts : tensors) (scalars : point) : tensors :=
  match es with
  | [] => ts
  | e :: es' => denote_all es' ((e_out e, denote e ts scalars) :: ts) scalars
  end.
