(* Proofs about Model/Defaults.v (property C19). *)
From Coq Require Import String List Bool Arith Lia Permutation ZArith.
Require Import TV.Model.Show TV.Model.Defaults.
Import ListNotations.
Open Scope string_scope.
Open Scope list_scope.

(* ------------------------------------------------------------------------------------ *)
(* membership, first-occurrence de-duplication                                            *)
(* ------------------------------------------------------------------------------------ *)
Lemma smem_In x l : smem x l = true <-> In x l.
Proof.
  unfold smem. rewrite existsb_exists. split.
  - intros [y [Hy He]]. apply String.eqb_eq in He. subst. exact Hy.
  - intro H. exists x. split; [exact H|apply String.eqb_refl].
Qed.

Lemma smem_false x l : smem x l = false <-> ~ In x l.
Proof.
  split.
  - intros H Hin. apply smem_In in Hin. congruence.
  - intro H. destruct (smem x l) eqn:E; [|reflexivity]. apply smem_In in E. contradiction.
Qed.

Lemma smem_ext x s1 s2 : (forall y, In y s1 <-> In y s2) -> smem x s1 = smem x s2.
Proof.
  intro H. apply eq_true_iff_eq. rewrite !smem_In. apply H.
Qed.

Lemma uniq_from_ext l : forall s1 s2, (forall y, In y s1 <-> In y s2) -> uniq_from s1 l = uniq_from s2 l.
Proof.
  induction l as [|x t IH]; intros s1 s2 H; simpl; [reflexivity|].
  rewrite (smem_ext x s1 s2 H). destruct (smem x s2).
  - apply IH, H.
  - f_equal. apply IH. intro y. simpl. rewrite H. tauto.
Qed.

Lemma uniq_from_In l : forall s x, In x (uniq_from s l) <-> In x l /\ ~ In x s.
Proof.
  induction l as [|a t IH]; intros s x; simpl; [tauto|].
  destruct (smem a s) eqn:E.
  - apply smem_In in E. rewrite IH. split.
    + intros [H1 H2]. tauto.
    + intros [[H1|H1] H2]; [subst; contradiction|tauto].
  - apply smem_false in E. simpl. rewrite IH. simpl. split.
    + intros [H|[H1 H2]]; [subst; tauto|tauto].
    + intros [[H1|H1] H2]; [tauto|].
      destruct (string_dec a x); [tauto|]. right. tauto.
Qed.

Lemma uniq_from_NoDup l : forall s, NoDup (uniq_from s l).
Proof.
  induction l as [|a t IH]; intros s; simpl; [constructor|].
  destruct (smem a s); [apply IH|]. constructor; [|apply IH].
  rewrite uniq_from_In. simpl. tauto.
Qed.

Lemma uniq_from_app l1 : forall s l2, uniq_from s (l1 ++ l2) = uniq_from s l1 ++ uniq_from (l1 ++ s) l2.
Proof.
  induction l1 as [|x t IH]; intros s l2; simpl; [reflexivity|].
  destruct (smem x s) eqn:E.
  - rewrite IH. f_equal. apply uniq_from_ext. intro y. simpl. apply smem_In in E.
    rewrite !in_app_iff. split; [tauto|]. intros [H|[H|H]]; subst; tauto.
  - simpl. f_equal. rewrite IH. f_equal. apply uniq_from_ext. intro y. simpl.
    rewrite !in_app_iff. simpl. tauto.
Qed.

Lemma uniq_from_nil l : forall s, (forall x, In x l -> In x s) -> uniq_from s l = [].
Proof.
  induction l as [|a t IH]; intros s H; simpl; [reflexivity|].
  assert (E : smem a s = true) by (apply smem_In, H; left; reflexivity).
  rewrite E. apply IH. intros x Hx. apply H. right. exact Hx.
Qed.

Lemma uniq_from_id l : forall s, NoDup l -> (forall x, In x l -> ~ In x s) -> uniq_from s l = l.
Proof.
  induction l as [|a t IH]; intros s Hnd H; simpl; [reflexivity|].
  inversion Hnd as [|? ? Hna Hnd']; subst.
  assert (E : smem a s = false) by (apply smem_false, H; left; reflexivity).
  rewrite E. f_equal. apply IH; [exact Hnd'|].
  intros x Hx [Hs|Hs]; [subst; contradiction|]. apply (H x); [right; exact Hx|exact Hs].
Qed.

Lemma uniq_from_idem l : forall s s', incl s' s -> uniq_from s (uniq_from s' l) = uniq_from s l.
Proof.
  induction l as [|a t IH]; intros s s' Hi; simpl; [reflexivity|].
  destruct (smem a s') eqn:E'.
  - assert (E : smem a s = true) by (apply smem_In, Hi, smem_In, E'). rewrite E. apply IH, Hi.
  - simpl. destruct (smem a s) eqn:E.
    + apply IH. intros y [Hy|Hy]; [subst; apply smem_In, E|apply Hi, Hy].
    + f_equal. apply IH. intros y [Hy|Hy]; [left; exact Hy|right; apply Hi, Hy].
Qed.

Lemma dedup_In l x : In x (dedup l) <-> In x l.
Proof. unfold dedup. rewrite uniq_from_In. simpl. tauto. Qed.

Lemma dedup_NoDup l : NoDup (dedup l).
Proof. apply uniq_from_NoDup. Qed.

(* the imperative "append if new" loop is the declarative first-occurrence filter *)
Lemma append_new_spec l : forall acc, append_new acc l = acc ++ uniq_from acc l.
Proof.
  unfold append_new. induction l as [|x t IH]; intros acc; simpl; [rewrite app_nil_r; reflexivity|].
  destruct (smem x acc) eqn:E.
  - apply IH.
  - rewrite IH. rewrite <- app_assoc. simpl. do 2 f_equal. apply uniq_from_ext.
    intro y. rewrite in_app_iff. simpl. tauto.
Qed.

Lemma fold_append_new {A : Type} (f : A -> list string) (ls : list A) : forall acc,
  fold_left (fun acc a => append_new acc (f a)) ls acc = acc ++ uniq_from acc (flat_map f ls).
Proof.
  induction ls as [|a t IH]; intros acc; simpl; [rewrite app_nil_r; reflexivity|].
  rewrite IH, append_new_spec, uniq_from_app, <- app_assoc. do 2 f_equal.
  apply uniq_from_ext. intro y. rewrite !in_app_iff, uniq_from_In. split.
  - intros [H|[H _]]; tauto.
  - intros [H|H]; [|tauto]. destruct (in_dec string_dec y acc); tauto.
Qed.

(* ------------------------------------------------------------------------------------ *)
(* Equation.__build_einsum_ranks against the written order                                *)
(* ------------------------------------------------------------------------------------ *)
Lemma filter_all {A} (p : A -> bool) l : forallb p l = true -> filter p l = l.
Proof.
  induction l as [|a t IH]; simpl; [reflexivity|]. intro H. apply andb_true_iff in H as [H1 H2].
  rewrite H1, IH; auto.
Qed.

Lemma filter_none {A} (p : A -> bool) l : forallb (fun x => negb (p x)) l = true -> filter p l = [].
Proof.
  induction l as [|a t IH]; simpl; [reflexivity|]. intro H. apply andb_true_iff in H as [H1 H2].
  apply negb_true_iff in H1. rewrite H1. auto.
Qed.

Lemma coeffs_last_partition ts : coeffs_last_l ts = true ->
  filter is_just ts ++ filter (fun t => negb (is_just t)) ts = ts.
Proof.
  induction ts as [|[v|c v] t IH]; simpl; intro H; [reflexivity| |].
  - f_equal. apply IH, H.
  - rewrite (filter_none is_just t H), (filter_all _ t H). reflexivity.
Qed.

Lemma access_code_written a : coeffs_last a = true -> access_ranks_code a = access_ranks_written a.
Proof.
  unfold coeffs_last, access_ranks_code, access_ranks_written. intro H.
  rewrite (coeffs_last_partition _ H). reflexivity.
Qed.

Lemma access_code_In a x : In x (access_ranks_code a) <-> In x (access_ranks_written a).
Proof.
  unfold access_ranks_code, access_ranks_written. rewrite !in_map_iff. split.
  - intros [t [Ht Hin]]. exists t. split; [exact Ht|].
    apply in_app_iff in Hin as [Hin|Hin]; apply filter_In in Hin; tauto.
  - intros [t [Ht Hin]]. exists t. split; [exact Ht|]. rewrite in_app_iff, !filter_In.
    destruct (is_just t); simpl; tauto.
Qed.

Lemma term_ranks_code_spec t : term_ranks_code t = dedup (flat_map access_ranks_code (term_accesses t)).
Proof. unfold term_ranks_code. rewrite fold_append_new. reflexivity. Qed.

Lemma term_ranks_code_In t x : In x (term_ranks_code t) <-> In x (term_ranks_written t).
Proof.
  rewrite term_ranks_code_spec, dedup_In. unfold term_ranks_written. rewrite !in_flat_map.
  split; intros [a [Ha Hx]]; exists a; (split; [exact Ha|]); apply access_code_In; exact Hx.
Qed.

Lemma term_ranks_code_NoDup t : NoDup (term_ranks_code t).
Proof. rewrite term_ranks_code_spec. apply dedup_NoDup. Qed.

Lemma flat_map_ext_in {A B} (f g : A -> list B) l : (forall a, In a l -> f a = g a) -> flat_map f l = flat_map g l.
Proof.
  induction l as [|a t IH]; simpl; intro H; [reflexivity|]. rewrite H by (left; reflexivity).
  f_equal. apply IH. intros; apply H; right; assumption.
Qed.

Lemma term_ranks_code_plain t : forallb coeffs_last (term_accesses t) = true ->
  term_ranks_code t = dedup (term_ranks_written t).
Proof.
  intro H. rewrite term_ranks_code_spec. unfold term_ranks_written. f_equal.
  apply flat_map_ext_in. intros a Ha. apply access_code_written.
  rewrite forallb_forall in H. apply H, Ha.
Qed.

Lemma count_occ_NoDup_In (l : list string) x : NoDup l ->
  count_occ string_dec l x = if in_dec string_dec x l then 1 else 0.
Proof.
  intro H. destruct (in_dec string_dec x l) as [Hi|Hi].
  - apply (proj1 (NoDup_count_occ' string_dec l)) in Hi; assumption.
  - apply count_occ_not_In; assumption.
Qed.

Lemma counter_eqb_true a b : NoDup a -> NoDup b -> (forall x, In x a <-> In x b) -> counter_eqb a b = true.
Proof.
  intros Ha Hb H. unfold counter_eqb. apply forallb_forall. intros x _. apply Nat.eqb_eq.
  rewrite (count_occ_NoDup_In a x Ha), (count_occ_NoDup_In b x Hb).
  destruct (in_dec string_dec x a) as [H1|H1], (in_dec string_dec x b) as [H2|H2]; try reflexivity;
    exfalso; apply H in H1 || (apply H in H2; contradiction); contradiction.
Qed.

Lemma subset_b_incl a b : subset_b a b = true <-> (forall x, In x a -> In x b).
Proof.
  unfold subset_b. rewrite forallb_forall. split; intros H x Hx; [apply smem_In|apply smem_In]; auto.
Qed.

(* what same_ranks_b says *)
Definition same_ranks (e : einsum) : Prop :=
  exists t rest, e_terms e = t :: rest /\
    forall t', In t' (e_terms e) -> forall r, In r (term_ranks_written t') <-> In r (term_ranks_written t).

Lemma same_ranks_b_spec e : same_ranks_b e = true <-> same_ranks e.
Proof.
  unfold same_ranks_b, same_ranks. destruct (e_terms e) as [|t rest].
  - split; [discriminate|]. intros [t [rest [H _]]]. discriminate.
  - rewrite forallb_forall. split.
    + intro H. exists t, rest. split; [reflexivity|]. intros t' [Ht'|Ht'] r; [subst; tauto|].
      specialize (H t' Ht'). apply andb_true_iff in H as [H1 H2].
      rewrite subset_b_incl in H1, H2. split; auto.
    + intros [t0 [rest0 [Heq H]]]. inversion Heq; subst. intros t' Ht'.
      apply andb_true_iff. rewrite !subset_b_incl. split; intros x Hx; apply (H t' (or_intror Ht') x); exact Hx.
Qed.

Lemma code_terms_In e t : In t (code_terms e) <-> In t (e_terms e).
Proof.
  unfold code_terms. rewrite in_app_iff, !filter_In. destruct (is_times t); simpl; tauto.
Qed.

Lemma code_terms_head e t rest : e_terms e = t :: rest -> head_ok e = true ->
  exists rest', code_terms e = t :: rest'.
Proof.
  unfold head_ok, code_terms. intros -> H. apply orb_true_iff in H as [H|H].
  - simpl. rewrite H. simpl. eexists; reflexivity.
  - rewrite (filter_none is_times _ H). simpl in H. apply andb_true_iff in H as [H1 H2].
    simpl. rewrite H1. simpl. eexists; reflexivity.
Qed.

Lemma counter_check_passes e t : same_ranks e -> In t (e_terms e) -> forall ts, incl ts (e_terms e) ->
  forallb (fun t' => counter_eqb (term_ranks_code t') (term_ranks_code t)) ts = true.
Proof.
  intros [t0 [rest [Heq H]]] Ht ts Hi. apply forallb_forall. intros t' Ht'.
  apply counter_eqb_true; try apply term_ranks_code_NoDup.
  intro x. rewrite !term_ranks_code_In. rewrite (H t' (Hi _ Ht') x), (H t Ht x). tauto.
Qed.

Lemma nodup_b_NoDup l : nodup_b l = true <-> NoDup l.
Proof.
  induction l as [|a t IH]; simpl.
  - split; [constructor|reflexivity].
  - rewrite andb_true_iff, negb_true_iff, smem_false, IH. split.
    + intros [H1 H2]. constructor; assumption.
    + intro H. inversion H; subst. tauto.
Qed.

(* (A) on the class plain_first the code's default is the canonical order *)
Lemma code_einsum_ranks_canonical e : same_ranks_b e = true -> plain_first e = true ->
  code_einsum_ranks e = Some (canonical_ranks e).
Proof.
  intros Hs Hp. apply same_ranks_b_spec in Hs. pose proof Hs as Hs'.
  destruct Hs as [t [rest [Heq Hsame]]].
  unfold plain_first in Hp. rewrite Heq in Hp.
  apply andb_true_iff in Hp as [Hp Hacc]. apply andb_true_iff in Hp as [Hp Hnd].
  apply andb_true_iff in Hp as [Hhead Hout].
  destruct (code_terms_head e t rest Heq Hhead) as [rest' Hct].
  unfold code_einsum_ranks. rewrite Hct.
  assert (Hin_t : In t (e_terms e)) by (rewrite Heq; left; reflexivity).
  rewrite (counter_check_passes e t Hs' Hin_t rest').
  2:{ intros x Hx. apply code_terms_In. rewrite Hct. right. exact Hx. }
  f_equal. rewrite append_new_spec, (access_code_written _ Hout), (term_ranks_code_plain t Hacc).
  unfold canonical_ranks, rhs_ranks_written, dedup. rewrite Heq. simpl flat_map.
  rewrite uniq_from_app. apply nodup_b_NoDup in Hnd.
  rewrite (uniq_from_id _ [] Hnd) by (intros; intro; contradiction).
  f_equal. rewrite app_nil_r, uniq_from_app.
  rewrite (uniq_from_nil (flat_map term_ranks_written rest)).
  2:{ intros x Hx. apply in_flat_map in Hx as [t' [Ht' Hx]]. apply in_app_iff. left.
      apply (Hsame t'); [rewrite Heq; right; exact Ht'|exact Hx]. }
  rewrite app_nil_r. apply uniq_from_idem. intros y [].
Qed.

(* the ranks of the terms after the first one never matter for the canonical order *)
Lemma canonical_first_term e t rest : e_terms e = t :: rest -> same_ranks e ->
  canonical_ranks e = dedup (access_ranks_written (e_oidx e) ++ term_ranks_written t).
Proof.
  intros Heq [t0 [rest0 [Heq0 Hsame]]]. rewrite Heq in Heq0. inversion Heq0; subst t0 rest0.
  unfold canonical_ranks, rhs_ranks_written, dedup. rewrite Heq. simpl flat_map.
  rewrite !uniq_from_app. rewrite (uniq_from_nil (flat_map term_ranks_written rest)); [rewrite app_nil_r; reflexivity|].
  intros x Hx. apply in_flat_map in Hx as [t' [Ht' Hx]]. apply in_app_iff. left.
  apply (Hsame t'); [rewrite Heq; right; exact Ht'|exact Hx].
Qed.

Lemma NoDup_app_disj {A} (a b : list A) : NoDup a -> NoDup b -> (forall x, In x a -> ~ In x b) -> NoDup (a ++ b).
Proof.
  induction a as [|x t IH]; simpl; intros Ha Hb H; [exact Hb|].
  inversion Ha; subst. constructor.
  - rewrite in_app_iff. intros [H1|H1]; [contradiction|]. apply (H x); [left; reflexivity|exact H1].
  - apply IH; auto.
Qed.

(* (B) in every case the code's default is a permutation of the canonical one that starts with the output ranks *)
Lemma code_einsum_ranks_perm e : same_ranks_b e = true -> NoDup (access_ranks_code (e_oidx e)) ->
  exists l, code_einsum_ranks e = Some l /\ Permutation l (canonical_ranks e) /\ NoDup l /\
            exists tail, l = access_ranks_code (e_oidx e) ++ tail.
Proof.
  intros Hs Hnd. apply same_ranks_b_spec in Hs. pose proof Hs as Hs'.
  destruct Hs as [t [rest [Heq Hsame]]].
  unfold code_einsum_ranks. destruct (code_terms e) as [|tc restc] eqn:Hct.
  - exfalso. assert (In t (code_terms e)) by (apply code_terms_In; rewrite Heq; left; reflexivity).
    rewrite Hct in H. contradiction.
  - assert (Htc : In tc (e_terms e)) by (apply code_terms_In; rewrite Hct; left; reflexivity).
    rewrite (counter_check_passes e tc Hs' Htc restc).
    2:{ intros x Hx. apply code_terms_In. rewrite Hct. right. exact Hx. }
    eexists. split; [reflexivity|]. rewrite append_new_spec.
    assert (Hnd2 : NoDup (access_ranks_code (e_oidx e) ++ uniq_from (access_ranks_code (e_oidx e)) (term_ranks_code tc))).
    { apply NoDup_app_disj; [exact Hnd|apply uniq_from_NoDup|].
      intros x Hx Hx'. apply uniq_from_In in Hx'. tauto. }
    split; [|split; [exact Hnd2|eexists; reflexivity]].
    apply NoDup_Permutation; [exact Hnd2|apply dedup_NoDup|].
    intro x. unfold canonical_ranks. rewrite dedup_In, !in_app_iff, uniq_from_In, term_ranks_code_In.
    rewrite access_code_In. unfold rhs_ranks_written. rewrite in_flat_map. split.
    + intros [H|[H _]]; [left; exact H|]. right. exists tc. split; assumption.
    + intros [H|[t' [Ht' Hx]]]; [left; exact H|].
      destruct (in_dec string_dec x (access_ranks_written (e_oidx e))) as [Hi|Hi]; [left; exact Hi|].
      right. split; [|exact Hi].
      apply (Hsame tc Htc). apply (Hsame t' Ht'). exact Hx.
Qed.

(* ------------------------------------------------------------------------------------ *)
(* Partitioning.partition_ranks (all levels) = in-place expansion, for ANY iteration order *)
(* of the set of partitioned ranks                                                         *)
(* ------------------------------------------------------------------------------------ *)
Lemma insert_at_app P : forall i x l, insert_at (length P + i) x (P ++ l) = P ++ insert_at i x l.
Proof. induction P as [|a P IH]; intros; simpl; [reflexivity|]. rewrite IH. reflexivity. Qed.

Lemma fold_insert_app P i names : forall l,
  fold_left (fun acc nm => insert_at (length P + i) nm acc) names (P ++ l) =
  P ++ fold_left (fun acc nm => insert_at i nm acc) names l.
Proof.
  induction names as [|nm t IH]; intros l; simpl; [reflexivity|]. rewrite insert_at_app. apply IH.
Qed.

Lemma fold_insert_0 names : forall l, fold_left (fun acc nm => insert_at 0 nm acc) names l = rev names ++ l.
Proof.
  induction names as [|nm t IH]; intros l; simpl; [reflexivity|]. rewrite IH, <- app_assoc. reflexivity.
Qed.

Lemma index_of_app P r l : ~ In r P -> index_of r (P ++ l) = length P + index_of r l.
Proof.
  induction P as [|a P IH]; simpl; intro H; [reflexivity|].
  destruct (String.eqb r a) eqn:E; [apply String.eqb_eq in E; subst; tauto|]. rewrite IH by tauto. reflexivity.
Qed.

Lemma remove_first_app P r l : ~ In r P -> remove_first r (P ++ l) = P ++ remove_first r l.
Proof.
  induction P as [|a P IH]; simpl; intro H; [reflexivity|].
  destruct (String.eqb r a) eqn:E; [apply String.eqb_eq in E; subst; tauto|]. rewrite IH by tauto. reflexivity.
Qed.

Lemma update_ranks_app P r n l : ~ In r P -> update_ranks r n (P ++ l) = P ++ update_ranks r n l.
Proof.
  intro H. unfold update_ranks. rewrite index_of_app, remove_first_app by exact H. apply fold_insert_app.
Qed.

Lemma level_names_rev r n : rev (names_ascending r n) = level_names r n.
Proof. unfold names_ascending, level_names. rewrite map_rev. reflexivity. Qed.

Lemma update_ranks_head r n l : update_ranks r n (r :: l) = level_names r n ++ l.
Proof.
  unfold update_ranks. simpl index_of. simpl remove_first. rewrite String.eqb_refl.
  rewrite fold_insert_0, level_names_rev. reflexivity.
Qed.

Definition slot (ps : parts) (r : string) : list string :=
  match lookup r ps with Some n => level_names r n | None => [r] end.

Lemma expand_slot ps ranks : expand ps ranks = flat_map (slot ps) ranks.
Proof. reflexivity. Qed.

Lemma lookup_In {A} r (l : list (string * A)) v : lookup r l = Some v -> In (r, v) l.
Proof.
  induction l as [|[k w] t IH]; simpl; [discriminate|].
  destruct (String.eqb r k) eqn:E.
  - intro H. inversion H; subst. apply String.eqb_eq in E. subst. left. reflexivity.
  - intro H. right. apply IH, H.
Qed.

Lemma lookup_None {A} r (l : list (string * A)) : lookup r l = None <-> ~ In r (map fst l).
Proof.
  induction l as [|[k w] t IH]; simpl; [tauto|].
  destruct (String.eqb r k) eqn:E.
  - apply String.eqb_eq in E. subst. split; [discriminate|]. intro H. exfalso. apply H. left. reflexivity.
  - apply String.eqb_neq in E. rewrite IH. split; [|tauto]. intros H [H1|H1]; [congruence|contradiction].
Qed.

Lemma lookup_NoDup_In {A} r (l : list (string * A)) v : NoDup (map fst l) -> In (r, v) l -> lookup r l = Some v.
Proof.
  induction l as [|[k w] t IH]; simpl; [tauto|]. intros Hnd [H|H].
  - inversion H; subst. rewrite String.eqb_refl. reflexivity.
  - inversion Hnd as [|? ? Hn Hnd']; subst. destruct (String.eqb r k) eqn:E.
    + apply String.eqb_eq in E. subst. exfalso. apply Hn. apply in_map_iff. exists (k, v). split; [reflexivity|exact H].
    + apply IH; assumption.
Qed.

Definition fresh (ps : parts) : Prop :=
  forall p nm, In p ps -> In nm (level_names (fst p) (snd p)) -> ~ In nm (map fst ps).

Lemma fresh_b_spec ps : fresh_b ps = true <-> fresh ps.
Proof.
  unfold fresh_b, fresh. rewrite forallb_forall. split.
  - intros H p nm Hp Hnm. specialize (H p Hp). rewrite forallb_forall in H. specialize (H nm Hnm).
    apply negb_true_iff, smem_false in H. exact H.
  - intros H p Hp. apply forallb_forall. intros nm Hnm. apply negb_true_iff, smem_false. eapply H; eauto.
Qed.

Lemma expand_ext ps1 ps2 ranks : (forall r, In r ranks -> lookup r ps1 = lookup r ps2) ->
  expand ps1 ranks = expand ps2 ranks.
Proof.
  intro H. unfold expand. apply flat_map_ext_in. intros r Hr. rewrite (H r Hr). reflexivity.
Qed.

Lemma expand_nil ranks : expand [] ranks = ranks.
Proof. unfold expand. induction ranks as [|a t IH]; simpl in *; [reflexivity|]. f_equal. exact IH. Qed.

Lemma expand_In ps ranks x : In x (expand ps ranks) ->
  (In x ranks /\ lookup x ps = None) \/ (exists r n, In r ranks /\ lookup r ps = Some n /\ In x (level_names r n)).
Proof.
  unfold expand. rewrite in_flat_map. intros [r [Hr Hx]]. destruct (lookup r ps) as [n|] eqn:E.
  - right. exists r, n. tauto.
  - left. destruct Hx as [Hx|[]]. subst. tauto.
Qed.

(* one update step on an already partly expanded list *)
Lemma update_expand_step done r n : forall ranks,
  NoDup ranks -> In r ranks -> lookup r done = None ->
  (forall r' n', lookup r' done = Some n' -> ~ In r (level_names r' n')) ->
  update_ranks r n (expand done ranks) = expand ((r, n) :: done) ranks.
Proof.
  induction ranks as [|x t IH]; intros Hnd Hin Hl Hfr; [contradiction|].
  inversion Hnd as [|? ? Hnx Hnd']; subst. rewrite !expand_slot. simpl flat_map. rewrite <- !expand_slot.
  destruct (string_dec x r) as [->|Hne].
  - unfold slot at 1. rewrite Hl. simpl app. rewrite update_ranks_head.
    unfold slot. simpl lookup. rewrite String.eqb_refl. f_equal.
    apply expand_ext. intros r' Hr'. simpl. destruct (String.eqb r' r) eqn:E; [|reflexivity].
    apply String.eqb_eq in E. subst. contradiction.
  - destruct Hin as [Hin|Hin]; [contradiction|].
    assert (Hslot : slot ((r, n) :: done) x = slot done x).
    { unfold slot. simpl. destruct (String.eqb x r) eqn:E; [apply String.eqb_eq in E; contradiction|reflexivity]. }
    rewrite Hslot. rewrite update_ranks_app.
    + f_equal. apply IH; assumption.
    + unfold slot. destruct (lookup x done) as [n'|] eqn:E.
      * apply Hfr. exact E.
      * intros [H|[]]. contradiction.
Qed.

Lemma fold_update_expand ps ranks : NoDup ranks -> fresh ps -> forall used done,
  incl used ps -> incl done ps -> NoDup (map fst (used ++ done)) ->
  (forall p, In p used -> In (fst p) ranks) ->
  fold_left (fun acc p => update_ranks (fst p) (snd p) acc) used (expand done ranks) = expand (rev used ++ done) ranks.
Proof.
  intros Hnd Hfr. induction used as [|[r n] u IH]; intros done Hu Hd Hk Hr; simpl; [reflexivity|].
  rewrite update_expand_step.
  - rewrite IH.
    + rewrite <- app_assoc. reflexivity.
    + intros p Hp. apply Hu. right. exact Hp.
    + intros p [Hp|Hp]; [subst; apply Hu; left; reflexivity|apply Hd, Hp].
    + simpl in Hk. rewrite map_app in Hk. rewrite map_app. simpl.
      eapply Permutation_NoDup; [apply Permutation_middle|exact Hk].
    + intros p Hp. apply Hr. right. exact Hp.
  - exact Hnd.
  - apply (Hr (r, n)). left. reflexivity.
  - apply lookup_None. simpl in Hk. inversion Hk as [|? ? Hn _]; subst. intro H. apply Hn.
    rewrite map_app, in_app_iff. right. exact H.
  - intros r' n' Hl Hin. apply lookup_In in Hl. apply (Hfr (r', n') r (Hd _ Hl) Hin).
    apply in_map_iff. exists (r, n). split; [reflexivity|]. apply Hu. left. reflexivity.
Qed.

Lemma filter_nil_all {A} (p : A -> bool) l : (forall x, In x l -> p x = false) -> filter p l = [].
Proof.
  induction l as [|a t IH]; simpl; intro H; [reflexivity|]. rewrite (H a) by (left; reflexivity).
  apply IH. intros; apply H; right; assumption.
Qed.

Lemma NoDup_map_filter {A B} (f : A -> B) (p : A -> bool) l : NoDup (map f l) -> NoDup (map f (filter p l)).
Proof.
  induction l as [|a t IH]; simpl; intro H; [constructor|]. inversion H; subst.
  destruct (p a); [|apply IH; assumption]. simpl. constructor; [|apply IH; assumption].
  intro Hin. apply in_map_iff in Hin as [x [Hx Hin]]. apply filter_In in Hin as [Hin _].
  apply H2. apply in_map_iff. exists x. tauto.
Qed.

(* partition_ranks with the parts listed in their own order *)
Lemma part_loop_expand_self ps ranks fuel : NoDup (map fst ps) -> fresh ps -> NoDup ranks -> 2 <= fuel ->
  part_loop fuel ps ranks = Some (expand ps ranks).
Proof.
  intros Hk Hfr Hnd Hfuel. destruct fuel as [|[|f]]; try lia.
  assert (Hused : forall p, In p (used_parts ps ranks) <-> In p ps /\ In (fst p) ranks).
  { intro p. unfold used_parts. rewrite filter_In, smem_In. tauto. }
  assert (Hexp : expand (rev (used_parts ps ranks)) ranks = expand ps ranks).
  { apply expand_ext. intros r Hr. destruct (lookup r ps) as [n|] eqn:E.
    - apply lookup_NoDup_In.
      + rewrite map_rev. apply NoDup_rev. apply NoDup_map_filter. exact Hk.
      + apply in_rev. rewrite rev_involutive. apply Hused. split; [apply lookup_In, E|exact Hr].
    - apply lookup_None. apply lookup_None in E. intro H. apply E.
      apply in_map_iff in H as [p [Hp Hin]]. apply in_rev in Hin. apply Hused in Hin.
      apply in_map_iff. exists p. tauto. }
  assert (Hfold : fold_left (fun acc p => update_ranks (fst p) (snd p) acc) (used_parts ps ranks) ranks
                  = expand ps ranks).
  { rewrite <- Hexp.
    pose proof (fold_update_expand ps ranks Hnd Hfr (used_parts ps ranks) []) as H.
    rewrite expand_nil, !app_nil_r in H. apply H.
    - intros p Hp. apply Hused in Hp. tauto.
    - intros p [].
    - apply NoDup_map_filter. exact Hk.
    - intros p Hp. apply Hused in Hp. tauto. }
  assert (Hdone : used_parts ps (expand ps ranks) = []).
  { unfold used_parts. apply filter_nil_all. intros p Hp. apply smem_false. intro Hin.
    apply expand_In in Hin as [[Hin Hl]|[r [n [Hr [Hl Hin]]]]].
    - apply lookup_None in Hl. apply Hl. apply in_map. exact Hp.
    - apply lookup_In in Hl. apply (Hfr (r, n) (fst p) Hl Hin). apply in_map. exact Hp. }
  cbn [part_loop]. destruct (used_parts ps ranks) as [|p u] eqn:Eu.
  - f_equal. simpl in Hfold. exact Hfold.
  - rewrite Hfold. rewrite Hdone. reflexivity.
Qed.

Lemma lookup_perm {A} r (l l' : list (string * A)) : NoDup (map fst l) -> Permutation l l' -> lookup r l = lookup r l'.
Proof.
  intros Hk Hp. assert (Hk' : NoDup (map fst l')) by (eapply Permutation_NoDup; [apply Permutation_map, Hp|exact Hk]).
  destruct (lookup r l) as [v|] eqn:E.
  - symmetry. apply lookup_NoDup_In; [exact Hk'|]. eapply Permutation_in; [exact Hp|]. apply lookup_In, E.
  - symmetry. apply lookup_None. apply lookup_None in E. intro H. apply E.
    eapply Permutation_in; [apply Permutation_map, Permutation_sym, Hp|exact H].
Qed.

Lemma fresh_perm ps ps' : Permutation ps ps' -> fresh ps -> fresh ps'.
Proof.
  intros Hp H p nm Hin Hnm Hk. apply (H p nm).
  - eapply Permutation_in; [apply Permutation_sym, Hp|exact Hin].
  - exact Hnm.
  - eapply Permutation_in; [apply Permutation_map, Permutation_sym, Hp|exact Hk].
Qed.

(* (C) whatever order Python iterates the set of partitioned ranks in, the while loop ends after
   two rounds with every partitioned rank replaced in place by [Rn; ...; R0] *)
Lemma part_loop_expand ps ps' ranks fuel :
  NoDup (map fst ps) -> fresh_b ps = true -> NoDup ranks -> Permutation ps ps' -> 2 <= fuel ->
  part_loop fuel ps' ranks = Some (expand ps ranks).
Proof.
  intros Hk Hfr Hnd Hp Hfuel. apply fresh_b_spec in Hfr.
  rewrite (part_loop_expand_self ps' ranks fuel).
  - f_equal. apply expand_ext. intros r _. symmetry. apply lookup_perm; assumption.
  - eapply Permutation_NoDup; [apply Permutation_map, Hp|exact Hk].
  - eapply fresh_perm; eassumption.
  - exact Hnd.
  - exact Hfuel.
Qed.


(* ------------------------------------------------------------------------------------ *)
(* The default loop order                                                                 *)
(* ------------------------------------------------------------------------------------ *)
Lemma canonical_ranks_NoDup e : NoDup (canonical_ranks e).
Proof. apply dedup_NoDup. Qed.

Lemma default_loop_order_spec e ps ps' fuel :
  same_ranks_b e = true -> plain_first e = true ->
  NoDup (map fst ps) -> fresh_b ps = true -> Permutation ps ps' -> 2 <= fuel ->
  code_default_loop_order fuel e ps' = Some (canonical_order e ps).
Proof.
  intros Hs Hp Hk Hfr Hperm Hfuel. unfold code_default_loop_order, canonical_order.
  rewrite (code_einsum_ranks_canonical e Hs Hp).
  apply part_loop_expand; try assumption. apply canonical_ranks_NoDup.
Qed.

(* outside the class: still the in-place expansion of a permutation of the canonical ranks
   that begins with the output ranks *)
Lemma default_loop_order_perm e ps ps' fuel :
  same_ranks_b e = true -> NoDup (access_ranks_code (e_oidx e)) ->
  NoDup (map fst ps) -> fresh_b ps = true -> Permutation ps ps' -> 2 <= fuel ->
  exists l tail, Permutation l (canonical_ranks e) /\ l = access_ranks_code (e_oidx e) ++ tail /\
                 code_default_loop_order fuel e ps' = Some (expand ps l).
Proof.
  intros Hs Hnd Hk Hfr Hperm Hfuel.
  destruct (code_einsum_ranks_perm e Hs Hnd) as [l [Hl [Hpl [Hndl [tail Ht]]]]].
  exists l, tail. split; [exact Hpl|]. split; [exact Ht|].
  unfold code_default_loop_order. rewrite Hl. apply part_loop_expand; assumption.
Qed.

(* with no partitioning the loop order is the canonical rank list itself *)
Lemma canonical_order_no_parts e : canonical_order e [] = canonical_ranks e.
Proof. apply expand_nil. Qed.

(* the faithful model of the pinned tree does NOT satisfy "order of first appearance" *)
Definition wit_take : einsum :=
  mkEinsum "Z" []
    [TTake [FTen "A" [[IJust "j"]; [IJust "m"]]; FTen "B" [[IJust "n"]]] 0;
     TTimes [FTen "C" [[IJust "n"]; [IJust "m"]; [IJust "j"]]]].
Definition wit_coeff : einsum :=
  mkEinsum "Z" []
    [TTimes [FTen "I" [[ITimes 2 "q"; IJust "s"]]; FTen "F" [[IJust "s"]]; FTen "G" [[IJust "q"]]]].

Lemma first_appearance_refuted_take :
  same_ranks_b wit_take = true /\ canonical_ranks wit_take = ["J"; "M"; "N"] /\
  code_einsum_ranks wit_take = Some ["N"; "M"; "J"].
Proof. vm_compute. repeat split. Qed.

Lemma first_appearance_refuted_coeff :
  same_ranks_b wit_coeff = true /\ canonical_ranks wit_coeff = ["Q"; "S"] /\
  code_einsum_ranks wit_coeff = Some ["S"; "Q"].
Proof. vm_compute. repeat split. Qed.

Lemma first_appearance_refuted :
  exists e, same_ranks_b e = true /\ NoDup (access_ranks_code (e_oidx e)) /\
            code_einsum_ranks e <> Some (canonical_ranks e).
Proof.
  exists wit_take. split; [vm_compute; reflexivity|]. split; [constructor|]. vm_compute. discriminate.
Qed.

(* ------------------------------------------------------------------------------------ *)
(* rank order and partitioning                                                            *)
(* ------------------------------------------------------------------------------------ *)
Lemma lookup_app {A} k (a b : list (string * A)) :
  lookup k (a ++ b) = match lookup k a with Some v => Some v | None => lookup k b end.
Proof.
  induction a as [|[k' v] t IH]; simpl; [reflexivity|]. destruct (String.eqb k k'); [reflexivity|apply IH].
Qed.

Lemma resolve_omitted d : resolve_rank_orders d [] = declared_rank_orders d.
Proof.
  unfold resolve_rank_orders, declared_rank_orders. induction d as [|[k v] t IH]; simpl; [reflexivity|].
  f_equal. exact IH.
Qed.

(* writing the declared order of any set S of tensors into the rank-order section changes nothing *)
Lemma resolve_explicit_default d ro S : NoDup (map fst d) ->
  resolve_rank_orders d (ro ++ filter (fun x => smem (fst x) S) (declared_rank_orders d)) = resolve_rank_orders d ro.
Proof.
  intro Hk. unfold resolve_rank_orders, declared_rank_orders. apply map_ext_in. intros [k v] Hin. simpl.
  rewrite lookup_app. destruct (lookup k ro) as [o|]; [reflexivity|]. f_equal.
  destruct (lookup k (filter (fun x => smem (fst x) S) d)) as [o'|] eqn:E; [|reflexivity].
  apply lookup_In in E. apply filter_In in E as [E _].
  pose proof (lookup_NoDup_In k d o' Hk E) as H1. pose proof (lookup_NoDup_In k d v Hk Hin) as H2. congruence.
Qed.

Lemma einsum_parts_omitted {D} (m : part_section D) z : lookup z m = None -> einsum_parts m z = [].
Proof. unfold einsum_parts. intros ->. reflexivity. Qed.

(* `Z: {}`, `Z:` (null) and `Z: {K: [], M: []}` all mean "no partitioning" *)
Lemma einsum_parts_explicit_empty {D} (m : part_section D) z rs :
  einsum_parts ((z, map (fun r => (r, [])) rs) :: m) z = [].
Proof.
  unfold einsum_parts. simpl. rewrite String.eqb_refl. induction rs as [|r t IH]; simpl; [reflexivity|exact IH].
Qed.

Lemma einsum_parts_other {D} (m : part_section D) z z' x : z' <> z ->
  einsum_parts ((z, x) :: m) z' = einsum_parts m z'.
Proof.
  intro H. unfold einsum_parts. simpl. destruct (String.eqb z' z) eqn:E; [apply String.eqb_eq in E; contradiction|reflexivity].
Qed.

Lemma empty_partitioning : forall (D : Type) (m : part_section D) z rs, lookup z m = None ->
  einsum_parts m z = [] /\ einsum_parts ((z, map (fun r => (r, [])) rs) :: m) z = [] /\
  forall z' x, z' <> z -> einsum_parts ((z, x) :: m) z' = einsum_parts m z'.
Proof.
  intros D m z rs H. split; [exact (einsum_parts_omitted m z H)|].
  split; [exact (einsum_parts_explicit_empty m z rs)|]. intros z' x. exact (einsum_parts_other m z z' x).
Qed.

Lemma part_loop_no_parts fuel ranks : 1 <= fuel -> part_loop fuel [] ranks = Some ranks.
Proof. destruct fuel; [lia|reflexivity]. Qed.

(* ------------------------------------------------------------------------------------ *)
(* the hypotheses are satisfiable by non-trivial objects                                   *)
(* ------------------------------------------------------------------------------------ *)
(* Z[m, n] = A[k, m] * B[k, n] + take(C[n, k], D[m], 1), K split twice, M split once *)
Definition ex_gemm : einsum :=
  mkEinsum "Z" [[IJust "m"]; [IJust "n"]]
    [TTimes [FTen "A" [[IJust "k"]; [IJust "m"]]; FTen "B" [[IJust "k"]; [IJust "n"]]];
     TTake [FTen "C" [[IJust "n"]; [IJust "k"]]; FTen "D" [[IJust "m"]]] 1].
Definition ex_parts : parts := [("K", 2); ("M", 1)].

Example ex_gemm_hyps :
  same_ranks_b ex_gemm = true /\ plain_first ex_gemm = true /\ NoDup (map fst ex_parts) /\ fresh_b ex_parts = true.
Proof. repeat split; try (vm_compute; reflexivity). repeat constructor; simpl; intuition congruence. Qed.

Example ex_gemm_default :
  code_default_loop_order 2 ex_gemm [("M", 1); ("K", 2)] = Some ["M1"; "M0"; "N"; "K2"; "K1"; "K0"] /\
  canonical_order ex_gemm ex_parts = ["M1"; "M0"; "N"; "K2"; "K1"; "K0"].
Proof. vm_compute. split; reflexivity. Qed.

(* strided convolution: O[q] = I[2*q + s] * F[s]; coefficient first, but q is an output rank *)
Definition ex_conv : einsum :=
  mkEinsum "O" [[IJust "q"]] [TTimes [FTen "I" [[ITimes 2 "q"; IJust "s"]]; FTen "F" [[IJust "s"]]]].
Example ex_conv_outside_class_but_equal :
  plain_first ex_conv = false /\ code_einsum_ranks ex_conv = Some (canonical_ranks ex_conv).
Proof. vm_compute. split; reflexivity. Qed.

Example ex_rank_orders :
  resolve_rank_orders [("A", ["K"; "M"]); ("B", ["K"; "N"]); ("Z", ["M"; "N"])] [("B", ["N"; "K"])] =
  [("A", ["K"; "M"]); ("B", ["N"; "K"]); ("Z", ["M"; "N"])].
Proof. reflexivity. Qed.

(* Partitioning.get_all_parts() also lists the intermediates (K1I) of an occupancy stack; an entry whose
   root is not in the rank list is inert, and part_loop_expand covers it *)
Example ex_intermediates_inert :
  NoDup (map fst [("K1I", 1); ("K", 2)]) /\ fresh_b [("K1I", 1); ("K", 2)] = true /\
  part_loop 2 [("K1I", 1); ("K", 2)] ["M"; "K"; "N"] = Some (expand [("K", 2)] ["M"; "K"; "N"]).
Proof. split; [repeat constructor; simpl; intuition congruence|]. split; vm_compute; reflexivity. Qed.
