(* Proofs about Model/Defaults.v (property C19). *)
From Coq Require Import String List Bool Arith Lia Permutation ZArith.
Require Import TV.Model.Show TV.Model.Defaults.
Import ListNotations.
Open Scope string_scope.
Open Scope list_scope.

(* ------------------------------------------------------------------------------------ *)
(* membership, first-occurrence de-duplication                                            *)
(* ------------------------------------------------------------------------------------ *)
Lemma smem_In x l : smem x l = true <-> In x l.
Proof.
  unfold smem. rewrite existsb_exists. split.
  - intros [y [Hy He]]. apply String.eqb_eq in He. subst. exact Hy.
  - intro H. exists x. split; [exact H|apply String.eqb_refl].
Qed.

Lemma smem_false x l : smem x l = false <-> ~ In x l.
Proof.
  split.
  - intros H Hin. apply smem_In in Hin. congruence.
  - intro H. destruct (smem x l) eqn:E; [|reflexivity]. apply smem_In in E. contradiction.
Qed.

Lemma smem_ext x s1 s2 : (forall y, In y s1 <-> In y s2) -> smem x s1 = smem x s2.
Proof.
  intro H. apply eq_true_iff_eq. rewrite !smem_In. apply H.
Qed.

Lemma uniq_from_ext l : forall s1 s2, (forall y, In y s1 <-> In y s2) -> uniq_from s1 l = uniq_from s2 l.
Proof.
  induction l as [|x t IH]; intros s1 s2 H; simpl; [reflexivity|].
  rewrite (smem_ext x s1 s2 H). destruct (smem x s2).
  - apply IH, H.
  - f_equal. apply IH. intro y. simpl. rewrite H. tauto.
Qed.

Lemma uniq_from_In l : forall s x, In x (uniq_from s l) <-> In x l /\ ~ In x s.
Proof.
  induction l as [|a t IH]; intros s x; simpl; [tauto|].
  destruct (smem a s) eqn:E.
  - apply smem_In in E. rewrite IH. split.
    + intros [H1 H2]. tauto.
    + intros [[H1|H1] H2]; [subst; contradiction|tauto].
  - apply smem_false in E. simpl. rewrite IH. simpl. split.
    + intros [H|[H1 H2]]; [subst; tauto|tauto].
    + intros [[H1|H1] H2]; [tauto|].
      destruct (string_dec a x); [tauto|]. right. tauto.
Qed.

Lemma uniq_from_NoDup l : forall s, NoDup (uniq_from s l).
Proof.
  induction l as [|a t IH]; intros s; simpl; [constructor|].
  destruct (smem a s); [apply IH|]. constructor; [|apply IH].
  rewrite uniq_from_In. simpl. tauto.
Qed.

Lemma uniq_from_app l1 : forall s l2, uniq_from s (l1 ++ l2) = uniq_from s l1 ++ uniq_from (l1 ++ s) l2.
Proof.
  induction l1 as [|x t IH]; intros s l2; simpl; [reflexivity|].
  destruct (smem x s) eqn:E.
  - rewrite IH. f_equal. apply uniq_from_ext. intro y. simpl. apply smem_In in E.
    rewrite !in_app_iff. split; [tauto|]. intros [H|[H|H]]; subst; tauto.
  - simpl. f_equal. rewrite IH. f_equal. apply uniq_from_ext. intro y. simpl.
    rewrite !in_app_iff. simpl. tauto.
Qed.

Lemma uniq_from_nil l : forall s, (forall x, In x l -> In x s) -> uniq_from s l = [].
Proof.
  induction l as [|a t IH]; intros s H; simpl; [reflexivity|].
  assert (E : smem a s = true) by (apply smem_In, H; left; reflexivity).
  rewrite E. apply IH. intros x Hx. apply H. right. exact Hx.
Qed.

Lemma uniq_from_id l : forall s, NoDup l -> (forall x, In x l -> ~ In x s) -> uniq_from s l = l.
Proof.
  induction l as [|a t IH]; intros s Hnd H; simpl; [reflexivity|].
  inversion Hnd as [|? ? Hna Hnd']; subst.
  assert (E : smem a s = false) by (apply smem_false, H; left; reflexivity).
  rewrite E. f_equal. apply IH; [exact Hnd'|].
  intros x Hx [Hs|Hs]; [subst; contradiction|]. apply (H x); [right; exact Hx|exact Hs].
Qed.

Lemma uniq_from_idem l : forall s s', incl s' s -> uniq_from s (uniq_from s' l) = uniq_from s l.
Proof.
  induction l as [|a t IH]; intros s s' Hi; simpl; [reflexivity|].
  destruct (smem a s') eqn:E'.
  - assert (E : smem a s = true) by (apply smem_In, Hi, smem_In, E'). rewrite E. apply IH, Hi.
  - simpl. destruct (smem a s) eqn:E.
    + apply IH. intros y [Hy|Hy]; [subst; apply smem_In, E|apply Hi, Hy].
    + f_equal. apply IH. intros y [Hy|Hy]; [left; exact Hy|right; apply Hi, Hy].
Qed.

Lemma dedup_In l x : In x (dedup l) <-> In x l.
Proof. unfold dedup. rewrite uniq_from_In. simpl. tauto. Qed.

Lemma dedup_NoDup l : NoDup (dedup l).
Proof. apply uniq_from_NoDup. Qed.

(* the imperative "append if new" loop is the declarative first-occurrence filter *)
Lemma append_new_spec l : forall acc, append_new acc l = acc ++ uniq_from acc l.
Proof.
  unfold append_new. induction l as [|x t IH]; intros acc; simpl; [rewrite app_nil_r; reflexivity|].
  destruct (smem x acc) eqn:E.
  - apply IH.
  - rewrite IH. rewrite <- app_assoc. simpl. do 2 f_equal. apply uniq_from_ext.
    intro y. rewrite in_app_iff. simpl. tauto.
Qed.

Lemma fold_append_new {A : Type} (f : A -> list string) (ls : list A) : forall acc,
  fold_left (fun acc a => append_new acc (f a)) ls acc = acc ++ uniq_from acc (flat_map f ls).
Proof.
  induction ls as [|a t IH]; intros acc; simpl; [rewrite app_nil_r; reflexivity|].
  rewrite IH, append_new_spec, uniq_from_app, <- app_assoc. do 2 f_equal.
  apply uniq_from_ext. intro y. rewrite !in_app_iff, uniq_from_In. split.
  - intros [H|[H _]]; tauto.
  - intros [H|H]; [|tauto]. destruct (in_dec string_dec y acc); tauto.
Qed.

(* ------------------------------------------------------------------------------------ *)
(* Equation.__build_einsum_ranks against the written order                                *)
(* ------------------------------------------------------------------------------------ *)
Lemma filter_all {A} (p : A -> bool) l : forallb p l = true -> filter p l = l.
Proof.
  induction l as [|a t IH]; simpl; [reflexivity|]. intro H. apply andb_true_iff in H as [H1 H2].
  rewrite H1, IH; auto.
Qed.

Lemma filter_none {A} (p : A -> bool) l : forallb (fun x => negb (p x)) l = true -> filter p l = [].
Proof.
  induction l as [|a t IH]; simpl; [reflexivity|]. intro H. apply andb_true_iff in H as [H1 H2].
  apply negb_true_iff in H1. rewrite H1. auto.
Qed.

Lemma coeffs_last_partition ts : coeffs_last_l ts = true ->
  filter is_just ts ++ filter (fun t => negb (is_just t)) ts = ts.
Proof.
  induction ts as [|[v|c v] t IH]; simpl; intro H; [reflexivity| |].
  - f_equal. apply IH, H.
  - rewrite (filter_none is_just t H), (filter_all _ t H). reflexivity.
Qed.

Lemma access_code_written a : coeffs_last a = true -> access_ranks_code a = access_ranks_written a.
Proof.
  unfold coeffs_last, access_ranks_code, access_ranks_written. intro H.
  rewrite (coeffs_last_partition _ H). reflexivity.
Qed.

Lemma access_code_In a x : In x (access_ranks_code a) <-> In x (access_ranks_written a).
Proof.
  unfold access_ranks_code, access_ranks_written. rewrite !in_map_iff. split.
  - intros [t [Ht Hin]]. exists t. split; [exact Ht|].
    apply in_app_iff in Hin as [Hin|Hin]; apply filter_In in Hin; tauto.
  - intros [t [Ht Hin]]. exists t. split; [exact Ht|]. rewrite in_app_iff, !filter_In.
    destruct (is_just t); simpl; tauto.
Qed.

Lemma term_ranks_code_spec t : term_ranks_code t = dedup (flat_map access_ranks_code (term_accesses t)).
Proof. unfold term_ranks_code. rewrite fold_append_new. reflexivity. Qed.

Lemma term_ranks_code_In t x : In x (term_ranks_code t) <-> In x (term_ranks_written t).
Proof.
  rewrite term_ranks_code_spec, dedup_In. unfold term_ranks_written. rewrite !in_flat_map.
  split; intros [a [Ha Hx]]; exists a; (split; [exact Ha|]); apply access_code_In; exact Hx.
Qed.

Lemma term_ranks_code_NoDup t : NoDup (term_ranks_code t).
Proof. rewrite term_ranks_code_spec. apply dedup_NoDup. Qed.

Lemma flat_map_ext_in {A B} (f g : A -> list B) l : (forall a, In a l -> f a = g a) -> flat_map f l = flat_map g l.
Proof.
  induction l as [|a t IH]; simpl; intro H; [reflexivity|]. rewrite H by (left; reflexivity).
  f_equal. apply IH. intros; apply H; right; assumption.
Qed.

Lemma term_ranks_code_plain t : forallb coeffs_last (term_accesses t) = true ->
  term_ranks_code t = dedup (term_ranks_written t).
Proof.
  intro H. rewrite term_ranks_code_spec. unfold term_ranks_written. f_equal.
  apply flat_map_ext_in. intros a Ha. apply access_code_written.
  rewrite forallb_forall in H. apply H, Ha.
Qed.

Lemma count_occ_NoDup_In (l : list string) x : NoDup l ->
  count_occ string_dec l x = if in_dec string_dec x l then 1 else 0.
Proof.
  intro H. destruct (in_dec string_dec x l) as [Hi|Hi].
  - apply (proj1 (NoDup_count_occ' string_dec l)) in Hi; assumption.
  - apply count_occ_not_In; assumption.
Qed.

Lemma counter_eqb_true a b : NoDup a -> NoDup b -> (forall x, In x a <-> In x b) -> counter_eqb a b = true.
Proof.
  intros Ha Hb H. unfold counter_eqb. apply forallb_forall. intros x _. apply Nat.eqb_eq.
  rewrite (count_occ_NoDup_In a x Ha), (count_occ_NoDup_In b x Hb).
  destruct (in_dec string_dec x a) as [H1|H1], (in_dec string_dec x b) as [H2|H2]; try reflexivity;
    exfalso; apply H in H1 || (apply H in H2; contradiction); contradiction.
Qed.

Lemma subset_b_incl a b : subset_b a b = true <-> (forall x, In x a -> In x b).
Proof.
  unfold subset_b. rewrite forallb_forall. split; intros H x Hx; [apply smem_In|apply smem_In]; auto.
Qed.

(* what same_ranks_b says *)
Definition same_ranks (e : einsum) : Prop :=
  exists t rest, e_terms e = t :: rest /\
    forall t', In t' (e_terms e) -> forall r, In r (term_ranks_written t') <-> In r (term_ranks_written t).

Lemma same_ranks_b_spec e : same_ranks_b e = true <-> same_ranks e.
Proof.
  unfold same_ranks_b, same_ranks. destruct (e_terms e) as [|t rest].
  - split; [discriminate|]. intros [t [rest [H _]]]. discriminate.
  - rewrite forallb_forall. split.
    + intro H. exists t, rest. split; [reflexivity|]. intros t' [Ht'|Ht'] r; [subst; tauto|].
      specialize (H t' Ht'). apply andb_true_iff in H as [H1 H2].
      rewrite subset_b_incl in H1, H2. split; auto.
    + intros [t0 [rest0 [Heq H]]]. inversion Heq; subst. intros t' Ht'.
      apply andb_true_iff. rewrite !subset_b_incl. split; intros x Hx; apply (H t' (or_intror Ht') x); exact Hx.
Qed.

Lemma code_terms_In e t : In t (code_terms e) <-> In t (e_terms e).
Proof.
  unfold code_terms. rewrite in_app_iff, !filter_In. destruct (is_times t); simpl; tauto.
Qed.

Lemma code_terms_head e t rest : e_terms e = t :: rest -> head_ok e = true ->
  exists rest', code_terms e = t :: rest'.
Proof.
  unfold head_ok, code_terms. intros -> H. apply orb_true_iff in H as [H|H].
  - simpl. rewrite H. simpl. eexists; reflexivity.
  - rewrite (filter_none is_times _ H). simpl in H. apply andb_true_iff in H as [H1 H2].
    simpl. rewrite H1. simpl. eexists; reflexivity.
Qed.

Lemma counter_check_passes e t : same_ranks e -> In t (e_terms e) -> forall ts, incl ts (e_terms e) ->
  forallb (fun t' => counter_eqb (term_ranks_code t') (term_ranks_code t)) ts = true.
Proof.
  intros [t0 [rest [Heq H]]] Ht ts Hi. apply forallb_forall. intros t' Ht'.
  apply counter_eqb_true; try apply term_ranks_code_NoDup.
  intro x. rewrite !term_ranks_code_In. rewrite (H t' (Hi _ Ht') x), (H t Ht x). tauto.
Qed.

Lemma nodup_b_NoDup l : nodup_b l = true <-> NoDup l.
Proof.
  induction l as [|a t IH]; simpl.
  - split; [constructor|reflexivity].
  - rewrite andb_true_iff, negb_true_iff, smem_false, IH. split.
    + intros [H1 H2]. constructor; assumption.
    + intro H. inversion H; subst. tauto.
Qed.

(* (A) on the class plain_first the code's default is the canonical order *)
Lemma code_einsum_ranks_canonical e : same_ranks_b e = true -> plain_first e = true ->
  code_einsum_ranks e = Some (canonical_ranks e).
Proof.
  intros Hs Hp. apply same_ranks_b_spec in Hs. pose proof Hs as Hs'.
  destruct Hs as [t [rest [Heq Hsame]]].
  unfold plain_first in Hp. rewrite Heq in Hp.
  apply andb_true_iff in Hp as [Hp Hacc]. apply andb_true_iff in Hp as [Hp Hnd].
  apply andb_true_iff in Hp as [Hhead Hout].
  destruct (code_terms_head e t rest Heq Hhead) as [rest' Hct].
  unfold code_einsum_ranks. rewrite Hct.
  assert (Hin_t : In t (e_terms e)) by (rewrite Heq; left; reflexivity).
  rewrite (counter_check_passes e t Hs' Hin_t rest').
  2:{ intros x Hx. apply code_terms_In. rewrite Hct. right. exact Hx. }
  f_equal. rewrite append_new_spec, (access_code_written _ Hout), (term_ranks_code_plain t Hacc).
  unfold canonical_ranks, rhs_ranks_written, dedup. rewrite Heq. simpl flat_map.
  rewrite uniq_from_app. apply nodup_b_NoDup in Hnd.
  rewrite (uniq_from_id _ [] Hnd) by (intros; intro; contradiction).
  f_equal. rewrite app_nil_r, uniq_from_app.
  rewrite (uniq_from_nil (flat_map term_ranks_written rest)).
  2:{ intros x Hx. apply in_flat_map in Hx as [t' [Ht' Hx]]. apply in_app_iff. left.
      apply (Hsame t'); [rewrite Heq; right; exact Ht'|exact Hx]. }
  rewrite app_nil_r. apply uniq_from_idem. intros y [].
Qed.

(* the ranks of the terms after the first one never matter for the canonical order *)
Lemma canonical_first_term e t rest : e_terms e = t :: rest -> same_ranks e ->
  canonical_ranks e = dedup (access_ranks_written (e_oidx e) ++ term_ranks_written t).
Proof.
  intros Heq [t0 [rest0 [Heq0 Hsame]]]. rewrite Heq in Heq0. inversion Heq0; subst t0 rest0.
  unfold canonical_ranks, rhs_ranks_written, dedup. rewrite Heq. simpl flat_map.
  rewrite !uniq_from_app. rewrite (uniq_from_nil (flat_map term_ranks_written rest)); [rewrite app_nil_r; reflexivity|].
  intros x Hx. apply in_flat_map in Hx as [t' [Ht' Hx]]. apply in_app_iff. left.
  apply (Hsame t'); [rewrite Heq; right; exact Ht'|exact Hx].
Qed.

Lemma NoDup_app_disj {A} (a b : list A) : NoDup a -> NoDup b -> (forall x, In x a -> ~ In x b) -> NoDup (a ++ b).
Proof.
  induction a as [|x t IH]; simpl; intros Ha Hb H; [exact Hb|].
  inversion Ha; subst. constructor.
  - rewrite in_app_iff. intros [H1|H1]; [contradiction|]. apply (H x); [left; reflexivity|exact H1].
  - apply IH; auto.
Qed.

(* (B) in every case the code's default is a permutation of the canonical one that starts with the output ranks *)
Lemma code_einsum_ranks_perm e : same_ranks_b e = true -> NoDup (access_ranks_code (e_oidx e)) ->
  exists l, code_einsum_ranks e = Some l /\ Permutation l (canonical_ranks e) /\ NoDup l /\
            exists tail, l = access_ranks_code (e_oidx e) ++ tail.
Proof.
  intros Hs Hnd. apply same_ranks_b_spec in Hs. pose proof Hs as Hs'.
  destruct Hs as [t [rest [Heq Hsame]]].
  unfold code_einsum_ranks. destruct (code_terms e) as [|tc restc] eqn:Hct.
  - exfalso. assert (In t (code_terms e)) by (apply code_terms_In; rewrite Heq; left; reflexivity).
    rewrite Hct in H. contradiction.
  - assert (Htc : In tc (e_terms e)) by (apply code_terms_In; rewrite Hct; left; reflexivity).
    rewrite (counter_check_passes e tc Hs' Htc restc).
    2:{ intros x Hx. apply code_terms_In. rewrite Hct. right. exact Hx. }
    eexists. split; [reflexivity|]. rewrite append_new_spec.
    assert (Hnd2 : NoDup (access_ranks_code (e_oidx e) ++ uniq_from (access_ranks_code (e_oidx e)) (term_ranks_code tc))).
    { apply NoDup_app_disj; [exact Hnd|apply uniq_from_NoDup|].
      intros x Hx Hx'. apply uniq_from_In in Hx'. tauto. }
    split; [|split; [exact Hnd2|eexists; reflexivity]].
    apply NoDup_Permutation; [exact Hnd2|apply dedup_NoDup|].
    intro x. unfold canonical_ranks. rewrite dedup_In, !in_app_iff, uniq_from_In, term_ranks_code_In.
    rewrite access_code_In. unfold rhs_ranks_written. rewrite in_flat_map. split.
    + intros [H|[H _]]; [left; exact H|]. right. exists tc. split; assumption.
    + intros [H|[t' [Ht' Hx]]]; [left; exact H|].
      destruct (in_dec string_dec x (access_ranks_written (e_oidx e))) as [Hi|Hi]; [left; exact Hi|].
      right. split; [|exact Hi].
      apply (Hsame tc Htc). apply (Hsame t' Ht'). exact Hx.
Qed.
