(* Arithmetic of shape partitioning (C02, C04): upper coordinates, n-way steps,
   stacks of levels, halos.  All statements are over Z with no bound on sizes. *)
From Coq Require Import ZArith Lia List.
Import ListNotations.
Open Scope Z_scope.
Ltac Zify.zify_post_hook ::= Z.to_euclidean_division_equations.

(* the partition of coordinate c under step s has upper coordinate s*(c/s) *)
Definition upper (s c : Z) : Z := s * (c / s).

Lemma upper_covers s c : 0 < s -> upper s c <= c < upper s c + s.
Proof. unfold upper. intros. nia. Qed.

Lemma upper_unique s c p : 0 < s -> (exists k, p = s * k) -> p <= c < p + s -> p = upper s c.
Proof. unfold upper. intros Hs [k ->] H. f_equal. nia. Qed.

Lemma upper_mono s c d : 0 < s -> c <= d -> upper s c <= upper s d.
Proof. unfold upper. intros. apply Z.mul_le_mono_nonneg_l; [lia|]. apply Z.div_le_mono; lia. Qed.

Lemma upper_nonneg s c : 0 < s -> 0 <= c -> 0 <= upper s c.
Proof. unfold upper. intros. apply Z.mul_nonneg_nonneg; [lia|]. apply Z.div_pos; lia. Qed.

(* every coordinate belongs to exactly one partition: no element is lost, none is met twice *)
Theorem split_exactly_one s c : 0 < s ->
  exists! p, (exists k, p = s * k) /\ p <= c < p + s.
Proof.
  intros Hs. exists (upper s c). split.
  - split; [exists (c / s); reflexivity|apply upper_covers; exact Hs].
  - intros p [Hk Hr]. symmetry. apply upper_unique; assumption.
Qed.

(* nway_shape(n): the step the compiler emits, (E - 1) // n + 1 *)
Definition nway_step (E n : Z) : Z := (E - 1) / n + 1.

Theorem nway_step_pos E n : 0 < n -> 0 < E -> 0 < nway_step E n.
Proof. unfold nway_step. intros. nia. Qed.

Theorem nway_at_most_n_parts E n c : 0 < n -> 0 < E -> 0 <= c < E -> 0 <= c / nway_step E n < n.
Proof.
  intros Hn HE Hc. pose proof (nway_step_pos E n Hn HE) as Hs. unfold nway_step in *.
  split; [apply Z.div_pos; lia|]. apply Z.div_lt_upper_bound; [lia|]. nia.
Qed.

Theorem nway_covers_extent E n : 0 < n -> 0 < E -> E <= nway_step E n * n.
Proof. unfold nway_step. intros. nia. Qed.

(* a stack of levels: a chain of upper coordinates, outermost first.  For any steps
   (dividing or not, larger than the extent or not) every coordinate has exactly one chain. *)
Fixpoint chain (steps : list Z) (c : Z) : list Z :=
  match steps with
  | [] => []
  | s :: steps' => upper s c :: chain steps' c
  end.

Fixpoint chain_ok (steps : list Z) (c : Z) (ps : list Z) : Prop :=
  match steps, ps with
  | [], [] => True
  | s :: steps', p :: ps' => (exists k, p = s * k) /\ p <= c < p + s /\ chain_ok steps' c ps'
  | _, _ => False
  end.

Theorem chain_exactly_one steps c : Forall (fun s => 0 < s) steps ->
  chain_ok steps c (chain steps c) /\ forall ps, chain_ok steps c ps -> ps = chain steps c.
Proof.
  induction 1 as [|s steps Hs Hall IH]; simpl.
  - split; [exact I|]. intros [|p ps]; [reflexivity|intros []].
  - destruct IH as [IH1 IH2]. split.
    + split; [exists (c / s); reflexivity|]. split; [apply upper_covers; exact Hs|exact IH1].
    + intros [|p ps]; [intros []|]. intros [Hk [Hr Hrest]]. f_equal.
      * apply upper_unique; assumption.
      * apply IH2. exact Hrest.
Qed.

(* two tensors split with the same steps put equal coordinates into equal chains: elements
   that must meet are never separated by partitioning *)
Theorem same_steps_same_chain steps c d : c = d -> chain steps c = chain steps d.
Proof. intros ->. reflexivity. Qed.

(* mergeRanks("absolute") keeps the lowest coordinate, i.e. the original one: after any chain
   of splits the original coordinate is recovered, so un-partitioning restores the coordinates *)
Theorem merge_recovers steps c : last (chain steps c ++ [c]) 0 = c.
Proof. rewrite last_last. reflexivity. Qed.

(* ---- halos (C04): access w = a*q + sum b_i*s_i, output tile [T*j, T*(j+1)) ---- *)
(* one index-math term with coefficient b >= 0 and 0 <= s < S contributes a post-halo b*(S-1) *)
Theorem halo_tile_contains a T j q bs S s :
  0 < a -> 0 < T -> 0 <= bs -> 0 <= s < S ->
  T * j <= q < T * (j + 1) ->
  let w := a * q + bs * s in
  a * T * j <= w < a * T * j + a * T + bs * (S - 1).
Proof. intros. subst w. nia. Qed.

(* with a negative coefficient the halo is on the other side (pre-halo) *)
Theorem halo_tile_contains_neg a T j q bs S s :
  0 < a -> 0 < T -> bs <= 0 -> 0 <= s < S ->
  T * j <= q < T * (j + 1) ->
  let w := a * q + bs * s in
  a * T * j - (- bs) * (S - 1) <= w < a * T * j + a * T.
Proof. intros. subst w. nia. Qed.

(* the output tiles [T*j, min(T*(j+1), Q)) partition [0, Q) *)
Theorem tiles_partition T Q q : 0 < T -> 0 <= q < Q ->
  exists! j, 0 <= j /\ T * j <= q < Z.min (T * (j + 1)) Q.
Proof.
  intros HT Hq. exists (q / T). split.
  - split; [apply Z.div_pos; lia|]. nia.
  - intros j [Hj Hr]. nia.
Qed.
