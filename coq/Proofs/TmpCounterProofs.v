(* C05, third mechanism: the monotone temporary counter. *)
From Coq Require Import String List Arith Lia.
Require Import TV.Model.TmpCounter.
Import ListNotations.

Fixpoint nexts (ops : list tmp_op) : nat :=
  match ops with [] => 0 | TNext :: o => S (nexts o) | TCurr :: o => nexts o end.

Lemma tmp_final_nexts ops : forall n, tmp_final n ops = n + nexts ops.
Proof. induction ops as [|[|] ops IH]; intros n; cbn [tmp_final tmp_step fst nexts]; [lia| rewrite IH; lia | rewrite IH; lia]. Qed.

(* next_tmp hands out n, n+1, n+2, ... : every call a new name, whatever curr_tmp calls lie between *)
Theorem issued_seq ops : forall n, issued (tmp_run n ops) = seq n (nexts ops).
Proof.
  induction ops as [|[|] ops IH]; intros n; cbn [tmp_run tmp_step fst snd issued nexts seq]; [reflexivity| |].
  - rewrite IH. reflexivity.
  - destruct n; cbn [issued]; apply IH.
Qed.

Theorem issued_NoDup n ops : NoDup (issued (tmp_run n ops)).
Proof. rewrite issued_seq. apply seq_NoDup. Qed.

(* fresh with respect to everything issued earlier in the same translation (earlier Einsums included) *)
Theorem issued_fresh n ops k : In k (issued (tmp_run n ops)) -> n <= k.
Proof. rewrite issued_seq. intros H. apply in_seq in H. lia. Qed.

Lemma tmp_run_app ops1 ops2 : forall n,
  tmp_run n (ops1 ++ ops2) = tmp_run n ops1 ++ tmp_run (tmp_final n ops1) ops2.
Proof. induction ops1 as [|o ops1 IH]; intros n; [reflexivity|]. cbn [app tmp_run tmp_final]. rewrite IH. reflexivity. Qed.

Lemma issued_app a b : issued (a ++ b) = issued a ++ issued b.
Proof.
  induction a as [|[[|] [k|]] a IH]; cbn [app issued]; try exact IH; [reflexivity|]. rewrite IH. reflexivity.
Qed.

(* a cascade: the temporaries of a later Einsum never collide with those of the prefix *)
Theorem cascade_tmps_disjoint n ops1 ops2 k :
  In k (issued (tmp_run n ops1)) -> In k (issued (tmp_run (tmp_final n ops1) ops2)) -> False.
Proof.
  rewrite !issued_seq, tmp_final_nexts. intros H1 H2. apply in_seq in H1. apply in_seq in H2. lia.
Qed.

(* curr_tmp returns the temporary issued last *)
Theorem curr_is_last_issued n ops :
  snd (tmp_step (tmp_final n (ops ++ [TNext])) TCurr) = Some (n + nexts ops).
Proof.
  rewrite tmp_final_nexts.
  assert (E : nexts (ops ++ [TNext]) = S (nexts ops)) by (induction ops as [|[|] ops IH]; cbn [app nexts]; lia).
  rewrite E. replace (n + S (nexts ops)) with (S (n + nexts ops)) by lia. reflexivity.
Qed.

(* "up to the numbering of temporaries": the same sequence of requests started k temporaries later
   (an Einsum compiled after a prefix instead of alone) gets the same names shifted by k, provided
   the stand-alone run never asks for a previous temporary that does not exist *)
Definition shift (k : nat) (x : tmp_op * option nat) : tmp_op * option nat :=
  (fst x, option_map (fun i => k + i) (snd x)).

Theorem tmp_run_shift k ops : forall n,
  tmp_ok (tmp_run n ops) = true -> tmp_run (k + n) ops = map (shift k) (tmp_run n ops).
Proof.
  induction ops as [|[|] ops IH]; intros n H; [reflexivity| |].
  - cbn [tmp_run tmp_step fst snd map]. cbn [tmp_run tmp_step fst snd tmp_ok forallb] in H.
    unfold shift at 1. cbn [fst snd option_map]. f_equal.
    replace (S (k + n)) with (k + S n) by lia. apply IH. exact H.
  - destruct n as [|m]; [discriminate H|].
    cbn [tmp_run tmp_step fst snd tmp_ok forallb] in H.
    replace (k + S m) with (S (k + m)) by lia.
    cbn [tmp_run tmp_step fst snd map]. unfold shift at 1. cbn [fst snd option_map]. f_equal.
    replace (S (k + m)) with (k + S m) by lia. apply IH. exact H.
Qed.

(* an Einsum's requests in a cascade = its stand-alone requests renumbered by the prefix's count *)
Corollary cascade_is_renumbering ops1 ops2 :
  tmp_ok (tmp_run 0 ops2) = true ->
  tmp_run 0 (ops1 ++ ops2) = tmp_run 0 ops1 ++ map (shift (nexts ops1)) (tmp_run 0 ops2).
Proof.
  intros H. rewrite tmp_run_app, tmp_final_nexts. f_equal.
  replace (0 + nexts ops1) with (nexts ops1 + 0) by lia. apply tmp_run_shift. exact H.
Qed.

Example tmp_example :
  show_tmp_run [TCurr; TNext; TCurr; TNext; TNext; TCurr] = "ERR,tmp0,tmp0,tmp1,tmp2,tmp2"%string.
Proof. vm_compute. reflexivity. Qed.
