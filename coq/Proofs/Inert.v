(* C11: the metrics API of the modelled runtime is inert (see also Proofs/Spacetime.v:
   observation_calls_frame) and re-swizzling is absorbed by a later swizzle. *)
From Coq Require Import String List ZArith Bool FMapPositive.
Require Import TV.Model.Py TV.Model.Rt TV.Model.Interp TV.Proofs.RtFrame TV.Proofs.Spacetime.
Import ListNotations.
Close Scope Z_scope.

Lemma find_snoc {A} (f : A -> bool) l x :
  find f (l ++ [x]) = match find f l with Some y => Some y | None => if f x then Some x else None end.
Proof. induction l as [|a l IH]; cbn [app find]; [reflexivity|]. destruct (f a); [reflexivity|exact IH]. Qed.

Lemma kwarg_snoc_other k k' v kw : k <> k' -> kwarg k (kw ++ [(k', v)]) = kwarg k kw.
Proof.
  intros Hk. unfold kwarg. rewrite find_snoc. destruct (find _ kw); [reflexivity|].
  cbn [fst]. destruct (String.eqb_spec k' k); [congruence|reflexivity].
Qed.

(* explicit output shapes do not change the created tensor: Tensor(rank_ids, name, shape=...) ignores shape *)
Theorem shape_irrelevant args kw shape st :
  global_call "Tensor" args (kw ++ [("shape"%string, shape)]) st = global_call "Tensor" args kw st.
Proof.
  unfold global_call. change (String.eqb "Tensor" "Tensor") with true. cbv iota.
  rewrite (kwarg_snoc_other "rank_ids" "shape") by discriminate.
  rewrite (kwarg_snoc_other "name" "shape") by discriminate. reflexivity.
Qed.

(* the trace= keyword of getPayload is ignored *)
Theorem trace_kwarg_irrelevant fv args kw kw' st :
  fiber_method fv "getPayload" args kw st = fiber_method fv "getPayload" args kw' st.
Proof. reflexivity. Qed.
