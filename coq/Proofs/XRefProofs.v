(* Proofs about Model/XRef.v: the decision procedure [prog_failures] returns no failure exactly
   when the property [prog_ok] holds; characterisation of sections and of the collection window. *)
From Coq Require Import String List Bool Arith PeanoNat Ascii PArith BinPos Lia.
Require Import TV.Model.Py TV.Model.XRef.
Import ListNotations.
Open Scope string_scope.
Open Scope list_scope.

(* ------------------------------------------------------------------------------------------ *)
(* small list facts                                                                            *)
(* ------------------------------------------------------------------------------------------ *)

Lemma app_nil_both : forall (A : Type) (a b : list A), a ++ b = [] <-> a = [] /\ b = [].
Proof.
  intros A a b. split.
  - intros H. apply app_eq_nil in H. exact H.
  - intros [-> ->]. reflexivity.
Qed.

Lemma map_nil_iff : forall (A B : Type) (f : A -> B) (l : list A), map f l = [] <-> l = [].
Proof. intros A B f l. destruct l; simpl; split; intros H; try reflexivity; discriminate. Qed.

Lemma filter_nil_iff : forall (A : Type) (f : A -> bool) (l : list A),
  filter f l = [] <-> (forall x, In x l -> f x = false).
Proof.
  intros A f l. induction l as [|a l IH]; simpl.
  - split; [intros _ x []| reflexivity].
  - destruct (f a) eqn:E.
    + split; [discriminate|]. intros H. rewrite (H a (or_introl eq_refl)) in E. discriminate.
    + rewrite IH. split.
      * intros H x [<-|Hx]; auto.
      * intros H x Hx. apply H. right. exact Hx.
Qed.

Lemma flat_map_nil_iff : forall (A B : Type) (f : A -> list B) (l : list A),
  flat_map f l = [] <-> (forall x, In x l -> f x = []).
Proof.
  intros A B f l. induction l as [|a l IH]; simpl.
  - split; [intros _ x []| reflexivity].
  - rewrite app_nil_both, IH. split.
    + intros [Ha H] x [<-|Hx]; auto.
    + intros H. split; [apply H; left; reflexivity| intros x Hx; apply H; right; exact Hx].
Qed.

Lemma existsb_false_iff : forall (A : Type) (f : A -> bool) (l : list A),
  existsb f l = false <-> (forall x, In x l -> f x = false).
Proof.
  intros A f l. induction l as [|a l IH]; simpl.
  - split; [intros _ x []| reflexivity].
  - rewrite orb_false_iff, IH. split.
    + intros [Ha H] x [<-|Hx]; auto.
    + intros H. split; [apply H; left; reflexivity| intros x Hx; apply H; right; exact Hx].
Qed.

(* ------------------------------------------------------------------------------------------ *)
(* window / after_end                                                                          *)
(* ------------------------------------------------------------------------------------------ *)

Lemma window_no_end : forall l, ~ In End (window l).
Proof.
  induction l as [|e l IH]; simpl; [tauto|].
  destruct e; simpl; try tauto; intros [H|H]; try discriminate; tauto.
Qed.

Lemma window_after_end : forall l,
  match after_end l with
  | Some post => l = window l ++ End :: post
  | None => l = window l /\ ~ In End l
  end.
Proof.
  induction l as [|e l IH]; simpl; [tauto|].
  destruct e; simpl; try reflexivity;
    (destruct (after_end l) as [post|]; [rewrite <- IH; reflexivity|
      destruct IH as [IH1 IH2]; split; [rewrite <- IH1; reflexivity| intros [H|H]; [discriminate|tauto]]]).
Qed.

(* the window is the unique End-free prefix that is followed by End (or the whole list when there is no End) *)
Lemma window_unique : forall mid post, ~ In End mid -> window (mid ++ End :: post) = mid.
Proof.
  induction mid as [|e mid IH]; simpl; intros post H; [reflexivity|].
  destruct e; simpl; try (rewrite IH; [reflexivity|tauto]).
  exfalso. apply H. left. reflexivity.
Qed.

Lemma window_noend_id : forall l, ~ In End l -> window l = l.
Proof.
  induction l as [|e l IH]; simpl; intros H; [reflexivity|].
  destruct e; simpl; try (rewrite IH; [reflexivity|tauto]).
  exfalso. apply H. left. reflexivity.
Qed.

Lemma after_end_unique : forall mid post, ~ In End mid -> after_end (mid ++ End :: post) = Some post.
Proof.
  induction mid as [|e mid IH]; simpl; intros post H; [reflexivity|].
  destruct e; simpl; try (apply IH; tauto).
  exfalso. apply H. left. reflexivity.
Qed.

(* ------------------------------------------------------------------------------------------ *)
(* producers                                                                                   *)
(* ------------------------------------------------------------------------------------------ *)

Lemma has_reg_iff : forall w r lab, has_reg w r lab = true <-> In (Reg r lab) w.
Proof.
  intros w r lab. unfold has_reg. rewrite existsb_exists. split.
  - intros [e [Hin He]]. destruct e; try discriminate.
    apply andb_true_iff in He. destruct He as [H1 H2].
    apply String.eqb_eq in H1. apply String.eqb_eq in H2. subst. exact Hin.
  - intros H. exists (Reg r lab). split; [exact H|]. rewrite !String.eqb_refl. reflexivity.
Qed.

Lemma has_emit_iff : forall w lab, has_emit w lab = true <-> In (Emit lab) w.
Proof.
  intros w lab. unfold has_emit. rewrite existsb_exists. split.
  - intros [e [Hin He]]. destruct e; try discriminate.
    apply String.eqb_eq in He. subst. exact Hin.
  - intros H. exists (Emit lab). split; [exact H|]. apply String.eqb_refl.
Qed.

Lemma reg_okb_iff : forall w r lab, reg_okb w r lab = true <-> reg_ok w r lab.
Proof.
  intros w r lab. unfold reg_okb, reg_ok.
  rewrite andb_true_iff, orb_true_iff, negb_true_iff, has_reg_iff, has_emit_iff.
  split.
  - intros [H1 H2]. split; [exact H1|]. intros He. destruct H2 as [H2|H2]; [rewrite H2 in He; discriminate|exact H2].
  - intros [H1 H2]. split; [exact H1|]. destruct (is_eager lab); [right; apply H2; reflexivity|left; reflexivity].
Qed.

Lemma producedb_iff : forall p a q, producedb p a q = true <-> produced p a q.
Proof.
  intros p a q. destruct q as [f|r lab]; simpl.
  - rewrite orb_true_iff, !existsb_exists. split.
    + intros [[e [Hin He]]|[e [Hin He]]].
      * destruct e; try discriminate. apply andb_true_iff in He. destruct He as [H1 H2].
        apply reg_okb_iff in H1. apply String.eqb_eq in H2. left. exists rank, lab. split; assumption.
      * destruct e; try discriminate. apply String.eqb_eq in He. subst. right. exists inp, flt. exact Hin.
    + intros [[r [lab [H1 H2]]]|[i [fl H]]].
      * left. exists (Reg r lab). split; [apply H1|]. apply andb_true_iff. split; [apply reg_okb_iff; exact H1|].
        subst. apply String.eqb_refl.
      * right. exists (Filter i fl f). split; [exact H|]. apply String.eqb_refl.
  - apply reg_okb_iff.
Qed.

Lemma prod_failures_nil : forall p rest a,
  prod_failures p a rest = [] <->
  (forall x e y q, rest = x ++ e :: y -> In q (needs e) -> produced p (a ++ x) q).
Proof.
  intros p rest. induction rest as [|e rest IH]; intros a; simpl.
  - split; [|reflexivity]. intros _ x e y q H. destruct x; discriminate.
  - rewrite app_nil_both, map_nil_iff, filter_nil_iff, IH. split.
    + intros [H1 H2] x e' y q Heq Hq. destruct x as [|x0 x]; simpl in Heq; injection Heq as <- Hr.
      * rewrite app_nil_r. apply producedb_iff. specialize (H1 q Hq). apply negb_false_iff in H1. exact H1.
      * subst rest. specialize (H2 x e' y q eq_refl Hq). rewrite <- app_assoc in H2. exact H2.
    + intros H. split.
      * intros q Hq. apply negb_false_iff. apply producedb_iff.
        specialize (H [] e rest q eq_refl Hq). rewrite app_nil_r in H. exact H.
      * intros x e' y q Heq Hq. subst rest. rewrite <- app_assoc. simpl.
        apply (H (e :: x) e' y q eq_refl Hq).
Qed.

(* ------------------------------------------------------------------------------------------ *)
(* intersectors                                                                                *)
(* ------------------------------------------------------------------------------------------ *)

Lemma createdb_iff : forall x body, createdb x body = true <-> created x body.
Proof.
  intros x body. unfold created. induction body as [|e body IH]; simpl.
  - split; [discriminate|]. intros [a [b [H _]]]. destruct a; discriminate.
  - assert (Hstep : (exists a b, e :: body = a ++ Create x :: b /\ ~ In LoopIn a) <->
                    (e = Create x \/ (e <> LoopIn /\ exists a b, body = a ++ Create x :: b /\ ~ In LoopIn a))).
    { split.
      - intros [a [b [H Hn]]]. destruct a as [|a0 a]; simpl in H; injection H as -> ->.
        + left. reflexivity.
        + right. split; [intros ->; apply Hn; left; reflexivity|]. exists a, b. split; [reflexivity|].
          intros Hin. apply Hn. right. exact Hin.
      - intros [->|[Hne [a [b [-> Hn]]]]].
        + exists [], body. split; [reflexivity|tauto].
        + exists (e :: a), b. split; [reflexivity|]. intros [H|H]; [congruence|tauto]. }
    rewrite Hstep. clear Hstep.
    destruct e; simpl; try (rewrite IH; split; [intros H; right; split; [discriminate|exact H]| intros [H|[_ H]]; [discriminate|exact H]]).
    + (* Create *)
      rewrite orb_true_iff, Pos.eqb_eq, IH. split.
      * intros [->|H]; [left; reflexivity|right; split; [discriminate|exact H]].
      * intros [H|[_ H]]; [left; congruence|right; exact H].
    + (* LoopIn *)
      split; [discriminate|]. intros [H|[H _]]; [discriminate|congruence].
Qed.

Definition fed_open (x : positive) (w : list ev) : Prop :=
  exists b c, w = b ++ Feed x :: c /\ (forall e, In e b -> is_marker e = false).

Lemma fedb_iff_gen : forall x w st,
  fedb x w st = true <-> ((st = true /\ fed_open x w) \/ fed x w).
Proof.
  intros x w. induction w as [|e w IH]; intros st; simpl.
  - split; [discriminate|]. intros [[_ [b [c [H _]]]]|[a [b [c [H _]]]]]; [destruct b|destruct a]; discriminate.
  - (* decompose the two predicates on e :: w *)
    assert (Hopen : fed_open x (e :: w) <-> (e = Feed x \/ (is_marker e = false /\ fed_open x w))).
    { unfold fed_open. split.
      - intros [b [c [H Hb]]]. destruct b as [|b0 b]; simpl in H; injection H as -> ->.
        + left. reflexivity.
        + right. split; [apply Hb; left; reflexivity|]. exists b, c. split; [reflexivity|].
          intros e He. apply Hb. right. exact He.
      - intros [->|[Hm [b [c [-> Hb]]]]].
        + exists [], w. split; [reflexivity|intros e []].
        + exists (e :: b), c. split; [reflexivity|]. intros e' [<-|He]; [exact Hm|apply Hb; exact He]. }
    assert (Hfed : fed x (e :: w) <-> ((e = LoopOut /\ fed_open x w) \/ fed x w)).
    { unfold fed, fed_open. split.
      - intros [a [b [c [H Hb]]]]. destruct a as [|a0 a]; simpl in H; injection H as -> ->.
        + left. split; [reflexivity|]. exists b, c. split; [reflexivity|exact Hb].
        + right. exists a, b, c. split; [reflexivity|exact Hb].
      - intros [[-> [b [c [-> Hb]]]]|[a [b [c [-> Hb]]]]].
        + exists [], b, c. split; [reflexivity|exact Hb].
        + exists (e :: a), b, c. split; [reflexivity|exact Hb]. }
    rewrite Hopen, Hfed. clear Hopen Hfed.
    destruct e; simpl;
      try (rewrite IH; split;
           [intros [[Hs Ho]|Hf]; [left; split; [exact Hs|right; split; [reflexivity|exact Ho]]|right; right; exact Hf]
           |intros [[Hs [Ho|[_ Ho]]]|[[Ho _]|Hf]]; try discriminate; [left; split; assumption|right; exact Hf]]).
    + (* Feed y *)
      rewrite orb_true_iff, andb_true_iff, Pos.eqb_eq, IH. split.
      * intros [[Hs ->]|[[Hs Ho]|Hf]].
        -- left. split; [exact Hs|left; reflexivity].
        -- left. split; [exact Hs|right; split; [reflexivity|exact Ho]].
        -- right. right. exact Hf.
      * intros [[Hs [Ho|[_ Ho]]]|[[Ho _]|Hf]]; try discriminate.
        -- left. split; [exact Hs|congruence].
        -- right. left. split; assumption.
        -- right. right. exact Hf.
    + (* LoopIn *)
      rewrite IH. split.
      * intros [[Hs _]|Hf]; [discriminate|right; right; exact Hf].
      * intros [[_ [Ho|[Ho _]]]|[[Ho _]|Hf]]; try discriminate. right. exact Hf.
    + (* LoopOut *)
      rewrite IH. split.
      * intros [[_ Ho]|Hf]; [right; left; split; [reflexivity|exact Ho]|right; right; exact Hf].
      * intros [[_ [Ho|[Ho _]]]|[[_ Ho]|Hf]]; try discriminate; [left; split; [reflexivity|exact Ho]|right; exact Hf].
Qed.

Lemma fedb_iff : forall x w, fedb x w false = true <-> fed x w.
Proof.
  intros x w. rewrite fedb_iff_gen. split; [intros [[H _]|H]; [discriminate|exact H]|intros H; right; exact H].
Qed.

Lemma in_queries : forall x body, In x (queries body) <-> In (Query x) body.
Proof.
  intros x body. unfold queries. rewrite in_flat_map. split.
  - intros [e [Hin He]]. destruct e; simpl in He; try tauto. destruct He as [<-|[]]. exact Hin.
  - intros H. exists (Query x). split; [exact H|left; reflexivity].
Qed.

Lemma in_bads : forall w body, In w (bads body) <-> In (Bad w) body.
Proof.
  intros w body. unfold bads. rewrite in_flat_map. split.
  - intros [e [Hin He]]. destruct e; simpl in He; try tauto. destruct He as [<-|[]]. exact Hin.
  - intros H. exists (Bad w). split; [exact H|left; reflexivity].
Qed.

Lemma isect_failures_nil : forall c body,
  isect_failures c body = [] <-> (forall x, In (Query x) body -> created x (c ++ body) /\ fed x (window body)).
Proof.
  intros c body. unfold isect_failures. rewrite flat_map_nil_iff. split.
  - intros H x Hx. apply in_queries in Hx. specialize (H x Hx). apply app_nil_both in H. destruct H as [H1 H2].
    split.
    + apply createdb_iff. destruct (createdb x (c ++ body)); [reflexivity|discriminate].
    + apply fedb_iff. destruct (fedb x (window body) false); [reflexivity|discriminate].
  - intros H x Hx. apply in_queries in Hx. destruct (H x Hx) as [H1 H2].
    apply createdb_iff in H1. apply fedb_iff in H2. rewrite H1, H2. reflexivity.
Qed.

(* ------------------------------------------------------------------------------------------ *)
(* the window check                                                                            *)
(* ------------------------------------------------------------------------------------------ *)

Lemma in_is_end : forall l, existsb is_end l = false <-> ~ In End l.
Proof.
  intros l. rewrite existsb_false_iff. split.
  - intros H Hin. specialize (H End Hin). discriminate.
  - intros H e He. destruct e; try reflexivity. tauto.
Qed.

Lemma window_failures_nil : forall body,
  window_failures body = [] <->
  (exists post, body = window body ++ End :: post /\ ~ In End post
                /\ (forall e, In e post -> is_marker e = false) /\ depth (window body) 0 = Some 0).
Proof.
  intros body. unfold window_failures. pose proof (window_after_end body) as HW.
  destruct (after_end body) as [post|].
  - rewrite !app_nil_both. split.
    + intros [H1 [H2 H3]]. exists post. split; [exact HW|]. split; [|split].
      * apply in_is_end. destruct (existsb is_end post); [discriminate|reflexivity].
      * apply existsb_false_iff. destruct (existsb is_marker post); [discriminate|reflexivity].
      * destruct (depth (window body) 0) as [[|d]|]; try discriminate. reflexivity.
    + intros [post' [Heq [H1 [H2 H3]]]].
      assert (post' = post).
      { pose proof (after_end_unique (window body) post' (window_no_end body)) as E1.
        pose proof (after_end_unique (window body) post (window_no_end body)) as E2.
        rewrite <- Heq in E1. rewrite <- HW in E2. congruence. }
      subst post'. apply in_is_end in H1. apply existsb_false_iff in H2. rewrite H1, H2, H3. auto.
  - split; [discriminate|]. intros [post [Heq _]]. destruct HW as [_ Hn]. exfalso. apply Hn.
    rewrite Heq. apply in_or_app. right. left. reflexivity.
Qed.

(* ------------------------------------------------------------------------------------------ *)
(* main theorems                                                                               *)
(* ------------------------------------------------------------------------------------------ *)

Theorem sec_failures_nil_iff : forall p c body, sec_failures p c body = [] <-> sec_ok p c body.
Proof.
  intros p c body. unfold sec_failures, sec_ok.
  rewrite !app_nil_both, window_failures_nil, map_nil_iff, isect_failures_nil, prod_failures_nil.
  split.
  - intros [H1 [H2 [H3 H4]]]. split; [exact H1|]. split; [|split; [|exact H4]].
    + intros w Hw. apply in_bads in Hw. rewrite H2 in Hw. exact Hw.
    + intros a e b q Heq Hq. apply (H3 a e b q Heq Hq).
  - intros [H1 [H2 [H3 H4]]]. split; [exact H1|]. split; [|split; [|exact H4]].
    + destruct (bads body) as [|w l] eqn:E; [reflexivity|]. exfalso. apply (H2 w). apply in_bads. rewrite E. left. reflexivity.
    + intros x e y q Heq Hq. apply (H3 x e y q Heq Hq).
Qed.

Lemma secs_failures_nil_iff : forall secs c, secs_failures c secs = [] <-> secs_ok c secs.
Proof.
  induction secs as [|s secs IH]; intros c; simpl.
  - split; auto.
  - rewrite app_nil_both, sec_failures_nil_iff, IH. reflexivity.
Qed.

Theorem prog_failures_nil_iff : forall n l, prog_failures n l = [] <-> prog_ok n l.
Proof.
  intros n l. unfold prog_failures, prog_ok. rewrite !app_nil_both, secs_failures_nil_iff.
  split.
  - intros [H1 [H2 H3]]. split; [|split; [|exact H3]].
    + destruct (forallb is_create (fst (split_secs l))) eqn:E; [|discriminate]. rewrite forallb_forall in E. exact E.
    + destruct (Nat.eqb (length (snd (split_secs l))) n) eqn:E; [apply Nat.eqb_eq; exact E|discriminate].
  - intros [H1 [H2 H3]]. split; [|split; [|exact H3]].
    + assert (E : forallb is_create (fst (split_secs l)) = true) by (apply forallb_forall; exact H1). rewrite E. reflexivity.
    + rewrite H2, Nat.eqb_refl. reflexivity.
Qed.

(* the creations carried over are exactly the Create events that end the segment *)
Lemma carry_rev_spec : forall l, exists r, l = carry_rev l ++ r /\ (forall e, In e (carry_rev l) -> is_create e = true)
  /\ match r with [] => True | e :: _ => is_create e = false end.
Proof.
  induction l as [|e l [r [H1 [H2 H3]]]]; simpl.
  - exists []. split; [reflexivity|]. split; [intros e []|exact I].
  - destruct e; try (eexists; split; [reflexivity|split; [intros e []|reflexivity]]).
    exists r. split; [simpl; rewrite <- H1; reflexivity|]. split; [|exact H3].
    intros e [<-|He]; [reflexivity|apply H2; exact He].
Qed.

Theorem carry_spec : forall l, exists a, l = a ++ carry l /\ (forall e, In e (carry l) -> is_create e = true)
  /\ match rev a with [] => True | e :: _ => is_create e = false end.
Proof.
  intros l. destruct (carry_rev_spec (rev l)) as [r [H1 [H2 H3]]]. exists (rev r). unfold carry.
  split; [|split].
  - rewrite <- rev_app_distr, <- H1, rev_involutive. reflexivity.
  - intros e He. apply H2. apply in_rev. exact He.
  - rewrite rev_involutive. exact H3.
Qed.

(* sections: the program is the preamble followed by the sections, each opened by its Begin, and no
   other Begin occurs - so "one collection per section" holds by the way sections are cut, and
   "exactly n collections" is the count checked by prog_ok *)
Definition no_begin (l : list ev) : Prop := forall p, ~ In (Begin p) l.

Theorem split_secs_spec : forall l,
  l = fst (split_secs l) ++ flat_map (fun s => Begin (fst s) :: snd s) (snd (split_secs l))
  /\ no_begin (fst (split_secs l))
  /\ Forall (fun s => no_begin (snd s)) (snd (split_secs l)).
Proof.
  induction l as [|e l [IH1 [IH2 IH3]]]; simpl.
  - split; [reflexivity|]. split; [intros p []|constructor].
  - destruct (split_secs l) as [b ss] eqn:E. simpl in *.
    destruct e; simpl;
      try (split; [rewrite IH1 at 1; reflexivity|split; [intros p [H|H]; [discriminate|exact (IH2 p H)]|exact IH3]]).
    split; [rewrite IH1 at 1; reflexivity|]. split; [intros p []|]. constructor; [exact IH2|exact IH3].
Qed.

(* consequences of prog_ok in the vocabulary of the property ------------------------------------ *)

(* every file handed to a traffic model is the file of a trace registered (with the same prefix, rank
   and type) inside the collection window of the same section, or the output of an earlier filter step *)
Theorem ok_traffic_file_produced : forall p c body a fs b f,
  sec_ok p c body -> body = a ++ Traffic fs :: b -> In f fs ->
  (exists r lab, In (Reg r lab) (window a) /\ f = fname p r lab /\ (is_eager lab = true -> In (Emit lab) (window a)))
  \/ (exists i fl, In (Filter i fl f) a).
Proof.
  intros p c body a fs b f [_ [_ [H _]]] Heq Hf.
  assert (Hq : In (NFile f) (needs (Traffic fs))) by (simpl; apply in_map; exact Hf).
  specialize (H a (Traffic fs) b (NFile f) Heq Hq). simpl in H.
  destruct H as [[r [lab [[H1 H2] H3]]]|H]; [left; exists r, lab; auto|right; exact H].
Qed.

Theorem ok_filter_inputs_produced : forall p c body a i fl o b,
  sec_ok p c body -> body = a ++ Filter i fl o :: b -> produced p a (NFile i) /\ produced p a (NFile fl).
Proof.
  intros p c body a i fl o b [_ [_ [H _]]] Heq.
  split; apply (H a (Filter i fl o) b); try exact Heq; simpl; auto.
Qed.

Theorem ok_numiters_produced : forall p c body a f b,
  sec_ok p c body -> body = a ++ NumIters f :: b -> produced p a (NFile f).
Proof.
  intros p c body a f b [_ [_ [H _]]] Heq. apply (H a (NumIters f) b); [exact Heq|simpl; auto].
Qed.

Theorem ok_consume_registered : forall p c body a r lab b,
  sec_ok p c body -> body = a ++ Consume r lab :: b -> In (Reg r lab) (window a).
Proof.
  intros p c body a r lab b [_ [_ [H _]]] Heq.
  specialize (H a (Consume r lab) b (NLab r lab) Heq). simpl in H. apply H. auto.
Qed.

Theorem ok_query_created_fed : forall p c body x,
  sec_ok p c body -> In (Query x) body -> created x (c ++ body) /\ fed x (window body).
Proof. intros p c body x [_ [_ [_ H]]] Hq. apply H. exact Hq. Qed.

(* the window of a section that is ok is closed at depth 0 and no loop lies outside it *)
Theorem ok_window : forall p c body,
  sec_ok p c body ->
  exists mid post, body = mid ++ End :: post /\ ~ In End mid /\ ~ In End post
                   /\ (forall e, In e post -> is_marker e = false) /\ depth mid 0 = Some 0.
Proof.
  intros p c body [[post [H1 [H2 [H3 H4]]]] _]. exists (window body), post.
  split; [exact H1|]. split; [apply window_no_end|]. auto.
Qed.

(* ------------------------------------------------------------------------------------------ *)
(* Examples: the hypotheses are satisfiable by non-trivial objects; the checker rejects the     *)
(* F8 shape (a binding of a format that is not the loop format is consumed, nothing registered) *)
(* ------------------------------------------------------------------------------------------ *)

Definition ex_good : list ev :=
  [Begin "tmp/Z"; Create 7%positive; Reg "K" "intersect_0"; Reg "K" "intersect_1"; Reg "M" "iter"; Reg "M" "populate_1";
   Reg "N" "eager_z_n_read"; Reg "N" "eager_z_n_write";
   LoopIn; Emit "eager_z_n_read"; LoopIn; LoopOut; Consume "K" "intersect_0"; Consume "K" "intersect_1"; Feed 7%positive;
   Emit "eager_z_n_write"; LoopOut; End;
   Filter "tmp/Z-M-populate_1.csv" "tmp/Z-M-iter.csv" "tmp/Z-M-populate_1_payload.csv";
   Traffic ["tmp/Z-M-populate_1_payload.csv"; "tmp/Z-N-eager_z_n_read.csv"; "tmp/Z-N-eager_z_n_write.csv"];
   NumIters "tmp/Z-M-iter.csv"; Query 7%positive].

Example ex_good_ok : prog_ok 1 ex_good.
Proof. apply prog_failures_nil_iff. vm_compute. reflexivity. Qed.

(* the shape of finding F8: tensor A bound to a buffer with a format the loop nest does not use *)
Definition ex_f8 : list ev :=
  [Begin "tmp/Z"; Reg "M" "populate_1"; LoopIn; LoopIn; LoopOut; LoopOut; End;
   Filter "tmp/Z-K-intersect_0.csv" "tmp/Z-K-iter.csv" "tmp/Z-K-intersect_0_payload.csv";
   Traffic ["tmp/Z-K-intersect_0_payload.csv"; "tmp/Z-M-populate_1.csv"]].

Example ex_f8_rejected : ~ prog_ok 1 ex_f8.
Proof. intros H. apply prog_failures_nil_iff in H. vm_compute in H. discriminate. Qed.

Example ex_end_in_loop_rejected : ~ prog_ok 1 [Begin "p"; LoopIn; End; LoopOut].
Proof. intros H. apply prog_failures_nil_iff in H. vm_compute in H. discriminate. Qed.

Example ex_feed_in_header_rejected :
  ~ prog_ok 1 [Begin "p"; Create 1%positive; Reg "K" "intersect_0"; LoopIn; Consume "K" "intersect_0"; Feed 1%positive; LoopIn; LoopOut; LoopOut; End; Query 1%positive].
Proof. intros H. apply prog_failures_nil_iff in H. vm_compute in H. discriminate. Qed.

(* creating the intersector before beginCollect (still before the loops) is accepted, also for a later Einsum *)
Example ex_create_before_begin_ok :
  prog_ok 2 [Create 1%positive; Begin "p"; Reg "K" "intersect_0"; LoopIn; LoopOut; Consume "K" "intersect_0"; Feed 1%positive; End; Query 1%positive;
             Create 1%positive; Begin "q"; Reg "K" "intersect_0"; LoopIn; LoopOut; Consume "K" "intersect_0"; Feed 1%positive; End; Query 1%positive].
Proof. apply prog_failures_nil_iff. vm_compute. reflexivity. Qed.

(* ... but a creation of an EARLIER section does not count for a later one *)
Example ex_stale_creation_rejected :
  ~ prog_ok 2 [Begin "p"; Create 1%positive; Reg "K" "intersect_0"; LoopIn; LoopOut; Consume "K" "intersect_0"; Feed 1%positive; End; Query 1%positive;
               Begin "q"; Reg "K" "intersect_0"; LoopIn; LoopOut; Consume "K" "intersect_0"; Feed 1%positive; End; Query 1%positive].
Proof. intros H. apply prog_failures_nil_iff in H. vm_compute in H. discriminate. Qed.
