(* Proofs about Model/HAst.v's associativity normal form `norm`:
   - it preserves the integer value of the arithmetic fragment (norm_aeval),
   - it is idempotent (norm_idempotent), via an explicit normal-form predicate `nf`,
   - first_diff / c09_check characterisations. *)
From Coq Require Import String List ZArith Bool Lia.
Require Import TV.Model.Py TV.Model.HAst.
Import ListNotations.

(* ------------------------------------------------------------------------- *)
(* Integer evaluation of the arithmetic fragment                              *)
(* ------------------------------------------------------------------------- *)

(* Python's // and % on ints are Z.div / Z.modulo (floor division, sign of the divisor) *)
Definition abin (op : binop) (x y : Z) : option Z :=
  match op with
  | BAdd => Some (x + y)%Z
  | BSub => Some (x - y)%Z
  | BMul => Some (x * y)%Z
  | BFDiv => if (y =? 0)%Z then None else Some (x / y)%Z
  | BMod => if (y =? 0)%Z then None else Some (x mod y)%Z
  | _ => None
  end.

Definition acomb (op : binop) (a b : option Z) : option Z :=
  match a, b with
  | Some x, Some y => abin op x y
  | _, _ => None
  end.

Fixpoint aeval (rho : positive -> Z) (e : expr) {struct e} : option Z :=
  match e with
  | EInt z => Some z
  | EName x => Some (rho x)
  | ENeg a => match aeval rho a with Some v => Some (- v)%Z | None => None end
  | EBin op a b => acomb op (aeval rho a) (aeval rho b)
  | _ => None
  end.

(* ------------------------------------------------------------------------- *)
(* Induction principle for the nested inductive `expr`                        *)
(* ------------------------------------------------------------------------- *)
Section ExprInd.
  Variable P : expr -> Prop.
  Hypothesis HName : forall x, P (EName x).
  Hypothesis HInt : forall z, P (EInt z).
  Hypothesis HStr : forall s, P (EStr s).
  Hypothesis HBool : forall b, P (EBool b).
  Hypothesis HNone_ : P ENone.
  Hypothesis HBin : forall op a b, P a -> P b -> P (EBin op a b).
  Hypothesis HNeg : forall a, P a -> P (ENeg a).
  Hypothesis HCmp : forall op a b, P a -> P b -> P (ECmp op a b).
  Hypothesis HCall : forall f args kw, P f -> Forall P args -> Forall (fun p => P (snd p)) kw ->
                                       P (ECall f args kw).
  Hypothesis HAttr : forall a s, P a -> P (EAttr a s).
  Hypothesis HSub : forall a i, P a -> P i -> P (ESub a i).
  Hypothesis HTuple : forall l, Forall P l -> P (ETuple l).
  Hypothesis HList : forall l, Forall P l -> P (EList l).
  Hypothesis HDict : forall l, Forall (fun p => P (fst p) /\ P (snd p)) l -> P (EDict l).
  Hypothesis HLam : forall ps b, P b -> P (ELam ps b).
  Hypothesis HComp : forall a x it, P a -> P it -> P (EComp a x it).

  Fixpoint expr_ind' (e : expr) {struct e} : P e :=
    let all := fix go (l : list expr) : Forall P l :=
                 match l with
                 | [] => Forall_nil _
                 | x :: l' => Forall_cons x (expr_ind' x) (go l')
                 end in
    match e with
    | EName x => HName x
    | EInt z => HInt z
    | EStr s => HStr s
    | EBool b => HBool b
    | ENone => HNone_
    | EBin op a b => HBin op a b (expr_ind' a) (expr_ind' b)
    | ENeg a => HNeg a (expr_ind' a)
    | ECmp op a b => HCmp op a b (expr_ind' a) (expr_ind' b)
    | ECall f args kw =>
        HCall f args kw (expr_ind' f) (all args)
              ((fix go (l : list (string * expr)) : Forall (fun p => P (snd p)) l :=
                  match l with
                  | [] => Forall_nil _
                  | (k, v) :: l' => Forall_cons (k, v) (expr_ind' v) (go l')
                  end) kw)
    | EAttr a s => HAttr a s (expr_ind' a)
    | ESub a i => HSub a i (expr_ind' a) (expr_ind' i)
    | ETuple l => HTuple l (all l)
    | EList l => HList l (all l)
    | EDict l =>
        HDict l ((fix go (l : list (expr * expr)) : Forall (fun p => P (fst p) /\ P (snd p)) l :=
                    match l with
                    | [] => Forall_nil _
                    | (k, v) :: l' => Forall_cons (k, v) (conj (expr_ind' k) (expr_ind' v)) (go l')
                    end) l)
    | ELam ps b => HLam ps b (expr_ind' b)
    | EComp a x it => HComp a x it (expr_ind' a) (expr_ind' it)
    end.
End ExprInd.

(* ------------------------------------------------------------------------- *)
(* chain / rebuild                                                            *)
(* ------------------------------------------------------------------------- *)

Lemma binop_eqb_eq : forall a b, binop_eqb a b = true <-> a = b.
Proof. intros a b; destruct a, b; simpl; split; intro H; try reflexivity; discriminate H. Qed.

Lemma binop_eqb_refl : forall a, binop_eqb a a = true.
Proof. intro a; apply binop_eqb_eq; reflexivity. Qed.

Lemma chain_nonempty : forall op e, chain op e <> [].
Proof.
  intros op e; destruct e; simpl; try discriminate.
  destruct (binop_eqb op0 op); [|discriminate].
  intro H; apply app_eq_nil in H; destruct H as [_ H]; discriminate H.
Qed.

(* chain is a right inverse of rebuild, for EVERY expression *)
Lemma rebuild_chain : forall op e, rebuild op (chain op e) = e.
Proof.
  intros op e; induction e; simpl; try reflexivity.
  destruct (binop_eqb op0 op) eqn:Eop; [|reflexivity].
  apply binop_eqb_eq in Eop; subst op0.
  pose proof (chain_nonempty op e1) as Hne.
  destruct (chain op e1) as [|x rest] eqn:Ec; [congruence|].
  simpl in *. rewrite fold_left_app; simpl. rewrite IHe1. reflexivity.
Qed.

Lemma acomb_assoc : forall op a b c, assoc_op op = true ->
  acomb op (acomb op a b) c = acomb op a (acomb op b c).
Proof.
  intros op a b c Hop; destruct op; try discriminate Hop;
    destruct a, b, c; simpl; try reflexivity; f_equal; ring.
Qed.

Lemma aeval_fold_assoc : forall rho op, assoc_op op = true ->
  forall l2 X y,
    aeval rho (fold_left (EBin op) l2 (EBin op X y))
    = acomb op (aeval rho X) (aeval rho (fold_left (EBin op) l2 y)).
Proof.
  intros rho op Hop l2; induction l2 as [|z l2 IH]; intros X y; simpl.
  - reflexivity.
  - rewrite (IH (EBin op X y) z), (IH y z). simpl. apply acomb_assoc; assumption.
Qed.

Lemma aeval_rebuild_app : forall rho op l1 l2, assoc_op op = true -> l1 <> [] -> l2 <> [] ->
  aeval rho (rebuild op (l1 ++ l2))
  = acomb op (aeval rho (rebuild op l1)) (aeval rho (rebuild op l2)).
Proof.
  intros rho op l1 l2 Hop H1 H2.
  destruct l1 as [|x r1]; [congruence|]. destruct l2 as [|y r2]; [congruence|].
  simpl. rewrite fold_left_app. simpl. apply aeval_fold_assoc; assumption.
Qed.

(* ------------------------------------------------------------------------- *)
(* THEOREM: norm preserves the integer value                                  *)
(* ------------------------------------------------------------------------- *)
Theorem norm_aeval : forall rho e, aeval rho (norm e) = aeval rho e.
Proof.
  intros rho e; induction e; try reflexivity.
  - (* EBin *)
    cbn [norm]. destruct (assoc_op op) eqn:Hop.
    + rewrite aeval_rebuild_app by (assumption || apply chain_nonempty).
      rewrite !rebuild_chain. cbn [aeval]. rewrite IHe1, IHe2. reflexivity.
    + cbn [aeval]. rewrite IHe1, IHe2. reflexivity.
  - (* ENeg *)
    cbn [norm aeval]. rewrite IHe. reflexivity.
Qed.

(* ------------------------------------------------------------------------- *)
(* Normal forms; idempotence                                                  *)
(* ------------------------------------------------------------------------- *)
Definition nothead (op : binop) (e : expr) : bool :=
  match e with EBin o _ _ => negb (binop_eqb o op) | _ => true end.

(* no right operand of an associative operator is headed by the same operator, everywhere *)
Fixpoint nf (e : expr) {struct e} : bool :=
  match e with
  | EBin op a b => nf a && nf b && (if assoc_op op then nothead op b else true)
  | ENeg a => nf a
  | ECmp _ a b => nf a && nf b
  | ECall f args kw =>
      nf f && forallb nf args
      && (fix go (l : list (string * expr)) : bool :=
            match l with [] => true | (_, v) :: l' => nf v && go l' end) kw
  | EAttr a _ => nf a
  | ESub a i => nf a && nf i
  | ETuple l => forallb nf l
  | EList l => forallb nf l
  | EDict l => (fix go (l : list (expr * expr)) : bool :=
                  match l with [] => true | (k, v) :: l' => nf k && nf v && go l' end) l
  | ELam _ b => nf b
  | EComp a _ it => nf a && nf it
  | _ => true
  end.

Definition opnd (op : binop) (y : expr) : Prop := nf y = true /\ nothead op y = true.

Lemma nothead_chain : forall op b, nothead op b = true -> chain op b = [b].
Proof.
  intros op b H; destruct b; simpl in *; try reflexivity.
  destruct (binop_eqb op0 op); [discriminate H|reflexivity].
Qed.

Lemma chain_nf : forall op, assoc_op op = true ->
  forall x, nf x = true -> Forall (opnd op) (chain op x).
Proof.
  intros op Hop x; induction x; intro Hnf; simpl chain;
    try (constructor; [split; [exact Hnf|reflexivity]|constructor]).
  destruct (binop_eqb op0 op) eqn:Eop.
  - apply binop_eqb_eq in Eop; subst op0.
    simpl in Hnf. rewrite Hop in Hnf.
    apply andb_true_iff in Hnf; destruct Hnf as [Hnf Hh].
    apply andb_true_iff in Hnf; destruct Hnf as [Hn1 Hn2].
    apply Forall_app; split; [apply IHx1; exact Hn1|].
    constructor; [split; assumption|constructor].
  - constructor; [|constructor]. split; [exact Hnf|]. simpl. rewrite Eop. reflexivity.
Qed.

Lemma nf_fold : forall op, assoc_op op = true ->
  forall rest x, nf x = true -> Forall (opnd op) rest -> nf (fold_left (EBin op) rest x) = true.
Proof.
  intros op Hop rest; induction rest as [|y rest IH]; intros x Hx HF; simpl.
  - exact Hx.
  - inversion HF as [|y' rest' [Hy Hh] HF']; subst.
    apply IH; [|exact HF']. simpl. rewrite Hop, Hx, Hy, Hh. reflexivity.
Qed.

Lemma nf_rebuild : forall op l, assoc_op op = true -> l <> [] -> Forall (opnd op) l ->
  nf (rebuild op l) = true.
Proof.
  intros op l Hop Hne HF; destruct l as [|x rest]; [congruence|].
  inversion HF as [|x' rest' [Hx _] HF']; subst. simpl. apply nf_fold; assumption.
Qed.

Lemma forallb_map_Forall : forall (f : expr -> expr) (l : list expr),
  Forall (fun e => nf (f e) = true) l -> forallb nf (map f l) = true.
Proof.
  intros f l HF; induction HF as [|x l Hx HF IH]; simpl; [reflexivity|].
  rewrite Hx, IH; reflexivity.
Qed.

Theorem norm_nf : forall e, nf (norm e) = true.
Proof.
  intro e; induction e as
    [x|z|s|b| |op a b IHa IHb|a IHa|op a b IHa IHb|f args kw IHf IHargs IHkw|a s IHa|a i IHa IHi
    |l IHl|l IHl|l IHl|ps b IHb|a x it IHa IHit] using expr_ind'; try reflexivity.
  - (* EBin *)
    cbn [norm]. destruct (assoc_op op) eqn:Hop.
    + apply nf_rebuild; [exact Hop| |].
      * intro H; apply app_eq_nil in H; destruct H as [H _]; exact (chain_nonempty _ _ H).
      * apply Forall_app; split; apply chain_nf; assumption.
    + simpl. rewrite Hop, IHa, IHb. reflexivity.
  - exact IHa.
  - simpl. rewrite IHa, IHb. reflexivity.
  - (* ECall *)
    cbn [norm nf]. rewrite IHf, (forallb_map_Forall norm args IHargs). simpl.
    induction IHkw as [|[k v] kw Hv HF IH]; [reflexivity|].
    simpl in Hv. rewrite Hv, IH. reflexivity.
  - exact IHa.
  - simpl. rewrite IHa, IHi. reflexivity.
  - cbn [norm nf]. apply forallb_map_Forall; exact IHl.
  - cbn [norm nf]. apply forallb_map_Forall; exact IHl.
  - (* EDict *)
    cbn [norm nf].
    induction IHl as [|[k v] l [Hk Hv] HF IH]; [reflexivity|].
    simpl in Hk, Hv. rewrite Hk, Hv, IH. reflexivity.
  - exact IHb.
  - simpl. rewrite IHa, IHit. reflexivity.
Qed.

Lemma map_fixed_Forall : forall (l : list expr),
  Forall (fun e => nf e = true -> norm e = e) l -> forallb nf l = true -> map norm l = l.
Proof.
  intros l HF; induction HF as [|x l Hx HF IH]; simpl; intro H; [reflexivity|].
  apply andb_true_iff in H; destruct H as [H1 H2]. rewrite (Hx H1), (IH H2). reflexivity.
Qed.

Theorem nf_norm_fixed : forall e, nf e = true -> norm e = e.
Proof.
  intro e; induction e as
    [x|z|s|b| |op a b IHa IHb|a IHa|op a b IHa IHb|f args kw IHf IHargs IHkw|a s IHa|a i IHa IHi
    |l IHl|l IHl|l IHl|ps b IHb|a x it IHa IHit] using expr_ind'; intro Hnf; try reflexivity.
  - (* EBin *)
    cbn [nf] in Hnf.
    apply andb_true_iff in Hnf; destruct Hnf as [Hnf Hh].
    apply andb_true_iff in Hnf; destruct Hnf as [Hn1 Hn2].
    cbn [norm]. rewrite (IHa Hn1), (IHb Hn2).
    destruct (assoc_op op) eqn:Hop; [|reflexivity].
    rewrite (nothead_chain op b Hh).
    pose proof (rebuild_chain op (EBin op a b)) as HR.
    simpl chain in HR. rewrite binop_eqb_refl in HR. exact HR.
  - cbn [nf] in Hnf. cbn [norm]. rewrite (IHa Hnf). reflexivity.
  - cbn [nf] in Hnf. apply andb_true_iff in Hnf; destruct Hnf as [Hn1 Hn2].
    cbn [norm]. rewrite (IHa Hn1), (IHb Hn2). reflexivity.
  - (* ECall *)
    cbn [nf] in Hnf.
    apply andb_true_iff in Hnf; destruct Hnf as [Hnf Hkw].
    apply andb_true_iff in Hnf; destruct Hnf as [Hf Hargs].
    cbn [norm]. rewrite (IHf Hf), (map_fixed_Forall args IHargs Hargs). f_equal.
    clear Hf Hargs IHargs IHf.
    induction IHkw as [|[k v] kw Hv HF IH]; [reflexivity|].
    simpl in Hv. apply andb_true_iff in Hkw; destruct Hkw as [Hk1 Hk2].
    rewrite (Hv Hk1), (IH Hk2). reflexivity.
  - cbn [nf] in Hnf. cbn [norm]. rewrite (IHa Hnf). reflexivity.
  - cbn [nf] in Hnf. apply andb_true_iff in Hnf; destruct Hnf as [Hn1 Hn2].
    cbn [norm]. rewrite (IHa Hn1), (IHi Hn2). reflexivity.
  - cbn [nf] in Hnf. cbn [norm]. rewrite (map_fixed_Forall l IHl Hnf). reflexivity.
  - cbn [nf] in Hnf. cbn [norm]. rewrite (map_fixed_Forall l IHl Hnf). reflexivity.
  - (* EDict *)
    cbn [nf] in Hnf. cbn [norm]. f_equal.
    induction IHl as [|[k v] l [Hk Hv] HF IH]; [reflexivity|].
    simpl in Hk, Hv.
    apply andb_true_iff in Hnf; destruct Hnf as [Hnf Hl].
    apply andb_true_iff in Hnf; destruct Hnf as [Hnk Hnv].
    rewrite (Hk Hnk), (Hv Hnv), (IH Hl). reflexivity.
  - cbn [nf] in Hnf. cbn [norm]. rewrite (IHb Hnf). reflexivity.
  - cbn [nf] in Hnf. apply andb_true_iff in Hnf; destruct Hnf as [Hn1 Hn2].
    cbn [norm]. rewrite (IHa Hn1), (IHit Hn2). reflexivity.
Qed.

Theorem norm_idempotent : forall e, norm (norm e) = norm e.
Proof. intro e; apply nf_norm_fixed; apply norm_nf. Qed.

(* norm is exactly the identity on normal forms, and its image is exactly the normal forms *)
Corollary nf_iff_fixed : forall e, nf e = true <-> norm e = e.
Proof.
  intro e; split; [apply nf_norm_fixed|].
  intro H; rewrite <- H; apply norm_nf.
Qed.

(* ------------------------------------------------------------------------- *)
(* first_diff / c09_check                                                     *)
(* ------------------------------------------------------------------------- *)
Lemma first_diff_none : forall a b n, first_diff n a b = None <-> a = b.
Proof.
  intro a; induction a as [|x a IH]; intros b n; destruct b as [|y b]; simpl.
  - split; reflexivity.
  - split; intro H; discriminate H.
  - split; intro H; discriminate H.
  - destruct (stmt_eq_dec x y) as [Heq|Hne].
    + subst y. rewrite IH. split; intro H; [subst; reflexivity|]. injection H; auto.
    + split; intro H; [discriminate H|]. injection H; intros; contradiction.
Qed.

Lemma strip_parens : forall fid h, strip fid (HParens h) = strip fid h.
Proof. reflexivity. Qed.

Lemma c09_check_ok_iff : forall fid h p,
  c09_check fid h p = "OK"%string
  <-> exists q, strip_stmt fid h = Some q /\ map norm_stmt q = map norm_stmt p.
Proof.
  intros fid h p; unfold c09_check.
  destruct (strip_stmt fid h) as [q|] eqn:Hs.
  - destruct (first_diff 0 (map norm_stmt q) (map norm_stmt p)) as [n|] eqn:Hd.
    + split.
      * intro H; simpl in H; discriminate H.
      * intros [q' [Hq' Heq]]. injection Hq' as <-.
        apply (first_diff_none _ _ 0) in Heq. congruence.
    + split; [|reflexivity].
      intros _. exists q; split; [reflexivity|]. apply (first_diff_none _ _ 0); exact Hd.
  - split.
    + intro H; discriminate H.
    + intros [q' [Hq' _]]; discriminate Hq'.
Qed.

(* ------------------------------------------------------------------------- *)
(* Non-vacuity                                                                *)
(* ------------------------------------------------------------------------- *)
(*  a + (b + c) * (d * (e * f))   with a..f = names 1..6 *)
Definition ex_expr : expr :=
  EBin BAdd (EName 1)
       (EBin BMul (EBin BAdd (EName 2) (EName 3))
                  (EBin BMul (EName 4) (EBin BMul (EName 5) (EName 6)))).
Definition ex_rho (x : positive) : Z := (Z.pos x + 1)%Z.

Example ex_norm_differs : norm ex_expr <> ex_expr.
Proof. vm_compute. intro H; discriminate H. Qed.

Example ex_norm_shape :
  norm ex_expr =
  EBin BAdd (EName 1)
       (EBin BMul (EBin BMul (EBin BMul (EBin BAdd (EName 2) (EName 3)) (EName 4)) (EName 5)) (EName 6)).
Proof. vm_compute. reflexivity. Qed.

Example ex_same_value :
  aeval ex_rho ex_expr = Some 1472%Z /\ aeval ex_rho (norm ex_expr) = Some 1472%Z.
Proof. vm_compute. split; reflexivity. Qed.

(* a + (b + c): the + chain itself is re-associated, and // and % stay put *)
Example ex_add_chain :
  norm (EBin BAdd (EName 1) (EBin BAdd (EName 2) (EBin BFDiv (EName 3) (EBin BFDiv (EName 4) (EName 5)))))
  = EBin BAdd (EBin BAdd (EName 1) (EName 2)) (EBin BFDiv (EName 3) (EBin BFDiv (EName 4) (EName 5))).
Proof. vm_compute. reflexivity. Qed.

Example ex_nf_nontrivial : nf ex_expr = false /\ nf (norm ex_expr) = true.
Proof. vm_compute. split; reflexivity. Qed.
