(* C03 at the level of loop nests: occupancy partitioning as a transformation of the nest state.
   1. bounds_split (splitNonUniform) and its denotation;  2. chunk_starts (the leader's splitEqual boundaries);
   3. occ_split of a product term: for ANY loop order well-formed for the transformed term the nest contributes, at
      every consistent point, the value of the term at the collapsed point and 0 elsewhere; every original point with a
      non-zero value is represented exactly once;  4. the split at a dynamic position (after outer levels), with a
      static validator of the rank structure;  5. two-level stacks by composition (occupancy beneath a shape split,
      occupancy beneath occupancy, a shape split beneath occupancy);  6. summing over the upper coordinate;
   7. bounds_split / equal_split ARE Rt.split_nonuniform / Rt.split_equal under the embedding of Nest tries into Rt tries. *)
From Coq Require Import ZArith List Bool Lia String Sorted.
Require TV.Model.Rt TV.Proofs.OccLaws TV.Proofs.RtLaws.
Require Import TV.Model.Nest TV.Proofs.NestProofs TV.Model.NestPart TV.Proofs.NestPartProofs TV.Model.NestOcc.
Import ListNotations.
Open Scope Z_scope.

(* ---------- 1. boundaries ---------- *)
Lemma part_of_OccLaws : NestOcc.part_of = OccLaws.part_of.
Proof. reflexivity. Qed.

Lemma part_of_none_iff bs c : part_of bs c = None <-> match bs with [] => True | b :: _ => c < b end.
Proof.
  destruct bs as [|b bs]; cbn [part_of]; [tauto|].
  destruct (Z.ltb_spec c b); [tauto|]. destruct (part_of bs c); split; intros; try discriminate; lia.
Qed.

Lemma part_of_in bs c b : part_of bs c = Some b -> In b bs.
Proof.
  revert b; induction bs as [|b0 bs IH]; intros b H; cbn [part_of] in H; [discriminate|].
  destruct (c <? b0); [discriminate|]. destruct (part_of bs c) as [b'|].
  - injection H as <-. right. apply IH. reflexivity.
  - injection H as <-. left. reflexivity.
Qed.

Lemma part_of_le bs c b : part_of bs c = Some b -> b <= c.
Proof.
  revert b; induction bs as [|b0 bs IH]; intros b H; cbn [part_of] in H; [discriminate|].
  destruct (Z.ltb_spec c b0); [discriminate|]. destruct (part_of bs c) as [b'|].
  - injection H as <-. apply IH. reflexivity.
  - injection H as <-. assumption.
Qed.

(* the window of boundary u inside the list bs *)
Fixpoint window (bs : list Z) (u c : Z) : bool :=
  match bs with
  | [] => false
  | b :: bs' => if Z.eqb u b then in_window b bs' c else window bs' u c
  end.

Lemma window_part_of bs u c : StronglySorted Z.lt bs -> window bs u c = true <-> part_of bs c = Some u.
Proof.
  induction bs as [|b bs IH]; intros Hs; cbn [window part_of]; [split; discriminate|].
  inversion Hs as [|? ? Hs' Hall]; subst. specialize (IH Hs').
  destruct (Z.eqb_spec u b) as [->|Hne].
  - unfold in_window. destruct (Z.ltb_spec c b) as [Hlt|Hge].
    + destruct (Z.leb_spec b c); [lia|]. cbn. split; discriminate.
    + destruct (Z.leb_spec b c); [|lia]. cbn [andb].
      destruct (part_of bs c) as [b'|] eqn:E.
      * assert (Hin : In b' bs) by (eapply part_of_in; exact E).
        rewrite Forall_forall in Hall. specialize (Hall b' Hin).
        assert (Hn : part_of bs c <> None) by congruence. rewrite part_of_none_iff in Hn.
        destruct bs as [|b1 bs1]; [destruct Hin|]. destruct (Z.ltb_spec c b1); [lia|].
        split; [discriminate|]. intros H'. injection H' as ->. lia.
      * apply part_of_none_iff in E. destruct bs as [|b1 bs1]; [tauto|].
        destruct (Z.ltb_spec c b1); [tauto|lia].
  - rewrite IH. destruct (Z.ltb_spec c b) as [Hlt|Hge].
    + split; [|discriminate]. intros H. apply part_of_le in H as Hle. apply part_of_in in H.
      rewrite Forall_forall in Hall. specialize (Hall u H). lia.
    + destruct (part_of bs c) as [b'|]; [tauto|]. split; [discriminate|]. intros H; injection H as <-. congruence.
Qed.

Lemma lookup_filter_fst (f : Z -> bool) c l :
  lookup c (filter (fun ct : coord * trie => f (fst ct)) l) = if f c then lookup c l else None.
Proof.
  induction l as [|[c' t'] l IH]; cbn [filter lookup fst]; [destruct (f c); reflexivity|].
  destruct (f c') eqn:E'.
  - cbn [lookup]. destruct (Z.eqb_spec c c') as [->|Hne]; [rewrite E'; reflexivity|exact IH].
  - rewrite IH. destruct (Z.eqb_spec c c') as [->|Hne]; [rewrite E'; reflexivity|reflexivity].
Qed.

Lemma lookup_bounds_split_in u bs l t : lookup u (bounds_split bs l) = Some t -> In u bs.
Proof.
  induction bs as [|b bs IH]; cbn [bounds_split]; [discriminate|].
  destruct (filter (fun ct : coord * trie => in_window b bs (fst ct)) l).
  - intros H. right. apply IH. exact H.
  - cbn [lookup]. destruct (Z.eqb_spec u b) as [->|_]; [intros _; left; reflexivity|]. intros H. right. apply IH. exact H.
Qed.

Lemma lookup_bounds_split u bs l : NoDup bs ->
  lookup u (bounds_split bs l) =
  match filter (fun ct : coord * trie => window bs u (fst ct)) l with [] => None | sel => Some (Node sel) end.
Proof.
  induction bs as [|b bs IH]; intros Hnd; cbn [bounds_split window].
  - cbn [lookup]. induction l as [|ct l IHl]; [reflexivity|exact IHl].
  - apply NoDup_cons_iff in Hnd as [Hnotin Hnd]. specialize (IH Hnd).
    destruct (Z.eqb_spec u b) as [->|Hne].
    + destruct (filter (fun ct : coord * trie => in_window b bs (fst ct)) l) as [|x sel] eqn:E.
      * destruct (lookup b (bounds_split bs l)) as [t|] eqn:El; [|reflexivity].
        exfalso. apply Hnotin. eapply lookup_bounds_split_in. exact El.
      * cbn [lookup]. rewrite Z.eqb_refl. reflexivity.
    + destruct (filter (fun ct : coord * trie => in_window b bs (fst ct)) l) as [|x sel]; [exact IH|].
      cbn [lookup]. destruct (Z.eqb_spec u b); [contradiction|]. exact IH.
Qed.

Lemma SSorted_lt_NoDup l : StronglySorted Z.lt l -> NoDup l.
Proof.
  induction 1 as [|a l Hs IH Hall]; constructor; [|exact IH].
  intros Hin. rewrite Forall_forall in Hall. specialize (Hall a Hin). lia.
Qed.

(* the denotation of a fiber cut at increasing boundaries *)
Lemma den_bounds_split : forall bs l rs p r r1 r0,
  StronglySorted Z.lt bs -> ~ In r rs ->
  den (r1 :: r0 :: rs) (Node (bounds_split bs l)) p =
  if occ_consistent bs r1 r0 p then den (r :: rs) (Node l) (collapse r r0 p) else 0.
Proof.
  intros bs l rs p r r1 r0 Hs Hnotin. cbn [den].
  rewrite lookup_bounds_split by (apply SSorted_lt_NoDup; exact Hs).
  assert (Hw : window bs (p r1) (p r0) = occ_consistent bs r1 r0 p).
  { apply eq_true_iff_eq. rewrite (window_part_of bs (p r1) (p r0) Hs). unfold occ_consistent.
    destruct (part_of bs (p r0)) as [b|]; [|split; discriminate].
    rewrite Z.eqb_eq. split; [intros H; injection H as ->; reflexivity|intros ->; reflexivity]. }
  assert (Hc : collapse r r0 p r = p r0) by (unfold collapse, upd; rewrite String.eqb_refl; reflexivity).
  rewrite Hc.
  assert (Hd : match filter (fun ct : coord * trie => window bs (p r1) (fst ct)) l with
               | [] => 0 | sel => den (r0 :: rs) (Node sel) p end =
               den (r0 :: rs) (Node (filter (fun ct : coord * trie => window bs (p r1) (fst ct)) l)) p).
  { destruct (filter (fun ct : coord * trie => window bs (p r1) (fst ct)) l); reflexivity. }
  transitivity (den (r0 :: rs) (Node (filter (fun ct : coord * trie => window bs (p r1) (fst ct)) l)) p).
  { destruct (filter (fun ct : coord * trie => window bs (p r1) (fst ct)) l); reflexivity. }
  clear Hd. cbn [den]. rewrite (lookup_filter_fst (window bs (p r1))). rewrite Hw.
  destruct (occ_consistent bs r1 r0 p); [|reflexivity].
  destruct (lookup (p r0) l) as [t'|]; [|reflexivity].
  symmetry. apply den_upd_notin. exact Hnotin.
Qed.

(* ---------- 2. the leader: chunk starts ---------- *)
Lemma starts_aux_in n k l x : In x (starts_aux n k l) -> In x (keys l).
Proof.
  revert k; induction l as [|ct l IH]; intros k H; cbn [starts_aux] in H; [destruct H|].
  destruct k as [|k'].
  - destruct H as [<-|H]; [left; reflexivity|right; eapply IH; exact H].
  - right. eapply IH. exact H.
Qed.

Lemma starts_aux_sorted n k l : StronglySorted Z.lt (keys l) -> StronglySorted Z.lt (starts_aux n k l).
Proof.
  revert k; induction l as [|ct l IH]; intros k Hs; cbn [starts_aux]; [constructor|].
  cbn [keys map] in Hs. inversion Hs as [|? ? Hs' Hall]; subst.
  destruct k as [|k']; [|apply IH; exact Hs'].
  constructor; [apply IH; exact Hs'|].
  apply Forall_forall. intros x Hx. apply starts_aux_in in Hx. rewrite Forall_forall in Hall. apply Hall. exact Hx.
Qed.

(* the boundaries are increasing *)
Lemma chunk_starts_sorted n l : StronglySorted Z.lt (keys l) -> StronglySorted Z.lt (chunk_starts n l).
Proof. apply starts_aux_sorted. Qed.

(* the first boundary is the first coordinate of the leader's fiber *)
Lemma chunk_starts_head n ct l : chunk_starts n (ct :: l) = fst ct :: starts_aux n (Nat.pred n) l.
Proof. reflexivity. Qed.

(* every coordinate of the leader's fiber has a partition *)
Lemma chunk_starts_covers n l c : StronglySorted Z.lt (keys l) -> In c (keys l) -> part_of (chunk_starts n l) c <> None.
Proof.
  intros Hs Hin H. apply part_of_none_iff in H. destruct l as [|ct l]; [destruct Hin|].
  rewrite chunk_starts_head in H. cbn [keys map] in Hs, Hin. inversion Hs as [|? ? _ Hall]; subst.
  destruct Hin as [<-|Hin]; [lia|]. rewrite Forall_forall in Hall. specialize (Hall c Hin). lia.
Qed.

Lemma starts_aux_skipn n k l : starts_aux n k l = starts_aux n 0 (skipn k l).
Proof.
  revert k; induction l as [|ct l IH]; intros k; [destruct k; reflexivity|].
  destruct k as [|k']; [reflexivity|]. cbn [starts_aux skipn]. apply IH.
Qed.

Lemma chunk_starts_step n ct l : (0 < n)%nat ->
  chunk_starts n (ct :: l) = fst ct :: chunk_starts n (skipn n (ct :: l)).
Proof.
  intros Hn. destruct n as [|m]; [lia|]. rewrite chunk_starts_head. cbn [Nat.pred skipn].
  rewrite starts_aux_skipn. reflexivity.
Qed.

Lemma SSorted_app_inv (a b : list Z) : StronglySorted Z.lt (a ++ b) ->
  StronglySorted Z.lt a /\ StronglySorted Z.lt b /\ forall x y, In x a -> In y b -> x < y.
Proof.
  induction a as [|x0 a IH]; cbn [app]; intros H.
  - split; [constructor|]. split; [exact H|]. intros x y [].
  - inversion H as [|? ? Hs Hall]; subst. destruct (IH Hs) as [Ha [Hb Hab]]. rewrite Forall_forall in Hall.
    split; [constructor; [exact Ha|]|split; [exact Hb|]].
    + apply Forall_forall. intros y Hy. apply Hall. apply in_or_app. left. exact Hy.
    + intros x y [<-|Hx] Hy; [apply Hall; apply in_or_app; right; exact Hy|apply Hab; assumption].
Qed.

Lemma filter_all {A} (f : A -> bool) l : (forall x, In x l -> f x = true) -> filter f l = l.
Proof.
  induction l as [|x l IH]; intros H; [reflexivity|]. cbn [filter]. rewrite (H x (or_introl eq_refl)).
  f_equal. apply IH. intros y Hy. apply H. right. exact Hy.
Qed.
Lemma filter_none {A} (f : A -> bool) l : (forall x, In x l -> f x = false) -> filter f l = [].
Proof.
  induction l as [|x l IH]; intros H; [reflexivity|]. cbn [filter]. rewrite (H x (or_introl eq_refl)).
  apply IH. intros y Hy. apply H. right. exact Hy.
Qed.

(* elements below every boundary are dropped *)
Lemma bounds_split_drop_below bs (pre l : list (coord * trie)) :
  (forall x b, In x pre -> In b bs -> fst x < b) -> bounds_split bs (pre ++ l) = bounds_split bs l.
Proof.
  induction bs as [|b bs IH]; intros H; [reflexivity|]. cbn [bounds_split].
  rewrite filter_app. rewrite (filter_none _ pre).
  2:{ intros x Hx. cbv beta. unfold in_window. specialize (H x b Hx (or_introl eq_refl)). destruct (Z.leb_spec b (fst x)); [lia|reflexivity]. }
  cbn [app]. rewrite IH by (intros x b' Hx Hb'; apply H; [exact Hx|right; exact Hb']). reflexivity.
Qed.

(* for the LEADER, cutting at its own chunk starts is splitEqual(n): consecutive chunks of n elements *)
Lemma leader_equal_split n : (0 < n)%nat -> forall fuel l, (List.length l < fuel)%nat -> StronglySorted Z.lt (keys l) ->
  bounds_split (chunk_starts n l) l = equal_split fuel n l.
Proof.
  intros Hn. induction fuel as [|f IH]; intros l Hlen Hs; [lia|].
  destruct l as [|ct l']; [reflexivity|]. set (l := ct :: l') in *.
  cbn [equal_split]. fold l. unfold l at 1. rewrite (chunk_starts_step n ct l' Hn). fold l.
  set (bs' := chunk_starts n (skipn n l)).
  assert (Hsplit : l = firstn n l ++ skipn n l) by (symmetry; apply firstn_skipn).
  assert (Hs2 : StronglySorted Z.lt (keys (firstn n l) ++ keys (skipn n l))).
  { unfold keys. rewrite <- map_app, firstn_skipn. exact Hs. }
  destruct (SSorted_app_inv _ _ Hs2) as [Hsa [Hsb Hab]].
  assert (Hhd : forall x, In x l -> fst ct <= fst x).
  { intros x [<-|Hx]; [lia|]. unfold l in Hs. cbn [keys map] in Hs. inversion Hs as [|? ? _ Hall]; subst.
    rewrite Forall_forall in Hall. specialize (Hall (fst x) (in_map fst _ _ Hx)). lia. }
  assert (Hsel : filter (fun x : coord * trie => in_window (fst ct) bs' (fst x)) l = firstn n l).
  { rewrite Hsplit at 1. rewrite filter_app. rewrite filter_all, filter_none; [apply app_nil_r| |].
    - intros x Hx. cbv beta. unfold in_window, bs'. destruct (skipn n l) as [|y ys] eqn:Esk; [destruct Hx|].
      unfold chunk_starts. cbn [starts_aux].
      assert (fst y <= fst x).
      { destruct Hx as [<-|Hx]; [lia|]. cbn [keys map] in Hsb. inversion Hsb as [|? ? _ Hall]; subst.
        rewrite Forall_forall in Hall. specialize (Hall (fst x) (in_map fst _ _ Hx)). lia. }
      destruct (Z.ltb_spec (fst x) (fst y)); [lia|]. apply andb_false_r.
    - intros x Hx. cbv beta. unfold in_window.
      assert (Hx' : In x l) by (rewrite Hsplit; apply in_or_app; left; exact Hx).
      specialize (Hhd x Hx'). destruct (Z.leb_spec (fst ct) (fst x)); [|lia]. cbn [andb].
      destruct bs' as [|b' bs''] eqn:Eb; [reflexivity|].
      assert (Hb' : In b' (keys (skipn n l))).
      { apply (starts_aux_in n 0). fold (chunk_starts n (skipn n l)). fold bs'. rewrite Eb. left. reflexivity. }
      specialize (Hab (fst x) b' (in_map fst _ _ Hx) Hb'). destruct (Z.ltb_spec (fst x) b'); [reflexivity|lia]. }
  cbn [bounds_split]. rewrite Hsel.
  assert (Hne : firstn n l <> []) by (destruct n; [lia|discriminate]).
  assert (Hrest : bounds_split bs' l = equal_split f n (skipn n l)).
  { rewrite Hsplit at 1. rewrite bounds_split_drop_below.
    - apply IH; [|exact Hsb]. rewrite skipn_length. unfold l in *. cbn [List.length] in *. lia.
    - intros x b Hx Hb. apply Hab; [apply in_map; exact Hx|]. apply (starts_aux_in n 0). exact Hb. }
  rewrite Hrest. destruct (firstn n l); [contradiction|reflexivity].
Qed.

(* ... which is Rt.chunks, the function the interpreter uses for splitEqual *)
Lemma equal_split_chunks n : (0 < n)%nat -> forall fuel l,
  equal_split fuel n l = map (fun ch => (head_key ch, Node ch)) (Rt.chunks fuel n l).
Proof.
  intros Hn. induction fuel as [|f IH]; intros l; [reflexivity|].
  destruct l as [|ct l']; [reflexivity|]. cbn [equal_split Rt.chunks map]. rewrite IH.
  destruct n as [|m]; [lia|]. reflexivity.
Qed.

Theorem leader_bounds_split_chunks : forall n l, (0 < n)%nat -> StronglySorted Z.lt (keys l) ->
  bounds_split (chunk_starts n l) l = map (fun ch => (head_key ch, Node ch)) (Rt.chunks (S (List.length l)) n l).
Proof.
  intros n l Hn Hs. rewrite (leader_equal_split n Hn (S (List.length l)) l (Nat.lt_succ_diag_r _) Hs).
  apply equal_split_chunks. exact Hn.
Qed.

(* ---------- 3. the state transformation on a product term ---------- *)
Lemma bounds_split_nil bs : bounds_split bs [] = [].
Proof. induction bs as [|b bs IH]; [reflexivity|exact IH]. Qed.

Lemma den_occ_tstate r r1 r0 bs t p :
  StronglySorted Z.lt bs -> NoDup (rem t) -> (holds r t = true -> participates r t = true) ->
  den (rem (occ_tstate r r1 r0 bs t)) (cur (occ_tstate r r1 r0 bs t)) p =
  if participates r t then (if occ_consistent bs r1 r0 p then den (rem t) (cur t) (collapse r r0 p) else 0)
  else den (rem t) (cur t) (collapse r r0 p).
Proof.
  intros Hs Hnd Hhead. unfold occ_tstate, participates in *. destruct t as [rs cu]; cbn [rem cur] in *.
  destruct rs as [|x rest].
  - unfold collapse. symmetry. apply den_upd_notin. intros [].
  - destruct (String.eqb_spec x r) as [->|Hne]; cbn [rem cur].
    + apply NoDup_cons_iff in Hnd as [Hnotin _].
      rewrite (den_bounds_split bs (children cu) rest p r r1 r0 Hs Hnotin).
      destruct cu as [v|l]; [|reflexivity]. cbn [children den]. destruct (occ_consistent bs r1 r0 p); reflexivity.
    + unfold collapse. symmetry. apply den_upd_notin. apply index_of_none.
      unfold holds in Hhead. cbn [rem] in Hhead. destruct (index_of r (x :: rest)); [|reflexivity].
      specialize (Hhead eq_refl). discriminate.
Qed.


Lemma term_den_split_at r r1 r0 bs tm p : StronglySorted Z.lt bs -> term_ok r tm ->
  term_den (split_term_at r r1 r0 bs tm) p =
  if existsb (participates r) tm then (if occ_consistent bs r1 r0 p then term_den tm (collapse r r0 p) else 0)
  else term_den tm (collapse r r0 p).
Proof.
  intros Hs. unfold split_term_at. induction tm as [|t tm IH]; intros Hok; [reflexivity|].
  cbn [map term_den fold_right existsb]. fold (term_den (map (occ_tstate r r1 r0 bs) tm) p). fold (term_den tm (collapse r r0 p)).
  rewrite IH by (intros t' H'; apply Hok; right; exact H').
  destruct (Hok t (or_introl eq_refl)) as [Hnd Hhead].
  rewrite (den_occ_tstate r r1 r0 bs t p Hs Hnd Hhead).
  destruct (participates r t), (existsb (participates r) tm), (occ_consistent bs r1 r0 p); cbn [orb]; lia.
Qed.

Lemma body_den_split_at r r1 r0 bs tms p : StronglySorted Z.lt bs ->
  (forall tm, In tm tms -> term_ok r tm) -> (forall tm, In tm tms -> existsb (participates r) tm = true) ->
  body_den (map (split_term_at r r1 r0 bs) tms) p = if occ_consistent bs r1 r0 p then body_den tms (collapse r r0 p) else 0.
Proof.
  intros Hs Hok Hp. induction tms as [|tm tms IH]; [cbn; destruct (occ_consistent bs r1 r0 p); reflexivity|].
  cbn [map body_den fold_right]. fold (body_den (map (split_term_at r r1 r0 bs) tms) p). fold (body_den tms (collapse r r0 p)).
  rewrite IH; [|intros tm' H1; apply Hok; right; exact H1|intros tm' H1; apply Hp; right; exact H1].
  rewrite (term_den_split_at r r1 r0 bs tm p Hs (Hok tm (or_introl eq_refl))).
  rewrite (Hp tm (or_introl eq_refl)). destruct (occ_consistent bs r1 r0 p); lia.
Qed.

(* any increasing boundaries (the followers' view: splitNonUniform at given boundaries), any sum of products in which
   every tensor holding r has it as its next rank, ANY loop order over r1, r0 and the other ranks *)
Theorem bounds_nest_sound : forall r r1 r0 bs tms L',
  StronglySorted Z.lt bs ->
  (forall tm, In tm tms -> term_ok r tm) -> (forall tm, In tm tms -> existsb (participates r) tm = true) ->
  wf L' (map (split_term_at r r1 r0 bs) tms) ->
  forall p, sum_at p (run L' (map (split_term_at r r1 r0 bs) tms)) =
            if occ_consistent bs r1 r0 p then body_den tms (collapse r r0 p) else 0.
Proof.
  intros r r1 r0 bs tms L' Hs Hok Hp Hwf p. rewrite (nest_sound L' _ Hwf p). apply body_den_split_at; assumption.
Qed.


Lemma leader_bounds_sorted r n k tm : leader_ok r k tm -> StronglySorted Z.lt (leader_bounds n k tm).
Proof.
  intros [ld [Hk [_ Hs]]]. unfold leader_bounds. rewrite (nth_error_nth tm k dummy_t Hk). apply chunk_starts_sorted. exact Hs.
Qed.

Lemma leader_participates r k tm : leader_ok r k tm -> existsb (participates r) tm = true.
Proof.
  intros [ld [Hk [Hp _]]]. apply existsb_exists. exists ld. split; [eapply nth_error_In; exact Hk|exact Hp].
Qed.

Lemma term_den_occ_split r r1 r0 n k tm p : term_ok r tm -> leader_ok r k tm ->
  term_den (occ_split r r1 r0 n k tm) p =
  if occ_consistent (leader_bounds n k tm) r1 r0 p then term_den tm (collapse r r0 p) else 0.
Proof.
  intros Hok Hld. unfold occ_split.
  rewrite (term_den_split_at r r1 r0 _ tm p (leader_bounds_sorted r n k tm Hld) Hok).
  rewrite (leader_participates r k tm Hld). reflexivity.
Qed.

(* occupancy partitioning of one product term with leader position k and chunk size n *)
Theorem occ_nest_sound : forall r r1 r0 n k tm L',
  term_ok r tm -> leader_ok r k tm ->
  wf L' [occ_split r r1 r0 n k tm] ->
  forall p, sum_at p (run L' [occ_split r r1 r0 n k tm]) =
            if occ_consistent (leader_bounds n k tm) r1 r0 p then term_den tm (collapse r r0 p) else 0.
Proof.
  intros r r1 r0 n k tm L' Hok Hld Hwf p. rewrite (nest_sound L' _ Hwf p).
  cbn [body_den fold_right]. rewrite Z.add_0_r. apply term_den_occ_split; assumption.
Qed.

(* the complement: an original point with a non-zero value has a partition (its r-coordinate is a coordinate of the
   leader's fiber, which is never below the first boundary) *)
Theorem occ_point_has_partition : forall r n k tm q, leader_ok r k tm ->
  term_den tm q <> 0 -> part_of (leader_bounds n k tm) (q r) <> None.
Proof.
  intros r n k tm q [ld [Hk [Hp Hs]]] Hnz. unfold leader_bounds. rewrite (nth_error_nth tm k dummy_t Hk).
  apply chunk_starts_covers; [exact Hs|].
  assert (Hd : den (rem ld) (cur ld) q <> 0).
  { intros Hz. apply Hnz. apply term_den_zero_if. exists ld. split; [eapply nth_error_In; exact Hk|exact Hz]. }
  unfold participates in Hp. destruct ld as [rs cu]; cbn [rem cur] in *. destruct rs as [|x rest]; [discriminate|].
  apply String.eqb_eq in Hp. subst x. destruct cu as [v|l]; [exfalso; apply Hd; reflexivity|].
  cbn [den] in Hd. cbn [children]. destruct (lookup (q r) l) as [t'|] eqn:El; [|exfalso; apply Hd; reflexivity].
  eapply lookup_in_keys. exact El.
Qed.

(* at most one upper coordinate is consistent with a lower coordinate *)
Theorem occ_consistent_unique : forall bs r1 r0 (p : point) u, r1 <> r0 ->
  occ_consistent bs r1 r0 (upd p r1 u) = true -> part_of bs (p r0) = Some u.
Proof.
  intros bs r1 r0 p u Hne H. unfold occ_consistent, upd in H. rewrite String.eqb_refl in H.
  destruct (String.eqb_spec r0 r1) as [E|_]; [congruence|].
  destruct (part_of bs (p r0)) as [b|]; [|discriminate]. apply Z.eqb_eq in H. subst b. reflexivity.
Qed.

Lemma den_ext : forall rs t p q, (forall x, In x rs -> p x = q x) -> den rs t p = den rs t q.
Proof.
  induction rs as [|r rs IH]; intros t p q H; destruct t as [v|l]; cbn [den]; try reflexivity.
  rewrite (H r (or_introl eq_refl)). destruct (lookup (q r) l); [|reflexivity].
  apply IH. intros x Hx. apply H. right. exact Hx.
Qed.

Lemma term_den_ext tm p q : (forall t x, In t tm -> In x (rem t) -> p x = q x) -> term_den tm p = term_den tm q.
Proof.
  induction tm as [|t tm IH]; intros H; [reflexivity|].
  cbn [term_den fold_right]. fold (term_den tm p). fold (term_den tm q).
  rewrite IH by (intros t' x Ht' Hx; apply (H t' x); [right; exact Ht'|exact Hx]).
  rewrite (den_ext (rem t) (cur t) p q) by (intros x Hx; apply (H t x); [left; reflexivity|exact Hx]). reflexivity.
Qed.

(* "no pair separated, none met twice": every original point q with a non-zero value is represented by EXACTLY ONE point
   of the partitioned space - lower coordinate q r, upper coordinate the partition u of q r; the nest contributes the
   value of q there and nothing at any other upper coordinate *)
Theorem occ_represented_once : forall r r1 r0 n k tm L',
  term_ok r tm -> leader_ok r k tm -> r1 <> r0 ->
  (forall t, In t tm -> ~ In r1 (rem t) /\ ~ In r0 (rem t)) ->
  wf L' [occ_split r r1 r0 n k tm] ->
  forall q, term_den tm q <> 0 ->
  exists u, part_of (leader_bounds n k tm) (q r) = Some u /\
    forall u', sum_at (upd (upd q r0 (q r)) r1 u') (run L' [occ_split r r1 r0 n k tm]) =
               if Z.eqb u' u then term_den tm q else 0.
Proof.
  intros r r1 r0 n k tm L' Hok Hld Hne Hfresh Hwf q Hnz.
  destruct (part_of (leader_bounds n k tm) (q r)) as [u|] eqn:Eu.
  2:{ exfalso. apply (occ_point_has_partition r n k tm q Hld Hnz). exact Eu. }
  exists u. split; [reflexivity|]. intros u'.
  rewrite (occ_nest_sound r r1 r0 n k tm L' Hok Hld Hwf).
  set (p' := upd (upd q r0 (q r)) r1 u').
  assert (H0 : p' r0 = q r).
  { unfold p', upd. destruct (String.eqb_spec r0 r1) as [E|_]; [congruence|]. rewrite String.eqb_refl. reflexivity. }
  assert (H1 : p' r1 = u') by (unfold p', upd; rewrite String.eqb_refl; reflexivity).
  unfold occ_consistent. rewrite H0, Eu, H1. rewrite (Z.eqb_sym u u').
  destruct (u' =? u); [|reflexivity].
  apply term_den_ext. intros t x Ht Hx. destruct (Hfresh t Ht) as [Hn1 Hn0].
  unfold collapse. unfold upd at 1. destruct (String.eqb_spec x r) as [->|Hxr]; [exact H0|].
  unfold p', upd. destruct (String.eqb_spec x r1) as [->|_]; [contradiction|].
  destruct (String.eqb_spec x r0) as [->|_]; [contradiction|reflexivity].
Qed.

(* decision procedures for the hypotheses (used by the examples) *)
Lemma sortedb_sound l : sortedb l = true -> StronglySorted Z.lt l.
Proof.
  induction l as [|a l IH]; intros H; [constructor|]. cbn [sortedb] in H. apply andb_true_iff in H as [H1 H2].
  specialize (IH H2). constructor; [exact IH|].
  destruct l as [|b l]; [constructor|]. apply Z.ltb_lt in H1. inversion IH as [|? ? _ Hall]; subst.
  constructor; [exact H1|]. eapply Forall_impl; [|exact Hall]. cbn. intros; lia.
Qed.

Lemma nodupb_sound l : nodupb l = true -> NoDup l.
Proof.
  induction l as [|x l IH]; intros H; [constructor|]. cbn [nodupb] in H. apply andb_true_iff in H as [H1 H2].
  constructor; [|apply IH; exact H2]. intros Hin. apply negb_true_iff in H1.
  assert (existsb (String.eqb x) l = true) by (apply existsb_exists; exists x; split; [exact Hin|apply String.eqb_refl]). congruence.
Qed.

Lemma rmem_in r rs : In r rs -> rmem r rs = true.
Proof. intros H. apply existsb_exists. exists r. split; [exact H|apply String.eqb_refl]. Qed.

Lemma holds_in r t : holds r t = true -> In r (rem t).
Proof.
  unfold holds. destruct (index_of r (rem t)) as [d|] eqn:E; [|discriminate]. intros _.
  eapply nth_error_In. apply index_of_nth. exact E.
Qed.

Lemma rems_okb_sound r rs : rems_okb r rs = true -> NoDup rs /\ (In r rs -> heads r rs = true).
Proof.
  intros H. unfold rems_okb in H. apply andb_true_iff in H as [H1 H2]. split; [apply nodupb_sound; exact H1|].
  intros Hin. rewrite (rmem_in r rs Hin) in H2. exact H2.
Qed.

Lemma term_okb_sound r tm : term_okb r tm = true -> term_ok r tm.
Proof.
  intros H t Ht. unfold term_okb in H. rewrite forallb_forall in H. specialize (H t Ht).
  destruct (rems_okb_sound r (rem t) H) as [H1 H2]. split; [exact H1|].
  intros Hh. rewrite participates_heads. apply H2. apply holds_in. exact Hh.
Qed.

Lemma leader_okb_sound r k tm : leader_okb r k tm = true -> leader_ok r k tm.
Proof.
  unfold leader_okb, leader_ok. destruct (nth_error tm k) as [ld|]; [|discriminate]. intros H.
  apply andb_true_iff in H as [H1 H2]. exists ld. split; [reflexivity|]. split; [exact H1|apply sortedb_sound; exact H2].
Qed.

Section Examples.
Local Open Scope string_scope.
(* non-vacuity: Z[m] = A[k,m] * B[k] * C[n], K occupancy-partitioned with leader A, chunks of 2; the leader's K fiber is
   {1,3,4,7,9} (boundaries 1,4,9), the follower B holds {0,3,5,9,12}: 0 lies below the first boundary and is dropped, 5
   lies in a partition where B is alone, 12 beyond the leader's last element; loop order K1, N, K0, M (N between the levels) *)
Definition ex_A : tstate := {| rem := ["K"; "M"];
  cur := Node [(1, Node [(0, Leaf 2)]); (3, Node [(1, Leaf 5)]); (4, Node [(0, Leaf 1); (1, Leaf 3)]); (7, Node [(1, Leaf 4)]); (9, Node [(0, Leaf 6)])] |}.
Definition ex_B : tstate := {| rem := ["K"]; cur := Node [(0, Leaf 7); (3, Leaf 11); (5, Leaf 13); (9, Leaf 2); (12, Leaf 3)] |}.
Definition ex_C : tstate := {| rem := ["N"]; cur := Node [(0, Leaf 1); (2, Leaf 10)] |}.
Definition ex_tm : term := [ex_A; ex_B; ex_C].
Definition ex_point (k1 k0 m n : Z) : point :=
  fun x => if String.eqb x "K1" then k1 else if String.eqb x "K0" then k0 else if String.eqb x "M" then m
           else if String.eqb x "N" then n else 0.

Example bounds_split_example :
  leader_bounds 2 0 ex_tm = [1; 4; 9] /\
  cur (nth 1 (occ_split "K" "K1" "K0" 2 0 ex_tm) dummy_t) =
    Node [(1, Node [(3, Leaf 11)]); (4, Node [(5, Leaf 13)]); (9, Node [(9, Leaf 2); (12, Leaf 3)])] /\
  bounds_split (chunk_starts 2 (children (cur ex_A))) (children (cur ex_A)) = equal_split 6 2 (children (cur ex_A)) /\
  map fst (equal_split 6 2 (children (cur ex_A))) = [1; 4; 9].
Proof. repeat split; vm_compute; reflexivity. Qed.

Example occ_nest_example :
  let L' := ["K1"; "N"; "K0"; "M"] in
  let tm' := occ_split "K" "K1" "K0" 2 0 ex_tm in
  term_ok "K" ex_tm /\ leader_ok "K" 0 ex_tm /\ wf L' [tm'] /\
  (forall t, In t ex_tm -> ~ In "K1" (rem t) /\ ~ In "K0" (rem t)) /\
  (* A[3,1] * B[3] * C[2] = 5 * 11 * 10 at the consistent point K1=1, K0=3 *)
  sum_at (ex_point 1 3 1 2) (run L' [tm']) = 550 /\ term_den ex_tm (collapse "K" "K0" (ex_point 1 3 1 2)) = 550 /\
  (* the same lower coordinate under another upper coordinate: nothing *)
  sum_at (ex_point 4 3 1 2) (run L' [tm']) = 0 /\
  (* A[9,0] * B[9] * C[0] = 6 * 2 * 1 *)
  sum_at (ex_point 9 9 0 0) (run L' [tm']) = 12 /\
  map fst (run L' [tm']) =
    [[("K1", 1); ("N", 0); ("K0", 3); ("M", 1)]; [("K1", 1); ("N", 2); ("K0", 3); ("M", 1)];
     [("K1", 9); ("N", 0); ("K0", 9); ("M", 0)]; [("K1", 9); ("N", 2); ("K0", 9); ("M", 0)]].
Proof.
  cbv zeta. split; [apply term_okb_sound; vm_compute; reflexivity|].
  split; [apply leader_okb_sound; vm_compute; reflexivity|].
  split; [apply swf_wf; vm_compute; reflexivity|].
  split.
  { intros t [<-|[<-|[<-|[]]]]; split; cbn; intros H; repeat (destruct H as [H|H]; [discriminate|]); exact H. }
  repeat split; vm_compute; reflexivity.
Qed.
End Examples.

(* ---------- 4. the split at a dynamic position: outer levels, then the split, then the inner levels ---------- *)
Lemma run_k_sum : forall Lo k tms p,
  sum_at p (run_k Lo k tms) = if along Lo p tms then sum_at p (k (reach Lo p tms)) else 0.
Proof.
  induction Lo as [|r Lo IH]; intros k tms p; cbn [run_k along reach]; [reflexivity|].
  rewrite (sum_at_flat_map p r (fun c => run_k Lo k (map (step_term r c) tms))) by apply NoDup_nodup.
  destruct (in_dec Z.eq_dec (p r) (visited r tms)); cbn [andb]; [apply IH|reflexivity].
Qed.

(* run_k generalises Nest.run *)
Lemma run_k_run L tms : run_k L (fun s => [([], fold_right (fun tm acc => term_leaf tm + acc) 0 s)]) tms = run L tms.
Proof.
  revert tms; induction L as [|r L IH]; intros tms; cbn [run_k run]; [reflexivity|].
  apply flat_map_ext. intros c. rewrite IH. reflexivity.
Qed.

Lemma wf_outer_reach Lo Q tms p : wf_outer Lo Q tms -> Q (reach Lo p tms).
Proof.
  revert tms; induction Lo as [|r Lo IH]; intros tms H; cbn [reach]; [exact H|].
  destruct H as [_ H]. apply IH. apply H.
Qed.

Lemma wf_outer_impl Lo (Q Q' : list term -> Prop) tms : (forall s, Q s -> Q' s) -> wf_outer Lo Q tms -> wf_outer Lo Q' tms.
Proof.
  intros HQ. revert tms; induction Lo as [|r Lo IH]; intros tms H; cbn [wf_outer] in *; [apply HQ; exact H|].
  destruct H as [H1 H2]. split; [exact H1|]. intros c. apply IH. apply H2.
Qed.

Lemma wf_outer_wf L tms : wf L tms <-> wf_outer L (fun s => forall tm, In tm s -> forall t, In t tm -> rem t = []) tms.
Proof.
  revert tms; induction L as [|r L IH]; intros tms; cbn [wf wf_outer]; [tauto|].
  split; intros [H1 H2]; (split; [exact H1|]); intros c; apply IH; apply H2.
Qed.

Lemma body_den_reach Lo p q tms : (forall x, In x Lo -> q x = p x) -> body_den (reach Lo p tms) q = body_den tms q.
Proof.
  revert tms; induction Lo as [|r Lo IH]; intros tms H; cbn [reach]; [reflexivity|].
  rewrite IH by (intros x Hx; apply H; right; exact Hx).
  apply body_den_step. apply H. left. reflexivity.
Qed.

Lemma not_along_zero Lo Q p q tms : wf_outer Lo Q tms -> (forall x, In x Lo -> q x = p x) ->
  along Lo p tms = false -> body_den tms q = 0.
Proof.
  revert tms; induction Lo as [|r Lo IH]; intros tms Hwf H Ha; cbn [along] in Ha; [discriminate|].
  destruct Hwf as [Hpart Hwf]. assert (Hr : q r = p r) by (apply H; left; reflexivity).
  destruct (in_dec Z.eq_dec (p r) (visited r tms)) as [Hin|Hnin]; cbn [andb] in Ha.
  - rewrite <- (body_den_step r (p r) tms q Hr). apply (IH _ (Hwf (p r))); [|exact Ha].
    intros x Hx. apply H. right. exact Hx.
  - apply (body_den_all_dead r (p r)); [exact Hr|].
    destruct (existsb (term_alive r (p r)) tms) eqn:E; [|reflexivity].
    exfalso. apply Hnin. apply visited_spec; assumption.
Qed.

(* generic: if the continuation is sound at every reachable state, the nest around it is *)
Theorem run_k_sound : forall Lo k (Q : list term -> Prop) (G : list term -> point -> Z) tms,
  wf_outer Lo Q tms -> (forall s p, Q s -> sum_at p (k s) = G s p) ->
  forall p, sum_at p (run_k Lo k tms) = if along Lo p tms then G (reach Lo p tms) p else 0.
Proof.
  intros Lo k Q G tms Hwf Hk p. rewrite run_k_sum. destruct (along Lo p tms); [|reflexivity].
  apply Hk. apply wf_outer_reach. exact Hwf.
Qed.

Lemma reach_single Lo p tm : reach Lo p [tm] = [reach_term Lo p tm].
Proof. revert tm; induction Lo as [|r Lo IH]; intros tm; cbn [reach reach_term map]; [reflexivity|apply IH]. Qed.

Lemma reach_term_ext Lo p q tm : (forall x, In x Lo -> p x = q x) -> reach_term Lo p tm = reach_term Lo q tm.
Proof.
  revert tm; induction Lo as [|r Lo IH]; intros tm H; cbn [reach_term]; [reflexivity|].
  rewrite (H r (or_introl eq_refl)). apply IH. intros x Hx. apply H. right. exact Hx.
Qed.


Lemma collapse_outer r r0 p Lo : ~ In r Lo -> forall x, In x Lo -> collapse r r0 p x = p x.
Proof.
  intros Hn x Hx. unfold collapse, upd. destruct (String.eqb_spec x r) as [->|_]; [contradiction|reflexivity].
Qed.

(* occupancy partitioning of rank r AFTER the outer levels Lo: the boundaries are those of the leader's fiber in the state
   reached at the outer coordinates of p *)
Theorem occ_dyn_sound : forall Lo r r1 r0 n k Li tm,
  ~ In r Lo -> wf_outer Lo (occ_state_ok r r1 r0 n k Li) [tm] ->
  forall p, sum_at p (run_then_split Lo (occ_split r r1 r0 n k) Li [tm]) =
            if occ_consistent (leader_bounds n k (reach_term Lo p tm)) r1 r0 p then term_den tm (collapse r r0 p) else 0.
Proof.
  intros Lo r r1 r0 n k Li tm Hr Hwf p. unfold run_then_split. rewrite run_k_sum.
  pose proof (collapse_outer r r0 p Lo Hr) as Hq.
  destruct (along Lo p [tm]) eqn:Ea.
  - pose proof (wf_outer_reach Lo _ [tm] p Hwf) as [Hok Hwfi]. rewrite reach_single in *. cbn [map] in *.
    destruct (Hok _ (or_introl eq_refl)) as [Hto Hld].
    rewrite (occ_nest_sound r r1 r0 n k _ Li Hto Hld Hwfi p).
    destruct (occ_consistent (leader_bounds n k (reach_term Lo p tm)) r1 r0 p); [|reflexivity].
    pose proof (body_den_reach Lo p (collapse r r0 p) [tm] Hq) as E. rewrite reach_single in E.
    cbn [body_den fold_right] in E. lia.
  - pose proof (not_along_zero Lo _ p (collapse r r0 p) [tm] Hwf Hq Ea) as E. cbn [body_den fold_right] in E.
    destruct (occ_consistent (leader_bounds n k (reach_term Lo p tm)) r1 r0 p); lia.
Qed.

Lemma term_den_lift r r1 r0 tm q u' : r1 <> r0 -> (forall t, In t tm -> ~ In r1 (rem t) /\ ~ In r0 (rem t)) ->
  term_den tm (collapse r r0 (upd (upd q r0 (q r)) r1 u')) = term_den tm q.
Proof.
  intros Hne Hfresh. apply term_den_ext. intros t x Ht Hx. destruct (Hfresh t Ht) as [Hn1 Hn0].
  unfold collapse. unfold upd at 1. destruct (String.eqb_spec x r) as [->|Hxr].
  - unfold upd. destruct (String.eqb_spec r0 r1) as [E|_]; [congruence|]. rewrite String.eqb_refl. reflexivity.
  - unfold upd. destruct (String.eqb_spec x r1) as [->|_]; [contradiction|].
    destruct (String.eqb_spec x r0) as [->|_]; [contradiction|reflexivity].
Qed.

(* every original point with a non-zero value is represented exactly once, also at a dynamic position *)
Theorem occ_dyn_represented_once : forall Lo r r1 r0 n k Li tm,
  ~ In r Lo -> ~ In r1 Lo -> ~ In r0 Lo -> r1 <> r0 ->
  (forall t, In t tm -> ~ In r1 (rem t) /\ ~ In r0 (rem t)) ->
  wf_outer Lo (occ_state_ok r r1 r0 n k Li) [tm] ->
  forall q, term_den tm q <> 0 ->
  exists u, part_of (leader_bounds n k (reach_term Lo q tm)) (q r) = Some u /\
    forall u', sum_at (upd (upd q r0 (q r)) r1 u') (run_then_split Lo (occ_split r r1 r0 n k) Li [tm]) =
               if Z.eqb u' u then term_den tm q else 0.
Proof.
  intros Lo r r1 r0 n k Li tm Hr Hr1 Hr0 Hne Hfresh Hwf q Hnz.
  pose proof (wf_outer_reach Lo _ [tm] q Hwf) as [Hok _]. rewrite reach_single in Hok.
  destruct (Hok _ (or_introl eq_refl)) as [_ Hld].
  assert (Hnz' : term_den (reach_term Lo q tm) q <> 0).
  { pose proof (body_den_reach Lo q q [tm] (fun x _ => eq_refl)) as E. rewrite reach_single in E.
    cbn [body_den fold_right] in E. lia. }
  destruct (part_of (leader_bounds n k (reach_term Lo q tm)) (q r)) as [u|] eqn:Eu.
  2:{ exfalso. apply (occ_point_has_partition r n k _ q Hld Hnz'). exact Eu. }
  exists u. split; [reflexivity|]. intros u'.
  rewrite (occ_dyn_sound Lo r r1 r0 n k Li tm Hr Hwf).
  set (p' := upd (upd q r0 (q r)) r1 u').
  assert (Hagree : forall x, In x Lo -> p' x = q x).
  { intros x Hx. unfold p', upd. destruct (String.eqb_spec x r1) as [->|_]; [contradiction|].
    destruct (String.eqb_spec x r0) as [->|_]; [contradiction|reflexivity]. }
  rewrite (reach_term_ext Lo p' q tm Hagree).
  assert (H0 : p' r0 = q r).
  { unfold p', upd. destruct (String.eqb_spec r0 r1) as [E|_]; [congruence|]. rewrite String.eqb_refl. reflexivity. }
  assert (H1 : p' r1 = u') by (unfold p', upd; rewrite String.eqb_refl; reflexivity).
  unfold occ_consistent. rewrite H0, Eu, H1. rewrite (Z.eqb_sym u u').
  destruct (u' =? u); [|reflexivity]. apply term_den_lift; assumption.
Qed.

(* ---------- the static validator of a dynamically placed split ---------- *)
Lemma tsortedb_node l : tsortedb (Node l) = sortedb (keys l) && forallb (fun ct => tsortedb (snd ct)) l.
Proof. reflexivity. Qed.

Lemma tsortedb_lookup c l t : tsortedb (Node l) = true -> lookup c l = Some t -> tsortedb t = true.
Proof.
  rewrite tsortedb_node. intros H. apply andb_true_iff in H as [_ H].
  induction l as [|[c' t'] l IH]; cbn [lookup]; [discriminate|].
  cbn [forallb snd] in H. apply andb_true_iff in H as [H1 H2].
  destruct (c =? c'); [intros E; injection E as <-; exact H1|apply IH; exact H2].
Qed.

Lemma tsortedb_default rs : tsortedb (default_of rs) = true.
Proof. destruct rs; reflexivity. Qed.

Lemma tsortedb_advance c t : tsortedb (cur t) = true -> tsortedb (cur (advance c t)) = true.
Proof.
  unfold advance. destruct t as [rs cu]; cbn [rem cur]. destruct rs as [|x rs']; [auto|].
  destruct cu as [v|l]; intros H; [apply tsortedb_default|].
  destruct (lookup c l) eqn:E; cbn [cur]; [eapply tsortedb_lookup; eauto|apply tsortedb_default].
Qed.

Lemma tsortedb_kill t : tsortedb (cur t) = true -> tsortedb (cur (kill t)) = true.
Proof.
  unfold kill. destruct t as [rs cu]; cbn [rem cur]. destruct rs as [|x rs']; [auto|]. intros _. apply tsortedb_default.
Qed.

Lemma tsortedb_step_nth r c tm k ld' : (forall ld, nth_error tm k = Some ld -> tsortedb (cur ld) = true) ->
  nth_error (step_term r c tm) k = Some ld' -> tsortedb (cur ld') = true.
Proof.
  intros H. unfold step_term. destruct (term_alive r c tm); rewrite nth_error_map;
    destruct (nth_error tm k) as [ld|]; cbn [option_map]; try discriminate; intros E; injection E as <-;
    specialize (H ld eq_refl); destruct (participates r ld); auto using tsortedb_advance, tsortedb_kill.
Qed.

Lemma tsortedb_children t : tsortedb t = true -> sortedb (keys (children t)) = true.
Proof. destruct t as [v|l]; [reflexivity|]. rewrite tsortedb_node. intros H. apply andb_true_iff in H as [H _]. exact H. Qed.

Lemma rems_occ_split r r1 r0 n k tm : map rem (occ_split r r1 r0 n k tm) = map (occ_rems r r1 r0) (map rem tm).
Proof.
  unfold occ_split, split_term_at. rewrite !map_map. apply map_ext. intros t. unfold occ_tstate, occ_rems.
  destruct t as [rs cu]; cbn [rem cur]. destruct rs as [|x rest]; [reflexivity|]. destruct (String.eqb x r); reflexivity.
Qed.

Lemma occ_dyn_okb_notin Lo r r1 r0 k Li sh : occ_dyn_okb Lo r r1 r0 k Li sh = true -> ~ In r Lo.
Proof.
  revert sh; induction Lo as [|x Lo IH]; intros sh H; [intros []|]. cbn [occ_dyn_okb] in H.
  apply andb_true_iff in H as [H H3]. apply andb_true_iff in H as [H1 _]. apply negb_true_iff, String.eqb_neq in H1.
  intros [E|Hin]; [contradiction|]. exact (IH _ H3 Hin).
Qed.

(* the rank structure is accepted and the leader's trie is hereditarily sorted: the hypotheses of occ_dyn_sound hold for
   ALL tries of that rank structure *)
Theorem occ_dyn_okb_wf : forall Lo r r1 r0 n k Li tm,
  occ_dyn_okb Lo r r1 r0 k Li (map rem tm) = true ->
  (forall ld, nth_error tm k = Some ld -> tsortedb (cur ld) = true) ->
  wf_outer Lo (occ_state_ok r r1 r0 n k Li) [tm].
Proof.
  induction Lo as [|x Lo IH]; intros r r1 r0 n k Li tm H Hs; cbn [occ_dyn_okb wf_outer] in *.
  - apply andb_true_iff in H as [H H3]. apply andb_true_iff in H as [H1 H2]. split.
    + intros tm' [<-|[]]. split.
      * intros t Ht. rewrite forallb_forall in H1. specialize (H1 (rem t) (in_map rem tm t Ht)).
        destruct (rems_okb_sound r (rem t) H1) as [Hnd Hh]. split; [exact Hnd|].
        intros Hho. rewrite participates_heads. apply Hh. apply holds_in. exact Hho.
      * rewrite nth_error_map in H2. destruct (nth_error tm k) as [ld|] eqn:E; cbn [option_map] in H2; [|discriminate].
        exists ld. split; [exact E|]. split; [rewrite participates_heads; exact H2|].
        apply sortedb_sound, tsortedb_children, Hs. reflexivity.
    + cbn [map]. apply swf_wf. cbn [map]. rewrite rems_occ_split. exact H3.
  - apply andb_true_iff in H as [H H3]. apply andb_true_iff in H as [_ H2]. split.
    + intros tm' [<-|[]]. apply existsb_exists in H2 as [rs [Hin Hh]]. apply in_map_iff in Hin as [t [<- Ht]].
      exists t. split; [exact Ht|]. rewrite participates_heads. exact Hh.
    + intros c. cbn [map]. apply IH.
      * rewrite rems_step_term. exact H3.
      * intros ld' E. eapply tsortedb_step_nth; eauto.
Qed.

(* certified validation of one product term with a dynamically placed occupancy split *)
Theorem occ_dyn_okb_sound : forall Lo r r1 r0 n k Li tm,
  occ_dyn_okb Lo r r1 r0 k Li (map rem tm) = true ->
  (forall ld, nth_error tm k = Some ld -> tsortedb (cur ld) = true) ->
  forall p, sum_at p (run_then_split Lo (occ_split r r1 r0 n k) Li [tm]) =
            if occ_consistent (leader_bounds n k (reach_term Lo p tm)) r1 r0 p then term_den tm (collapse r r0 p) else 0.
Proof.
  intros Lo r r1 r0 n k Li tm H Hs. apply occ_dyn_sound.
  - eapply occ_dyn_okb_notin. exact H.
  - apply occ_dyn_okb_wf; assumption.
Qed.

Section ExamplesDyn.
Local Open Scope string_scope.
(* Z[i] = A[i,k] * B[k], K occupancy-partitioned (leader A, chunks of 2) beneath I: the boundaries differ from one
   I-coordinate to the next - {1,4} in A[0,:] = {1,3,4}, {0,5} in A[2,:] = {0,3,5,8}; the follower B = {0,3,4,5,9} *)
Definition exd_A : tstate := {| rem := ["I"; "K"];
  cur := Node [(0, Node [(1, Leaf 2); (3, Leaf 5); (4, Leaf 1)]); (2, Node [(0, Leaf 3); (3, Leaf 4); (5, Leaf 6); (8, Leaf 1)])] |}.
Definition exd_B : tstate := {| rem := ["K"]; cur := Node [(0, Leaf 7); (3, Leaf 11); (4, Leaf 2); (5, Leaf 13); (9, Leaf 2)] |}.
Definition exd_tm : term := [exd_A; exd_B].
Definition exd_point (i k1 k0 : Z) : point :=
  fun x => if String.eqb x "I" then i else if String.eqb x "K1" then k1 else if String.eqb x "K0" then k0 else 0.

Example occ_dyn_example :
  let cs := run_then_split ["I"] (occ_split "K" "K1" "K0" 2 0) ["K1"; "K0"] [exd_tm] in
  occ_dyn_okb ["I"] "K" "K1" "K0" 0 ["K1"; "K0"] (map rem exd_tm) = true /\
  (forall ld, nth_error exd_tm 0 = Some ld -> tsortedb (cur ld) = true) /\
  leader_bounds 2 0 (reach_term ["I"] (exd_point 0 0 0) exd_tm) = [1; 4] /\
  leader_bounds 2 0 (reach_term ["I"] (exd_point 2 0 0) exd_tm) = [0; 5] /\
  cs = [([("I", 0); ("K1", 1); ("K0", 3)], 55); ([("I", 0); ("K1", 4); ("K0", 4)], 2);
        ([("I", 2); ("K1", 0); ("K0", 0)], 21); ([("I", 2); ("K1", 0); ("K0", 3)], 44); ([("I", 2); ("K1", 5); ("K0", 5)], 78)] /\
  (* K0 = 3 meets under K1 = 1 at I = 0 and under K1 = 0 at I = 2 *)
  sum_at (exd_point 0 1 3) cs = 55 /\ sum_at (exd_point 2 0 3) cs = 44 /\ sum_at (exd_point 2 1 3) cs = 0 /\
  term_den exd_tm (collapse "K" "K0" (exd_point 2 0 3)) = 44.
Proof.
  cbv zeta. split; [vm_compute; reflexivity|]. split.
  { intros ld E. injection E as <-. vm_compute. reflexivity. }
  repeat split; vm_compute; reflexivity.
Qed.
End ExamplesDyn.

(* ---------- 5. two-level stacks, by composition ---------- *)
(* at most one upper coordinate contributes at a full point *)
Theorem occ_dyn_upper_unique : forall Lo r r1 r0 n k Li tm,
  ~ In r Lo -> ~ In r1 Lo -> r1 <> r0 -> wf_outer Lo (occ_state_ok r r1 r0 n k Li) [tm] ->
  forall p u, sum_at (upd p r1 u) (run_then_split Lo (occ_split r r1 r0 n k) Li [tm]) <> 0 ->
  part_of (leader_bounds n k (reach_term Lo p tm)) (p r0) = Some u.
Proof.
  intros Lo r r1 r0 n k Li tm Hr Hr1 Hne Hwf p u Hnz.
  rewrite (occ_dyn_sound Lo r r1 r0 n k Li tm Hr Hwf) in Hnz.
  assert (E : reach_term Lo (upd p r1 u) tm = reach_term Lo p tm).
  { apply reach_term_ext. intros x Hx. unfold upd. destruct (String.eqb_spec x r1) as [->|_]; [contradiction|reflexivity]. }
  rewrite E in Hnz.
  destruct (occ_consistent (leader_bounds n k (reach_term Lo p tm)) r1 r0 (upd p r1 u)) eqn:Ec; [|congruence].
  eapply occ_consistent_unique; eassumption.
Qed.

(* occupancy beneath a shape split: r is split by step s into (r2, rx) (statically, NestPart.part_tstate), then - after
   the outer levels Lo, r2 among them - rx is occupancy-split into (r1, r0) *)
Theorem occ_beneath_shape_sound : forall Lo r r2 rx s r1 r0 n k Li (tm : term),
  (forall t, In t tm -> NoDup (rem t)) -> existsb (holds r) tm = true ->
  let tm1 : term := map (part_tstate r r2 rx s) tm in
  ~ In rx Lo -> wf_outer Lo (occ_state_ok rx r1 r0 n k Li) [tm1] ->
  forall p, sum_at p (run_then_split Lo (occ_split rx r1 r0 n k) Li [tm1]) =
            if occ_consistent (leader_bounds n k (reach_term Lo p tm1)) r1 r0 p && consistent r2 rx s (collapse rx r0 p)
            then term_den tm (collapse r rx (collapse rx r0 p)) else 0.
Proof.
  intros Lo r r2 rx s r1 r0 n k Li tm Hnd Hh tm1 Hrx Hwf p.
  rewrite (occ_dyn_sound Lo rx r1 r0 n k Li tm1 Hrx Hwf p).
  destruct (occ_consistent (leader_bounds n k (reach_term Lo p tm1)) r1 r0 p); cbn [andb]; [|reflexivity].
  unfold tm1. rewrite (term_den_part r r2 rx s tm _ Hnd), Hh. reflexivity.
Qed.

(* occupancy beneath occupancy: after Lo1, r is occupancy-split (leader k2, chunks of n2) into (r2, rx); after the further
   levels Lo2 (r2 among them), rx is occupancy-split (leader k1, chunks of n1) into (r1, r0); then Li *)


Theorem occ_beneath_occ_sound : forall Lo1 r r2 rx n2 k2 Lo2 r1 r0 n1 k1 Li tm,
  ~ In r Lo1 -> ~ In rx Lo1 -> ~ In rx Lo2 ->
  wf_outer Lo1 (occ2_state_ok r r2 rx n2 k2 Lo2 r1 r0 n1 k1 Li) [tm] ->
  forall p,
  let tmA := reach_term Lo1 p tm in
  let tmB := occ_split r r2 rx n2 k2 tmA in
  sum_at p (run_split_split Lo1 (occ_split r r2 rx n2 k2) Lo2 (occ_split rx r1 r0 n1 k1) Li [tm]) =
  if occ_consistent (leader_bounds n1 k1 (reach_term Lo2 p tmB)) r1 r0 p
     && occ_consistent (leader_bounds n2 k2 tmA) r2 rx (collapse rx r0 p)
  then term_den tm (collapse r rx (collapse rx r0 p)) else 0.
Proof.
  intros Lo1 r r2 rx n2 k2 Lo2 r1 r0 n1 k1 Li tm Hr Hrx1 Hrx2 Hwf p tmA tmB.
  unfold run_split_split. rewrite run_k_sum.
  set (q := collapse r rx (collapse rx r0 p)).
  assert (Hq : forall x, In x Lo1 -> q x = p x).
  { intros x Hx. unfold q. rewrite (collapse_outer r rx _ Lo1 Hr x Hx). apply (collapse_outer rx r0 p Lo1 Hrx1 x Hx). }
  destruct (along Lo1 p [tm]) eqn:Ea.
  - pose proof (wf_outer_reach Lo1 _ [tm] p Hwf) as [Hok Hwf2]. rewrite reach_single in *. fold tmA in Hok, Hwf2 |- *.
    cbn [map]. fold tmB. destruct (Hok _ (or_introl eq_refl)) as [Hto Hld].
    specialize (Hwf2 _ (or_introl eq_refl)). fold tmB in Hwf2.
    rewrite (occ_dyn_sound Lo2 rx r1 r0 n1 k1 Li tmB Hrx2 Hwf2 p).
    destruct (occ_consistent (leader_bounds n1 k1 (reach_term Lo2 p tmB)) r1 r0 p); cbn [andb]; [|reflexivity].
    unfold tmB. rewrite (term_den_occ_split r r2 rx n2 k2 tmA _ Hto Hld).
    destruct (occ_consistent (leader_bounds n2 k2 tmA) r2 rx (collapse rx r0 p)); [|reflexivity].
    pose proof (body_den_reach Lo1 p q [tm] Hq) as E. rewrite reach_single in E. fold tmA in E.
    cbn [body_den fold_right] in E. fold q. lia.
  - pose proof (not_along_zero Lo1 _ p q [tm] Hwf Hq Ea) as E. cbn [body_den fold_right] in E. fold q.
    destruct (_ && _); lia.
Qed.

(* ---------- static validator for occupancy beneath occupancy ---------- *)

Lemma sortedb_complete l : StronglySorted Z.lt l -> sortedb l = true.
Proof.
  induction 1 as [|a l Hs IH Hall]; [reflexivity|]. cbn [sortedb]. rewrite IH, andb_true_r.
  destruct l as [|b l]; [reflexivity|]. inversion Hall; subst. apply Z.ltb_lt. assumption.
Qed.

Lemma keys_bounds_split_in u bs l : In u (keys (bounds_split bs l)) -> In u bs.
Proof.
  induction bs as [|b bs IH]; cbn [bounds_split]; [intros []|].
  destruct (filter (fun ct : coord * trie => in_window b bs (fst ct)) l).
  - intros H. right. apply IH. exact H.
  - cbn [keys map fst]. intros [<-|H]; [left; reflexivity|right; apply IH; exact H].
Qed.

Lemma keys_bounds_split_sorted bs l : StronglySorted Z.lt bs -> StronglySorted Z.lt (keys (bounds_split bs l)).
Proof.
  induction 1 as [|b bs Hs IH Hall]; cbn [bounds_split]; [constructor|].
  destruct (filter (fun ct : coord * trie => in_window b bs (fst ct)) l); [exact IH|].
  cbn [keys map fst]. constructor; [exact IH|]. apply Forall_forall. intros u Hu.
  rewrite Forall_forall in Hall. apply Hall. eapply keys_bounds_split_in. exact Hu.
Qed.

Lemma keys_filter_sorted (f : coord * trie -> bool) l : StronglySorted Z.lt (keys l) -> StronglySorted Z.lt (keys (filter f l)).
Proof.
  induction l as [|ct l IH]; cbn [keys map filter]; intros H; [constructor|].
  inversion H as [|? ? Hs Hall]; subst. specialize (IH Hs). destruct (f ct); [|exact IH].
  cbn [map]. constructor; [exact IH|]. apply Forall_forall. intros u Hu.
  rewrite Forall_forall in Hall. apply Hall. unfold keys in Hu. apply in_map_iff in Hu as [x [<- Hx]].
  apply filter_In in Hx as [Hx _]. apply in_map. exact Hx.
Qed.

Lemma forallb_filter {A} (g f : A -> bool) l : forallb g l = true -> forallb g (filter f l) = true.
Proof.
  induction l as [|x l IH]; cbn [forallb filter]; [reflexivity|]. intros H. apply andb_true_iff in H as [H1 H2].
  destruct (f x); [cbn [forallb]; rewrite H1; apply IH; exact H2|apply IH; exact H2].
Qed.

Lemma tsortedb_filter (f : coord * trie -> bool) l : tsortedb (Node l) = true -> tsortedb (Node (filter f l)) = true.
Proof.
  rewrite !tsortedb_node. intros H. apply andb_true_iff in H as [H1 H2]. apply andb_true_iff. split.
  - apply sortedb_complete, keys_filter_sorted, sortedb_sound. exact H1.
  - apply forallb_filter. exact H2.
Qed.

Lemma tsortedb_bounds_split bs l : StronglySorted Z.lt bs -> tsortedb (Node l) = true ->
  tsortedb (Node (bounds_split bs l)) = true.
Proof.
  intros Hs Hl. rewrite tsortedb_node. apply andb_true_iff. split.
  - apply sortedb_complete, keys_bounds_split_sorted. exact Hs.
  - clear Hs. induction bs as [|b bs IH]; cbn [bounds_split]; [reflexivity|].
    destruct (filter (fun ct : coord * trie => in_window b bs (fst ct)) l) as [|x sel] eqn:E; [exact IH|].
    cbn [forallb snd]. rewrite IH, andb_true_r. rewrite <- E. apply tsortedb_filter. exact Hl.
Qed.

Lemma tsortedb_occ_tstate r r1 r0 bs t : StronglySorted Z.lt bs -> tsortedb (cur t) = true ->
  tsortedb (cur (occ_tstate r r1 r0 bs t)) = true.
Proof.
  intros Hs Ht. unfold occ_tstate. destruct t as [rs cu]; cbn [rem cur] in *. destruct rs as [|x rest]; [exact Ht|].
  destruct (String.eqb x r); cbn [cur]; [|exact Ht]. apply tsortedb_bounds_split; [exact Hs|].
  destruct cu as [v|l]; [reflexivity|exact Ht].
Qed.

Lemma occ2_dyn_okb_notin Lo1 r r2 rx k2 Lo2 r1 r0 k1 Li sh : occ2_dyn_okb Lo1 r r2 rx k2 Lo2 r1 r0 k1 Li sh = true ->
  ~ In r Lo1 /\ ~ In rx Lo1 /\ ~ In rx Lo2.
Proof.
  revert sh; induction Lo1 as [|x Lo1 IH]; intros sh H; cbn [occ2_dyn_okb] in H.
  - apply andb_true_iff in H as [_ H]. split; [intros []|]. split; [intros []|]. eapply occ_dyn_okb_notin. exact H.
  - apply andb_true_iff in H as [H H4]. apply andb_true_iff in H as [H _]. apply andb_true_iff in H as [H1 H2].
    apply negb_true_iff, String.eqb_neq in H1. apply negb_true_iff, String.eqb_neq in H2.
    destruct (IH _ H4) as [Ha [Hb Hc]]. split; [intros [E|Hin]; [contradiction|exact (Ha Hin)]|].
    split; [intros [E|Hin]; [contradiction|exact (Hb Hin)]|exact Hc].
Qed.

Theorem occ2_dyn_okb_wf : forall Lo1 r r2 rx n2 k2 Lo2 r1 r0 n1 k1 Li tm,
  occ2_dyn_okb Lo1 r r2 rx k2 Lo2 r1 r0 k1 Li (map rem tm) = true ->
  (forall ld, nth_error tm k2 = Some ld -> tsortedb (cur ld) = true) ->
  (forall ld, nth_error tm k1 = Some ld -> tsortedb (cur ld) = true) ->
  wf_outer Lo1 (occ2_state_ok r r2 rx n2 k2 Lo2 r1 r0 n1 k1 Li) [tm].
Proof.
  induction Lo1 as [|x Lo1 IH]; intros r r2 rx n2 k2 Lo2 r1 r0 n1 k1 Li tm H Hs2 Hs1; cbn [occ2_dyn_okb wf_outer] in *.
  - apply andb_true_iff in H as [H H3]. apply andb_true_iff in H as [H1 H2].
    assert (Hto : term_ok r tm).
    { intros t Ht. rewrite forallb_forall in H1. specialize (H1 (rem t) (in_map rem tm t Ht)).
      destruct (rems_okb_sound r (rem t) H1) as [Hnd Hh]. split; [exact Hnd|].
      intros Hho. rewrite participates_heads. apply Hh. apply holds_in. exact Hho. }
    assert (Hld : leader_ok r k2 tm).
    { rewrite nth_error_map in H2. destruct (nth_error tm k2) as [ld|] eqn:E; cbn [option_map] in H2; [|discriminate].
      exists ld. split; [exact E|]. split; [rewrite participates_heads; exact H2|].
      apply sortedb_sound, tsortedb_children, Hs2. reflexivity. }
    split; [intros tm' [<-|[]]; split; assumption|].
    intros tm' [<-|[]]. apply occ_dyn_okb_wf.
    + rewrite rems_occ_split. exact H3.
    + intros ld' E. unfold occ_split, split_term_at in E. rewrite nth_error_map in E.
      destruct (nth_error tm k1) as [ld|] eqn:E1; cbn [option_map] in E; [|discriminate]. injection E as <-.
      apply tsortedb_occ_tstate; [eapply leader_bounds_sorted; exact Hld|apply Hs1; reflexivity].
  - apply andb_true_iff in H as [H H4]. apply andb_true_iff in H as [_ H3]. split.
    + intros tm' [<-|[]]. apply existsb_exists in H3 as [rs [Hin Hh]]. apply in_map_iff in Hin as [t [<- Ht]].
      exists t. split; [exact Ht|]. rewrite participates_heads. exact Hh.
    + intros c. cbn [map]. apply IH.
      * rewrite rems_step_term. exact H4.
      * intros ld' E. eapply tsortedb_step_nth; [|exact E]. exact Hs2.
      * intros ld' E. eapply tsortedb_step_nth; [|exact E]. exact Hs1.
Qed.

Theorem occ2_dyn_okb_sound : forall Lo1 r r2 rx n2 k2 Lo2 r1 r0 n1 k1 Li tm,
  occ2_dyn_okb Lo1 r r2 rx k2 Lo2 r1 r0 k1 Li (map rem tm) = true ->
  (forall ld, nth_error tm k2 = Some ld -> tsortedb (cur ld) = true) ->
  (forall ld, nth_error tm k1 = Some ld -> tsortedb (cur ld) = true) ->
  forall p,
  let tmA := reach_term Lo1 p tm in
  let tmB := occ_split r r2 rx n2 k2 tmA in
  sum_at p (run_split_split Lo1 (occ_split r r2 rx n2 k2) Lo2 (occ_split rx r1 r0 n1 k1) Li [tm]) =
  if occ_consistent (leader_bounds n1 k1 (reach_term Lo2 p tmB)) r1 r0 p
     && occ_consistent (leader_bounds n2 k2 tmA) r2 rx (collapse rx r0 p)
  then term_den tm (collapse r rx (collapse rx r0 p)) else 0.
Proof.
  intros Lo1 r r2 rx n2 k2 Lo2 r1 r0 n1 k1 Li tm H Hs2 Hs1.
  destruct (occ2_dyn_okb_notin _ _ _ _ _ _ _ _ _ _ _ H) as [Ha [Hb Hc]].
  apply occ_beneath_occ_sound; try assumption. apply occ2_dyn_okb_wf; assumption.
Qed.

Section ExamplesStack.
Local Open Scope string_scope.
(* Z = A[k] * B[k]; K: [uniform_shape(4), uniform_occupancy(A.2)]: K -> (K2, KX) by shape, then beneath K2 the rank KX is
   occupancy-partitioned into (K1, K0).  A = {0,1,2,5,6,7,9}, B = {1,2,4,6,9,10}: under K2 = 4 the boundaries are {5,7} and
   B's 4 lies below the first boundary *)
Definition exs_A : tstate := {| rem := ["K"]; cur := Node [(0, Leaf 1); (1, Leaf 2); (2, Leaf 3); (5, Leaf 4); (6, Leaf 5); (7, Leaf 6); (9, Leaf 7)] |}.
Definition exs_B : tstate := {| rem := ["K"]; cur := Node [(1, Leaf 10); (2, Leaf 20); (4, Leaf 30); (6, Leaf 40); (9, Leaf 50); (10, Leaf 60)] |}.
Definition exs_tm1 : term := map (part_tstate "K" "K2" "KX" 4) [exs_A; exs_B].

Example occ_beneath_shape_example :
  occ_dyn_okb ["K2"] "KX" "K1" "K0" 0 ["K1"; "K0"] (map rem exs_tm1) = true /\
  (forall ld, nth_error exs_tm1 0 = Some ld -> tsortedb (cur ld) = true) /\
  (forall t, In t [exs_A; exs_B] -> NoDup (rem t)) /\ existsb (holds "K") [exs_A; exs_B] = true /\
  run_then_split ["K2"] (occ_split "KX" "K1" "K0" 2 0) ["K1"; "K0"] [exs_tm1] =
    [([("K2", 0); ("K1", 0); ("K0", 1)], 20); ([("K2", 0); ("K1", 2); ("K0", 2)], 60);
     ([("K2", 4); ("K1", 5); ("K0", 6)], 200); ([("K2", 8); ("K1", 9); ("K0", 9)], 350)].
Proof.
  split; [vm_compute; reflexivity|]. split; [intros ld E; injection E as <-; vm_compute; reflexivity|].
  split; [intros t [<-|[<-|[]]]; repeat constructor; intros []|]. split; vm_compute; reflexivity.
Qed.

(* Z[i] = A[i,k] * B[k]; K: [uniform_occupancy(A.4), uniform_occupancy(A.2)] beneath I *)
Definition exs_A2 : tstate := {| rem := ["I"; "K"];
  cur := Node [(0, Node [(0, Leaf 1); (1, Leaf 2); (2, Leaf 3); (5, Leaf 4); (6, Leaf 5); (7, Leaf 6); (9, Leaf 7)]);
               (1, Node [(2, Leaf 1); (4, Leaf 2); (10, Leaf 3)])] |}.
Definition exs_tm2 : term := [exs_A2; exs_B].

Example occ_beneath_occ_example :
  occ2_dyn_okb ["I"] "K" "K2" "KX" 0 ["K2"] "K1" "K0" 0 ["K1"; "K0"] (map rem exs_tm2) = true /\
  (forall ld, nth_error exs_tm2 0 = Some ld -> tsortedb (cur ld) = true) /\
  run_split_split ["I"] (occ_split "K" "K2" "KX" 4 0) ["K2"] (occ_split "KX" "K1" "K0" 2 0) ["K1"; "K0"] [exs_tm2] =
    [([("I", 0); ("K2", 0); ("K1", 0); ("K0", 1)], 20); ([("I", 0); ("K2", 0); ("K1", 2); ("K0", 2)], 60);
     ([("I", 0); ("K2", 6); ("K1", 6); ("K0", 6)], 200); ([("I", 0); ("K2", 6); ("K1", 9); ("K0", 9)], 350);
     ([("I", 1); ("K2", 2); ("K1", 2); ("K0", 2)], 20); ([("I", 1); ("K2", 2); ("K1", 2); ("K0", 4)], 60);
     ([("I", 1); ("K2", 2); ("K1", 10); ("K0", 10)], 180)].
Proof.
  split; [vm_compute; reflexivity|]. split; [intros ld E; injection E as <-; vm_compute; reflexivity|].
  vm_compute. reflexivity.
Qed.
End ExamplesStack.

(* ---------- 6. summing over the upper coordinate ---------- *)
Lemma run_k_keys_ranks : forall Lo Li (k : list term -> list contrib),
  (forall s qv, In qv (k s) -> map fst (fst qv) = Li) ->
  forall tms qv, In qv (run_k Lo k tms) -> map fst (fst qv) = Lo ++ Li.
Proof.
  intros Lo Li k Hk. induction Lo as [|r Lo IH]; intros tms qv H; cbn [run_k] in H; [eapply Hk; exact H|].
  apply in_flat_map in H as [c [_ H]]. apply in_map_iff in H as [qv' [<- H]]. cbn [fst map app]. f_equal. eapply IH; eassumption.
Qed.

Lemma run_k_keys_nodup : forall Lo (k : list term -> list contrib),
  (forall s, NoDup (map fst (k s))) -> forall tms, NoDup (map fst (run_k Lo k tms)).
Proof.
  intros Lo k Hk. induction Lo as [|r Lo IH]; intros tms; cbn [run_k]; [apply Hk|].
  assert (Hnd : NoDup (visited r tms)) by apply NoDup_nodup.
  induction Hnd as [|c cs Hnotin Hnd IHcs]; [constructor|].
  cbn [flat_map]. rewrite map_app. apply NoDup_app_intro.
  - rewrite map_map. cbn [fst].
    assert (Hinj : forall l, NoDup l -> NoDup (map (fun q : list (rank * coord) => (r, c) :: q) l)).
    { intros l Hl. induction Hl as [|x l Hx Hl IHl]; [constructor|]. cbn. constructor; [|exact IHl].
      intros Hin. apply in_map_iff in Hin as [y [Ey Hy]]. injection Ey as ->. contradiction. }
    rewrite <- (map_map fst (fun q => (r, c) :: q)). apply Hinj. apply IH.
  - exact IHcs.
  - intros key Hk1 Hk2. apply in_map_iff in Hk1 as [qv1 [<- H1]]. apply in_map_iff in H1 as [qv1' [<- H1]].
    apply in_map_iff in Hk2 as [qv2 [E2 H2]]. apply in_flat_map in H2 as [c2 [Hc2 H2]].
    apply in_map_iff in H2 as [qv2' [<- H2]]. cbn [fst] in E2. injection E2 as E2 _. subst c2. contradiction.
Qed.

Lemma matches_all_eq : forall p (a b : list (rank * coord)),
  map fst a = map fst b -> matches p a = true -> matches p b = true -> a = b.
Proof.
  intros p a. induction a as [|[r c] a IH]; intros [|[r' c'] b] Hk Ha Hb; cbn [map] in Hk; try discriminate; [reflexivity|].
  injection Hk as -> Hk. cbn [matches forallb fst snd] in Ha, Hb.
  apply andb_true_iff in Ha as [Ha1 Ha2]. apply andb_true_iff in Hb as [Hb1 Hb2].
  apply Z.eqb_eq in Ha1, Hb1. f_equal; [congruence|]. apply IH; assumption.
Qed.

(* with distinct keys over one rank list, a full point receives the value of the one contribution matching it *)
Lemma sum_at_unique : forall L p cs qv, NoDup (map fst cs) -> (forall qv', In qv' cs -> map fst (fst qv') = L) ->
  In qv cs -> matches p (fst qv) = true -> sum_at p cs = snd qv.
Proof.
  intros L p cs qv. induction cs as [|x cs IH]; intros Hnd Hk Hin Hm; [destruct Hin|].
  cbn [map] in Hnd. apply NoDup_cons_iff in Hnd as [Hnotin Hnd]. cbn [sum_at].
  assert (Hzero : forall y : contrib, ~ In (fst y) (map fst cs) -> (forall qv', In qv' cs -> map fst (fst qv') = L) ->
                  map fst (fst y) = L -> matches p (fst y) = true -> sum_at p cs = 0).
  { clear. intros y. induction cs as [|z cs IHz]; intros Hn Hk Hy Hm; [reflexivity|]. cbn [sum_at].
    destruct (matches p (fst z)) eqn:Ez.
    - exfalso. apply Hn. left. apply (matches_all_eq p); [|exact Ez|exact Hm].
      rewrite Hy. apply Hk. left. reflexivity.
    - apply IHz; try assumption; [intros H; apply Hn; right; exact H|intros q Hq; apply Hk; right; exact Hq]. }
  destruct Hin as [->|Hin].
  - rewrite Hm. rewrite (Hzero qv Hnotin (fun q Hq => Hk q (or_intror Hq)) (Hk qv (or_introl eq_refl)) Hm). lia.
  - destruct (matches p (fst x)) eqn:Ex.
    + exfalso. apply Hnotin. assert (E : fst x = fst qv).
      { apply (matches_all_eq p); [|exact Ex|exact Hm]. rewrite (Hk x (or_introl eq_refl)), (Hk qv (or_intror Hin)). reflexivity. }
      rewrite E. apply in_map. exact Hin.
    + apply IH; try assumption. intros q Hq. apply Hk. right. exact Hq.
Qed.

Lemma matches_upd_except r1 p u q : matches (upd p r1 u) q = true -> matches_except r1 p q = true.
Proof.
  unfold matches, matches_except. rewrite !forallb_forall. intros H rc Hrc. specialize (H rc Hrc).
  destruct rc as [x c]. cbn [fst snd] in *. unfold upd in H. destruct (String.eqb x r1); [reflexivity|exact H].
Qed.

(* a key over a duplicate-free rank list holding r1: agreeing with p outside r1 is matching p[r1 := the key's r1-coordinate] *)
Lemma matches_except_upd r1 p q : NoDup (map fst q) -> In r1 (map fst q) -> matches_except r1 p q = true ->
  exists u, matches (upd p r1 u) q = true.
Proof.
  induction q as [|[x c] q IH]; intros Hnd Hin Hm; [destruct Hin|].
  cbn [map fst] in Hnd, Hin. apply NoDup_cons_iff in Hnd as [Hx Hnd].
  cbn [matches_except forallb fst snd] in Hm. apply andb_true_iff in Hm as [Hm1 Hm2].
  destruct (String.eqb_spec x r1) as [->|Hne].
  - exists c. cbn [matches forallb fst snd]. unfold upd at 1. rewrite String.eqb_refl, Z.eqb_refl. cbn [andb].
    apply forallb_forall. intros rc Hrc. unfold matches_except in Hm2. rewrite forallb_forall in Hm2. specialize (Hm2 rc Hrc).
    destruct rc as [y d]. cbn [fst snd] in *. unfold upd. destruct (String.eqb_spec y r1) as [E|Hn].
    + exfalso. apply Hx. rewrite <- E. apply (in_map fst _ _ Hrc).
    + exact Hm2.
  - destruct Hin as [E|Hin]; [contradiction|]. destruct (IH Hnd Hin Hm2) as [u Hu]. exists u.
    cbn [matches forallb fst snd]. fold (matches (upd p r1 u) q). rewrite Hu, andb_true_r.
    unfold upd. destruct (String.eqb_spec x r1); [contradiction|]. cbn [orb] in Hm1. exact Hm1.
Qed.

Lemma sum_except_eq_at r1 p u cs :
  (forall qv, In qv cs -> matches_except r1 p (fst qv) = true -> snd qv <> 0 -> matches (upd p r1 u) (fst qv) = true) ->
  sum_except r1 p cs = sum_at (upd p r1 u) cs.
Proof.
  induction cs as [|x cs IH]; intros H; [reflexivity|]. cbn [sum_except sum_at].
  rewrite IH by (intros qv Hq; apply H; right; exact Hq).
  destruct (matches (upd p r1 u) (fst x)) eqn:Em.
  - rewrite (matches_upd_except r1 p u _ Em). reflexivity.
  - destruct (matches_except r1 p (fst x)) eqn:Ee; [|reflexivity].
    destruct (Z.eq_dec (snd x) 0) as [->|Hnz]; [lia|].
    rewrite (H x (or_introl eq_refl) Ee Hnz) in Em. discriminate.
Qed.

Lemma sum_except_zero r1 p cs :
  (forall qv, In qv cs -> matches_except r1 p (fst qv) = true -> snd qv = 0) -> sum_except r1 p cs = 0.
Proof.
  induction cs as [|x cs IH]; intros H; [reflexivity|]. cbn [sum_except].
  rewrite IH by (intros qv Hq; apply H; right; exact Hq).
  destruct (matches_except r1 p (fst x)) eqn:Ee; [|reflexivity]. rewrite (H x (or_introl eq_refl) Ee). reflexivity.
Qed.

(* generic: distinct keys over one duplicate-free rank list holding r1, and at most one upper coordinate (given by sel)
   with a non-zero value at a full point: summing over r1 picks that coordinate *)
Lemma sum_except_pick : forall L r1 p cs (sel : option Z),
  NoDup (map fst cs) -> (forall qv, In qv cs -> map fst (fst qv) = L) -> NoDup L -> In r1 L ->
  (forall u, sum_at (upd p r1 u) cs <> 0 -> sel = Some u) ->
  sum_except r1 p cs = match sel with Some u => sum_at (upd p r1 u) cs | None => 0 end.
Proof.
  intros L r1 p cs sel Hnd Hk HL Hr1 Huniq.
  assert (Hkey : forall qv, In qv cs -> matches_except r1 p (fst qv) = true -> snd qv <> 0 ->
                 exists u, matches (upd p r1 u) (fst qv) = true /\ sel = Some u).
  { intros qv Hq Hm Hnz. destruct (matches_except_upd r1 p (fst qv)) as [u Hu]; [rewrite (Hk qv Hq); exact HL|rewrite (Hk qv Hq); exact Hr1|exact Hm|].
    exists u. split; [exact Hu|]. apply Huniq. rewrite (sum_at_unique L _ cs qv Hnd Hk Hq Hu). exact Hnz. }
  destruct sel as [u|].
  - apply sum_except_eq_at. intros qv Hq Hm Hnz. destruct (Hkey qv Hq Hm Hnz) as [u' [Hu' E]]. injection E as ->. exact Hu'.
  - apply sum_except_zero. intros qv Hq Hm. destruct (Z.eq_dec (snd qv) 0) as [E|Hnz]; [exact E|].
    destruct (Hkey qv Hq Hm Hnz) as [u' [_ E]]. discriminate.
Qed.

(* the dynamic occupancy split, summed over the upper coordinate: the contributions whose key agrees with p outside r1 add
   up to the value of the term at the collapsed point - when the lower coordinate has a partition; to 0 otherwise (then
   the lower coordinate lies below the leader's first element and the term is 0 there anyway: occ_point_has_partition) *)
Theorem occ_dyn_sum_over_upper : forall Lo r r1 r0 n k Li tm,
  ~ In r Lo -> ~ In r1 Lo -> r1 <> r0 -> In r1 Li -> NoDup (Lo ++ Li) ->
  (forall t, In t tm -> ~ In r1 (rem t)) ->
  wf_outer Lo (occ_state_ok r r1 r0 n k Li) [tm] ->
  forall p, sum_except r1 p (run_then_split Lo (occ_split r r1 r0 n k) Li [tm]) =
            match part_of (leader_bounds n k (reach_term Lo p tm)) (p r0) with
            | Some _ => term_den tm (collapse r r0 p)
            | None => 0
            end.
Proof.
  intros Lo r r1 r0 n k Li tm Hr Hr1 Hne Hin HL Hfresh Hwf p.
  set (cs := run_then_split Lo (occ_split r r1 r0 n k) Li [tm]).
  rewrite (sum_except_pick (Lo ++ Li) r1 p cs (part_of (leader_bounds n k (reach_term Lo p tm)) (p r0))).
  - destruct (part_of (leader_bounds n k (reach_term Lo p tm)) (p r0)) as [u|] eqn:Eu; [|reflexivity].
    unfold cs. rewrite (occ_dyn_sound Lo r r1 r0 n k Li tm Hr Hwf).
    assert (E : reach_term Lo (upd p r1 u) tm = reach_term Lo p tm).
    { apply reach_term_ext. intros x Hx. unfold upd. destruct (String.eqb_spec x r1) as [->|_]; [contradiction|reflexivity]. }
    rewrite E. unfold occ_consistent. unfold upd at 1. destruct (String.eqb_spec r0 r1) as [E'|_]; [congruence|].
    rewrite Eu. unfold upd at 1. rewrite String.eqb_refl, Z.eqb_refl.
    apply term_den_ext. intros t x Ht Hx. unfold collapse, upd.
    destruct (String.eqb_spec x r) as [_|_].
    + destruct (String.eqb_spec r0 r1) as [E'|_]; [congruence|reflexivity].
    + destruct (String.eqb_spec x r1) as [->|_]; [exfalso; exact (Hfresh t Ht Hx)|reflexivity].
  - unfold cs, run_then_split. apply run_k_keys_nodup. intros s. apply run_keys_nodup.
  - unfold cs, run_then_split. apply run_k_keys_ranks. intros s qv Hq. eapply run_keys_ranks. exact Hq.
  - exact HL.
  - apply in_or_app. right. exact Hin.
  - intros u Hnz. unfold cs in Hnz. exact (occ_dyn_upper_unique Lo r r1 r0 n k Li tm Hr Hr1 Hne Hwf p u Hnz).
Qed.

Section ExamplesSum.
Local Open Scope string_scope.
(* the dynamic example again: whatever upper coordinate the point carries, the contributions that agree with it outside K1
   add up to the value at the collapsed point; at I = 0 the follower's coordinate 0 lies below the first boundary 1 *)
Example occ_dyn_sum_example :
  let cs := run_then_split ["I"] (occ_split "K" "K1" "K0" 2 0) ["K1"; "K0"] [exd_tm] in
  In "K1" ["K1"; "K0"] /\ NoDup (["I"] ++ ["K1"; "K0"]) /\ (forall t, In t exd_tm -> ~ In "K1" (rem t)) /\
  sum_except "K1" (exd_point 2 (-7) 3) cs = 44 /\ term_den exd_tm (collapse "K" "K0" (exd_point 2 (-7) 3)) = 44 /\
  sum_except "K1" (exd_point 0 (-7) 0) cs = 0 /\ part_of (leader_bounds 2 0 (reach_term ["I"] (exd_point 0 (-7) 0) exd_tm)) 0 = None.
Proof.
  cbv zeta. split; [left; reflexivity|]. split.
  { repeat constructor; cbn; intros H; repeat (destruct H as [H|H]; [discriminate|]); exact H. }
  split.
  { intros t [<-|[<-|[]]]; cbn; intros H; repeat (destruct H as [H|H]; [discriminate|]); exact H. }
  repeat split; vm_compute; reflexivity.
Qed.
End ExamplesSum.


(* ---------- 5b. a shape split beneath an occupancy split ---------- *)
Lemma occ_tstate_NoDup r r1 r0 bs t : NoDup (rem t) -> ~ In r1 (rem t) -> ~ In r0 (rem t) -> r1 <> r0 ->
  NoDup (rem (occ_tstate r r1 r0 bs t)).
Proof.
  intros Hnd H1 H0 Hne. unfold occ_tstate. destruct t as [rs cu]; cbn [rem cur] in *. destruct rs as [|x rest]; [exact Hnd|].
  destruct (String.eqb x r); cbn [rem]; [|exact Hnd]. apply NoDup_cons_iff in Hnd as [_ Hnd].
  constructor; [intros [E|H]; [congruence|apply H1; right; exact H]|].
  constructor; [intros H; apply H0; right; exact H|exact Hnd].
Qed.

Lemma holds_occ_tstate r r1 r0 bs t : r1 <> r0 -> participates r t = true -> holds r0 (occ_tstate r r1 r0 bs t) = true.
Proof.
  intros Hne Hp. unfold participates in Hp. unfold occ_tstate, holds. destruct t as [rs cu]; cbn [rem cur] in *.
  destruct rs as [|x rest]; [discriminate|]. rewrite Hp. cbn [rem index_of].
  destruct (String.eqb_spec r1 r0); [contradiction|]. rewrite String.eqb_refl. reflexivity.
Qed.

Theorem shape_beneath_occ_sound : forall Lo r r2 rx n k r1 r0 s Li tm,
  ~ In r Lo -> ~ In rx Lo -> r2 <> rx ->
  wf_outer Lo (occ_shape_state_ok r r2 rx n k r1 r0 s Li) [tm] ->
  forall p, sum_at p (run_then_split Lo (occ_then_shape r r2 rx n k r1 r0 s) Li [tm]) =
            if consistent r1 r0 s p && occ_consistent (leader_bounds n k (reach_term Lo p tm)) r2 rx (collapse rx r0 p)
            then term_den tm (collapse r rx (collapse rx r0 p)) else 0.
Proof.
  intros Lo r r2 rx n k r1 r0 s Li tm Hr Hrx Hne Hwf p. unfold run_then_split. rewrite run_k_sum.
  set (q := collapse r rx (collapse rx r0 p)).
  assert (Hq : forall x, In x Lo -> q x = p x).
  { intros x Hx. unfold q. rewrite (collapse_outer r rx _ Lo Hr x Hx). apply (collapse_outer rx r0 p Lo Hrx x Hx). }
  destruct (along Lo p [tm]) eqn:Ea.
  - pose proof (wf_outer_reach Lo _ [tm] p Hwf) as [Hok Hwfi]. rewrite reach_single in *.
    set (tmA := reach_term Lo p tm) in *. cbn [map] in *.
    destruct (Hok _ (or_introl eq_refl)) as [Hto [Hld Hfresh]].
    rewrite (nest_sound Li _ Hwfi p). cbn [body_den fold_right]. rewrite Z.add_0_r. unfold occ_then_shape.
    rewrite term_den_part.
    2:{ intros t Ht. unfold occ_split, split_term_at in Ht. apply in_map_iff in Ht as [t0 [<- Ht0]].
        destruct (Hto t0 Ht0) as [Hnd _]. destruct (Hfresh t0 Ht0) as [H2 Hx]. apply occ_tstate_NoDup; assumption. }
    assert (Hh : existsb (holds rx) (occ_split r r2 rx n k tmA) = true).
    { destruct Hld as [ld [Hk [Hp _]]]. apply existsb_exists. exists (occ_tstate r r2 rx (leader_bounds n k tmA) ld).
      split; [unfold occ_split, split_term_at; apply in_map; eapply nth_error_In; exact Hk|apply holds_occ_tstate; assumption]. }
    rewrite Hh. destruct (consistent r1 r0 s p); cbn [andb]; [|reflexivity].
    rewrite (term_den_occ_split r r2 rx n k tmA _ Hto Hld).
    destruct (occ_consistent (leader_bounds n k tmA) r2 rx (collapse rx r0 p)); [|reflexivity].
    pose proof (body_den_reach Lo p q [tm] Hq) as E. rewrite reach_single in E. fold tmA in E.
    cbn [body_den fold_right] in E. fold q. lia.
  - pose proof (not_along_zero Lo _ p q [tm] Hwf Hq Ea) as E. cbn [body_den fold_right] in E. fold q.
    destruct (_ && _); lia.
Qed.

Section ExamplesSB.
Local Open Scope string_scope.
(* Z = A[k] * B[k]; K: [uniform_occupancy(A.4), uniform_shape(2)], loop order K2, K1, K0 *)
Example shape_beneath_occ_example :
  let tm := [exs_A; exs_B] in
  wf_outer [] (occ_shape_state_ok "K" "K2" "KX" 4 0 "K1" "K0" 2 ["K2"; "K1"; "K0"]) [tm] /\
  run_then_split [] (occ_then_shape "K" "K2" "KX" 4 0 "K1" "K0" 2) ["K2"; "K1"; "K0"] [tm] =
    [([("K2", 0); ("K1", 0); ("K0", 1)], 20); ([("K2", 0); ("K1", 2); ("K0", 2)], 60);
     ([("K2", 6); ("K1", 6); ("K0", 6)], 200); ([("K2", 6); ("K1", 8); ("K0", 9)], 350)].
Proof.
  cbv zeta. split; [|vm_compute; reflexivity]. cbn [wf_outer]. split.
  - intros tm' [<-|[]]. split; [apply term_okb_sound; vm_compute; reflexivity|].
    split; [apply leader_okb_sound; vm_compute; reflexivity|].
    intros t [<-|[<-|[]]]; split; cbn; intros H; repeat (destruct H as [H|H]; [discriminate|]); exact H.
  - apply swf_wf. vm_compute. reflexivity.
Qed.
End ExamplesSB.

(* ---------- 7. the operations are the interpreter's (Model/Rt.v) under the embedding to_rt ---------- *)
Lemma to_rt_node l : to_rt (Node l) = Rt.TNode (map to_rt_ct l).
Proof. reflexivity. Qed.

Lemma filter_map_comm {A B} (f : B -> bool) (g : A -> B) l : filter f (map g l) = map g (filter (fun x => f (g x)) l).
Proof.
  induction l as [|x l IH]; [reflexivity|]. cbn [map filter]. destruct (f (g x)); [cbn [map]; f_equal; exact IH|exact IH].
Qed.

(* splitNonUniform: NestOcc.bounds_split is Rt.split_bounds *)
Lemma split_bounds_to_rt bs l :
  Rt.split_bounds (map Rt.VInt bs) (map to_rt_ct l) = map to_rt_ct (bounds_split bs l).
Proof.
  induction bs as [|b bs IH]; [reflexivity|]. cbn [map Rt.split_bounds bounds_split].
  rewrite filter_map_comm. rewrite IH.
  assert (E : filter (fun x : coord * trie =>
                 Rt.vleb (Rt.VInt b) (fst (to_rt_ct x)) &&
                 match match map Rt.VInt bs with b' :: _ => Some b' | [] => None end with
                 | Some h => Rt.vltb (fst (to_rt_ct x)) h | None => true end) l
              = filter (fun ct : coord * trie => in_window b bs (fst ct)) l).
  { apply filter_ext. intros x. unfold to_rt_ct, in_window. cbn [fst]. rewrite RtLaws.vleb_int.
    destruct bs as [|b' bs']; cbn [map]; [reflexivity|]. rewrite RtLaws.vltb_int. reflexivity. }
  rewrite E. destruct (filter (fun ct : coord * trie => in_window b bs (fst ct)) l) as [|x sel]; [reflexivity|].
  cbn [map]. reflexivity.
Qed.

Theorem bounds_split_is_split_nonuniform bs l :
  Rt.split_nonuniform (map Rt.VInt bs) (to_rt (Node l)) = Some (to_rt (Node (bounds_split bs l))).
Proof. rewrite !to_rt_node. cbn [Rt.split_nonuniform]. rewrite split_bounds_to_rt. reflexivity. Qed.

Lemma chunks_map {A B} (g : A -> B) n : forall fuel l, Rt.chunks fuel n (map g l) = map (map g) (Rt.chunks fuel n l).
Proof.
  induction fuel as [|f IH]; intros l; [reflexivity|]. destruct l as [|x l]; [reflexivity|].
  cbn [Rt.chunks map]. change (g x :: map g l) with (map g (x :: l)).
  rewrite firstn_map, skipn_map, IH. reflexivity.
Qed.

(* splitEqual: NestOcc.equal_split is Rt.split_equal *)
Theorem equal_split_is_split_equal n l : (0 < n)%nat ->
  Rt.split_equal (Z.of_nat n) (to_rt (Node l)) = Some (to_rt (Node (equal_split (S (List.length l)) n l))).
Proof.
  intros Hn. rewrite !to_rt_node. unfold Rt.split_equal.
  destruct (Z.leb_spec (Z.of_nat n) 0); [lia|]. rewrite Nat2Z.id, map_length. f_equal. f_equal.
  rewrite (equal_split_chunks n Hn), chunks_map, !map_map. apply map_ext_in. intros ch Hch.
  unfold to_rt_ct at 3. cbn [fst snd]. rewrite to_rt_node. f_equal.
  destruct ch as [|ct ch]; [|reflexivity].
  exfalso. pose proof (OccLaws.chunks_sizes n Hn (S (List.length l)) l (Nat.lt_succ_diag_r _)) as Hs.
  rewrite Forall_forall in Hs. destruct (Hs [] Hch) as [Hne _]. apply Hne. reflexivity.
Qed.

(* hence, for the leader, the two runtime operations agree: splitNonUniform at the boundaries of splitEqual(n) is
   splitEqual(n) *)
Corollary leader_split_nonuniform_is_split_equal n l : (0 < n)%nat -> StronglySorted Z.lt (keys l) ->
  Rt.split_nonuniform (map Rt.VInt (chunk_starts n l)) (to_rt (Node l)) = Rt.split_equal (Z.of_nat n) (to_rt (Node l)).
Proof.
  intros Hn Hs. rewrite bounds_split_is_split_nonuniform, (equal_split_is_split_equal n l Hn).
  rewrite (leader_equal_split n Hn (S (List.length l)) l (Nat.lt_succ_diag_r _) Hs). reflexivity.
Qed.
