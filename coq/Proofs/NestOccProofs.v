(* C03 at the level of loop nests: occupancy partitioning as a transformation of the nest state.
   1. bounds_split (splitNonUniform) and its denotation;  2. chunk_starts (the leader's splitEqual boundaries);
   3. occ_split of a product term: for ANY loop order well-formed for the transformed term the nest contributes, at
      every consistent point, the value of the term at the collapsed point and 0 elsewhere; every original point with a
      non-zero value is represented exactly once;  4. the split at a dynamic position (after outer levels). *)
From Coq Require Import ZArith List Bool Lia String Sorted.
Require TV.Model.Rt TV.Proofs.OccLaws.
Require Import TV.Model.Nest TV.Proofs.NestProofs TV.Model.NestPart TV.Proofs.NestPartProofs TV.Model.NestOcc.
Import ListNotations.
Open Scope Z_scope.

(* ---------- 1. boundaries ---------- *)
Lemma part_of_OccLaws : NestOcc.part_of = OccLaws.part_of.
Proof. reflexivity. Qed.

Lemma part_of_none_iff bs c : part_of bs c = None <-> match bs with [] => True | b :: _ => c < b end.
Proof.
  destruct bs as [|b bs]; cbn [part_of]; [tauto|].
  destruct (Z.ltb_spec c b); [tauto|]. destruct (part_of bs c); split; intros; try discriminate; lia.
Qed.

Lemma part_of_in bs c b : part_of bs c = Some b -> In b bs.
Proof.
  revert b; induction bs as [|b0 bs IH]; intros b H; cbn [part_of] in H; [discriminate|].
  destruct (c <? b0); [discriminate|]. destruct (part_of bs c) as [b'|].
  - injection H as <-. right. apply IH. reflexivity.
  - injection H as <-. left. reflexivity.
Qed.

Lemma part_of_le bs c b : part_of bs c = Some b -> b <= c.
Proof.
  revert b; induction bs as [|b0 bs IH]; intros b H; cbn [part_of] in H; [discriminate|].
  destruct (Z.ltb_spec c b0); [discriminate|]. destruct (part_of bs c) as [b'|].
  - injection H as <-. apply IH. reflexivity.
  - injection H as <-. assumption.
Qed.

(* the window of boundary u inside the list bs *)
Fixpoint window (bs : list Z) (u c : Z) : bool :=
  match bs with
  | [] => false
  | b :: bs' => if Z.eqb u b then in_window b bs' c else window bs' u c
  end.

Lemma window_part_of bs u c : StronglySorted Z.lt bs -> window bs u c = true <-> part_of bs c = Some u.
Proof.
  induction bs as [|b bs IH]; intros Hs; cbn [window part_of]; [split; discriminate|].
  inversion Hs as [|? ? Hs' Hall]; subst. specialize (IH Hs').
  destruct (Z.eqb_spec u b) as [->|Hne].
  - unfold in_window. destruct (Z.ltb_spec c b) as [Hlt|Hge].
    + destruct (Z.leb_spec b c); [lia|]. cbn. split; discriminate.
    + destruct (Z.leb_spec b c); [|lia]. cbn [andb].
      destruct (part_of bs c) as [b'|] eqn:E.
      * assert (Hin : In b' bs) by (eapply part_of_in; exact E).
        rewrite Forall_forall in Hall. specialize (Hall b' Hin).
        assert (Hn : part_of bs c <> None) by congruence. rewrite part_of_none_iff in Hn.
        destruct bs as [|b1 bs1]; [destruct Hin|]. destruct (Z.ltb_spec c b1); [lia|].
        split; [discriminate|]. intros H'. injection H' as ->. lia.
      * apply part_of_none_iff in E. destruct bs as [|b1 bs1]; [tauto|].
        destruct (Z.ltb_spec c b1); [tauto|lia].
  - rewrite IH. destruct (Z.ltb_spec c b) as [Hlt|Hge].
    + split; [|discriminate]. intros H. apply part_of_le in H as Hle. apply part_of_in in H.
      rewrite Forall_forall in Hall. specialize (Hall u H). lia.
    + destruct (part_of bs c) as [b'|]; [tauto|]. split; [discriminate|]. intros H; injection H as <-. congruence.
Qed.

Lemma lookup_filter_fst (f : Z -> bool) c l :
  lookup c (filter (fun ct => f (fst ct)) l) = if f c then lookup c l else None.
Proof.
  induction l as [|[c' t'] l IH]; cbn [filter lookup fst]; [destruct (f c); reflexivity|].
  destruct (f c') eqn:E'.
  - cbn [lookup]. destruct (Z.eqb_spec c c') as [->|Hne]; [rewrite E'; reflexivity|exact IH].
  - rewrite IH. destruct (Z.eqb_spec c c') as [->|Hne]; [rewrite E'; reflexivity|reflexivity].
Qed.

Lemma lookup_bounds_split_in u bs l t : lookup u (bounds_split bs l) = Some t -> In u bs.
Proof.
  induction bs as [|b bs IH]; cbn [bounds_split]; [discriminate|].
  destruct (filter (fun ct => in_window b bs (fst ct)) l).
  - intros H. right. apply IH. exact H.
  - cbn [lookup]. destruct (Z.eqb_spec u b) as [->|_]; [intros _; left; reflexivity|]. intros H. right. apply IH. exact H.
Qed.

Lemma lookup_bounds_split u bs l : NoDup bs ->
  lookup u (bounds_split bs l) =
  match filter (fun ct => window bs u (fst ct)) l with [] => None | sel => Some (Node sel) end.
Proof.
  induction bs as [|b bs IH]; intros Hnd; cbn [bounds_split window].
  - cbn [lookup]. induction l as [|ct l IHl]; [reflexivity|exact IHl].
  - apply NoDup_cons_iff in Hnd as [Hnotin Hnd]. specialize (IH Hnd).
    destruct (Z.eqb_spec u b) as [->|Hne].
    + destruct (filter (fun ct => in_window b bs (fst ct)) l) as [|x sel] eqn:E.
      * destruct (lookup b (bounds_split bs l)) as [t|] eqn:El; [|reflexivity].
        exfalso. apply Hnotin. eapply lookup_bounds_split_in. exact El.
      * cbn [lookup]. rewrite Z.eqb_refl. reflexivity.
    + destruct (filter (fun ct => in_window b bs (fst ct)) l) as [|x sel]; [exact IH|].
      cbn [lookup]. destruct (Z.eqb_spec u b); [contradiction|]. exact IH.
Qed.

Lemma SSorted_lt_NoDup l : StronglySorted Z.lt l -> NoDup l.
Proof.
  induction 1 as [|a l Hs IH Hall]; constructor; [|exact IH].
  intros Hin. rewrite Forall_forall in Hall. specialize (Hall a Hin). lia.
Qed.

(* the denotation of a fiber cut at increasing boundaries *)
Lemma den_bounds_split : forall bs l rs p r r1 r0,
  StronglySorted Z.lt bs -> ~ In r rs ->
  den (r1 :: r0 :: rs) (Node (bounds_split bs l)) p =
  if occ_consistent bs r1 r0 p then den (r :: rs) (Node l) (collapse r r0 p) else 0.
Proof.
  intros bs l rs p r r1 r0 Hs Hnotin. cbn [den].
  rewrite lookup_bounds_split by (apply SSorted_lt_NoDup; exact Hs).
  assert (Hw : window bs (p r1) (p r0) = occ_consistent bs r1 r0 p).
  { apply eq_true_iff_eq. rewrite (window_part_of bs (p r1) (p r0) Hs). unfold occ_consistent.
    destruct (part_of bs (p r0)) as [b|]; [|split; discriminate].
    rewrite Z.eqb_eq. split; [intros H; injection H as ->; reflexivity|intros ->; reflexivity]. }
  assert (Hc : collapse r r0 p r = p r0) by (unfold collapse, upd; rewrite String.eqb_refl; reflexivity).
  rewrite Hc.
  assert (Hd : match filter (fun ct => window bs (p r1) (fst ct)) l with
               | [] => 0 | sel => den (r0 :: rs) (Node sel) p end =
               den (r0 :: rs) (Node (filter (fun ct => window bs (p r1) (fst ct)) l)) p).
  { destruct (filter (fun ct => window bs (p r1) (fst ct)) l); reflexivity. }
  transitivity (den (r0 :: rs) (Node (filter (fun ct => window bs (p r1) (fst ct)) l)) p).
  { destruct (filter (fun ct => window bs (p r1) (fst ct)) l); reflexivity. }
  clear Hd. cbn [den]. rewrite (lookup_filter_fst (window bs (p r1))). rewrite Hw.
  destruct (occ_consistent bs r1 r0 p); [|reflexivity].
  destruct (lookup (p r0) l) as [t'|]; [|reflexivity].
  symmetry. apply den_upd_notin. exact Hnotin.
Qed.
