(* C03 at the level of loop nests: occupancy partitioning as a transformation of the nest state.
   1. bounds_split (splitNonUniform) and its denotation;  2. chunk_starts (the leader's splitEqual boundaries);
   3. occ_split of a product term: for ANY loop order well-formed for the transformed term the nest contributes, at
      every consistent point, the value of the term at the collapsed point and 0 elsewhere; every original point with a
      non-zero value is represented exactly once;  4. the split at a dynamic position (after outer levels). *)
From Coq Require Import ZArith List Bool Lia String Sorted.
Require TV.Model.Rt TV.Proofs.OccLaws.
Require Import TV.Model.Nest TV.Proofs.NestProofs TV.Model.NestPart TV.Proofs.NestPartProofs TV.Model.NestOcc.
Import ListNotations.
Open Scope Z_scope.

(* ---------- 1. boundaries ---------- *)
Lemma part_of_OccLaws : NestOcc.part_of = OccLaws.part_of.
Proof. reflexivity. Qed.

Lemma part_of_none_iff bs c : part_of bs c = None <-> match bs with [] => True | b :: _ => c < b end.
Proof.
  destruct bs as [|b bs]; cbn [part_of]; [tauto|].
  destruct (Z.ltb_spec c b); [tauto|]. destruct (part_of bs c); split; intros; try discriminate; lia.
Qed.

Lemma part_of_in bs c b : part_of bs c = Some b -> In b bs.
Proof.
  revert b; induction bs as [|b0 bs IH]; intros b H; cbn [part_of] in H; [discriminate|].
  destruct (c <? b0); [discriminate|]. destruct (part_of bs c) as [b'|].
  - injection H as <-. right. apply IH. reflexivity.
  - injection H as <-. left. reflexivity.
Qed.

Lemma part_of_le bs c b : part_of bs c = Some b -> b <= c.
Proof.
  revert b; induction bs as [|b0 bs IH]; intros b H; cbn [part_of] in H; [discriminate|].
  destruct (Z.ltb_spec c b0); [discriminate|]. destruct (part_of bs c) as [b'|].
  - injection H as <-. apply IH. reflexivity.
  - injection H as <-. assumption.
Qed.

(* the window of boundary u inside the list bs *)
Fixpoint window (bs : list Z) (u c : Z) : bool :=
  match bs with
  | [] => false
  | b :: bs' => if Z.eqb u b then in_window b bs' c else window bs' u c
  end.

Lemma window_part_of bs u c : StronglySorted Z.lt bs -> window bs u c = true <-> part_of bs c = Some u.
Proof.
  induction bs as [|b bs IH]; intros Hs; cbn [window part_of]; [split; discriminate|].
  inversion Hs as [|? ? Hs' Hall]; subst. specialize (IH Hs').
  destruct (Z.eqb_spec u b) as [->|Hne].
  - unfold in_window. destruct (Z.ltb_spec c b) as [Hlt|Hge].
    + destruct (Z.leb_spec b c); [lia|]. cbn. split; discriminate.
    + destruct (Z.leb_spec b c); [|lia]. cbn [andb].
      destruct (part_of bs c) as [b'|] eqn:E.
      * assert (Hin : In b' bs) by (eapply part_of_in; exact E).
        rewrite Forall_forall in Hall. specialize (Hall b' Hin).
        assert (Hn : part_of bs c <> None) by congruence. rewrite part_of_none_iff in Hn.
        destruct bs as [|b1 bs1]; [destruct Hin|]. destruct (Z.ltb_spec c b1); [lia|].
        split; [discriminate|]. intros H'. injection H' as ->. lia.
      * apply part_of_none_iff in E. destruct bs as [|b1 bs1]; [tauto|].
        destruct (Z.ltb_spec c b1); [tauto|lia].
  - rewrite IH. destruct (Z.ltb_spec c b) as [Hlt|Hge].
    + split; [|discriminate]. intros H. apply part_of_le in H as Hle. apply part_of_in in H.
      rewrite Forall_forall in Hall. specialize (Hall u H). lia.
    + destruct (part_of bs c) as [b'|]; [tauto|]. split; [discriminate|]. intros H; injection H as <-. congruence.
Qed.

Lemma lookup_filter_fst (f : Z -> bool) c l :
  lookup c (filter (fun ct : coord * trie => f (fst ct)) l) = if f c then lookup c l else None.
Proof.
  induction l as [|[c' t'] l IH]; cbn [filter lookup fst]; [destruct (f c); reflexivity|].
  destruct (f c') eqn:E'.
  - cbn [lookup]. destruct (Z.eqb_spec c c') as [->|Hne]; [rewrite E'; reflexivity|exact IH].
  - rewrite IH. destruct (Z.eqb_spec c c') as [->|Hne]; [rewrite E'; reflexivity|reflexivity].
Qed.

Lemma lookup_bounds_split_in u bs l t : lookup u (bounds_split bs l) = Some t -> In u bs.
Proof.
  induction bs as [|b bs IH]; cbn [bounds_split]; [discriminate|].
  destruct (filter (fun ct : coord * trie => in_window b bs (fst ct)) l).
  - intros H. right. apply IH. exact H.
  - cbn [lookup]. destruct (Z.eqb_spec u b) as [->|_]; [intros _; left; reflexivity|]. intros H. right. apply IH. exact H.
Qed.

Lemma lookup_bounds_split u bs l : NoDup bs ->
  lookup u (bounds_split bs l) =
  match filter (fun ct : coord * trie => window bs u (fst ct)) l with [] => None | sel => Some (Node sel) end.
Proof.
  induction bs as [|b bs IH]; intros Hnd; cbn [bounds_split window].
  - cbn [lookup]. induction l as [|ct l IHl]; [reflexivity|exact IHl].
  - apply NoDup_cons_iff in Hnd as [Hnotin Hnd]. specialize (IH Hnd).
    destruct (Z.eqb_spec u b) as [->|Hne].
    + destruct (filter (fun ct : coord * trie => in_window b bs (fst ct)) l) as [|x sel] eqn:E.
      * destruct (lookup b (bounds_split bs l)) as [t|] eqn:El; [|reflexivity].
        exfalso. apply Hnotin. eapply lookup_bounds_split_in. exact El.
      * cbn [lookup]. rewrite Z.eqb_refl. reflexivity.
    + destruct (filter (fun ct : coord * trie => in_window b bs (fst ct)) l) as [|x sel]; [exact IH|].
      cbn [lookup]. destruct (Z.eqb_spec u b); [contradiction|]. exact IH.
Qed.

Lemma SSorted_lt_NoDup l : StronglySorted Z.lt l -> NoDup l.
Proof.
  induction 1 as [|a l Hs IH Hall]; constructor; [|exact IH].
  intros Hin. rewrite Forall_forall in Hall. specialize (Hall a Hin). lia.
Qed.

(* the denotation of a fiber cut at increasing boundaries *)
Lemma den_bounds_split : forall bs l rs p r r1 r0,
  StronglySorted Z.lt bs -> ~ In r rs ->
  den (r1 :: r0 :: rs) (Node (bounds_split bs l)) p =
  if occ_consistent bs r1 r0 p then den (r :: rs) (Node l) (collapse r r0 p) else 0.
Proof.
  intros bs l rs p r r1 r0 Hs Hnotin. cbn [den].
  rewrite lookup_bounds_split by (apply SSorted_lt_NoDup; exact Hs).
  assert (Hw : window bs (p r1) (p r0) = occ_consistent bs r1 r0 p).
  { apply eq_true_iff_eq. rewrite (window_part_of bs (p r1) (p r0) Hs). unfold occ_consistent.
    destruct (part_of bs (p r0)) as [b|]; [|split; discriminate].
    rewrite Z.eqb_eq. split; [intros H; injection H as ->; reflexivity|intros ->; reflexivity]. }
  assert (Hc : collapse r r0 p r = p r0) by (unfold collapse, upd; rewrite String.eqb_refl; reflexivity).
  rewrite Hc.
  assert (Hd : match filter (fun ct : coord * trie => window bs (p r1) (fst ct)) l with
               | [] => 0 | sel => den (r0 :: rs) (Node sel) p end =
               den (r0 :: rs) (Node (filter (fun ct : coord * trie => window bs (p r1) (fst ct)) l)) p).
  { destruct (filter (fun ct : coord * trie => window bs (p r1) (fst ct)) l); reflexivity. }
  transitivity (den (r0 :: rs) (Node (filter (fun ct : coord * trie => window bs (p r1) (fst ct)) l)) p).
  { destruct (filter (fun ct : coord * trie => window bs (p r1) (fst ct)) l); reflexivity. }
  clear Hd. cbn [den]. rewrite (lookup_filter_fst (window bs (p r1))). rewrite Hw.
  destruct (occ_consistent bs r1 r0 p); [|reflexivity].
  destruct (lookup (p r0) l) as [t'|]; [|reflexivity].
  symmetry. apply den_upd_notin. exact Hnotin.
Qed.

(* ---------- 2. the leader: chunk starts ---------- *)
Lemma starts_aux_in n k l x : In x (starts_aux n k l) -> In x (keys l).
Proof.
  revert k; induction l as [|ct l IH]; intros k H; cbn [starts_aux] in H; [destruct H|].
  destruct k as [|k'].
  - destruct H as [<-|H]; [left; reflexivity|right; eapply IH; exact H].
  - right. eapply IH. exact H.
Qed.

Lemma starts_aux_sorted n k l : StronglySorted Z.lt (keys l) -> StronglySorted Z.lt (starts_aux n k l).
Proof.
  revert k; induction l as [|ct l IH]; intros k Hs; cbn [starts_aux]; [constructor|].
  cbn [keys map] in Hs. inversion Hs as [|? ? Hs' Hall]; subst.
  destruct k as [|k']; [|apply IH; exact Hs'].
  constructor; [apply IH; exact Hs'|].
  apply Forall_forall. intros x Hx. apply starts_aux_in in Hx. rewrite Forall_forall in Hall. apply Hall. exact Hx.
Qed.

(* the boundaries are increasing *)
Lemma chunk_starts_sorted n l : StronglySorted Z.lt (keys l) -> StronglySorted Z.lt (chunk_starts n l).
Proof. apply starts_aux_sorted. Qed.

(* the first boundary is the first coordinate of the leader's fiber *)
Lemma chunk_starts_head n ct l : chunk_starts n (ct :: l) = fst ct :: starts_aux n (Nat.pred n) l.
Proof. reflexivity. Qed.

(* every coordinate of the leader's fiber has a partition *)
Lemma chunk_starts_covers n l c : StronglySorted Z.lt (keys l) -> In c (keys l) -> part_of (chunk_starts n l) c <> None.
Proof.
  intros Hs Hin H. apply part_of_none_iff in H. destruct l as [|ct l]; [destruct Hin|].
  rewrite chunk_starts_head in H. cbn [keys map] in Hs, Hin. inversion Hs as [|? ? _ Hall]; subst.
  destruct Hin as [<-|Hin]; [lia|]. rewrite Forall_forall in Hall. specialize (Hall c Hin). lia.
Qed.

Lemma starts_aux_skipn n k l : starts_aux n k l = starts_aux n 0 (skipn k l).
Proof.
  revert k; induction l as [|ct l IH]; intros k; [destruct k; reflexivity|].
  destruct k as [|k']; [reflexivity|]. cbn [starts_aux skipn]. apply IH.
Qed.

Lemma chunk_starts_step n ct l : (0 < n)%nat ->
  chunk_starts n (ct :: l) = fst ct :: chunk_starts n (skipn n (ct :: l)).
Proof.
  intros Hn. destruct n as [|m]; [lia|]. rewrite chunk_starts_head. cbn [Nat.pred skipn].
  rewrite starts_aux_skipn. reflexivity.
Qed.

Lemma SSorted_app_inv (a b : list Z) : StronglySorted Z.lt (a ++ b) ->
  StronglySorted Z.lt a /\ StronglySorted Z.lt b /\ forall x y, In x a -> In y b -> x < y.
Proof.
  induction a as [|x0 a IH]; cbn [app]; intros H.
  - split; [constructor|]. split; [exact H|]. intros x y [].
  - inversion H as [|? ? Hs Hall]; subst. destruct (IH Hs) as [Ha [Hb Hab]]. rewrite Forall_forall in Hall.
    split; [constructor; [exact Ha|]|split; [exact Hb|]].
    + apply Forall_forall. intros y Hy. apply Hall. apply in_or_app. left. exact Hy.
    + intros x y [<-|Hx] Hy; [apply Hall; apply in_or_app; right; exact Hy|apply Hab; assumption].
Qed.

Lemma filter_all {A} (f : A -> bool) l : (forall x, In x l -> f x = true) -> filter f l = l.
Proof.
  induction l as [|x l IH]; intros H; [reflexivity|]. cbn [filter]. rewrite (H x (or_introl eq_refl)).
  f_equal. apply IH. intros y Hy. apply H. right. exact Hy.
Qed.
Lemma filter_none {A} (f : A -> bool) l : (forall x, In x l -> f x = false) -> filter f l = [].
Proof.
  induction l as [|x l IH]; intros H; [reflexivity|]. cbn [filter]. rewrite (H x (or_introl eq_refl)).
  apply IH. intros y Hy. apply H. right. exact Hy.
Qed.

(* elements below every boundary are dropped *)
Lemma bounds_split_drop_below bs (pre l : list (coord * trie)) :
  (forall x b, In x pre -> In b bs -> fst x < b) -> bounds_split bs (pre ++ l) = bounds_split bs l.
Proof.
  induction bs as [|b bs IH]; intros H; [reflexivity|]. cbn [bounds_split].
  rewrite filter_app. rewrite (filter_none _ pre).
  2:{ intros x Hx. cbv beta. unfold in_window. specialize (H x b Hx (or_introl eq_refl)). destruct (Z.leb_spec b (fst x)); [lia|reflexivity]. }
  cbn [app]. rewrite IH by (intros x b' Hx Hb'; apply H; [exact Hx|right; exact Hb']). reflexivity.
Qed.

(* for the LEADER, cutting at its own chunk starts is splitEqual(n): consecutive chunks of n elements *)
Lemma leader_equal_split n : (0 < n)%nat -> forall fuel l, (List.length l < fuel)%nat -> StronglySorted Z.lt (keys l) ->
  bounds_split (chunk_starts n l) l = equal_split fuel n l.
Proof.
  intros Hn. induction fuel as [|f IH]; intros l Hlen Hs; [lia|].
  destruct l as [|ct l']; [reflexivity|]. set (l := ct :: l') in *.
  cbn [equal_split]. fold l. unfold l at 1. rewrite (chunk_starts_step n ct l' Hn). fold l.
  set (bs' := chunk_starts n (skipn n l)).
  assert (Hsplit : l = firstn n l ++ skipn n l) by (symmetry; apply firstn_skipn).
  assert (Hs2 : StronglySorted Z.lt (keys (firstn n l) ++ keys (skipn n l))).
  { unfold keys. rewrite <- map_app, firstn_skipn. exact Hs. }
  destruct (SSorted_app_inv _ _ Hs2) as [Hsa [Hsb Hab]].
  assert (Hhd : forall x, In x l -> fst ct <= fst x).
  { intros x [<-|Hx]; [lia|]. unfold l in Hs. cbn [keys map] in Hs. inversion Hs as [|? ? _ Hall]; subst.
    rewrite Forall_forall in Hall. specialize (Hall (fst x) (in_map fst _ _ Hx)). lia. }
  assert (Hsel : filter (fun x : coord * trie => in_window (fst ct) bs' (fst x)) l = firstn n l).
  { rewrite Hsplit at 1. rewrite filter_app. rewrite filter_all, filter_none; [apply app_nil_r| |].
    - intros x Hx. cbv beta. unfold in_window, bs'. destruct (skipn n l) as [|y ys] eqn:Esk; [destruct Hx|].
      unfold chunk_starts. cbn [starts_aux].
      assert (fst y <= fst x).
      { destruct Hx as [<-|Hx]; [lia|]. cbn [keys map] in Hsb. inversion Hsb as [|? ? _ Hall]; subst.
        rewrite Forall_forall in Hall. specialize (Hall (fst x) (in_map fst _ _ Hx)). lia. }
      destruct (Z.ltb_spec (fst x) (fst y)); [lia|]. apply andb_false_r.
    - intros x Hx. cbv beta. unfold in_window.
      assert (Hx' : In x l) by (rewrite Hsplit; apply in_or_app; left; exact Hx).
      specialize (Hhd x Hx'). destruct (Z.leb_spec (fst ct) (fst x)); [|lia]. cbn [andb].
      destruct bs' as [|b' bs''] eqn:Eb; [reflexivity|].
      assert (Hb' : In b' (keys (skipn n l))).
      { apply (starts_aux_in n 0). fold (chunk_starts n (skipn n l)). fold bs'. rewrite Eb. left. reflexivity. }
      specialize (Hab (fst x) b' (in_map fst _ _ Hx) Hb'). destruct (Z.ltb_spec (fst x) b'); [reflexivity|lia]. }
  cbn [bounds_split]. rewrite Hsel.
  assert (Hne : firstn n l <> []) by (destruct n; [lia|discriminate]).
  assert (Hrest : bounds_split bs' l = equal_split f n (skipn n l)).
  { rewrite Hsplit at 1. rewrite bounds_split_drop_below.
    - apply IH; [|exact Hsb]. rewrite skipn_length. unfold l in *. cbn [List.length] in *. lia.
    - intros x b Hx Hb. apply Hab; [apply in_map; exact Hx|]. apply (starts_aux_in n 0). exact Hb. }
  rewrite Hrest. destruct (firstn n l); [contradiction|reflexivity].
Qed.

(* ... which is Rt.chunks, the function the interpreter uses for splitEqual *)
Definition head_key (ch : list (coord * trie)) : Z := match ch with ct :: _ => fst ct | [] => 0 end.
Lemma equal_split_chunks n : (0 < n)%nat -> forall fuel l,
  equal_split fuel n l = map (fun ch => (head_key ch, Node ch)) (Rt.chunks fuel n l).
Proof.
  intros Hn. induction fuel as [|f IH]; intros l; [reflexivity|].
  destruct l as [|ct l']; [reflexivity|]. cbn [equal_split Rt.chunks map]. rewrite IH.
  destruct n as [|m]; [lia|]. reflexivity.
Qed.

Theorem leader_bounds_split_chunks : forall n l, (0 < n)%nat -> StronglySorted Z.lt (keys l) ->
  bounds_split (chunk_starts n l) l = map (fun ch => (head_key ch, Node ch)) (Rt.chunks (S (List.length l)) n l).
Proof.
  intros n l Hn Hs. rewrite (leader_equal_split n Hn (S (List.length l)) l (Nat.lt_succ_diag_r _) Hs).
  apply equal_split_chunks. exact Hn.
Qed.
