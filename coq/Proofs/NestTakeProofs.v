(* C01: the loop nest with take() terms.  For ANY loop order, ANY number of product and take terms, ANY input tries
   with non-zero stored leaves: if every take's selected operand holds every loop rank, the nest as emitted (the update
   adds the selected operand's leaf) contributes at every point exactly the Einsum's value; without that side condition
   it does not (finding F7: runS_take_unsafe_refuted). *)
From Coq Require Import ZArith List Bool Lia String.
Require Import TV.Model.Nest TV.Proofs.NestProofs TV.Model.NestTake.
Import ListNotations.
Open Scope Z_scope.

Definition stepf (r : rank) (c : coord) (t : tstate) : tstate := if participates r t then advance c t else t.
Definition killf (r : rank) (t : tstate) : tstate := if participates r t then kill t else t.

Lemma step_term_alive r c tm : term_alive r c tm = true -> step_term r c tm = map (stepf r c) tm.
Proof. intros H. unfold step_term. rewrite H. reflexivity. Qed.
Lemma step_term_dead r c tm : term_alive r c tm = false -> step_term r c tm = map (killf r) tm.
Proof. intros H. unfold step_term. rewrite H. reflexivity. Qed.

Lemma stepf_dummy r c : stepf r c dummy_t = dummy_t.
Proof. reflexivity. Qed.
Lemma killf_dummy r : killf r dummy_t = dummy_t.
Proof. reflexivity. Qed.

Lemma alive_has_coord r c tm t : term_alive r c tm = true -> In t tm -> participates r t = true -> has_coord c t = true.
Proof.
  intros Hal Hin Hp. unfold term_alive in Hal. rewrite forallb_forall in Hal. specialize (Hal t Hin).
  rewrite Hp in Hal. exact Hal.
Qed.

Lemma alive_den_pres r c tm p t : p r = c -> term_alive r c tm = true -> In t tm ->
  den (rem (stepf r c t)) (cur (stepf r c t)) p = den (rem t) (cur t) p.
Proof.
  intros Hp Hal Hin. unfold stepf. destruct (participates r t) eqn:E; [|reflexivity].
  apply (den_advance r c t p Hp E). eapply alive_has_coord; eassumption.
Qed.

Lemma nth_in_or_dummy (tm : term) i : In (nth i tm dummy_t) tm \/ nth i tm dummy_t = dummy_t.
Proof. destruct (nth_in_or_default i tm dummy_t); auto. Qed.

Lemma forallb_map_ext {A} (f g : A -> bool) (h : A -> A) l : (forall x, In x l -> f (h x) = g x) -> forallb f (map h l) = forallb g l.
Proof.
  induction l as [|x l IH]; intros H; [reflexivity|]. cbn [map forallb].
  rewrite (H x (or_introl eq_refl)), IH; [reflexivity|]. intros y Hy. apply H. right. exact Hy.
Qed.

(* the Einsum-level value of a term does not change when the nest moves one level down at the point's coordinate *)
Lemma sden_step : forall r c st p, p r = c -> sden (fst st, step_term r c (snd st)) p = sden st p.
Proof.
  intros r c [s tm] p Hp. unfold sden; cbn [fst snd]. destruct s as [i|]; [|apply term_den_step; exact Hp].
  destruct (term_alive r c tm) eqn:Hal.
  - rewrite (step_term_alive r c tm Hal).
    rewrite (forallb_map_ext (nonzero_at p) (nonzero_at p) (stepf r c) tm).
    2:{ intros t Hin. unfold nonzero_at. rewrite (alive_den_pres r c tm p t Hp Hal Hin). reflexivity. }
    destruct (forallb (nonzero_at p) tm); [|reflexivity].
    rewrite <- (stepf_dummy r c) at 1 2. rewrite !map_nth.
    destruct (nth_in_or_dummy tm i) as [Hin|E].
    + apply (alive_den_pres r c tm p _ Hp Hal Hin).
    + rewrite E. reflexivity.
  - rewrite (step_term_dead r c tm Hal).
    destruct (term_dead_witness r c tm Hal) as [t0 [Hin [Hpart Hno]]].
    assert (H1 : forallb (nonzero_at p) tm = false).
    { apply not_true_is_false. intros H. rewrite forallb_forall in H. specialize (H t0 Hin).
      unfold nonzero_at in H. rewrite (den_dead r c t0 p Hp Hpart Hno) in H. discriminate. }
    assert (H2 : forallb (nonzero_at p) (map (killf r) tm) = false).
    { apply not_true_is_false. intros H. rewrite forallb_forall in H.
      specialize (H (killf r t0) (in_map _ _ _ Hin)). unfold nonzero_at, killf in H. rewrite Hpart in H.
      rewrite (den_kill r t0 p Hpart) in H. discriminate. }
    rewrite H1, H2. reflexivity.
Qed.

Lemma sbody_den_step : forall r c sts p, p r = c ->
  sbody_den (map (fun st => (fst st, step_term r c (snd st))) sts) p = sbody_den sts p.
Proof.
  intros r c sts p Hp. induction sts as [|st sts IH]; [reflexivity|].
  cbn [map sbody_den fold_right]. fold (sbody_den (map (fun st => (fst st, step_term r c (snd st))) sts) p). fold (sbody_den sts p).
  rewrite IH, (sden_step r c st p Hp). reflexivity.
Qed.

Lemma sbody_den_all_dead : forall r c sts p, p r = c -> existsb (term_alive r c) (map snd sts) = false -> sbody_den sts p = 0.
Proof.
  intros r c sts p Hp. induction sts as [|[s tm] sts IH]; intros H; [reflexivity|].
  cbn [map snd existsb] in H. apply orb_false_iff in H as [H1 H2].
  cbn [sbody_den fold_right]. fold (sbody_den sts p). rewrite (IH H2).
  destruct (term_dead_witness r c tm H1) as [t0 [Hin [Hpart Hno]]].
  unfold sden; cbn [fst snd]. destruct s as [i|].
  - assert (Hf : forallb (nonzero_at p) tm = false).
    { apply not_true_is_false. intros H. rewrite forallb_forall in H. specialize (H t0 Hin).
      unfold nonzero_at in H. rewrite (den_dead r c t0 p Hp Hpart Hno) in H. discriminate. }
    rewrite Hf. reflexivity.
  - rewrite (term_den_zero_if tm p); [reflexivity|].
    exists t0; split; [assumption|apply (den_dead r c t0 p Hp Hpart Hno)].
Qed.

(* ---------- the invariant of a take term ---------- *)
Definition okop (t : tstate) : bool := isdef t || goodb (rem t) (cur t).

Definition TInv (L : list rank) (st : sterm) : Prop :=
  match fst st with
  | None => True
  | Some i => (i < List.length (snd st))%nat /\ rem (nth i (snd st) dummy_t) = L /\
              forallb okop (snd st) = true /\
              (existsb isdef (snd st) = true -> isdef (nth i (snd st) dummy_t) = true)
  end.

Lemma good_not_def t : goodb (rem t) (cur t) = true -> isdef t = false.
Proof.
  destruct t as [rs cu]. unfold isdef; cbn [rem cur]. destruct rs as [|r rs], cu as [v|l]; cbn [goodb]; intros H; try discriminate.
  - apply negb_true_iff in H. exact H.
  - destruct l; [discriminate|reflexivity].
Qed.

Lemma isdef_kill r t : participates r t = true -> isdef (kill t) = true.
Proof.
  destruct t as [rs cu]. unfold participates, kill, isdef; cbn [rem cur]. destruct rs as [|r' rs]; [discriminate|].
  intros _. cbn [rem cur]. destruct rs; reflexivity.
Qed.

Lemma isdef_no_coord r c t : participates r t = true -> isdef t = true -> has_coord c t = false.
Proof.
  destruct t as [rs cu]. unfold participates, isdef, has_coord; cbn [rem cur]. destruct rs as [|r' rs]; [discriminate|].
  intros _. destruct cu as [v|l]; [reflexivity|]. destruct l; [reflexivity|discriminate].
Qed.

Lemma lookup_In c l (t : trie) : lookup c l = Some t -> In (c, t) l \/ exists c', In (c', t) l.
Proof.
  induction l as [|[c' t'] l IH]; [discriminate|]. cbn. destruct (Z.eqb c c').
  - intros E. injection E as ->. right. exists c'. left. reflexivity.
  - intros E. destruct (IH E) as [H|[c2 H]]; [left; right; exact H|right; exists c2; right; exact H].
Qed.

Lemma good_advance r c t : participates r t = true -> has_coord c t = true -> goodb (rem t) (cur t) = true ->
  goodb (rem (advance c t)) (cur (advance c t)) = true.
Proof.
  destruct t as [rs cu]. unfold participates, has_coord, advance; cbn [rem cur].
  destruct rs as [|r' rs]; [discriminate|]. intros _. destruct cu as [v|l]; [discriminate|].
  destruct (lookup c l) as [t'|] eqn:E; [|discriminate]. intros _ H. cbn [rem cur goodb] in *.
  apply andb_true_iff in H as [_ H]. rewrite forallb_forall in H.
  destruct (lookup_In c l t' E) as [Hin|[c' Hin]]; specialize (H _ Hin); exact H.
Qed.

Lemma okop_stepf r c tm t : term_alive r c tm = true -> In t tm -> okop t = true -> okop (stepf r c t) = true.
Proof.
  intros Hal Hin Hok. unfold stepf. destruct (participates r t) eqn:Hp; [|exact Hok].
  pose proof (alive_has_coord r c tm t Hal Hin Hp) as Hc.
  unfold okop in *. apply orb_true_iff in Hok as [Hd|Hg].
  - rewrite (isdef_no_coord r c t Hp Hd) in Hc. discriminate.
  - rewrite (good_advance r c t Hp Hc Hg). apply orb_true_r.
Qed.

Lemma okop_killf r t : okop t = true -> okop (killf r t) = true.
Proof.
  intros Hok. unfold killf. destruct (participates r t) eqn:Hp; [|exact Hok].
  unfold okop. rewrite (isdef_kill r t Hp). reflexivity.
Qed.

Lemma heads_participates r L' t : rem t = r :: L' -> participates r t = true.
Proof. intros E. unfold participates. rewrite E. apply String.eqb_refl. Qed.

Lemma TInv_step : forall r L c st, TInv (r :: L) st -> TInv L (fst st, step_term r c (snd st)).
Proof.
  intros r L c [s tm]. unfold TInv; cbn [fst snd]. destruct s as [i|]; [|trivial].
  intros [Hi [Hrem [Hok HJ]]]. set (sel := nth i tm dummy_t) in *.
  assert (Hsel_in : In sel tm) by (apply nth_In; exact Hi).
  pose proof (heads_participates r L sel Hrem) as Hsp.
  destruct (term_alive r c tm) eqn:Hal.
  - rewrite (step_term_alive r c tm Hal). rewrite map_length. split; [exact Hi|].
    rewrite <- (stepf_dummy r c) at 1 2. rewrite !map_nth. fold sel.
    split; [|split].
    + unfold stepf. rewrite Hsp. rewrite (rem_advance r c sel Hsp), Hrem. reflexivity.
    + rewrite (forallb_map_ext okop (fun _ => true) (stepf r c) tm).
      * clear. induction tm; [reflexivity|assumption].
      * intros t Hin. rewrite forallb_forall in Hok. apply (okop_stepf r c tm t Hal Hin (Hok t Hin)).
    + intros Hex. exfalso. apply existsb_exists in Hex as [t' [Hin' Hd']].
      apply in_map_iff in Hin' as [t [<- Hin]].
      rewrite forallb_forall in Hok. pose proof (Hok t Hin) as Hokt.
      unfold stepf in Hd'. destruct (participates r t) eqn:Hp.
      * pose proof (alive_has_coord r c tm t Hal Hin Hp) as Hc.
        unfold okop in Hokt. apply orb_true_iff in Hokt as [Hd|Hg].
        -- rewrite (isdef_no_coord r c t Hp Hd) in Hc. discriminate.
        -- rewrite (good_not_def _ (good_advance r c t Hp Hc Hg)) in Hd'. discriminate.
      * assert (Hseld : isdef sel = true) by (apply HJ; apply existsb_exists; exists t; auto).
        pose proof (alive_has_coord r c tm sel Hal Hsel_in Hsp) as Hc.
        rewrite (isdef_no_coord r c sel Hsp Hseld) in Hc. discriminate.
  - rewrite (step_term_dead r c tm Hal). rewrite map_length. split; [exact Hi|].
    rewrite <- (killf_dummy r) at 1 2. rewrite !map_nth. fold sel.
    split; [|split].
    + unfold killf. rewrite Hsp. rewrite (rem_kill r sel Hsp), Hrem. reflexivity.
    + rewrite (forallb_map_ext okop (fun _ => true) (killf r) tm).
      * clear. induction tm; [reflexivity|assumption].
      * intros t Hin. rewrite forallb_forall in Hok. apply (okop_killf r t (Hok t Hin)).
    + intros _. unfold killf. rewrite Hsp. apply (isdef_kill r sel Hsp).
Qed.

(* at the bottom the update's operand is the term's value *)
Lemma TInv_bottom : forall st p, TInv [] st -> (forall t, In t (snd st) -> rem t = []) -> sden st p = sleaf st.
Proof.
  intros [s tm] p. unfold TInv, sden, sleaf; cbn [fst snd]. destruct s as [i|].
  2:{ intros _ H. apply term_leaf_den. exact H. }
  intros [Hi [Hrem [Hok HJ]]] Hbot. set (sel := nth i tm dummy_t) in *.
  assert (Hleaf : forall t, In t tm -> den (rem t) (cur t) p = leaf_val t).
  { intros t Hin. rewrite (Hbot t Hin). unfold leaf_val. destruct (cur t); reflexivity. }
  assert (Hsel_in : In sel tm) by (apply nth_In; exact Hi).
  rewrite (Hleaf sel Hsel_in).
  destruct (forallb (nonzero_at p) tm) eqn:Hnz; [reflexivity|].
  (* some operand is zero at p: it is a default, hence so is the selected operand *)
  assert (Hex : exists t, In t tm /\ nonzero_at p t = false).
  { clear -Hnz. induction tm as [|t tm IH]; [discriminate|]. cbn [forallb] in Hnz. apply andb_false_iff in Hnz as [H|H].
    - exists t. split; [left; reflexivity|exact H].
    - destruct (IH H) as [t0 [Hin H0]]. exists t0. split; [right; exact Hin|exact H0]. }
  destruct Hex as [t0 [Hin0 Hz]]. unfold nonzero_at in Hz. apply negb_false_iff, Z.eqb_eq in Hz. rewrite (Hleaf t0 Hin0) in Hz.
  assert (Hd0 : isdef t0 = true).
  { rewrite forallb_forall in Hok. pose proof (Hok t0 Hin0) as H. unfold okop in H. apply orb_true_iff in H as [H|H]; [exact H|].
    exfalso. rewrite (Hbot t0 Hin0) in H. unfold leaf_val in Hz. destruct (cur t0) as [v|l]; cbn [goodb] in H; [|discriminate].
    subst v. discriminate. }
  assert (Hds : isdef sel = true) by (apply HJ; apply existsb_exists; exists t0; auto).
  unfold isdef in Hds. rewrite (Hbot sel Hsel_in) in Hds. unfold leaf_val. destruct (cur sel) as [v|l]; [|reflexivity].
  apply Z.eqb_eq in Hds. congruence.
Qed.

Lemma map_snd_step r c (sts : list sterm) :
  map snd (map (fun st => (fst st, step_term r c (snd st))) sts) = map (step_term r c) (map snd sts).
Proof. rewrite !map_map. reflexivity. Qed.

Theorem runS_sound : forall L sts, wf L (map snd sts) -> Forall (TInv L) sts ->
  forall p, sum_at p (runS L sts) = sbody_den sts p.
Proof.
  induction L as [|r L IH]; intros sts Hwf Hinv p.
  - cbn [runS sum_at fst snd matches forallb]. cbn in Hwf. rewrite Z.add_0_r.
    induction sts as [|st sts IHs]; [reflexivity|].
    cbn [fold_right sbody_den]. fold (sbody_den sts p).
    apply Forall_cons_iff in Hinv as [Hst Hinv].
    rewrite (TInv_bottom st p Hst) by (intros t Ht; eapply (Hwf (snd st)); [left; reflexivity|exact Ht]).
    rewrite <- IHs; [reflexivity| |exact Hinv]. intros tm Htm. apply Hwf. right. exact Htm.
  - destruct Hwf as [Hpart Hwf]. cbn [runS].
    rewrite sum_at_flat_map by apply NoDup_nodup.
    destruct (in_dec Z.eq_dec (p r) (visited r (map snd sts))) as [Hin|Hnin].
    + rewrite IH.
      * apply sbody_den_step. reflexivity.
      * rewrite map_snd_step. apply Hwf.
      * clear -Hinv. induction Hinv as [|st sts Hst _ IHs]; [constructor|]. cbn [map]. constructor; [|exact IHs].
        apply TInv_step. exact Hst.
    + symmetry. apply (sbody_den_all_dead r (p r)); [reflexivity|].
      destruct (existsb (term_alive r (p r)) (map snd sts)) eqn:E; [|reflexivity].
      exfalso. apply Hnin. apply visited_spec; assumption.
Qed.

(* ---------- entry: the static side condition establishes the invariant for proper inputs ---------- *)
Lemma ranks_eqb_eq a b : ranks_eqb a b = true -> a = b.
Proof.
  revert b; induction a as [|x a IH]; intros [|y b] H; cbn in H; try discriminate; [reflexivity|].
  apply andb_true_iff in H as [H1 H2]. apply String.eqb_eq in H1. rewrite (IH b H2). congruence.
Qed.

Lemma all_good_no_def tm : forallb (fun t => goodb (rem t) (cur t)) tm = true -> existsb isdef tm = false.
Proof.
  induction tm as [|t tm IH]; intros H; [reflexivity|]. cbn [forallb existsb] in *.
  apply andb_true_iff in H as [H1 H2]. rewrite (good_not_def t H1), (IH H2). reflexivity.
Qed.

Lemma TInv_entry L s tm : take_okb L s (map rem tm) = true -> forallb (fun t => goodb (rem t) (cur t)) tm = true -> TInv L (s, tm).
Proof.
  unfold TInv, take_okb; cbn [fst snd]. destruct s as [i|]; [|trivial]. intros H Hg.
  apply andb_true_iff in H as [H1 H2]. rewrite map_length in H1. apply Nat.ltb_lt in H1.
  apply ranks_eqb_eq in H2. change (@nil rank) with (rem dummy_t) in H2. rewrite map_nth in H2.
  split; [exact H1|]. split; [exact H2|]. split.
  - rewrite forallb_forall in *. intros t Ht. unfold okop. rewrite (Hg t Ht). apply orb_true_r.
  - rewrite (all_good_no_def tm Hg). discriminate.
Qed.

Lemma combine_map_snd (a : list (option nat)) (b : list term) : List.length a = List.length b -> map snd (combine a b) = b.
Proof. revert b; induction a as [|x a IH]; intros [|y b] H; cbn in *; try discriminate; [reflexivity|]. f_equal. apply IH. lia. Qed.

(* certified validation of an emitted program whose terms are products and take()s *)
Theorem nest_take_okb_sound : forall L sels tms views,
  nest_okb L (map (map rem) tms) views = true ->
  takes_okb L sels (map (map rem) tms) = true ->
  forallb (forallb (fun t => goodb (rem t) (cur t))) tms = true ->
  views = expected_views L (map (map rem) tms) /\
  forall p, sum_at p (runS L (combine sels tms)) = sbody_den (combine sels tms) p.
Proof.
  intros L sels tms views H1 H2 H3. destruct (nest_okb_sound L tms views H1) as [Hv _]. split; [exact Hv|].
  unfold nest_okb in H1. apply andb_true_iff in H1 as [Hswf _].
  unfold takes_okb in H2. apply andb_true_iff in H2 as [Hlen Hall]. apply Nat.eqb_eq in Hlen. rewrite map_length in Hlen.
  apply runS_sound.
  - pose proof (swf_wf L tms Hswf) as Hw. rewrite <- (combine_map_snd sels tms Hlen) in Hw. exact Hw.
  - clear Hswf Hv views. revert tms Hlen Hall H3. induction sels as [|s sels IH]; intros [|tm tms] Hlen Hall H3; cbn in *; try discriminate; constructor.
    + apply andb_true_iff in Hall as [Ha _]. apply andb_true_iff in H3 as [Hg _]. apply TInv_entry; assumption.
    + apply andb_true_iff in Hall as [_ Ha]. apply andb_true_iff in H3 as [_ Hg]. apply IH; [lia|assumption|assumption].
Qed.

(* ---------- finding F7: without the side condition the emitted nest is wrong ---------- *)
(* Z[m] = A[m] + take(B[], C[m], 0), loop [M]:  A = {0: 1}, B = 5, C = {1: 2}.  At m = 0 only the first term is alive; the
   take term dies (C lacks 0), C is killed, but the selected operand B (rank-0, not a participant) keeps its value and
   the update adds it: the nest contributes 6 where the Einsum defines 1. *)
Definition f7_terms : list term :=
  [[{| rem := ["M"%string]; cur := Node [(0, Leaf 1)] |}];
   [{| rem := []; cur := Leaf 5 |}; {| rem := ["M"%string]; cur := Node [(1, Leaf 2)] |}]].
Definition f7_sels : list (option nat) := [None; Some 0%nat].

Theorem runS_take_unsafe_refuted :
  swf ["M"%string] (map (map rem) f7_terms) = true /\
  forallb (forallb (fun t => goodb (rem t) (cur t))) f7_terms = true /\
  takes_okb ["M"%string] f7_sels (map (map rem) f7_terms) = false /\
  exists p, sum_at p (runS ["M"%string] (combine f7_sels f7_terms)) <> sbody_den (combine f7_sels f7_terms) p.
Proof.
  split; [reflexivity|]. split; [reflexivity|]. split; [reflexivity|].
  exists (fun _ => 0). vm_compute. discriminate.
Qed.

(* non-vacuity of nest_take_okb_sound: Z[m] = A[m] + take(B[m], C[m], 1) with proper inputs *)
Example nest_take_okb_example :
  let tms := [[{| rem := ["M"%string]; cur := Node [(0, Leaf 1)] |}];
              [{| rem := ["M"%string]; cur := Node [(0, Leaf 5); (1, Leaf 7)] |}; {| rem := ["M"%string]; cur := Node [(1, Leaf 2)] |}]] in
  nest_okb ["M"%string] (map (map rem) tms) [("M"%string, [[0%nat]; [0%nat; 1%nat]])] = true /\
  takes_okb ["M"%string] [None; Some 1%nat] (map (map rem) tms) = true /\
  forallb (forallb (fun t => goodb (rem t) (cur t))) tms = true.
Proof. repeat split. Qed.

(* ---------- the update statement of programs with take terms ---------- *)
Lemma sleaf_okb_eval : forall lv sels tms, sleaf_okb lv sels (map (@List.length _) tms) = true ->
  leaf_eval lv tms = fold_right (fun st acc => sleaf st + acc) 0 (combine sels tms).
Proof.
  induction lv as [|ps lv IH]; intros [|s sels] [|tm tms] H; cbn [map sleaf_okb] in H; try discriminate; [reflexivity|].
  apply andb_true_iff in H as [H1 H2]. apply nats_eqb_eq in H1. subst ps.
  cbn [leaf_eval combine fold_right]. rewrite (IH sels tms H2). f_equal.
  unfold sleaf; cbn [fst snd]. destruct s as [i|]; [|apply leaf_term_eval_all].
  unfold leaf_term_eval. cbn [fold_right]. lia.
Qed.

Lemma combine_step r c (sels : list (option nat)) (tms : list term) :
  map (fun st : sterm => (fst st, step_term r c (snd st))) (combine sels tms) = combine sels (map (step_term r c) tms).
Proof. revert tms; induction sels as [|s sels IH]; intros [|tm tms]; cbn; try reflexivity. f_equal. apply IH. Qed.

Lemma combine_map_snd' (a : list (option nat)) (b : list term) : List.length a = List.length b ->
  @map sterm term (@snd (option nat) term) (combine a b) = b.
Proof. exact (combine_map_snd a b). Qed.

Theorem run_lv_eq_S : forall lv sels L (tms : list term), List.length sels = List.length tms ->
  sleaf_okb lv sels (map (@List.length _) tms) = true -> run_lv lv L tms = runS L (combine sels tms).
Proof.
  intros lv sels L. induction L as [|r L IH]; intros tms Hlen H; cbn [run_lv runS].
  - rewrite (sleaf_okb_eval lv sels tms H). reflexivity.
  - rewrite (combine_map_snd sels tms Hlen). apply flat_map_ext. intros c.
    rewrite combine_step. rewrite IH; [reflexivity|rewrite map_length; exact Hlen|rewrite lengths_step; exact H].
Qed.

(* keys of the contributions of runS (same structure as run) *)
Lemma runS_keys_ranks : forall L sts qv, In qv (runS L sts) -> map fst (fst qv) = L.
Proof.
  induction L as [|r L IH]; intros sts qv H; cbn [runS] in H.
  - destruct H as [<-|[]]. reflexivity.
  - apply in_flat_map in H as [c [_ H]]. apply in_map_iff in H as [qv' [<- H]]. cbn [fst map]. f_equal. eapply IH; eassumption.
Qed.

Lemma runS_keys_nodup : forall L sts, NoDup (map fst (runS L sts)).
Proof.
  induction L as [|r L IH]; intros sts; cbn [runS].
  - cbn. constructor; [intros []|constructor].
  - assert (Hnd : NoDup (visited r (map snd sts))) by apply NoDup_nodup.
    induction Hnd as [|c cs Hnotin Hnd IHcs]; [constructor|].
    cbn [flat_map]. rewrite map_app. apply NoDup_app_intro.
    + rewrite map_map. cbn [fst].
      assert (Hinj : forall l, NoDup l -> NoDup (map (fun q : list (rank * coord) => (r, c) :: q) l)).
      { intros l Hl. induction Hl as [|x l Hx Hl IHl]; [constructor|]. cbn. constructor; [|exact IHl].
        intros Hin. apply in_map_iff in Hin as [y [Ey Hy]]. injection Ey as ->. contradiction. }
      rewrite <- (map_map fst (fun q => (r, c) :: q)). apply Hinj. apply IH.
    + exact IHcs.
    + intros k Hk1 Hk2. apply in_map_iff in Hk1 as [qv1 [<- H1]]. apply in_map_iff in H1 as [qv1' [<- H1]].
      apply in_map_iff in Hk2 as [qv2 [E2 H2]]. apply in_flat_map in H2 as [c2 [Hc2 H2]].
      apply in_map_iff in H2 as [qv2' [<- H2]]. cbn [fst] in E2. injection E2 as E2 _. subst c2. contradiction.
Qed.

Theorem nest_result_acc_S : forall acc L out sts o, op_okb acc L out = true ->
  nest_result acc out o (runS L sts) = out_sum_at out o (runS L sts).
Proof.
  intros acc L out sts o H. unfold nest_result. destruct acc; [reflexivity|].
  cbn in H. apply (assign_eq_acc_keys L); [apply rmem_forallb; exact H| |apply runS_keys_nodup].
  intros qv Hin. eapply runS_keys_ranks. exact Hin.
Qed.

(* certified validation of a whole emitted program with product and take terms, update statement included *)
Theorem nest_take_full_okb_sound : forall L sels tms views acc lv out,
  nest_take_full_okb L (map (map rem) tms) views sels acc lv out = true ->
  forallb (forallb (fun t => goodb (rem t) (cur t))) tms = true ->
  views = expected_views L (map (map rem) tms) /\
  (forall o, nest_result acc out o (run_lv lv L tms) = out_sum_at out o (runS L (combine sels tms))) /\
  (forall p, sum_at p (runS L (combine sels tms)) = sbody_den (combine sels tms) p).
Proof.
  intros L sels tms views acc lv out H Hg. unfold nest_take_full_okb in H.
  apply andb_true_iff in H as [H H4]. apply andb_true_iff in H as [H H3]. apply andb_true_iff in H as [H1 H2].
  destruct (nest_take_okb_sound L sels tms views H1 H2 Hg) as [Hv Hs]. split; [exact Hv|]. split; [|exact Hs].
  intros o. rewrite map_map in H3.
  assert (H3' : sleaf_okb lv sels (map (@List.length _) tms) = true).
  { rewrite <- H3. f_equal. apply map_ext. intros tm. symmetry. apply map_length. }
  assert (Hlen : List.length sels = List.length tms).
  { unfold takes_okb in H2. apply andb_true_iff in H2 as [Hl _]. apply Nat.eqb_eq in Hl. rewrite map_length in Hl. exact Hl. }
  rewrite (run_lv_eq_S lv sels L tms Hlen H3'). apply nest_result_acc_S. exact H4.
Qed.

(* ---------- a single take term: no side condition on the selected operand ---------- *)
(* with one term the nest only visits coordinates at which the term is alive, so no operand is ever killed *)
Definition TInv1 (st : sterm) : Prop :=
  forallb (fun t => goodb (rem t) (cur t)) (snd st) = true /\
  match fst st with None => True | Some i => (i < List.length (snd st))%nat end.

Lemma TInv1_step r c st : term_alive r c (snd st) = true -> TInv1 st -> TInv1 (fst st, step_term r c (snd st)).
Proof.
  destruct st as [s tm]. unfold TInv1; cbn [fst snd]. intros Hal [Hg Hi]. rewrite (step_term_alive r c tm Hal). split.
  - rewrite (forallb_map_ext (fun t => goodb (rem t) (cur t)) (fun _ => true) (stepf r c) tm).
    + clear. induction tm; [reflexivity|assumption].
    + intros t Hin. rewrite forallb_forall in Hg. unfold stepf. destruct (participates r t) eqn:Hp; [|apply Hg; exact Hin].
      apply (good_advance r c t Hp (alive_has_coord r c tm t Hal Hin Hp) (Hg t Hin)).
  - destruct s; [rewrite map_length; exact Hi|exact I].
Qed.

Lemma TInv1_bottom st p : TInv1 st -> (forall t, In t (snd st) -> rem t = []) -> sden st p = sleaf st.
Proof.
  destruct st as [s tm]. unfold TInv1, sden, sleaf; cbn [fst snd]. intros [Hg Hi] Hbot. destruct s as [i|].
  2:{ apply term_leaf_den. exact Hbot. }
  assert (Hleaf : forall t, In t tm -> den (rem t) (cur t) p = leaf_val t).
  { intros t Hin. rewrite (Hbot t Hin). unfold leaf_val. destruct (cur t); reflexivity. }
  rewrite (Hleaf _ (nth_In tm dummy_t Hi)).
  assert (Hnz : forallb (nonzero_at p) tm = true).
  { rewrite forallb_forall in *. intros t Hin. unfold nonzero_at. rewrite (Hleaf t Hin). specialize (Hg t Hin).
    rewrite (Hbot t Hin) in Hg. unfold leaf_val. destruct (cur t) as [v|l]; cbn [goodb] in Hg; [exact Hg|discriminate]. }
  rewrite Hnz. reflexivity.
Qed.

Theorem runS1_sound : forall L st, wf L [snd st] -> TInv1 st -> forall p, sum_at p (runS L [st]) = sden st p.
Proof.
  induction L as [|r L IH]; intros st Hwf Hinv p.
  - cbn [runS sum_at fst snd matches forallb fold_right]. cbn in Hwf.
    rewrite (TInv1_bottom st p Hinv) by (intros t Ht; eapply (Hwf (snd st)); [left; reflexivity|exact Ht]). lia.
  - destruct Hwf as [Hpart Hwf]. cbn [runS map].
    rewrite sum_at_flat_map by apply NoDup_nodup.
    destruct (in_dec Z.eq_dec (p r) (visited r [snd st])) as [Hin|Hnin].
    + assert (Hal : term_alive r (p r) (snd st) = true).
      { apply (visited_spec r [snd st] Hpart) in Hin. cbn [existsb] in Hin. rewrite orb_false_r in Hin. exact Hin. }
      rewrite (IH (fst st, step_term r (p r) (snd st))).
      * apply sden_step. reflexivity.
      * apply (Hwf (p r)).
      * apply TInv1_step; assumption.
    + symmetry. pose proof (sbody_den_all_dead r (p r) [st] p eq_refl) as H. cbn [map sbody_den fold_right] in H.
      rewrite Z.add_0_r in H. apply H.
      destruct (existsb (term_alive r (p r)) [snd st]) eqn:E; [|reflexivity].
      exfalso. apply Hnin. apply visited_spec; assumption.
Qed.

(* certified validation of a single-term program (a product or a take with ANY selected operand) *)
Theorem nest_take1_full_okb_sound : forall L s tm views acc lv out,
  nest_take1_full_okb L (map rem tm) views s acc lv out = true ->
  forallb (fun t => goodb (rem t) (cur t)) tm = true ->
  views = expected_views L [map rem tm] /\
  (forall o, nest_result acc out o (run_lv lv L [tm]) = out_sum_at out o (runS L [(s, tm)])) /\
  (forall p, sum_at p (runS L [(s, tm)]) = sden (s, tm) p).
Proof.
  intros L s tm views acc lv out H Hg. unfold nest_take1_full_okb in H. rewrite map_length in H.
  apply andb_true_iff in H as [H H4]. apply andb_true_iff in H as [H H3]. apply andb_true_iff in H as [H1 H2].
  destruct (nest_okb_sound L [tm] views H1) as [Hv _]. split; [exact Hv|].
  unfold nest_okb in H1. apply andb_true_iff in H1 as [Hswf _].
  split.
  - intros o. rewrite (run_lv_eq_S lv [s] L [tm] eq_refl H3). apply nest_result_acc_S. exact H4.
  - apply (runS1_sound L (s, tm)).
    + apply (swf_wf L [tm]). exact Hswf.
    + split; [exact Hg|]. cbn [fst snd]. destruct s as [i|]; [apply Nat.ltb_lt; exact H2|exact I].
Qed.
