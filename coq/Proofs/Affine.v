(* Affine index expressions (C04): exact inversion over Z, and the binary64 evaluation of
   the emitted fractional projections (Python floats, modelled by PrimFloat in Model/Rt.v). *)
From Coq Require Import ZArith Lia List Bool PrimFloat.
Require Import TV.Model.Rt.
Import ListNotations.
Open Scope Z_scope.

(* solving w = a*q + r for q: the solution exists iff a divides w - r, and is unique *)
Theorem proj_inverse a q w r : a <> 0 -> (w = a * q + r <-> ((w - r) mod a = 0 /\ q = (w - r) / a)).
Proof.
  intros Ha. split.
  - intros ->. replace (a * q + r - r) with (q * a) by lia. split; [apply Z.mod_mul; exact Ha|].
    symmetry. apply Z.div_mul. exact Ha.
  - intros [Hm ->]. pose proof (Z.div_mod (w - r) a Ha). lia.
Qed.

(* the interval filter of project(): nothing outside [lo, hi) survives *)
Theorem interval_clip (lo hi : Z) (cs : list Z) :
  Forall (fun c => lo <= c < hi) (filter (fun c => (lo <=? c) && (c <? hi)) cs).
Proof.
  apply Forall_forall. intros c Hc. apply filter_In in Hc as [_ H].
  apply andb_true_iff in H as [H1 H2]. lia.
Qed.

(* ---- the emitted projection `-1 / d * q + 1 / d * w` evaluated in binary64 ---- *)
Definition fproj (d q w : Z) : float :=
  PrimFloat.add (PrimFloat.mul (PrimFloat.div (z2f (-1)) (z2f d)) (z2f q))
                (PrimFloat.mul (PrimFloat.div (z2f 1) (z2f d)) (z2f w)).

(* what `.prune(lambda i, c, p: c % 1 == 0)` keeps *)
Definition kept (f : float) : bool :=
  match nmod (NF f) (NI 1) with Some r => nis0 r | None => false end.

(* finding F11: for d = 3 an integral solution is pruned (q = 1, w = 7: 1.9999999999999998) *)
Theorem float_prune_refuted : exists q w, (w - q) mod 3 = 0 /\ 0 <= q /\ q <= w /\ kept (fproj 3 q w) = false.
Proof. exists 1, 7. vm_compute. repeat split; discriminate. Qed.

(* for denominators 1, 2 and 4 the float evaluation is exact on 0 <= q <= w < 128:
   integral solutions are kept with the right value, non-solutions are pruned *)
Definition fproj_exact_at (d q w : Z) : bool :=
  if (w - q) mod d =? 0
  then match f_integral (fproj d q w) with Some z => z =? (w - q) / d | None => false end
  else negb (kept (fproj d q w)).

Definition zs (n : nat) : list Z := zrange 0 n.
Definition sweep (d : Z) (n : nat) : bool :=
  forallb (fun q => forallb (fun w => (w <? q) || fproj_exact_at d q w) (zs n)) (zs n).

Lemma sweep_124 : sweep 1 128 && sweep 2 128 && sweep 4 128 = true.
Proof. vm_compute. reflexivity. Qed.

Lemma zs_In n z : In z (zs n) <-> 0 <= z < Z.of_nat n.
Proof.
  unfold zs. assert (G : forall n lo, In z (zrange lo n) <-> lo <= z < lo + Z.of_nat n).
  { clear n. induction n as [|n IH]; intros lo; cbn [zrange].
    - split; [intros []|lia].
    - cbn [In]. rewrite IH. lia. }
  rewrite G. lia.
Qed.

Theorem float_proj_exact_pow2 d q w : (d = 1 \/ d = 2 \/ d = 4) -> 0 <= q -> q <= w -> w < 128 ->
  fproj_exact_at d q w = true.
Proof.
  intros Hd Hq Hqw Hw. pose proof sweep_124 as S.
  apply andb_true_iff in S as [S S4]. apply andb_true_iff in S as [S1 S2].
  assert (G : forall d, sweep d 128 = true -> fproj_exact_at d q w = true).
  { intros d' H. unfold sweep in H. rewrite forallb_forall in H.
    assert (Hq' : In q (zs 128)) by (apply zs_In; lia). specialize (H q Hq').
    rewrite forallb_forall in H. assert (Hw' : In w (zs 128)) by (apply zs_In; lia). specialize (H w Hw').
    apply orb_true_iff in H as [H|H]; [lia|exact H]. }
  destruct Hd as [->|[->| ->]]; apply G; assumption.
Qed.
