(* Proofs about Model/Closed.v (C06): the definite-assignment analysis `da` is sound and
   complete for the path semantics `sem` (only WHICH names are bound is tracked, every
   control path is possible: a loop runs zero or more times, an `if` takes either branch).

     da_sound          : da B s = Some D -> no path reads an unbound name, and every path
                         ends with at least D bound;
     da_complete       : da B s = None   -> some path reads an unbound name.

   Everything is closed under the global context (no axioms). *)
From Coq Require Import List Bool PArith FSets.FSetPositive.
Require Import TV.Model.Py TV.Model.Closed.
Import ListNotations.

(* ------------------------------------------------------------------------------------ *)
(* Induction principles for the nested inductives of Model/Py.v                          *)

Section ExprInd.
  Variable P : expr -> Prop.
  Hypothesis HName : forall x, P (EName x).
  Hypothesis HInt : forall z, P (EInt z).
  Hypothesis HStr : forall s, P (EStr s).
  Hypothesis HBool : forall b, P (EBool b).
  Hypothesis HNone : P ENone.
  Hypothesis HBin : forall op a b, P a -> P b -> P (EBin op a b).
  Hypothesis HNeg : forall a, P a -> P (ENeg a).
  Hypothesis HCmp : forall op a b, P a -> P b -> P (ECmp op a b).
  Hypothesis HCall : forall f args kw, P f -> Forall P args -> Forall (fun p => P (snd p)) kw ->
                                       P (ECall f args kw).
  Hypothesis HAttr : forall a s, P a -> P (EAttr a s).
  Hypothesis HSub : forall a i, P a -> P i -> P (ESub a i).
  Hypothesis HTuple : forall l, Forall P l -> P (ETuple l).
  Hypothesis HList : forall l, Forall P l -> P (EList l).
  Hypothesis HDict : forall l, Forall (fun p => P (fst p) /\ P (snd p)) l -> P (EDict l).
  Hypothesis HLam : forall ps body, P body -> P (ELam ps body).
  Hypothesis HComp : forall elem x it, P elem -> P it -> P (EComp elem x it).

  Fixpoint expr_ind' (e : expr) : P e :=
    match e as e0 return P e0 with
    | EName x => HName x
    | EInt z => HInt z
    | EStr s => HStr s
    | EBool b => HBool b
    | ENone => HNone
    | EBin op a b => HBin op a b (expr_ind' a) (expr_ind' b)
    | ENeg a => HNeg a (expr_ind' a)
    | ECmp op a b => HCmp op a b (expr_ind' a) (expr_ind' b)
    | ECall f args kw =>
        HCall f args kw (expr_ind' f)
          ((fix go (l : list expr) : Forall P l :=
              match l with
              | [] => Forall_nil P
              | x :: l' => Forall_cons x (expr_ind' x) (go l')
              end) args)
          ((fix go (l : list (String.string * expr)) : Forall (fun p => P (snd p)) l :=
              match l with
              | [] => Forall_nil _
              | p :: l' => Forall_cons (P := fun p => P (snd p)) p
                             (match p as p0 return P (snd p0) with (_, x) => expr_ind' x end) (go l')
              end) kw)
    | EAttr a s => HAttr a s (expr_ind' a)
    | ESub a i => HSub a i (expr_ind' a) (expr_ind' i)
    | ETuple l =>
        HTuple l ((fix go (l : list expr) : Forall P l :=
                     match l with
                     | [] => Forall_nil P
                     | x :: l' => Forall_cons x (expr_ind' x) (go l')
                     end) l)
    | EList l =>
        HList l ((fix go (l : list expr) : Forall P l :=
                    match l with
                    | [] => Forall_nil P
                    | x :: l' => Forall_cons x (expr_ind' x) (go l')
                    end) l)
    | EDict l =>
        HDict l ((fix go (l : list (expr * expr)) : Forall (fun p => P (fst p) /\ P (snd p)) l :=
                    match l with
                    | [] => Forall_nil _
                    | p :: l' => Forall_cons (P := fun p => P (fst p) /\ P (snd p)) p
                                   (match p as p0 return P (fst p0) /\ P (snd p0) with
                                    | (k, v) => conj (expr_ind' k) (expr_ind' v) end) (go l')
                    end) l)
    | ELam ps body => HLam ps body (expr_ind' body)
    | EComp elem x it => HComp elem x it (expr_ind' elem) (expr_ind' it)
    end.
End ExprInd.

Section StmtInd.
  Variable P : stmt -> Prop.
  Hypothesis HAssign : forall t e, P (SAssign t e).
  Hypothesis HAug : forall op t e, P (SAug op t e).
  Hypothesis HExpr : forall e, P (SExpr e).
  Hypothesis HFor : forall p e body, Forall P body -> P (SFor p e body).
  Hypothesis HIf : forall c a b, Forall P a -> Forall P b -> P (SIf c a b).

  Fixpoint stmt_ind' (s : stmt) : P s :=
    let blk := fix go (l : list stmt) : Forall P l :=
                 match l with
                 | [] => Forall_nil P
                 | x :: l' => Forall_cons x (stmt_ind' x) (go l')
                 end in
    match s as s0 return P s0 with
    | SAssign t e => HAssign t e
    | SAug op t e => HAug op t e
    | SExpr e => HExpr e
    | SFor p e body => HFor p e body (blk body)
    | SIf c a b => HIf c a b (blk a) (blk b)
    end.
End StmtInd.

(* ------------------------------------------------------------------------------------ *)
(* 1. the inner block function of `da` is `da_block`                                     *)

Lemma da_inner_block_eq : forall ss B,
  (fix go (B : PS.t) (ss : list stmt) {struct ss} : option PS.t :=
     match ss with
     | [] => Some B
     | s :: ss' => match da B s with Some B' => go B' ss' | None => None end
     end) B ss = da_block B ss.
Proof.
  induction ss as [|s ss IH]; intros B; simpl.
  - reflexivity.
  - destruct (da B s) as [B'|]; [apply IH|reflexivity].
Qed.

Lemma da_for_eq : forall B p e body,
  da B (SFor p e body) =
  if expr_ok B e
  then match da_block (add_all (pat_vars p) B) body with Some _ => Some B | None => None end
  else None.
Proof.
  intros B p e body. simpl. rewrite da_inner_block_eq. reflexivity.
Qed.

Lemma da_if_eq : forall B c a b,
  da B (SIf c a b) =
  if expr_ok B c
  then match da_block B a, da_block B b with
       | Some Da, Some Db => Some (PS.inter Da Db)
       | _, _ => None
       end
  else None.
Proof.
  intros B c a b. simpl. rewrite !da_inner_block_eq. reflexivity.
Qed.

(* ------------------------------------------------------------------------------------ *)
(* 2. monotonicity                                                                       *)

(* `sub3 X Y Z` : X /\ Y is included in Z.  With X = Y this is PS.Subset X Z. *)
Definition sub3 (X Y Z : PS.t) : Prop := forall a, PS.In a X -> PS.In a Y -> PS.In a Z.

Lemma sub3_of_subset : forall X Z, PS.Subset X Z -> sub3 X X Z.
Proof. intros X Z H a Ha _. apply H, Ha. Qed.

Lemma sub3_inter : forall X Y, sub3 X Y (PS.inter X Y).
Proof. intros X Y a Ha Hb. apply PS.inter_spec. split; assumption. Qed.

Lemma sub3_add : forall x X Y Z, sub3 X Y Z -> sub3 (PS.add x X) (PS.add x Y) (PS.add x Z).
Proof.
  intros x X Y Z H a Ha Hb. apply PS.add_spec.
  apply PS.add_spec in Ha. apply PS.add_spec in Hb.
  destruct Ha as [Ha|Ha]; [left; exact Ha|].
  destruct Hb as [Hb|Hb]; [left; exact Hb|].
  right. apply H; assumption.
Qed.

Lemma sub3_add_all : forall xs X Y Z, sub3 X Y Z -> sub3 (add_all xs X) (add_all xs Y) (add_all xs Z).
Proof.
  induction xs as [|x xs IH]; intros X Y Z H; simpl.
  - exact H.
  - apply sub3_add, IH, H.
Qed.

Lemma sub3_mem : forall X Y Z x, sub3 X Y Z -> PS.mem x X = true -> PS.mem x Y = true -> PS.mem x Z = true.
Proof.
  intros X Y Z x H Hx Hy. apply PS.mem_1. apply H; apply PS.mem_2; assumption.
Qed.

Lemma subset_add : forall x B B1, PS.Subset B B1 -> PS.Subset (PS.add x B) (PS.add x B1).
Proof.
  intros x B B1 H a Ha. apply (sub3_add x B B B1 (sub3_of_subset _ _ H) a Ha Ha).
Qed.

Lemma subset_add_all : forall xs B B1, PS.Subset B B1 -> PS.Subset (add_all xs B) (add_all xs B1).
Proof.
  intros xs B B1 H a Ha. apply (sub3_add_all xs B B B1 (sub3_of_subset _ _ H) a Ha Ha).
Qed.

Lemma subset_add_r : forall x B, PS.Subset B (PS.add x B).
Proof. intros x B a Ha. apply PS.add_spec. right. exact Ha. Qed.

Lemma subset_add_all_r : forall xs B, PS.Subset B (add_all xs B).
Proof.
  induction xs as [|x xs IH]; intros B a Ha; simpl.
  - exact Ha.
  - apply PS.add_spec. right. apply IH, Ha.
Qed.

Lemma subset_refl : forall B, PS.Subset B B.
Proof. intros B a Ha. exact Ha. Qed.

Lemma subset_trans : forall A B C, PS.Subset A B -> PS.Subset B C -> PS.Subset A C.
Proof. intros A B C H1 H2 a Ha. apply H2, H1, Ha. Qed.

(* the anonymous list functions of expr_ok are forallb *)
Lemma kw_go_eq : forall B (kw : list (String.string * expr)),
  (fix go (kw : list (String.string * expr)) : bool :=
     match kw with [] => true | (_, e) :: kw' => expr_ok B e && go kw' end) kw
  = forallb (fun p => expr_ok B (snd p)) kw.
Proof.
  intros B. induction kw as [|[k e] kw IH]; simpl; [reflexivity|]. rewrite IH. reflexivity.
Qed.

Lemma dict_go_eq : forall B (l : list (expr * expr)),
  (fix go (l : list (expr * expr)) : bool :=
     match l with [] => true | (k, v) :: l' => expr_ok B k && expr_ok B v && go l' end) l
  = forallb (fun p => expr_ok B (fst p) && expr_ok B (snd p)) l.
Proof.
  intros B. induction l as [|[k v] l IH]; simpl; [reflexivity|]. rewrite IH. reflexivity.
Qed.

Lemma expr_ok_call_eq : forall B f args kw,
  expr_ok B (ECall f args kw) =
  expr_ok B f && forallb (expr_ok B) args && forallb (fun p => expr_ok B (snd p)) kw.
Proof. intros. simpl. rewrite kw_go_eq. reflexivity. Qed.

Lemma expr_ok_dict_eq : forall B l,
  expr_ok B (EDict l) = forallb (fun p => expr_ok B (fst p) && expr_ok B (snd p)) l.
Proof. intros. simpl. rewrite dict_go_eq. reflexivity. Qed.

Lemma forallb_3 : forall (A : Type) (f g h : A -> bool) (l : list A),
  Forall (fun x => f x = true -> g x = true -> h x = true) l ->
  forallb f l = true -> forallb g l = true -> forallb h l = true.
Proof.
  intros A f g h l HF. induction HF as [|x l Hx HF IH]; simpl; intros Hf Hg.
  - reflexivity.
  - apply andb_true_iff in Hf. apply andb_true_iff in Hg.
    destruct Hf as [Hf1 Hf2]. destruct Hg as [Hg1 Hg2].
    apply andb_true_iff. split; [apply Hx; assumption|apply IH; assumption].
Qed.

(* the central fact on expressions: closedness under X and under Y gives closedness
   under every Z that contains X /\ Y *)
Lemma expr_ok_sub3 : forall e X Y Z, sub3 X Y Z ->
  expr_ok X e = true -> expr_ok Y e = true -> expr_ok Z e = true.
Proof.
  induction e as
    [x|z|s|b| |op a b IHa IHb|a IHa|op a b IHa IHb|f args kw IHf IHargs IHkw|a s IHa
    |a i IHa IHi|l IHl|l IHl|l IHl|ps body IHbody|elem x it IHelem IHit] using expr_ind';
    intros X Y Z HS HX HY.
  - simpl in *. eapply sub3_mem; eassumption.
  - reflexivity.
  - reflexivity.
  - reflexivity.
  - reflexivity.
  - simpl in *. apply andb_true_iff in HX. apply andb_true_iff in HY.
    destruct HX as [HX1 HX2]. destruct HY as [HY1 HY2].
    apply andb_true_iff. split; [eapply IHa|eapply IHb]; eassumption.
  - simpl in *. eapply IHa; eassumption.
  - simpl in *. apply andb_true_iff in HX. apply andb_true_iff in HY.
    destruct HX as [HX1 HX2]. destruct HY as [HY1 HY2].
    apply andb_true_iff. split; [eapply IHa|eapply IHb]; eassumption.
  - rewrite expr_ok_call_eq in *.
    apply andb_true_iff in HX. destruct HX as [HX HX3].
    apply andb_true_iff in HX. destruct HX as [HX1 HX2].
    apply andb_true_iff in HY. destruct HY as [HY HY3].
    apply andb_true_iff in HY. destruct HY as [HY1 HY2].
    apply andb_true_iff. split; [apply andb_true_iff; split|].
    + eapply IHf; eassumption.
    + eapply forallb_3; [|exact HX2|exact HY2].
      eapply Forall_impl; [|exact IHargs]. intros a Ha Ha1 Ha2. eapply Ha; eassumption.
    + eapply forallb_3; [|exact HX3|exact HY3].
      eapply Forall_impl; [|exact IHkw]. intros a Ha Ha1 Ha2. simpl in *. eapply Ha; eassumption.
  - simpl in *. eapply IHa; eassumption.
  - simpl in *. apply andb_true_iff in HX. apply andb_true_iff in HY.
    destruct HX as [HX1 HX2]. destruct HY as [HY1 HY2].
    apply andb_true_iff. split; [eapply IHa|eapply IHi]; eassumption.
  - simpl in *. eapply forallb_3; [|exact HX|exact HY].
    eapply Forall_impl; [|exact IHl]. intros a Ha Ha1 Ha2. eapply Ha; eassumption.
  - simpl in *. eapply forallb_3; [|exact HX|exact HY].
    eapply Forall_impl; [|exact IHl]. intros a Ha Ha1 Ha2. eapply Ha; eassumption.
  - rewrite expr_ok_dict_eq in *. eapply forallb_3; [|exact HX|exact HY].
    eapply Forall_impl; [|exact IHl]. intros [k v] [Hk Hv] Ha1 Ha2. simpl in *.
    apply andb_true_iff in Ha1. apply andb_true_iff in Ha2.
    destruct Ha1 as [Ha1 Ha1']. destruct Ha2 as [Ha2 Ha2'].
    apply andb_true_iff. split; [eapply Hk|eapply Hv]; eassumption.
  - simpl in *. eapply IHbody; [|exact HX|exact HY]. apply (sub3_add_all ps), HS.
  - simpl in *. apply andb_true_iff in HX. apply andb_true_iff in HY.
    destruct HX as [HX1 HX2]. destruct HY as [HY1 HY2].
    apply andb_true_iff. split; [eapply IHit; eassumption|].
    eapply IHelem; [|exact HX2|exact HY2]. apply sub3_add, HS.
Qed.

Lemma expr_ok_mono : forall e B B1, PS.Subset B B1 -> expr_ok B e = true -> expr_ok B1 e = true.
Proof.
  intros e B B1 HS H. eapply expr_ok_sub3; [apply sub3_of_subset, HS|exact H|exact H].
Qed.

Lemma target_ok_sub3 : forall t X Y Z, sub3 X Y Z ->
  target_ok X t = true -> target_ok Y t = true -> target_ok Z t = true.
Proof.
  intros [x|a i] X Y Z HS HX HY; simpl in *; [reflexivity|].
  apply andb_true_iff in HX. apply andb_true_iff in HY.
  destruct HX as [HX1 HX2]. destruct HY as [HY1 HY2].
  apply andb_true_iff. split; eapply expr_ok_sub3; eassumption.
Qed.

Lemma target_ok_mono : forall t B B1, PS.Subset B B1 -> target_ok B t = true -> target_ok B1 t = true.
Proof.
  intros t B B1 HS H. eapply target_ok_sub3; [apply sub3_of_subset, HS|exact H|exact H].
Qed.

Definition aug_bound (B : PS.t) (t : target) : bool :=
  match t with TName x => PS.mem x B | TSub _ _ => true end.

Lemma aug_bound_sub3 : forall t X Y Z, sub3 X Y Z ->
  aug_bound X t = true -> aug_bound Y t = true -> aug_bound Z t = true.
Proof.
  intros [x|a i] X Y Z HS HX HY; simpl in *; [|reflexivity]. eapply sub3_mem; eassumption.
Qed.

Definition assign_out (B : PS.t) (t : target) : PS.t :=
  match t with TName x => PS.add x B | TSub _ _ => B end.

Lemma assign_out_sub3 : forall t X Y Z, sub3 X Y Z -> sub3 (assign_out X t) (assign_out Y t) (assign_out Z t).
Proof. intros [x|a i] X Y Z HS; simpl; [apply sub3_add, HS|exact HS]. Qed.

Lemma assign_out_ext : forall t B, PS.Subset B (assign_out B t).
Proof. intros [x|a i] B; simpl; [apply subset_add_r|apply subset_refl]. Qed.

(* statement-level unfoldings of da in terms of the helpers *)
Lemma da_assign_eq : forall B t e,
  da B (SAssign t e) = if expr_ok B e && target_ok B t then Some (assign_out B t) else None.
Proof. reflexivity. Qed.

Lemma da_aug_eq : forall B op t e,
  da B (SAug op t e) = if expr_ok B e && target_ok B t && aug_bound B t then Some B else None.
Proof. reflexivity. Qed.

Lemma da_expr_eq : forall B e, da B (SExpr e) = if expr_ok B e then Some B else None.
Proof. reflexivity. Qed.

Definition da_mono_stmt (s : stmt) : Prop :=
  forall B B1 D, PS.Subset B B1 -> da B s = Some D -> exists D1, da B1 s = Some D1 /\ PS.Subset D D1.

Lemma da_block_mono_of : forall ss, Forall da_mono_stmt ss ->
  forall B B1 D, PS.Subset B B1 -> da_block B ss = Some D ->
  exists D1, da_block B1 ss = Some D1 /\ PS.Subset D D1.
Proof.
  intros ss HF. induction HF as [|s ss Hs HF IH]; intros B B1 D HS HD; simpl in *.
  - inversion HD; subst. exists B1. split; [reflexivity|exact HS].
  - destruct (da B s) as [B'|] eqn:E; [|discriminate].
    destruct (Hs B B1 B' HS E) as [B1' [E1 HS1]]. rewrite E1.
    eapply IH; eassumption.
Qed.

Lemma da_mono : forall s B B1 D, PS.Subset B B1 -> da B s = Some D ->
  exists D1, da B1 s = Some D1 /\ PS.Subset D D1.
Proof.
  induction s as [t e|op t e|e|p e body IHbody|c a b IHa IHb] using stmt_ind';
    intros B B1 D HS HD.
  - rewrite da_assign_eq in *.
    destruct (expr_ok B e && target_ok B t) eqn:E; [|discriminate]. inversion HD; subst.
    apply andb_true_iff in E. destruct E as [E1 E2].
    rewrite (expr_ok_mono _ _ _ HS E1), (target_ok_mono _ _ _ HS E2). simpl.
    eexists. split; [reflexivity|].
    intros x Hx. apply (assign_out_sub3 t B B B1 (sub3_of_subset _ _ HS) x Hx Hx).
  - rewrite da_aug_eq in *.
    destruct (expr_ok B e && target_ok B t && aug_bound B t) eqn:E; [|discriminate]. inversion HD; subst.
    apply andb_true_iff in E. destruct E as [E E3].
    apply andb_true_iff in E. destruct E as [E1 E2].
    rewrite (expr_ok_mono _ _ _ HS E1), (target_ok_mono _ _ _ HS E2).
    rewrite (aug_bound_sub3 t D D B1 (sub3_of_subset _ _ HS) E3 E3). simpl.
    eexists. split; [reflexivity|exact HS].
  - rewrite da_expr_eq in *.
    destruct (expr_ok B e) eqn:E; [|discriminate]. inversion HD; subst.
    rewrite (expr_ok_mono _ _ _ HS E). eexists. split; [reflexivity|exact HS].
  - rewrite da_for_eq in *.
    destruct (expr_ok B e) eqn:E; [|discriminate].
    rewrite (expr_ok_mono _ _ _ HS E).
    destruct (da_block (add_all (pat_vars p) B) body) as [D0|] eqn:E0; [|discriminate].
    inversion HD; subst.
    destruct (da_block_mono_of body IHbody _ (add_all (pat_vars p) B1) _
                (subset_add_all _ _ _ HS) E0) as [D1 [E1 _]].
    rewrite E1. eexists. split; [reflexivity|exact HS].
  - rewrite da_if_eq in *.
    destruct (expr_ok B c) eqn:E; [|discriminate].
    rewrite (expr_ok_mono _ _ _ HS E).
    destruct (da_block B a) as [Da|] eqn:Ea; [|discriminate].
    destruct (da_block B b) as [Db|] eqn:Eb; [|discriminate].
    inversion HD; subst.
    destruct (da_block_mono_of a IHa _ _ _ HS Ea) as [Da1 [Ea1 HSa]].
    destruct (da_block_mono_of b IHb _ _ _ HS Eb) as [Db1 [Eb1 HSb]].
    rewrite Ea1, Eb1. eexists. split; [reflexivity|].
    intros x Hx. apply PS.inter_spec in Hx. destruct Hx as [Hx1 Hx2].
    apply PS.inter_spec. split; [apply HSa, Hx1|apply HSb, Hx2].
Qed.

Lemma Forall_all : forall (A : Type) (P : A -> Prop), (forall x, P x) -> forall l, Forall P l.
Proof. intros A P H l. induction l as [|x l IH]; constructor; [apply H|exact IH]. Qed.

Lemma da_block_mono : forall ss B B1 D, PS.Subset B B1 -> da_block B ss = Some D ->
  exists D1, da_block B1 ss = Some D1 /\ PS.Subset D D1.
Proof.
  intros ss. apply da_block_mono_of. apply Forall_all. exact da_mono.
Qed.

(* the analysis only adds names *)
Definition da_ext_stmt (s : stmt) : Prop := forall B D, da B s = Some D -> PS.Subset B D.

Lemma da_block_ext_of : forall ss, Forall da_ext_stmt ss ->
  forall B D, da_block B ss = Some D -> PS.Subset B D.
Proof.
  intros ss HF. induction HF as [|s ss Hs HF IH]; intros B D HD; simpl in *.
  - inversion HD; subst. apply subset_refl.
  - destruct (da B s) as [B'|] eqn:E; [|discriminate].
    eapply subset_trans; [apply (Hs _ _ E)|apply IH, HD].
Qed.

Lemma da_ext : forall s B D, da B s = Some D -> PS.Subset B D.
Proof.
  induction s as [t e|op t e|e|p e body IHbody|c a b IHa IHb] using stmt_ind'; intros B D HD.
  - rewrite da_assign_eq in HD. destruct (expr_ok B e && target_ok B t); [|discriminate].
    inversion HD; subst. apply assign_out_ext.
  - rewrite da_aug_eq in HD. destruct (expr_ok B e && target_ok B t && aug_bound B t); [|discriminate].
    inversion HD; subst. apply subset_refl.
  - rewrite da_expr_eq in HD. destruct (expr_ok B e); [|discriminate].
    inversion HD; subst. apply subset_refl.
  - rewrite da_for_eq in HD. destruct (expr_ok B e); [|discriminate].
    destruct (da_block (add_all (pat_vars p) B) body); [|discriminate].
    inversion HD; subst. apply subset_refl.
  - rewrite da_if_eq in HD. destruct (expr_ok B c); [|discriminate].
    destruct (da_block B a) as [Da|] eqn:Ea; [|discriminate].
    destruct (da_block B b) as [Db|] eqn:Eb; [|discriminate].
    inversion HD; subst. intros x Hx. apply PS.inter_spec. split.
    + apply (da_block_ext_of a IHa _ _ Ea), Hx.
    + apply (da_block_ext_of b IHb _ _ Eb), Hx.
Qed.

Lemma da_block_ext : forall ss B D, da_block B ss = Some D -> PS.Subset B D.
Proof. intros ss. apply da_block_ext_of. apply Forall_all. exact da_ext. Qed.

(* ------------------------------------------------------------------------------------ *)
(* 3. soundness                                                                          *)

Definition sound_stmt (s : stmt) : Prop :=
  forall B D, da B s = Some D ->
    ~ sem B s Unbound /\ (forall B', sem B s (Fine B') -> PS.Subset D B').

Definition sound_block (ss : list stmt) : Prop :=
  forall B D, da_block B ss = Some D ->
    ~ sem_block B ss Unbound /\ (forall B', sem_block B ss (Fine B') -> PS.Subset D B').

Lemma sound_block_of : forall ss, Forall sound_stmt ss -> sound_block ss.
Proof.
  intros ss HF. induction HF as [|s ss Hs HF IH]; intros B D HD; simpl in HD.
  - inversion HD; subst. split.
    + intros H. inversion H.
    + intros B' H. inversion H; subst. apply subset_refl.
  - destruct (da B s) as [D1|] eqn:E; [|discriminate].
    destruct (Hs B D1 E) as [Hn Hf]. split.
    + intros H. inversion H as [|B0 s0 ss0 B1 o Hs1 Hss1|B0 s0 ss0 Hs1]; subst.
      * destruct (da_block_mono ss D1 B1 D (Hf _ Hs1) HD) as [D' [E' _]].
        destruct (IH B1 D' E') as [Hn' _]. apply Hn', Hss1.
      * apply Hn, Hs1.
    + intros B' H. inversion H as [|B0 s0 ss0 B1 o Hs1 Hss1|]; subst.
      destruct (da_block_mono ss D1 B1 D (Hf _ Hs1) HD) as [D' [E' HS']].
      destruct (IH B1 D' E') as [_ Hf']. eapply subset_trans; [exact HS'|apply Hf', Hss1].
Qed.

(* loops: any number of iterations, started from any superset of B, stays above B and
   never reads an unbound name *)
Lemma sound_loop : forall B1 p body o, sem_loop B1 p body o ->
  forall B D0, sound_block body -> da_block (add_all (pat_vars p) B) body = Some D0 ->
  PS.Subset B B1 ->
  o <> Unbound /\ (forall B', o = Fine B' -> PS.Subset B B').
Proof.
  intros B1 p body o Hl.
  induction Hl as [B1 p body|B1 p body B2 o Hb Hl IH|B1 p body Hb]; intros B D0 Hbody HD HS.
  - split; [discriminate|]. intros B' E. inversion E; subst. exact HS.
  - destruct (da_block_mono body _ (add_all (pat_vars p) B1) _ (subset_add_all _ _ _ HS) HD)
      as [D1 [E1 _]].
    destruct (Hbody _ _ E1) as [_ Hf].
    apply (IH B D0 Hbody HD).
    eapply subset_trans; [exact HS|].
    eapply subset_trans; [apply (subset_add_all_r (pat_vars p))|].
    eapply subset_trans; [apply (da_block_ext _ _ _ E1)|]. apply Hf, Hb.
  - destruct (da_block_mono body _ (add_all (pat_vars p) B1) _ (subset_add_all _ _ _ HS) HD)
      as [D1 [E1 _]].
    destruct (Hbody _ _ E1) as [Hn _]. exfalso. apply Hn, Hb.
Qed.

Theorem da_sound : forall s B D, da B s = Some D ->
  ~ sem B s Unbound /\ (forall B', sem B s (Fine B') -> PS.Subset D B').
Proof.
  induction s as [t e|op t e|e|p e body IHbody|c a b IHa IHb] using stmt_ind'; intros B D HD.
  - rewrite da_assign_eq in HD.
    destruct (expr_ok B e && target_ok B t) eqn:E; [|discriminate]. inversion HD; subst. split.
    + intros H. inversion H as [| |B0 t0 e0 E0| | | | | | | | |]; subst. rewrite E in E0. discriminate.
    + intros B' H. inversion H; subst; apply subset_refl.
  - rewrite da_aug_eq in HD.
    destruct (expr_ok B e && target_ok B t && aug_bound B t) eqn:E; [|discriminate]. inversion HD; subst. split.
    + intros H. inversion H as [| | | |B0 op0 t0 e0 E0| | | | | | |]; subst.
      unfold aug_bound in E. rewrite E in E0. discriminate.
    + intros B' H. inversion H; subst; apply subset_refl.
  - rewrite da_expr_eq in HD.
    destruct (expr_ok B e) eqn:E; [|discriminate]. inversion HD; subst. split.
    + intros H. inversion H as [| | | | | |B0 e0 E0| | | | |]; subst. rewrite E in E0. discriminate.
    + intros B' H. inversion H; subst; apply subset_refl.
  - rewrite da_for_eq in HD.
    destruct (expr_ok B e) eqn:E; [|discriminate].
    destruct (da_block (add_all (pat_vars p) B) body) as [D0|] eqn:E0; [|discriminate].
    inversion HD; subst.
    assert (Hbody : sound_block body) by (apply sound_block_of, IHbody).
    split.
    + intros H. inversion H as [| | | | | | |B0 p0 e0 b0 E1|B0 p0 e0 b0 o E1 Hl| | |]; subst.
      * rewrite E in E1. discriminate.
      * destruct (sound_loop _ _ _ _ Hl D D0 Hbody E0 (subset_refl _)) as [Hn _]. apply Hn. reflexivity.
    + intros B' H. inversion H as [| | | | | | | |B0 p0 e0 b0 o E1 Hl| | |]; subst.
      destruct (sound_loop _ _ _ _ Hl D D0 Hbody E0 (subset_refl _)) as [_ Hf]. apply Hf. reflexivity.
  - rewrite da_if_eq in HD.
    destruct (expr_ok B c) eqn:E; [|discriminate].
    destruct (da_block B a) as [Da|] eqn:Ea; [|discriminate].
    destruct (da_block B b) as [Db|] eqn:Eb; [|discriminate].
    inversion HD; subst.
    destruct (sound_block_of a IHa _ _ Ea) as [Hna Hfa].
    destruct (sound_block_of b IHb _ _ Eb) as [Hnb Hfb].
    split.
    + intros H. inversion H as [| | | | | | | | |B0 c0 a0 b0 E1|B0 c0 a0 b0 o E1 Hb|B0 c0 a0 b0 o E1 Hb]; subst.
      * rewrite E in E1. discriminate.
      * apply Hna, Hb.
      * apply Hnb, Hb.
    + intros B' H. inversion H as [| | | | | | | | | |B0 c0 a0 b0 o E1 Hb|B0 c0 a0 b0 o E1 Hb]; subst;
        intros x Hx; apply PS.inter_spec in Hx; destruct Hx as [Hx1 Hx2].
      * apply (Hfa _ Hb), Hx1.
      * apply (Hfb _ Hb), Hx2.
Qed.

Theorem da_block_sound : forall ss B D, da_block B ss = Some D ->
  ~ sem_block B ss Unbound /\ (forall B', sem_block B ss (Fine B') -> PS.Subset D B').
Proof. intros ss. apply sound_block_of. apply Forall_all. exact da_sound. Qed.

(* what soundness means for a loop on its own: started with at least B bound, any number
   of iterations of an accepted body reads no unbound name and keeps B bound *)
Theorem da_loop_sound : forall B p body D0, da_block (add_all (pat_vars p) B) body = Some D0 ->
  forall B1, PS.Subset B B1 ->
  ~ sem_loop B1 p body Unbound /\ (forall B', sem_loop B1 p body (Fine B') -> PS.Subset B B').
Proof.
  intros B p body D0 HD B1 HS. split.
  - intros Hl. destruct (sound_loop _ _ _ _ Hl B D0 (da_block_sound body) HD HS) as [Hn _].
    apply Hn. reflexivity.
  - intros B' Hl. destruct (sound_loop _ _ _ _ Hl B D0 (da_block_sound body) HD HS) as [_ Hf].
    apply Hf. reflexivity.
Qed.

(* ------------------------------------------------------------------------------------ *)
(* 4. completeness                                                                       *)

(* 4a. The path semantics splits over intersections: a path from Z (with X /\ Y inside Z)
   can be followed from X and from Y; either one of them reads an unbound name on the
   way, or both arrive, and then the intersection of the arrival sets is inside the
   arrival set of the original path. *)
Definition split_out (semX semY : outcome -> Prop) (o : outcome) : Prop :=
  match o with
  | Unbound => semX Unbound \/ semY Unbound
  | Fine Z' => semX Unbound \/ semY Unbound \/
               exists X' Y', semX (Fine X') /\ semY (Fine Y') /\ sub3 X' Y' Z'
  end.

Lemma split_out_l : forall (semX semY : outcome -> Prop) o, semX Unbound -> split_out semX semY o.
Proof. intros semX semY [Z'|] H; simpl; left; exact H. Qed.

Lemma split_out_r : forall (semX semY : outcome -> Prop) o, semY Unbound -> split_out semX semY o.
Proof. intros semX semY [Z'|] H; simpl; [right; left|right]; exact H. Qed.

Lemma split_out_map : forall (semX semY semX' semY' : outcome -> Prop) o,
  (forall o', semX o' -> semX' o') -> (forall o', semY o' -> semY' o') ->
  split_out semX semY o -> split_out semX' semY' o.
Proof.
  intros semX semY semX' semY' [Z'|] HX HY H; simpl in *.
  - destruct H as [H|[H|[X' [Y' [H1 [H2 H3]]]]]].
    + left. apply HX, H.
    + right. left. apply HY, H.
    + right. right. exists X', Y'. split; [apply HX, H1|]. split; [apply HY, H2|exact H3].
  - destruct H as [H|H]; [left; apply HX, H|right; apply HY, H].
Qed.

Lemma split_out_fine : forall (semX semY : outcome -> Prop) X' Y' Z',
  semX (Fine X') -> semY (Fine Y') -> sub3 X' Y' Z' -> split_out semX semY (Fine Z').
Proof. intros. simpl. right. right. exists X', Y'. split; [assumption|]. split; assumption. Qed.

Scheme sem_min := Minimality for sem Sort Prop
  with sem_loop_min := Minimality for sem_loop Sort Prop
  with sem_block_min := Minimality for sem_block Sort Prop.
Combined Scheme sem_mutind from sem_min, sem_loop_min, sem_block_min.

Definition assign_guard (B : PS.t) (t : target) (e : expr) : bool := expr_ok B e && target_ok B t.
Definition aug_guard (B : PS.t) (t : target) (e : expr) : bool :=
  expr_ok B e && target_ok B t && aug_bound B t.

Lemma assign_guard_sub3 : forall t e X Y Z, sub3 X Y Z ->
  assign_guard X t e = true -> assign_guard Y t e = true -> assign_guard Z t e = true.
Proof.
  unfold assign_guard. intros t e X Y Z HS HX HY.
  apply andb_true_iff in HX. apply andb_true_iff in HY.
  destruct HX as [HX1 HX2]. destruct HY as [HY1 HY2].
  apply andb_true_iff. split; [eapply expr_ok_sub3|eapply target_ok_sub3]; eassumption.
Qed.

Lemma aug_guard_sub3 : forall t e X Y Z, sub3 X Y Z ->
  aug_guard X t e = true -> aug_guard Y t e = true -> aug_guard Z t e = true.
Proof.
  unfold aug_guard. intros t e X Y Z HS HX HY.
  apply andb_true_iff in HX. apply andb_true_iff in HY.
  destruct HX as [HX HX3]. destruct HY as [HY HY3].
  apply andb_true_iff. split; [eapply (assign_guard_sub3 t e)|eapply aug_bound_sub3]; eassumption.
Qed.

Lemma sem_split :
  (forall Z s o, sem Z s o ->
     forall X Y, sub3 X Y Z -> split_out (sem X s) (sem Y s) o) /\
  (forall Z p body o, sem_loop Z p body o ->
     forall X Y, sub3 X Y Z -> split_out (sem_loop X p body) (sem_loop Y p body) o) /\
  (forall Z ss o, sem_block Z ss o ->
     forall X Y, sub3 X Y Z -> split_out (sem_block X ss) (sem_block Y ss) o).
Proof.
  apply sem_mutind.
  - (* assign name *)
    intros B x e HB X Y HS.
    destruct (expr_ok X e) eqn:EX.
    + destruct (expr_ok Y e) eqn:EY.
      * eapply split_out_fine; [apply sem_assign_name, EX|apply sem_assign_name, EY|apply sub3_add, HS].
      * apply split_out_r. apply sem_assign_unb. rewrite EY. reflexivity.
    + apply split_out_l. apply sem_assign_unb. rewrite EX. reflexivity.
  - (* assign sub *)
    intros B a i e HB1 HB2 X Y HS.
    destruct (assign_guard X (TSub a i) e) eqn:EX.
    + destruct (assign_guard Y (TSub a i) e) eqn:EY.
      * unfold assign_guard in EX, EY.
        apply andb_true_iff in EX. apply andb_true_iff in EY.
        destruct EX as [EX1 EX2]. destruct EY as [EY1 EY2].
        eapply split_out_fine; [apply sem_assign_sub; assumption|apply sem_assign_sub; assumption|exact HS].
      * apply split_out_r. apply sem_assign_unb. exact EY.
    + apply split_out_l. apply sem_assign_unb. exact EX.
  - (* assign unbound *)
    intros B t e HB X Y HS. simpl.
    destruct (assign_guard X t e) eqn:EX.
    + destruct (assign_guard Y t e) eqn:EY.
      * pose proof (assign_guard_sub3 t e X Y B HS EX EY) as HZ.
        unfold assign_guard in HZ. rewrite HZ in HB. discriminate.
      * right. apply sem_assign_unb. exact EY.
    + left. apply sem_assign_unb. exact EX.
  - (* aug ok *)
    intros B op t e HB X Y HS.
    destruct (aug_guard X t e) eqn:EX.
    + destruct (aug_guard Y t e) eqn:EY.
      * eapply split_out_fine; [apply sem_aug_ok, EX|apply sem_aug_ok, EY|exact HS].
      * apply split_out_r. apply sem_aug_unb. exact EY.
    + apply split_out_l. apply sem_aug_unb. exact EX.
  - (* aug unbound *)
    intros B op t e HB X Y HS. simpl.
    destruct (aug_guard X t e) eqn:EX.
    + destruct (aug_guard Y t e) eqn:EY.
      * pose proof (aug_guard_sub3 t e X Y B HS EX EY) as HZ.
        unfold aug_guard, aug_bound in HZ. rewrite HZ in HB. discriminate.
      * right. apply sem_aug_unb. exact EY.
    + left. apply sem_aug_unb. exact EX.
  - (* expr ok *)
    intros B e HB X Y HS.
    destruct (expr_ok X e) eqn:EX.
    + destruct (expr_ok Y e) eqn:EY.
      * eapply split_out_fine; [apply sem_expr_ok, EX|apply sem_expr_ok, EY|exact HS].
      * apply split_out_r. apply sem_expr_unb, EY.
    + apply split_out_l. apply sem_expr_unb, EX.
  - (* expr unbound *)
    intros B e HB X Y HS. simpl.
    destruct (expr_ok X e) eqn:EX.
    + destruct (expr_ok Y e) eqn:EY.
      * rewrite (expr_ok_sub3 e X Y B HS EX EY) in HB. discriminate.
      * right. apply sem_expr_unb, EY.
    + left. apply sem_expr_unb, EX.
  - (* for: iterable unbound *)
    intros B p e body HB X Y HS. simpl.
    destruct (expr_ok X e) eqn:EX.
    + destruct (expr_ok Y e) eqn:EY.
      * rewrite (expr_ok_sub3 e X Y B HS EX EY) in HB. discriminate.
      * right. apply sem_for_unb_iter, EY.
    + left. apply sem_for_unb_iter, EX.
  - (* for: iterations *)
    intros B p e body o HB Hl IHl X Y HS.
    destruct (expr_ok X e) eqn:EX.
    + destruct (expr_ok Y e) eqn:EY.
      * eapply split_out_map; [| |apply (IHl X Y HS)]; intros o' Ho'; apply sem_for_iters; assumption.
      * apply split_out_r. apply sem_for_unb_iter, EY.
    + apply split_out_l. apply sem_for_unb_iter, EX.
  - (* if: condition unbound *)
    intros B c a b HB X Y HS. simpl.
    destruct (expr_ok X c) eqn:EX.
    + destruct (expr_ok Y c) eqn:EY.
      * rewrite (expr_ok_sub3 c X Y B HS EX EY) in HB. discriminate.
      * right. apply sem_if_unb, EY.
    + left. apply sem_if_unb, EX.
  - (* if: then *)
    intros B c a b o HB Hb IHb X Y HS.
    destruct (expr_ok X c) eqn:EX.
    + destruct (expr_ok Y c) eqn:EY.
      * eapply split_out_map; [| |apply (IHb X Y HS)]; intros o' Ho'; apply sem_if_then; assumption.
      * apply split_out_r. apply sem_if_unb, EY.
    + apply split_out_l. apply sem_if_unb, EX.
  - (* if: else *)
    intros B c a b o HB Hb IHb X Y HS.
    destruct (expr_ok X c) eqn:EX.
    + destruct (expr_ok Y c) eqn:EY.
      * eapply split_out_map; [| |apply (IHb X Y HS)]; intros o' Ho'; apply sem_if_else; assumption.
      * apply split_out_r. apply sem_if_unb, EY.
    + apply split_out_l. apply sem_if_unb, EX.
  - (* loop: done *)
    intros B p body X Y HS.
    eapply split_out_fine; [apply loop_done|apply loop_done|exact HS].
  - (* loop: one more iteration *)
    intros B p body B1 o Hb IHb Hl IHl X Y HS.
    pose proof (IHb _ _ (sub3_add_all (pat_vars p) X Y B HS)) as Hsp. simpl in Hsp.
    destruct Hsp as [H|[H|[X' [Y' [H1 [H2 H3]]]]]].
    + apply split_out_l. apply loop_unb, H.
    + apply split_out_r. apply loop_unb, H.
    + eapply split_out_map; [| |apply (IHl X' Y' H3)]; intros o' Ho'; eapply loop_iter; eassumption.
  - (* loop: body unbound *)
    intros B p body Hb IHb X Y HS.
    pose proof (IHb _ _ (sub3_add_all (pat_vars p) X Y B HS)) as Hsp. simpl in *.
    destruct Hsp as [H|H]; [left|right]; apply loop_unb, H.
  - (* block: nil *)
    intros B X Y HS.
    eapply split_out_fine; [apply block_nil|apply block_nil|exact HS].
  - (* block: cons *)
    intros B s ss B1 o Hs IHs Hss IHss X Y HS.
    pose proof (IHs X Y HS) as Hsp. simpl in Hsp.
    destruct Hsp as [H|[H|[X' [Y' [H1 [H2 H3]]]]]].
    + apply split_out_l. apply block_unb, H.
    + apply split_out_r. apply block_unb, H.
    + eapply split_out_map; [| |apply (IHss X' Y' H3)]; intros o' Ho'; eapply block_cons; eassumption.
  - (* block: head unbound *)
    intros B s ss Hs IHs X Y HS.
    pose proof (IHs X Y HS) as Hsp. simpl in *.
    destruct Hsp as [H|H]; [left|right]; apply block_unb, H.
Qed.

Lemma sem_block_unb_sub3 : forall X Y Z k, sub3 X Y Z ->
  sem_block Z k Unbound -> sem_block X k Unbound \/ sem_block Y k Unbound.
Proof.
  intros X Y Z k HS H. destruct sem_split as [_ [_ Hb]]. exact (Hb Z k Unbound H X Y HS).
Qed.

(* an unbound read stays unbound when fewer names are bound at the start *)
Lemma sem_block_unb_anti : forall X Z k, PS.Subset X Z -> sem_block Z k Unbound -> sem_block X k Unbound.
Proof.
  intros X Z k HS H.
  destruct (sem_block_unb_sub3 X X Z k (sub3_of_subset _ _ HS) H) as [H'|H']; exact H'.
Qed.

(* 4b. sequencing of blocks *)
Lemma sem_block_app_fine : forall ss B B2 k o,
  sem_block B ss (Fine B2) -> sem_block B2 k o -> sem_block B (ss ++ k) o.
Proof.
  induction ss as [|s ss IH]; intros B B2 k o H Hk; simpl.
  - inversion H; subst. exact Hk.
  - inversion H as [|B0 s0 ss0 B1 o0 Hs Hss|]; subst.
    eapply block_cons; [exact Hs|]. eapply IH; eassumption.
Qed.

Lemma sem_block_app_inv : forall ss B k o, sem_block B (ss ++ k) o ->
  (o = Unbound /\ sem_block B ss Unbound) \/
  (exists B2, sem_block B ss (Fine B2) /\ sem_block B2 k o).
Proof.
  induction ss as [|s ss IH]; intros B k o H; simpl in H.
  - right. exists B. split; [apply block_nil|exact H].
  - inversion H as [|B0 s0 ss0 B1 o0 Hs Hss|B0 s0 ss0 Hs]; subst.
    + destruct (IH _ _ _ Hss) as [[Eo Hu]|[B2 [H1 H2]]].
      * left. split; [exact Eo|]. eapply block_cons; [exact Hs|exact Hu].
      * right. exists B2. split; [|exact H2]. eapply block_cons; eassumption.
    + left. split; [reflexivity|]. apply block_unb, Hs.
Qed.

(* 4c. an accepted statement has a path to a state from which the continuation still
   fails, whenever the continuation fails from the analysis result *)
Definition K_stmt (s : stmt) : Prop :=
  forall B D k, da B s = Some D -> sem_block D k Unbound ->
    exists B1, sem B s (Fine B1) /\ sem_block B1 k Unbound.

Definition K_block (ss : list stmt) : Prop :=
  forall B D k, da_block B ss = Some D -> sem_block D k Unbound ->
    exists B1, sem_block B ss (Fine B1) /\ sem_block B1 k Unbound.

Lemma K_block_of : forall ss, Forall K_stmt ss -> K_block ss.
Proof.
  intros ss HF. induction HF as [|s ss Hs HF IH]; intros B D k HD Hk; simpl in HD.
  - inversion HD; subst. exists D. split; [apply block_nil|exact Hk].
  - destruct (da B s) as [D1|] eqn:E; [|discriminate].
    destruct (IH D1 D k HD Hk) as [B2 [H1 H2]].
    destruct (Hs B D1 (ss ++ k) E (sem_block_app_fine _ _ _ _ _ H1 H2)) as [B1 [Hs1 Hrest]].
    destruct (sem_block_app_inv _ _ _ _ Hrest) as [[_ Hu]|[B3 [H3 H4]]].
    + exfalso.
      destruct (da_sound s B D1 E) as [_ Hf].
      destruct (da_block_mono ss D1 B1 D (Hf _ Hs1) HD) as [D' [E' _]].
      destruct (da_block_sound ss B1 D' E') as [Hn _]. apply Hn, Hu.
    + exists B3. split; [|exact H4]. eapply block_cons; eassumption.
Qed.

Lemma K_all : forall s, K_stmt s.
Proof.
  induction s as [t e|op t e|e|p e body IHbody|c a b IHa IHb] using stmt_ind'; intros B D k HD Hk.
  - rewrite da_assign_eq in HD.
    destruct (expr_ok B e && target_ok B t) eqn:E; [|discriminate]. inversion HD; subst.
    exists (assign_out B t). split; [|exact Hk].
    apply andb_true_iff in E. destruct E as [E1 E2].
    destruct t as [x|a i]; simpl; [apply sem_assign_name|apply sem_assign_sub]; assumption.
  - rewrite da_aug_eq in HD.
    destruct (expr_ok B e && target_ok B t && aug_bound B t) eqn:E; [|discriminate]. inversion HD; subst.
    exists D. split; [|exact Hk]. apply sem_aug_ok. exact E.
  - rewrite da_expr_eq in HD.
    destruct (expr_ok B e) eqn:E; [|discriminate]. inversion HD; subst.
    exists D. split; [|exact Hk]. apply sem_expr_ok, E.
  - rewrite da_for_eq in HD.
    destruct (expr_ok B e) eqn:E; [|discriminate].
    destruct (da_block (add_all (pat_vars p) B) body) as [D0|] eqn:E0; [|discriminate].
    inversion HD; subst.
    exists D. split; [|exact Hk]. apply sem_for_iters; [exact E|apply loop_done].
  - rewrite da_if_eq in HD.
    destruct (expr_ok B c) eqn:E; [|discriminate].
    destruct (da_block B a) as [Da|] eqn:Ea; [|discriminate].
    destruct (da_block B b) as [Db|] eqn:Eb; [|discriminate].
    inversion HD; subst.
    destruct (sem_block_unb_sub3 Da Db _ k (sub3_inter Da Db) Hk) as [H|H].
    + destruct (K_block_of a IHa B Da k Ea H) as [B1 [H1 H2]].
      exists B1. split; [|exact H2]. apply sem_if_then; assumption.
    + destruct (K_block_of b IHb B Db k Eb H) as [B1 [H1 H2]].
      exists B1. split; [|exact H2]. apply sem_if_else; assumption.
Qed.

(* 4d. completeness *)
Definition complete_stmt (s : stmt) : Prop := forall B, da B s = None -> sem B s Unbound.

Lemma complete_block_of : forall ss, Forall complete_stmt ss ->
  forall B, da_block B ss = None -> sem_block B ss Unbound.
Proof.
  intros ss HF. induction HF as [|s ss Hs HF IH]; intros B HD; simpl in HD.
  - discriminate.
  - destruct (da B s) as [D1|] eqn:E.
    + destruct (K_all s B D1 ss E (IH D1 HD)) as [B1 [H1 H2]].
      eapply block_cons; eassumption.
    + apply block_unb, Hs, E.
Qed.

Theorem da_complete : forall s B, da B s = None -> sem B s Unbound.
Proof.
  induction s as [t e|op t e|e|p e body IHbody|c a b IHa IHb] using stmt_ind'; intros B HD.
  - rewrite da_assign_eq in HD.
    destruct (expr_ok B e && target_ok B t) eqn:E; [discriminate|]. apply sem_assign_unb, E.
  - rewrite da_aug_eq in HD.
    destruct (expr_ok B e && target_ok B t && aug_bound B t) eqn:E; [discriminate|].
    apply sem_aug_unb. exact E.
  - rewrite da_expr_eq in HD.
    destruct (expr_ok B e) eqn:E; [discriminate|]. apply sem_expr_unb, E.
  - rewrite da_for_eq in HD.
    destruct (expr_ok B e) eqn:E; [|apply sem_for_unb_iter, E].
    destruct (da_block (add_all (pat_vars p) B) body) as [D0|] eqn:E0; [discriminate|].
    apply sem_for_iters; [exact E|]. apply loop_unb. apply (complete_block_of body IHbody), E0.
  - rewrite da_if_eq in HD.
    destruct (expr_ok B c) eqn:E; [|apply sem_if_unb, E].
    destruct (da_block B a) as [Da|] eqn:Ea.
    + destruct (da_block B b) as [Db|] eqn:Eb; [discriminate|].
      apply sem_if_else; [exact E|]. apply (complete_block_of b IHb), Eb.
    + apply sem_if_then; [exact E|]. apply (complete_block_of a IHa), Ea.
Qed.

Theorem da_block_complete : forall ss B, da_block B ss = None -> sem_block B ss Unbound.
Proof. intros ss. apply complete_block_of. apply Forall_all. exact da_complete. Qed.

(* the analysis decides the path semantics *)
Corollary da_block_decides : forall ss B,
  (exists D, da_block B ss = Some D) <-> ~ sem_block B ss Unbound.
Proof.
  intros ss B. split.
  - intros [D HD]. apply (da_block_sound ss B D HD).
  - intros Hn. destruct (da_block B ss) as [D|] eqn:E; [exists D; reflexivity|].
    exfalso. apply Hn, da_block_complete, E.
Qed.

(* ------------------------------------------------------------------------------------ *)
(* 5. non-vacuity                                                                        *)

(* names: 1 = items, 2 = c, 3 = i, 4 = j, 5 = k, 6 = y, 7 = z, 8 = w

     for (i, (j, k)) in items:
         if c: y = i
         else: y = j
         z = y + k                                                                       *)
Definition ex_ok_prog : list stmt :=
  [SFor (PTup [PName 3; PTup [PName 4; PName 5]]) (EName 1)
     [SIf (EName 2) [SAssign (TName 6) (EName 3)] [SAssign (TName 6) (EName 4)];
      SAssign (TName 7) (EBin BAdd (EName 6) (EName 5))]]%positive.

Definition is_some_equal (r : option PS.t) (xs : list positive) : bool :=
  match r with Some D => PS.equal D (of_list xs) | None => false end.

Example ex_ok_da :
  is_some_equal (da_block (of_list [1; 2]%positive) ex_ok_prog) [1; 2]%positive = true.
Proof. vm_compute. reflexivity. Qed.

(* inside the loop body the analysis result is {items, c, i, j, k, y, z} *)
Example ex_ok_body :
  is_some_equal
    (da_block (add_all (pat_vars (PTup [PName 3; PTup [PName 4; PName 5]])) (of_list [1; 2]))
       [SIf (EName 2) [SAssign (TName 6) (EName 3)] [SAssign (TName 6) (EName 4)];
        SAssign (TName 7) (EBin BAdd (EName 6) (EName 5))])%positive
    [1; 2; 3; 4; 5; 6; 7]%positive = true.
Proof. vm_compute. reflexivity. Qed.

Example ex_ok_sem : ~ sem_block (of_list [1; 2]%positive) ex_ok_prog Unbound.
Proof.
  destruct (da_block (of_list [1; 2]%positive) ex_ok_prog) as [D|] eqn:E.
  - apply (da_block_sound _ _ _ E).
  - vm_compute in E. discriminate.
Qed.

(* the same program where the else branch binds w instead of y: y is read unbound on the
   path through the else branch

     for (i, (j, k)) in items:
         if c: y = i
         else: w = j
         z = y + k                                                                       *)
Definition ex_bad_prog : list stmt :=
  [SFor (PTup [PName 3; PTup [PName 4; PName 5]]) (EName 1)
     [SIf (EName 2) [SAssign (TName 6) (EName 3)] [SAssign (TName 8) (EName 4)];
      SAssign (TName 7) (EBin BAdd (EName 6) (EName 5))]]%positive.

Example ex_bad_da : da_block (of_list [1; 2]%positive) ex_bad_prog = None.
Proof. vm_compute. reflexivity. Qed.

Example ex_bad_first : first_unbound_block (of_list [1; 2]%positive) ex_bad_prog = Some 6%positive.
Proof. vm_compute. reflexivity. Qed.

Example ex_bad_sem : sem_block (of_list [1; 2]%positive) ex_bad_prog Unbound.
Proof.
  unfold ex_bad_prog. apply block_unb. apply sem_for_iters; [vm_compute; reflexivity|].
  apply loop_unb. eapply block_cons.
  - apply sem_if_else; [vm_compute; reflexivity|].
    eapply block_cons; [apply sem_assign_name; vm_compute; reflexivity|apply block_nil].
  - apply block_unb. apply sem_assign_unb. vm_compute. reflexivity.
Qed.

(* a name first bound inside a loop does not flow out of it (the loop may run zero times)

     for i in items:
         y = i
     y                                                                                   *)
Definition ex_leak_prog : list stmt :=
  [SFor (PName 3) (EName 1) [SAssign (TName 6) (EName 3)]; SExpr (EName 6)]%positive.

Example ex_leak_da : da_block (of_list [1]%positive) ex_leak_prog = None.
Proof. vm_compute. reflexivity. Qed.

Example ex_leak_sem : sem_block (of_list [1]%positive) ex_leak_prog Unbound.
Proof.
  unfold ex_leak_prog. eapply block_cons.
  - apply sem_for_iters; [vm_compute; reflexivity|apply loop_done].
  - apply block_unb. apply sem_expr_unb. vm_compute. reflexivity.
Qed.

(* ... while a path with one iteration does bind it: the semantics really has both *)
Example ex_leak_sem_fine : exists B', sem_block (of_list [1]%positive) ex_leak_prog (Fine B').
Proof.
  unfold ex_leak_prog. eexists. eapply block_cons.
  - apply sem_for_iters; [vm_compute; reflexivity|].
    eapply loop_iter; [|apply loop_done].
    eapply block_cons; [apply sem_assign_name; vm_compute; reflexivity|apply block_nil].
  - eapply block_cons; [apply sem_expr_ok; vm_compute; reflexivity|apply block_nil].
Qed.
