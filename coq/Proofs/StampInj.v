(* C16, third clause, at the level of whole loop nests: when every loop rank is stamped and the
   stamp of a rank is computed from the values of the loops that ENCLOSE it (partition levels
   looped outermost-to-innermost: a relative coordinate subtracts the coordinate of a level bound
   earlier; a position is the index inside the fiber the enclosing loops selected), two
   activities of one nest carry the same (space, time) stamp only if they are the same iteration.

   An iteration of a nest of n loops is the vector p of the n loop values (p i = value bound by the
   i-th loop, outermost first).  `stamp i p` is what the display computes for the i-th loop rank.
   `local`: the stamp of rank i, read for two iterations that agree on all enclosing loops,
   is equal only if they agree on loop i as well.  Nothing else is assumed of the stamp. *)
From Coq Require Import List ZArith Arith Lia.
Import ListNotations.
Local Open Scope Z_scope.

Section StampInj.
  Variable S : Type.                                (* what one rank contributes to a stamp *)
  Variable stamp : nat -> (nat -> Z) -> S.

  Definition local_at (i : nat) : Prop := forall p q : nat -> Z,
    (forall j, (j < i)%nat -> p j = q j) -> stamp i p = stamp i q -> p i = q i.

  (* every rank stamped, each stamp local: equal stamps => same iteration *)
  Theorem stamps_determine_iteration n :
    (forall i, (i < n)%nat -> local_at i) ->
    forall p q, (forall i, (i < n)%nat -> stamp i p = stamp i q) ->
    forall i, (i < n)%nat -> p i = q i.
  Proof.
    intros Hloc p q Heq i. induction i as [i IH] using lt_wf_ind. intros Hi.
    apply (Hloc i Hi); [|apply Heq; exact Hi].
    intros j Hj. apply IH; [exact Hj|lia].
  Qed.

  (* the split into space and time: ANY two lists of loop ranks, in any order, with repetitions
     or not, as long as every loop rank occurs in one of them *)
  Definition st_stamp (space time : list nat) (p : nat -> Z) : list S * list S :=
    (map (fun i => stamp i p) space, map (fun i => stamp i p) time).

  Lemma map_eq_In (f g : nat -> S) l : map f l = map g l -> forall i, In i l -> f i = g i.
  Proof.
    induction l as [|x l IH]; intros H i Hin; [destruct Hin|].
    cbn [map] in H. injection H as H1 H2. destruct Hin as [<-|Hin]; [exact H1|apply IH; assumption].
  Qed.

  Theorem st_stamp_injective n space time :
    (forall i, (i < n)%nat -> In i (space ++ time)) ->
    (forall i, (i < n)%nat -> local_at i) ->
    forall p q, st_stamp space time p = st_stamp space time q ->
    forall i, (i < n)%nat -> p i = q i.
  Proof.
    intros Hcov Hloc p q H. unfold st_stamp in H. injection H as Hs Ht.
    apply stamps_determine_iteration; [exact Hloc|].
    intros i Hi. destruct (in_app_or _ _ _ (Hcov i Hi)) as [Hin|Hin].
    - exact (map_eq_In _ _ _ Hs i Hin).
    - exact (map_eq_In _ _ _ Ht i Hin).
  Qed.
End StampInj.

(* iterations as vectors (lists of length n) *)
Definition at_ (p : list Z) (i : nat) : Z := nth i p 0.

Theorem st_stamp_NoDup (S : Type) (stamp : nat -> (nat -> Z) -> S) n space time :
  (forall i, (i < n)%nat -> In i (space ++ time)) ->
  (forall i, (i < n)%nat -> local_at S stamp i) ->
  forall its : list (list Z), (forall p, In p its -> length p = n) -> NoDup its ->
  NoDup (map (fun p => st_stamp S stamp space time (at_ p)) its).
Proof.
  intros Hcov Hloc its Hlen Hnd. induction Hnd as [|p its Hnin Hnd IH]; cbn [map]; constructor.
  - intros Hin. apply in_map_iff in Hin. destruct Hin as [q [Hq Hqin]]. apply Hnin.
    assert (E : q = p); [|subst q; exact Hqin].
    apply (nth_ext q p 0 0).
    + rewrite (Hlen q (or_intror Hqin)), (Hlen p (or_introl eq_refl)). reflexivity.
    + intros i Hi. rewrite (Hlen q (or_intror Hqin)) in Hi.
      exact (st_stamp_injective S stamp n space time Hcov Hloc (at_ q) (at_ p) Hq i Hi).
  - apply IH. intros q Hq. apply Hlen. right. exact Hq.
Qed.

(* ---- the stamps the compiler emits are local --------------------------------------------- *)

(* coordinate style: the coordinate itself, or - for a partition level below the top - the
   coordinate relative to the enclosing level's coordinate (`k0 - k1`), the enclosing level
   being bound by an EARLIER loop (levels looped outermost-to-innermost) *)
Definition coord_stamp (parent : nat -> option nat) (i : nat) (p : nat -> Z) : Z :=
  match parent i with Some j => p i - p j | None => p i end.

Theorem coord_stamp_local parent i :
  (forall j, parent i = Some j -> (j < i)%nat) -> local_at Z (coord_stamp parent) i.
Proof.
  intros Hpar p q Hpre H. unfold coord_stamp in H. destruct (parent i) as [j|] eqn:E; [|exact H].
  rewrite (Hpre j (Hpar j eq_refl)) in H. lia.
Qed.

(* position style: the index of the loop value inside the fiber that the enclosing loops
   selected; the fiber (a duplicate-free list of coordinates) may depend on every enclosing
   loop value but on nothing else *)
Fixpoint index_of (c : Z) (l : list Z) : nat :=
  match l with [] => 0 | x :: l' => if Z.eqb x c then 0 else Datatypes.S (index_of c l') end.

Lemma index_of_inj l : forall c d, In c l -> In d l -> index_of c l = index_of d l -> c = d.
Proof.
  induction l as [|x l IH]; intros c d Hc Hd H; [destruct Hc|].
  cbn [index_of] in H. destruct (Z.eqb_spec x c) as [E1|N1]; destruct (Z.eqb_spec x d) as [E2|N2].
  - congruence.
  - discriminate.
  - discriminate.
  - injection H as H. destruct Hc as [Hc|Hc]; [contradiction|]. destruct Hd as [Hd|Hd]; [contradiction|].
    apply IH; assumption.
Qed.

Definition pos_stamp (fiber : nat -> (nat -> Z) -> list Z) (i : nat) (p : nat -> Z) : Z :=
  Z.of_nat (index_of (p i) (fiber i p)).

(* the iterations the nest actually performs: loop i draws its value from the selected fiber *)
Definition runs (fiber : nat -> (nat -> Z) -> list Z) (n : nat) (p : nat -> Z) : Prop :=
  forall i, (i < n)%nat -> In (p i) (fiber i p).

(* mixed styles, restricted to iterations the nest performs *)
Section Mixed.
  Variable parent : nat -> option nat.
  Variable fiber : nat -> (nat -> Z) -> list Z.
  Variable is_pos : nat -> bool.                   (* style chosen per rank *)
  Variable n : nat.
  Hypothesis parent_earlier : forall i j, parent i = Some j -> (j < i)%nat.
  Hypothesis fiber_prefix : forall i p q, (forall j, (j < i)%nat -> p j = q j) -> fiber i p = fiber i q.

  Definition mixed_stamp (i : nat) (p : nat -> Z) : Z :=
    if is_pos i then pos_stamp fiber i p else coord_stamp parent i p.

  Theorem mixed_stamps_determine_iteration p q :
    runs fiber n p -> runs fiber n q ->
    (forall i, (i < n)%nat -> mixed_stamp i p = mixed_stamp i q) ->
    forall i, (i < n)%nat -> p i = q i.
  Proof.
    intros Rp Rq Heq i. induction i as [i IH] using lt_wf_ind. intros Hi.
    assert (Hpre : forall j, (j < i)%nat -> p j = q j) by (intros j Hj; apply IH; [exact Hj|lia]).
    specialize (Heq i Hi). unfold mixed_stamp in Heq. destruct (is_pos i).
    - unfold pos_stamp in Heq. apply Nat2Z.inj in Heq.
      pose proof (Rp i Hi) as Ip. pose proof (Rq i Hi) as Iq.
      rewrite (fiber_prefix i p q Hpre) in Heq, Ip.
      exact (index_of_inj _ _ _ Ip Iq Heq).
    - exact (coord_stamp_local parent i (parent_earlier i) p q Hpre Heq).
  Qed.

  Theorem mixed_st_stamp_NoDup space time :
    (forall i, (i < n)%nat -> In i (space ++ time)) ->
    forall its : list (list Z), (forall p, In p its -> length p = n /\ runs fiber n (at_ p)) -> NoDup its ->
    NoDup (map (fun p => st_stamp Z mixed_stamp space time (at_ p)) its).
  Proof.
    intros Hcov its Hwf Hnd. induction Hnd as [|p its Hnin Hnd IH]; cbn [map]; constructor.
    - intros Hin. apply in_map_iff in Hin. destruct Hin as [q [Hq Hqin]]. apply Hnin.
      assert (E : q = p); [|subst q; exact Hqin].
      destruct (Hwf q (or_intror Hqin)) as [Lq Rq]. destruct (Hwf p (or_introl eq_refl)) as [Lp Rp].
      apply (nth_ext q p 0 0); [congruence|].
      intros i Hi. rewrite Lq in Hi.
      apply (mixed_stamps_determine_iteration (at_ q) (at_ p) Rq Rp); [|exact Hi].
      intros k Hk. unfold st_stamp in Hq. injection Hq as Hs Ht.
      destruct (in_app_or _ _ _ (Hcov k Hk)) as [Hin|Hin].
      + exact (map_eq_In Z _ _ _ Hs k Hin).
      + exact (map_eq_In Z _ _ _ Ht k Hin).
    - apply IH. intros q Hq. apply Hwf. right. exact Hq.
  Qed.
End Mixed.

(* ---- the hypotheses are necessary -------------------------------------------------------- *)

(* a loop rank left out of the spacetime: two iterations, one stamp *)
Example unstamped_rank_collides :
  let stamp := coord_stamp (fun _ => None) in
  st_stamp Z stamp [0%nat] [] (at_ [1; 2]) = st_stamp Z stamp [0%nat] [] (at_ [1; 3]) /\ [1; 2] <> [1; 3].
Proof. split; [reflexivity|discriminate]. Qed.

(* a level stamped relative to a level that is NOT stamped itself (the case the clause excludes by
   "every loop rank is stamped"): K1 = 0, K0 = 1 and K1 = 4, K0 = 5 both read relative coordinate 1 *)
Example relative_without_enclosing_collides :
  let stamp := coord_stamp (fun i => match i with 1%nat => Some 0%nat | _ => None end) in
  st_stamp Z stamp [] [1%nat] (at_ [0; 1]) = st_stamp Z stamp [] [1%nat] (at_ [4; 5]) /\ [0; 1] <> [4; 5].
Proof. split; [reflexivity|discriminate]. Qed.

(* the premises are satisfiable: a 2-level nest over K1 (step 4), K0 relative, then N by position *)
Example stamps_distinct_example :
  let parent := fun i => match i with 1%nat => Some 0%nat | _ => None end in
  let stamp := coord_stamp parent in
  NoDup (map (fun p => st_stamp Z stamp [2%nat] [0%nat; 1%nat] (at_ p))
             [[0; 1; 7]; [0; 3; 7]; [4; 5; 7]; [4; 5; 9]]).
Proof.
  apply (st_stamp_NoDup Z _ 3).
  - intros i Hi. cbn. lia.
  - intros i Hi. apply coord_stamp_local. intros j. destruct i as [|[|i]]; cbn; try discriminate.
    intros H; injection H as <-. lia.
  - intros p Hp. cbn in Hp. repeat destruct Hp as [<-|Hp]; try reflexivity. destruct Hp.
  - repeat constructor; cbn; intuition discriminate.
Qed.
