(* C02 at the level of loop nests: for ANY loop order over the levels (any L' that is well-formed for the partitioned
   tensors), the nest over shape-partitioned tensors contributes, at every consistent point, exactly what the Einsum
   defines at the original point, and nothing at inconsistent points. *)
From Coq Require Import ZArith List Bool Lia String.
Require Import TV.Model.Nest TV.Proofs.NestProofs TV.Model.NestPart.
Import ListNotations.
Open Scope Z_scope.

Lemma den_upd_notin : forall rs t p r x, ~ In r rs -> den rs t (upd p r x) = den rs t p.
Proof.
  induction rs as [|r' rs IH]; intros t p r x Hn; destruct t as [v|l]; cbn [den]; try reflexivity.
  assert (Hne : String.eqb r' r = false).
  { apply String.eqb_neq. intros ->. apply Hn. left. reflexivity. }
  unfold upd at 1. rewrite Hne. destruct (lookup (p r') l); [|reflexivity].
  apply IH. intros Hin. apply Hn. right. exact Hin.
Qed.

Lemma lookup_filter_bucket s q c l :
  lookup c (filter (fun ct => Z.eqb (bucket s (fst ct)) q) l) = if Z.eqb (bucket s c) q then lookup c l else None.
Proof.
  induction l as [|[c' t'] l IH]; cbn [filter lookup fst]; [destruct (bucket s c =? q); reflexivity|].
  destruct (bucket s c' =? q) eqn:E'.
  - cbn [lookup]. destruct (Z.eqb_spec c c') as [->|Hne].
    + rewrite E'. reflexivity.
    + exact IH.
  - rewrite IH. destruct (Z.eqb_spec c c') as [->|Hne]; [rewrite E'; reflexivity|reflexivity].
Qed.

Lemma lookup_split_node s q l :
  lookup q (split_node s l) =
  if existsb (fun ct => Z.eqb (bucket s (fst ct)) q) l
  then Some (Node (filter (fun ct => Z.eqb (bucket s (fst ct)) q) l)) else None.
Proof.
  unfold split_node.
  assert (H : forall ks, lookup q (map (fun p => (p, Node (filter (fun ct => bucket s (fst ct) =? p) l))) ks) =
                         if existsb (Z.eqb q) ks then Some (Node (filter (fun ct => bucket s (fst ct) =? q) l)) else None).
  { induction ks as [|k ks IH]; [reflexivity|]. cbn [map lookup existsb]. destruct (Z.eqb_spec q k) as [->|Hne]; [reflexivity|exact IH]. }
  rewrite H. clear H.
  assert (E : existsb (Z.eqb q) (nodup Z.eq_dec (map (fun ct => bucket s (fst ct)) l)) = existsb (fun ct => bucket s (fst ct) =? q) l).
  { apply eq_true_iff_eq. rewrite !existsb_exists. split.
    - intros [k [Hin Hk]]. apply nodup_In, in_map_iff in Hin as [ct [<- Hct]]. exists ct. split; [exact Hct|].
      apply Z.eqb_eq in Hk. apply Z.eqb_eq. congruence.
    - intros [ct [Hct Hk]]. exists (bucket s (fst ct)). split; [apply nodup_In; apply (in_map (fun ct => bucket s (fst ct))); exact Hct|].
      apply Z.eqb_eq in Hk. apply Z.eqb_eq. congruence. }
  rewrite E. reflexivity.
Qed.

Lemma lookup_some_existsb s c l t : lookup c l = Some t -> existsb (fun ct => Z.eqb (bucket s (fst ct)) (bucket s c)) l = true.
Proof.
  induction l as [|[c' t'] l IH]; [discriminate|]. cbn [lookup existsb fst]. destruct (Z.eqb_spec c c') as [->|Hne].
  - intros _. rewrite Z.eqb_refl. reflexivity.
  - intros H. rewrite (IH H). apply orb_true_r.
Qed.

(* the denotation of a tensor with rank r (at depth d) split by s *)
Lemma den_split_at : forall d rs t p r r1 r0 s,
  nth_error rs d = Some r -> NoDup rs ->
  den (split_ranks d r1 r0 rs) (split_at d s t) p =
  if consistent r1 r0 s p then den rs t (collapse r r0 p) else 0.
Proof.
  induction d as [|d IH]; intros rs t p r r1 r0 s Hnth Hnd.
  - destruct rs as [|x rs]; [discriminate|]. cbn in Hnth. injection Hnth as ->. apply NoDup_cons_iff in Hnd as [Hnotin _].
    cbn [split_ranks]. destruct t as [v|l]; [cbn; destruct (consistent r1 r0 s p); reflexivity|].
    cbn [split_at den]. rewrite lookup_split_node. unfold collapse. unfold upd at 1. rewrite String.eqb_refl.
    unfold consistent. destruct (Z.eqb_spec (p r1) (bucket s (p r0))) as [E|Hne].
    + destruct (existsb (fun ct => bucket s (fst ct) =? p r1) l) eqn:Hex.
      * cbn [den]. rewrite lookup_filter_bucket. rewrite <- E, Z.eqb_refl.
        destruct (lookup (p r0) l) as [t'|]; [|reflexivity]. symmetry. apply den_upd_notin. exact Hnotin.
      * destruct (lookup (p r0) l) as [t'|] eqn:El; [|reflexivity].
        rewrite E, (lookup_some_existsb s (p r0) l t' El) in Hex. discriminate.
    + destruct (existsb (fun ct => bucket s (fst ct) =? p r1) l); [|reflexivity].
      cbn [den]. rewrite lookup_filter_bucket.
      destruct (Z.eqb_spec (bucket s (p r0)) (p r1)) as [E|_]; [congruence|reflexivity].
  - destruct rs as [|x rs]; [discriminate|]. cbn in Hnth. apply NoDup_cons_iff in Hnd as [Hnotin Hnd].
    cbn [split_ranks]. destruct t as [v|l]; [cbn; destruct (consistent r1 r0 s p); reflexivity|].
    cbn [split_at den].
    assert (Hx : collapse r r0 p x = p x).
    { unfold collapse, upd. destruct (String.eqb_spec x r) as [->|_]; [|reflexivity].
      exfalso. apply Hnotin. eapply nth_error_In. exact Hnth. }
    rewrite Hx.
    assert (Hl : lookup (p x) (map (fun ct => (fst ct, split_at d s (snd ct))) l) = option_map (split_at d s) (lookup (p x) l)).
    { clear. induction l as [|[c t] l IHl]; [reflexivity|]. cbn [map lookup fst snd]. destruct (p x =? c); [reflexivity|exact IHl]. }
    rewrite Hl. destruct (lookup (p x) l) as [t'|]; cbn [option_map]; [|destruct (consistent r1 r0 s p); reflexivity].
    apply IH; assumption.
Qed.

Lemma index_of_nth r rs d : index_of r rs = Some d -> nth_error rs d = Some r.
Proof.
  revert d; induction rs as [|x rs IH]; intros d H; [discriminate|]. cbn in H.
  destruct (String.eqb_spec x r) as [->|_]; [injection H as <-; reflexivity|].
  destruct (index_of r rs) as [d'|]; [|discriminate]. injection H as <-. cbn. apply IH. reflexivity.
Qed.
Lemma index_of_none r rs : index_of r rs = None -> ~ In r rs.
Proof.
  induction rs as [|x rs IH]; intros H; [intros []|]. cbn in H.
  destruct (String.eqb_spec x r) as [->|Hne]; [discriminate|].
  destruct (index_of r rs); [discriminate|]. intros [E|Hin]; [congruence|]. apply IH; [reflexivity|exact Hin].
Qed.

Lemma den_part_tstate r r1 r0 s t p : NoDup (rem t) ->
  den (rem (part_tstate r r1 r0 s t)) (cur (part_tstate r r1 r0 s t)) p =
  if holds r t then (if consistent r1 r0 s p then den (rem t) (cur t) (collapse r r0 p) else 0)
  else den (rem t) (cur t) (collapse r r0 p).
Proof.
  intros Hnd. unfold part_tstate, holds. destruct (index_of r (rem t)) as [d|] eqn:E; cbn [rem cur].
  - apply den_split_at; [apply index_of_nth; exact E|exact Hnd].
  - unfold collapse. symmetry. apply den_upd_notin. apply index_of_none. exact E.
Qed.

Lemma term_den_part r r1 r0 s tm p : (forall t, In t tm -> NoDup (rem t)) ->
  term_den (map (part_tstate r r1 r0 s) tm) p =
  if existsb (holds r) tm then (if consistent r1 r0 s p then term_den tm (collapse r r0 p) else 0)
  else term_den tm (collapse r r0 p).
Proof.
  induction tm as [|t tm IH]; intros Hnd; [reflexivity|].
  cbn [map term_den fold_right existsb]. fold (term_den (map (part_tstate r r1 r0 s) tm) p). fold (term_den tm (collapse r r0 p)).
  rewrite IH by (intros t' H'; apply Hnd; right; exact H').
  rewrite (den_part_tstate r r1 r0 s t p (Hnd t (or_introl eq_refl))).
  destruct (holds r t), (existsb (holds r) tm), (consistent r1 r0 s p); cbn [orb]; lia.
Qed.

(* every term of a well-formed Einsum body holds the partitioned rank *)
Theorem body_den_part : forall r r1 r0 s tms p,
  (forall tm t, In tm tms -> In t tm -> NoDup (rem t)) -> (forall tm, In tm tms -> existsb (holds r) tm = true) ->
  body_den (part_terms r r1 r0 s tms) p = if consistent r1 r0 s p then body_den tms (collapse r r0 p) else 0.
Proof.
  intros r r1 r0 s tms p Hnd Hh. unfold part_terms. induction tms as [|tm tms IH]; [cbn; destruct (consistent r1 r0 s p); reflexivity|].
  cbn [map body_den fold_right]. fold (body_den (map (map (part_tstate r r1 r0 s)) tms) p). fold (body_den tms (collapse r r0 p)).
  rewrite IH; [|intros tm' t' H1 H2; apply (Hnd tm' t'); [right; exact H1|exact H2]|intros tm' H1; apply Hh; right; exact H1].
  rewrite (term_den_part r r1 r0 s tm p) by (intros t Ht; eapply Hnd; [left; reflexivity|exact Ht]).
  rewrite (Hh tm (or_introl eq_refl)). destruct (consistent r1 r0 s p); lia.
Qed.

(* the partitioned nest, for ANY loop order L' over the new levels and the other ranks *)
Theorem partitioned_nest_sound : forall r r1 r0 s tms L',
  (forall tm t, In tm tms -> In t tm -> NoDup (rem t)) -> (forall tm, In tm tms -> existsb (holds r) tm = true) ->
  wf L' (part_terms r r1 r0 s tms) ->
  forall p, sum_at p (run L' (part_terms r r1 r0 s tms)) = if consistent r1 r0 s p then body_den tms (collapse r r0 p) else 0.
Proof.
  intros r r1 r0 s tms L' Hnd Hh Hwf p. rewrite (nest_sound L' _ Hwf p). apply body_den_part; assumption.
Qed.

(* every original point is represented by exactly one consistent point of the partitioned space *)
Theorem consistent_unique : forall r1 r0 s (p : point) u, 0 < s ->
  consistent r1 r0 s (upd p r1 u) = true -> r1 <> r0 -> u = bucket s (p r0).
Proof.
  intros r1 r0 s p u Hs H Hne. unfold consistent, upd in H. rewrite String.eqb_refl in H.
  destruct (String.eqb_spec r0 r1) as [E|_]; [congruence|]. apply Z.eqb_eq in H. exact H.
Qed.

(* non-vacuity: Z[m] = A[k,m]*B[k] with K split by 2, loop order [K1; K0; M]; A[3,1]*B[3] = 55 at the point K1=2, K0=3, M=1 *)
Example partitioned_nest_example :
  let tms := [[{| rem := ["K"; "M"]%string; cur := Node [(0, Node [(0, Leaf 2)]); (3, Node [(1, Leaf 5)])] |};
               {| rem := ["K"]%string; cur := Node [(0, Leaf 7); (3, Leaf 11)] |}]] in
  swf ["K1"; "K0"; "M"]%string (map (map rem) (part_terms "K"%string "K1"%string "K0"%string 2 tms)) = true /\
  sum_at (fun x => if String.eqb x "K1"%string then 2 else if String.eqb x "K0"%string then 3 else if String.eqb x "M"%string then 1 else 0)
         (run ["K1"; "K0"; "M"]%string (part_terms "K"%string "K1"%string "K0"%string 2 tms)) = 55.
Proof. split; vm_compute; reflexivity. Qed.

(* ---------- stacks of partitions: the theorem composes ---------- *)
Lemma split_ranks_in d r1 r0 rs x : In x (split_ranks d r1 r0 rs) -> x = r1 \/ x = r0 \/ In x rs.
Proof.
  revert rs; induction d as [|d IH]; intros [|y rs] H; cbn in H; try contradiction.
  - destruct H as [<-|[<-|H]]; auto. right; right; right; exact H.
  - destruct H as [<-|H]; [right; right; left; reflexivity|]. destruct (IH rs H) as [E|[E|E]]; auto. right; right; right; exact E.
Qed.

Lemma split_ranks_NoDup d r1 r0 rs : NoDup rs -> ~ In r1 rs -> ~ In r0 rs -> r1 <> r0 -> NoDup (split_ranks d r1 r0 rs).
Proof.
  revert rs; induction d as [|d IH]; intros [|y rs] Hnd H1 H0 Hne; cbn; try constructor.
  - intros [E|H]; [congruence|]. apply H1. right. exact H.
  - apply NoDup_cons_iff in Hnd as [Hy Hnd]. constructor; [|exact Hnd]. intros H. apply H0. right. exact H.
  - apply NoDup_cons_iff in Hnd as [Hy Hnd]. intros H. destruct (split_ranks_in d r1 r0 rs y H) as [E|[E|E]].
    + apply H1. left. exact E.
    + apply H0. left. exact E.
    + contradiction.
  - apply NoDup_cons_iff in Hnd as [Hy Hnd]. apply IH; try assumption; intros H; [apply H1|apply H0]; right; exact H.
Qed.

Lemma part_tstate_NoDup r r1 r0 s t : NoDup (rem t) -> ~ In r1 (rem t) -> ~ In r0 (rem t) -> r1 <> r0 ->
  NoDup (rem (part_tstate r r1 r0 s t)).
Proof.
  intros Hnd H1 H0 Hne. unfold part_tstate. destruct (index_of r (rem t)); cbn [rem]; [|exact Hnd].
  apply split_ranks_NoDup; assumption.
Qed.

Lemma index_of_split_r0 d r1 r0 rs : r1 <> r0 -> ~ In r0 rs -> (d < List.length rs)%nat ->
  exists k, index_of r0 (split_ranks d r1 r0 rs) = Some k.
Proof.
  revert rs; induction d as [|d IH]; intros [|y rs] Hne H0 Hlen; cbn in Hlen; try lia; cbn [split_ranks index_of].
  - destruct (String.eqb_spec r1 r0) as [E|_]; [contradiction|]. rewrite String.eqb_refl. cbn. eauto.
  - destruct (String.eqb_spec y r0) as [E|_]; [exfalso; apply H0; left; exact E|].
    destruct (IH rs Hne (fun H => H0 (or_intror H)) ltac:(lia)) as [k Hk]. rewrite Hk. cbn. eauto.
Qed.

Lemma index_of_lt r rs d : index_of r rs = Some d -> (d < List.length rs)%nat.
Proof. intros H. apply index_of_nth in H. apply nth_error_Some. congruence. Qed.

Lemma holds_part_r0 r r1 r0 s t : r1 <> r0 -> ~ In r0 (rem t) -> holds r t = true -> holds r0 (part_tstate r r1 r0 s t) = true.
Proof.
  intros Hne H0 Hh. unfold holds in Hh. unfold part_tstate. destruct (index_of r (rem t)) as [d|] eqn:E; [|discriminate].
  unfold holds; cbn [rem]. destruct (index_of_split_r0 d r1 r0 (rem t) Hne H0 (index_of_lt _ _ _ E)) as [k Hk]. rewrite Hk. reflexivity.
Qed.

(* two levels on one rank: r split by s2 into (r2, rx), then rx split by s1 into (r1, r0) - e.g. K: [uniform_shape(s2),
   uniform_shape(s1)] gives K2, K1, K0.  Any loop order L' over the levels. *)
Theorem partitioned_nest_sound_2 : forall r r2 rx r1 r0 s2 s1 tms L',
  (forall tm t, In tm tms -> In t tm -> NoDup (rem t) /\ ~ In r2 (rem t) /\ ~ In rx (rem t)) ->
  r2 <> rx ->
  (forall tm, In tm tms -> existsb (holds r) tm = true) ->
  let tms1 := part_terms r r2 rx s2 tms in
  wf L' (part_terms rx r1 r0 s1 tms1) ->
  forall p, sum_at p (run L' (part_terms rx r1 r0 s1 tms1)) =
            if consistent r1 r0 s1 p && consistent r2 rx s2 (collapse rx r0 p)
            then body_den tms (collapse r rx (collapse rx r0 p)) else 0.
Proof.
  intros r r2 rx r1 r0 s2 s1 tms L' Hfresh Hne Hh tms1 Hwf p.
  assert (Hnd1 : forall tm t, In tm tms1 -> In t tm -> NoDup (rem t)).
  { intros tm t Htm Ht. unfold tms1, part_terms in Htm. apply in_map_iff in Htm as [tm0 [<- Htm0]].
    apply in_map_iff in Ht as [t0 [<- Ht0]]. destruct (Hfresh tm0 t0 Htm0 Ht0) as [Hn [H2 Hx]].
    apply part_tstate_NoDup; assumption. }
  assert (Hh1 : forall tm, In tm tms1 -> existsb (holds rx) tm = true).
  { intros tm Htm. unfold tms1, part_terms in Htm. apply in_map_iff in Htm as [tm0 [<- Htm0]].
    pose proof (Hh tm0 Htm0) as H. apply existsb_exists in H as [t0 [Ht0 Hht0]]. apply existsb_exists.
    exists (part_tstate r r2 rx s2 t0). split; [apply in_map; exact Ht0|].
    destruct (Hfresh tm0 t0 Htm0 Ht0) as [_ [_ Hx]]. apply holds_part_r0; assumption. }
  rewrite (partitioned_nest_sound rx r1 r0 s1 tms1 L' Hnd1 Hh1 Hwf p).
  destruct (consistent r1 r0 s1 p); cbn [andb]; [|reflexivity].
  unfold tms1. apply body_den_part; [|exact Hh].
  intros tm t Htm Ht. destruct (Hfresh tm t Htm Ht) as [Hn _]. exact Hn.
Qed.
