(* C16: the per-program certificate for the third clause.  `tools/stampview.py` reads off an emitted
   program, for one addActivity call: the depth n of the enclosing nest, per loop the loop whose
   coordinate its relative-coordinate stamp subtracts (if any), and the loops named by the space and
   time tuples.  `stamp_cert_okb` decides the hypotheses of `mixed_st_stamp_NoDup`. *)
From Coq Require Import List ZArith Arith Bool Lia.
Require Import TV.Proofs.StampInj.
Import ListNotations.

Definition parent_of (pl : list (option nat)) (i : nat) : option nat := nth i pl None.

Fixpoint parents_okb_from (k : nat) (pl : list (option nat)) : bool :=
  match pl with
  | [] => true
  | o :: pl' => (match o with Some j => Nat.ltb j k | None => true end) && parents_okb_from (S k) pl'
  end.

Definition covers_okb (n : nat) (space time : list nat) : bool :=
  forallb (fun i => existsb (Nat.eqb i) (space ++ time)) (seq 0 n).

Definition stamp_cert_okb (n : nat) (pl : list (option nat)) (space time : list nat) : bool :=
  Nat.eqb (length pl) n && parents_okb_from 0 pl && covers_okb n space time.

Lemma parents_okb_from_sound pl : forall k, parents_okb_from k pl = true ->
  forall i j, nth i pl None = Some j -> j < k + i.
Proof.
  induction pl as [|o pl IH]; intros k H i j E; [destruct i; discriminate E|].
  cbn [parents_okb_from] in H. apply andb_true_iff in H. destruct H as [H1 H2].
  destruct i as [|i]; cbn [nth] in E.
  - subst o. apply Nat.ltb_lt in H1. lia.
  - specialize (IH (S k) H2 i j E). lia.
Qed.

Lemma covers_okb_sound n space time : covers_okb n space time = true ->
  forall i, i < n -> In i (space ++ time).
Proof.
  unfold covers_okb. intros H i Hi. rewrite forallb_forall in H.
  specialize (H i). rewrite in_seq in H. specialize (H ltac:(lia)).
  apply existsb_exists in H. destruct H as [x [Hx E]]. apply Nat.eqb_eq in E. subst x. exact Hx.
Qed.

(* an accepted certificate: whatever fibers the loops walk (as long as the fiber a loop walks is
   selected by the enclosing loops only) and whatever style each rank uses, distinct iterations
   carry distinct (space, time) stamps *)
Theorem stamp_cert_sound n pl space time :
  stamp_cert_okb n pl space time = true ->
  forall (fiber : nat -> (nat -> Z) -> list Z) (is_pos : nat -> bool),
  (forall i p q, (forall j, j < i -> p j = q j) -> fiber i p = fiber i q) ->
  forall its : list (list Z), (forall p, In p its -> length p = n /\ runs fiber n (at_ p)) -> NoDup its ->
  NoDup (map (fun p => st_stamp Z (mixed_stamp (parent_of pl) fiber is_pos) space time (at_ p)) its).
Proof.
  unfold stamp_cert_okb. intros H fiber is_pos Hf its Hits Hnd.
  apply andb_true_iff in H. destruct H as [H Hc]. apply andb_true_iff in H. destruct H as [_ Hp].
  apply (mixed_st_stamp_NoDup (parent_of pl) fiber is_pos n); try assumption.
  - intros i j E. pose proof (parents_okb_from_sound pl 0 Hp i j E). lia.
  - apply covers_okb_sound. exact Hc.
Qed.

(* the certificate of the program in the header of tools/stampview.py's documentation:
   loops k1, m, k0, n; spacetime=((k1, n_pos), (m_pos, k0 - k1)) *)
Example cert_example : stamp_cert_okb 4 [None; None; Some 0; None] [0; 3] [1; 2] = true.
Proof. reflexivity. Qed.
Example cert_rejects_unstamped : stamp_cert_okb 4 [None; None; Some 0; None] [0; 3] [2] = false.
Proof. reflexivity. Qed.
Example cert_rejects_later_parent : stamp_cert_okb 2 [Some 1; None] [0] [1] = false.
Proof. reflexivity. Qed.
