(* Proofs about Model/Legal.v (property C18): every instance of a stated legality rule is
   rejected by the guards, wherever the violation sits (any Einsum of the cascade, any entry of
   the partitioning dictionary, any position of a rank tuple, any depth of a directive stack)
   and whatever else the specification contains. *)
From Coq Require Import String List Bool ZArith Ascii Lia.
Require Import TV.Model.Fusion TV.Proofs.FusionProofs TV.Model.Legal.
Import ListNotations.
Open Scope string_scope.

(* ------------------------------------------------------------------ list / boolean basics *)

Lemma nodupb_NoDup l : nodupb l = true <-> NoDup l.
Proof.
  induction l as [|x l IH]; simpl.
  - split; [constructor|reflexivity].
  - rewrite andb_true_iff, negb_true_iff, IH. split.
    + intros [H1 H2]. constructor; [|exact H2]. intro Hin. apply mem_In in Hin. congruence.
    + intro H. inversion H; subst. split; [|assumption].
      destruct (mem x l) eqn:E; [|reflexivity]. apply mem_In in E. contradiction.
Qed.

Lemma inclb_incl a b : inclb a b = true <-> incl a b.
Proof.
  unfold inclb, incl. rewrite forallb_forall. split; intros H x Hx.
  - apply mem_In. apply H. exact Hx.
  - apply mem_In. apply H. exact Hx.
Qed.

Lemma set_eqb_iff a b : set_eqb a b = true <-> (forall v, In v a <-> In v b).
Proof.
  unfold set_eqb. rewrite andb_true_iff, !inclb_incl. unfold incl. split.
  - intros [H1 H2] v. split; auto.
  - intros H. split; intros v Hv; apply H; exact Hv.
Qed.

Lemma set_eqb_refl a : set_eqb a a = true.
Proof. apply set_eqb_iff. tauto. Qed.

Lemma existsb_negb_forallb {A} (f : A -> bool) l : existsb (fun x => negb (f x)) l = negb (forallb f l).
Proof. induction l as [|x l IH]; simpl; [reflexivity|]. rewrite IH. destruct (f x); reflexivity. Qed.

Lemma existsb_false_forallb {A} (f : A -> bool) l :
  existsb (fun x => negb (f x)) l = true -> forallb f l = false.
Proof. rewrite existsb_negb_forallb. apply negb_true_iff. Qed.

Lemma is_flatten_In ps : existsb is_flatten ps = true <-> In DFlatten ps.
Proof.
  rewrite existsb_exists. split.
  - intros [d [Hd Hf]]. destruct d; try discriminate. exact Hd.
  - intro H. exists DFlatten. split; [exact H|reflexivity].
Qed.

(* ------------------------------------------------------------------ the pipeline: first non-Ok stage *)

Definition no_crash (s : spec) : Prop := Forall (fun r => r <> Crash) (stages s).

Lemma first_nonok_rejects l r : In r l -> r <> Ok -> first_nonok l <> Ok.
Proof.
  induction l as [|x l IH]; simpl; [tauto|].
  intros [H|H] Hr.
  - subst. destruct r; congruence.
  - destruct x; try discriminate. apply IH; assumption.
Qed.

Lemma first_nonok_in l : first_nonok l = Ok \/ In (first_nonok l) l.
Proof.
  induction l as [|x l IH]; simpl; [left; reflexivity|].
  destruct x; try (right; left; reflexivity).
  destruct IH as [H|H]; [left; exact H|right; right; exact H].
Qed.

Lemma stage_rejects s r : In r (stages s) -> r <> Ok -> no_crash s -> exists x, guard s = Err x.
Proof.
  intros Hin Hr Hnc. unfold guard.
  pose proof (first_nonok_rejects _ _ Hin Hr) as Hn.
  destruct (first_nonok_in (stages s)) as [H|H]; [contradiction|].
  unfold no_crash in Hnc. rewrite Forall_forall in Hnc. specialize (Hnc _ H).
  destruct (first_nonok (stages s)) as [|x|]; try congruence. exists x. reflexivity.
Qed.

Lemma einsum_stage_in s e r : In e (s_einsums s) -> In r (einsum_stages s e) -> In r (stages s).
Proof.
  intros He Hr. unfold stages. right. right. apply in_flat_map. exists e. split; assumption.
Qed.

Lemma any_einsum_exists f s : any_einsum f s = true <-> exists e, In e (s_einsums s) /\ f e = true.
Proof. unfold any_einsum. apply existsb_exists. Qed.

(* ------------------------------------------------------------------ rules of the declaration and the Einsum *)

Lemma dup_rank_guard s : r_dup_rank s = true -> decl_guard s = Err EDupRank.
Proof.
  unfold r_dup_rank, decl_guard. intro H.
  rewrite (existsb_false_forallb (fun d => nodupb (snd d)) _ H). reflexivity.
Qed.

Lemma missing_config_guard s : r_missing_config s = true -> bind_guard s = Err ENoConfig.
Proof.
  unfold r_missing_config, bind_guard. destruct (s_bind s) as [bs|]; [|discriminate]. intro H.
  rewrite (existsb_false_forallb (fun b => existsb (fun c => c) (snd b)) _ H). reflexivity.
Qed.

Lemma undeclared_guard s e :
  existsb (fun n => negb (mem n (map fst (s_decl s)))) (es_names e) = true -> eq_guard s e <> Ok.
Proof.
  intro H. unfold eq_guard. destruct (e_terms e) as [|t0 ts]; [discriminate|].
  destruct (forallb _ ts); [|discriminate].
  rewrite (existsb_false_forallb (fun n => mem n (map fst (s_decl s))) _ H). discriminate.
Qed.

Lemma repeated_guard s e : nodupb (es_names e) = false -> eq_guard s e <> Ok.
Proof.
  intro H. unfold eq_guard. destruct (e_terms e) as [|t0 ts]; [discriminate|].
  destruct (forallb _ ts); [|discriminate].
  destruct (forallb _ (es_names e)); [|discriminate]. rewrite H. discriminate.
Qed.

Lemma term_mismatch_guard s e t1 t2 :
  In t1 (e_terms e) -> In t2 (e_terms e) -> set_eqb (term_vars t1) (term_vars t2) = false -> eq_guard s e <> Ok.
Proof.
  intros H1 H2 Hne. unfold eq_guard. destruct (e_terms e) as [|t0 ts]; [discriminate|].
  destruct (forallb (fun t => set_eqb (term_vars t) (term_vars t0)) ts) eqn:E; [|discriminate].
  exfalso. rewrite forallb_forall in E.
  assert (Hall : forall t, In t (t0 :: ts) -> forall v, In v (term_vars t) <-> In v (term_vars t0)).
  { intros t [Ht|Ht]; [subst; tauto|]. apply set_eqb_iff. apply E. exact Ht. }
  assert (set_eqb (term_vars t1) (term_vars t2) = true); [|congruence].
  apply set_eqb_iff. intro v. rewrite (Hall t1 H1 v), (Hall t2 H2 v). tauto.
Qed.

(* ------------------------------------------------------------------ the partitioning loop *)

Section PartLoop.
Variable im : string -> bool.
Variable entries : list pentry.
Variable orig : list string.

(* an entry that one iteration rejects whatever all_ranks has become is rejected by the loop,
   wherever it sits in the dictionary *)
Lemma part_loop_reject_local todo all en :
  In en todo -> (forall all', fst (part_step im entries orig all' en) <> Ok) ->
  part_loop im entries orig all todo <> Ok.
Proof.
  revert all. induction todo as [|x todo IH]; intros all Hin Hloc; [destruct Hin|].
  simpl. destruct Hin as [Hx|Hin].
  - subst x. specialize (Hloc all). destruct (part_step im entries orig all en) as [r all'].
    simpl in Hloc. destruct r; congruence.
  - destruct (part_step im entries orig all x) as [r all']. destruct r; try discriminate.
    apply IH; assumption.
Qed.

Lemma step_reject_of_check all en :
  pe_parts en <> [] ->
  check_flatten im entries orig all (pe_ranks en) (pe_parts en) <> Ok ->
  fst (part_step im entries orig all en) <> Ok.
Proof.
  intros Hne Hc. unfold part_step. destruct (pe_parts en) as [|p ps] eqn:Ep; [congruence|].
  destruct (nway_after_dyn (p :: ps)); [discriminate|].
  destruct (check_flatten im entries orig all (pe_ranks en) (p :: ps)) as [|x|]; simpl; congruence.
Qed.

Lemma ctr_reject all T r :
  In r T -> (partitioned_indep entries r = true \/ derived_name orig r = true) ->
  check_tuple_ranks entries orig all T <> Ok.
Proof.
  intros Hin Hr. induction T as [|x T IH]; [destruct Hin|]. simpl.
  destruct (partitioned_indep entries x) eqn:Ep; [discriminate|].
  destruct Hin as [Hx|Hin].
  - subst x. destruct Hr as [Hr|Hr]; [congruence|].
    unfold derived_name in Hr. apply andb_true_iff in Hr as [H1 H2]. rewrite H1.
    destruct (mem r all); [discriminate|]. rewrite H2. discriminate.
  - destruct (negb (mem x orig)); [|apply IH; exact Hin].
    destruct (mem x all); [discriminate|]. destruct (negb (bottom_of_orig orig x)); [discriminate|].
    apply IH; exact Hin.
Qed.

Lemma check_flatten_reject all T parts :
  existsb is_flatten parts = true ->
  (2 <= length parts \/ length T < 2 \/ existsb im T = true \/ check_tuple_ranks entries orig all T <> Ok) ->
  check_flatten im entries orig all T parts <> Ok.
Proof.
  intros Hf H. unfold check_flatten. rewrite Hf. simpl.
  destruct (Nat.ltb 1 (length parts)) eqn:E1; [discriminate|].
  destruct (Nat.ltb (length T) 2) eqn:E2; [discriminate|].
  destruct (existsb im T) eqn:E3; [discriminate|].
  apply Nat.ltb_ge in E1. apply Nat.ltb_ge in E2.
  destruct H as [H|[H|[H|H]]]; try lia; try discriminate. exact H.
Qed.

Lemma flatten_parts_nonempty en : flatten_entry_b en = true -> pe_parts en <> [].
Proof. unfold flatten_entry_b. destruct (pe_parts en); [discriminate|discriminate]. Qed.

(* a flatten() entry with one of the four defects is rejected by one iteration, whatever all_ranks is *)
Lemma flatten_entry_rejected all en :
  flatten_entry_b en = true ->
  (2 <= length (pe_parts en) \/ length (pe_ranks en) < 2 \/ existsb im (pe_ranks en) = true \/
   exists r, In r (pe_ranks en) /\ (partitioned_indep entries r = true \/ derived_name orig r = true)) ->
  fst (part_step im entries orig all en) <> Ok.
Proof.
  intros Hf H. apply step_reject_of_check; [apply flatten_parts_nonempty; exact Hf|].
  apply check_flatten_reject; [exact Hf|].
  destruct H as [H|[H|[H|[r [Hr Hc]]]]]; auto.
  right. right. right. eapply ctr_reject; eassumption.
Qed.

Lemma occ_then_nway_dyn ps : forall seen dyn,
  occ_then_nway seen ps = true -> (seen = true -> dyn = true) -> nway_after_dyn_aux dyn ps = true.
Proof.
  induction ps as [|p ps IH]; intros seen dyn H Hs; simpl in *; [discriminate|].
  apply orb_true_iff in H as [H|H].
  - apply andb_true_iff in H as [Hn Hseen]. rewrite (Hs Hseen).
    destruct p; try discriminate. reflexivity.
  - destruct (is_static p) eqn:Est.
    + destruct (is_nway p && dyn); [reflexivity|]. apply (IH (seen || is_occ p)); [exact H|].
      destruct p; try discriminate; simpl; rewrite orb_false_r; exact Hs.
    + apply (IH (seen || is_occ p)); [exact H|reflexivity].
Qed.

Lemma nway_entry_rejected all en :
  occ_then_nway false (pe_parts en) = true -> fst (part_step im entries orig all en) <> Ok.
Proof.
  intro H. unfold part_step.
  assert (Hn : nway_after_dyn (pe_parts en) = true).
  { unfold nway_after_dyn. apply (occ_then_nway_dyn _ false false H). discriminate. }
  destruct (pe_parts en) as [|p ps]; [discriminate|]. rewrite Hn. discriminate.
Qed.

Lemma tuple_entry_rejected all en :
  Nat.eqb (length (pe_ranks en)) 1 = false -> Nat.eqb (length (pe_parts en)) 0 = false ->
  flatten_entry_b en = false -> fst (part_step im entries orig all en) <> Ok.
Proof.
  intros H1 H2 H3. apply step_reject_of_check.
  - destruct (pe_parts en); [discriminate|discriminate].
  - unfold check_flatten. unfold flatten_entry_b in H3. rewrite H3. simpl. rewrite H1. discriminate.
Qed.

Lemma shape_entry_rejected all en name :
  pe_ranks en = [name] -> mem name orig = false -> shape_split_applies entries en = true ->
  fst (part_step im entries orig all en) <> Ok.
Proof.
  intros Hr Hno Hs. unfold shape_split_applies in Hs. unfold part_step.
  destruct (pe_parts en) as [|p ps] eqn:Ep; [simpl in Hs; discriminate|].
  destruct (nway_after_dyn (p :: ps)); [discriminate|].
  destruct (check_flatten im entries orig all (pe_ranks en) (p :: ps)) as [|x|]; try (simpl; congruence).
  rewrite Hr. destruct (eff_parts entries (p :: ps)) as [l|]; [|discriminate].
  rewrite Hno, Hs. discriminate.
Qed.

End PartLoop.

Lemma part_guard_reject s e en :
  In en (e_parts e) ->
  (forall all, fst (part_step (imath s e) (e_parts e) (orig_ranks s e) all en) <> Ok) ->
  part_guard s e <> Ok.
Proof. intros Hin H. unfold part_guard. eapply part_loop_reject_local; eassumption. Qed.

(* ------------------------------------------------------------------ lifting to the whole specification *)

Lemma part_rule_rejected s (f : einsum -> pentry -> bool) :
  (forall e en all, f e en = true ->
     fst (part_step (imath s e) (e_parts e) (orig_ranks s e) all en) <> Ok) ->
  any_einsum (fun e => existsb (f e) (e_parts e)) s = true -> no_crash s -> exists x, guard s = Err x.
Proof.
  intros Hloc H Hnc. apply any_einsum_exists in H as [e [He H]].
  apply existsb_exists in H as [en [Hen Hf]].
  apply (stage_rejects s (part_guard s e)); [|eapply part_guard_reject; eauto|exact Hnc].
  eapply einsum_stage_in; [exact He|]. simpl. auto.
Qed.

Lemma eq_rule_rejected s (f : einsum -> bool) :
  (forall e, f e = true -> eq_guard s e <> Ok) ->
  any_einsum f s = true -> no_crash s -> exists x, guard s = Err x.
Proof.
  intros Hloc H Hnc. apply any_einsum_exists in H as [e [He H]].
  apply (stage_rejects s (eq_guard s e)); [|auto|exact Hnc].
  eapply einsum_stage_in; [exact He|]. simpl. auto.
Qed.

(* ------------------------------------------------------------------ the fifteen rules *)

Theorem dup_rank_rejected s : r_dup_rank s = true -> no_crash s -> exists x, guard s = Err x.
Proof.
  intros H Hnc. apply (stage_rejects s (decl_guard s)); [simpl; auto| |exact Hnc].
  rewrite (dup_rank_guard s H). discriminate.
Qed.

Theorem missing_config_rejected s : r_missing_config s = true -> guard s = Err ENoConfig.
Proof. intro H. unfold guard, stages. simpl. rewrite (missing_config_guard s H). reflexivity. Qed.

Theorem undeclared_tensor_rejected s : r_undeclared s = true -> no_crash s -> exists x, guard s = Err x.
Proof. apply eq_rule_rejected. intros e H. apply undeclared_guard. exact H. Qed.

Theorem repeated_tensor_rejected s : r_repeated s = true -> no_crash s -> exists x, guard s = Err x.
Proof. apply eq_rule_rejected. intros e H. apply repeated_guard. apply negb_true_iff. exact H. Qed.

Theorem term_rank_mismatch_rejected s : r_term_mismatch s = true -> no_crash s -> exists x, guard s = Err x.
Proof.
  apply eq_rule_rejected. intros e H.
  apply existsb_exists in H as [t1 [H1 H]]. apply existsb_exists in H as [t2 [H2 H]].
  apply (term_mismatch_guard s e t1 t2 H1 H2). apply negb_true_iff. exact H.
Qed.

Theorem flatten_with_others_rejected s : r_flatten_with_others s = true -> no_crash s -> exists x, guard s = Err x.
Proof.
  apply (part_rule_rejected s (fun _ en => flatten_entry_b en && Nat.leb 2 (length (pe_parts en)))).
  intros e en all H. apply andb_true_iff in H as [Hf Hl]. apply Nat.leb_le in Hl.
  apply flatten_entry_rejected; auto.
Qed.

Theorem flatten_lt2_rejected s : r_flatten_lt2 s = true -> no_crash s -> exists x, guard s = Err x.
Proof.
  apply (part_rule_rejected s (fun _ en => flatten_entry_b en && Nat.ltb (length (pe_ranks en)) 2)).
  intros e en all H. apply andb_true_iff in H as [Hf Hl]. apply Nat.ltb_lt in Hl.
  apply flatten_entry_rejected; auto.
Qed.

Theorem flatten_index_math_rejected s : r_flatten_index_math s = true -> no_crash s -> exists x, guard s = Err x.
Proof.
  apply (part_rule_rejected s (fun e en => flatten_entry_b en && existsb (imath s e) (pe_ranks en))).
  intros e en all H. apply andb_true_iff in H as [Hf Hl].
  apply flatten_entry_rejected; auto.
Qed.

Theorem flatten_and_partitioned_rejected s :
  r_flatten_and_partitioned s = true -> no_crash s -> exists x, guard s = Err x.
Proof.
  apply (part_rule_rejected s (fun e en => flatten_entry_b en && existsb (partitioned_indep (e_parts e)) (pe_ranks en))).
  intros e en all H. apply andb_true_iff in H as [Hf Hl]. apply existsb_exists in Hl as [r [Hr Hp]].
  apply flatten_entry_rejected; [exact Hf|]. right. right. right. exists r. auto.
Qed.

Theorem flatten_of_flattened_rejected s :
  r_flatten_of_flattened s = true -> no_crash s -> exists x, guard s = Err x.
Proof.
  intros H Hnc. apply any_einsum_exists in H as [e [He H]].
  apply existsb_exists in H as [en1 [Hen1 H]]. apply andb_true_iff in H as [H H2].
  apply andb_true_iff in H as [Hf1 Hd]. apply existsb_exists in H2 as [en2 [Hen2 H2]].
  apply andb_true_iff in H2 as [Hf2 Hm]. apply mem_In in Hm.
  apply (stage_rejects s (part_guard s e)); [eapply einsum_stage_in; [exact He|simpl; auto]| |exact Hnc].
  apply (part_guard_reject s e en2 Hen2). intro all.
  apply flatten_entry_rejected; [exact Hf2|]. right. right. right. exists (flat_name en1). auto.
Qed.

Theorem nway_after_occupancy_rejected s :
  r_nway_after_occupancy s = true -> no_crash s -> exists x, guard s = Err x.
Proof.
  apply (part_rule_rejected s (fun _ en => occ_then_nway false (pe_parts en))).
  intros e en all H. apply nway_entry_rejected. exact H.
Qed.

Theorem shape_after_flatten_rejected s :
  r_shape_after_flatten s = true -> no_crash s -> exists x, guard s = Err x.
Proof.
  intros H Hnc. apply any_einsum_exists in H as [e [He H]].
  apply existsb_exists in H as [en1 [Hen1 H]]. apply andb_true_iff in H as [H H2].
  apply andb_true_iff in H as [Hf1 Hno]. apply existsb_exists in H2 as [en2 [Hen2 H2]].
  apply andb_true_iff in H2 as [Hk Hs]. apply strs_eqb_eq in Hk. apply negb_true_iff in Hno.
  apply (stage_rejects s (part_guard s e)); [eapply einsum_stage_in; [exact He|simpl; auto]| |exact Hnc].
  apply (part_guard_reject s e en2 Hen2). intro all.
  eapply shape_entry_rejected; eauto.
Qed.

Theorem directive_on_tuple_rejected s :
  r_directive_on_tuple s = true -> no_crash s -> exists x, guard s = Err x.
Proof.
  apply (part_rule_rejected s (fun _ en => negb (Nat.eqb (length (pe_ranks en)) 1) &&
                                           negb (Nat.eqb (length (pe_parts en)) 0) && negb (flatten_entry_b en))).
  intros e en all H. apply andb_true_iff in H as [H H3]. apply andb_true_iff in H as [H1 H2].
  apply negb_true_iff in H1, H2, H3. apply tuple_entry_rejected; assumption.
Qed.

(* the two dataflow rules: flow_guard is the stated condition itself (the loop-nest construction
   that leads to the two raises is not modelled), so these two are immediate *)
Theorem output_only_flattened_loop_rejected s :
  r_output_only_flattened_loop s = true -> no_crash s -> exists x, guard s = Err x.
Proof.
  intros H Hnc. apply any_einsum_exists in H as [e [He H]].
  apply (stage_rejects s (flow_guard s e)); [eapply einsum_stage_in; [exact He|simpl; auto]| |exact Hnc].
  unfold flow_guard. rewrite H. discriminate.
Qed.

Theorem project_into_output_rejected s :
  r_project_into_output s = true -> no_crash s -> exists x, guard s = Err x.
Proof.
  intros H Hnc. apply any_einsum_exists in H as [e [He H]].
  apply (stage_rejects s (flow_guard s e)); [eapply einsum_stage_in; [exact He|simpl; auto]| |exact Hnc].
  unfold flow_guard. destruct (existsb _ _); [discriminate|]. rewrite H. discriminate.
Qed.

(* all of them at once: a specification that is an instance of ANY stated rule is never accepted *)
Theorem violated_rejected s : violated s <> [] -> no_crash s -> exists x, guard s = Err x.
Proof.
  intros Hv Hnc. unfold violated in Hv.
  destruct (filter (fun nr => snd nr s) rules) as [|nr l] eqn:E; [simpl in Hv; congruence|].
  assert (Hin : In nr (filter (fun nr => snd nr s) rules)) by (rewrite E; left; reflexivity).
  apply filter_In in Hin as [Hin Ht]. unfold rules in Hin. simpl in Hin.
  repeat (destruct Hin as [Hin|Hin]; [subst nr; simpl in Ht|]); try contradiction.
  - apply dup_rank_rejected; assumption.
  - apply undeclared_tensor_rejected; assumption.
  - apply repeated_tensor_rejected; assumption.
  - apply term_rank_mismatch_rejected; assumption.
  - apply flatten_with_others_rejected; assumption.
  - apply flatten_lt2_rejected; assumption.
  - apply flatten_index_math_rejected; assumption.
  - apply flatten_and_partitioned_rejected; assumption.
  - apply flatten_of_flattened_rejected; assumption.
  - apply nway_after_occupancy_rejected; assumption.
  - apply shape_after_flatten_rejected; assumption.
  - apply directive_on_tuple_rejected; assumption.
  - apply project_into_output_rejected; assumption.
  - apply output_only_flattened_loop_rejected; assumption.
  - exists ENoConfig. apply missing_config_rejected; assumption.
Qed.

(* ================================================================== Prop readings of the rule deciders *)

Ltac btrue := repeat match goal with
  | H : _ && _ = true |- _ => apply andb_true_iff in H; destruct H
  | H : negb _ = true |- _ => apply negb_true_iff in H
  | |- _ && _ = true => apply andb_true_iff; split
  | |- negb _ = true => apply negb_true_iff
  end.

Definition flatten_entry (en : pentry) : Prop := In DFlatten (pe_parts en).

Lemma flatten_entry_iff en : flatten_entry_b en = true <-> flatten_entry en.
Proof. apply is_flatten_In. Qed.

Lemma mem_false x l : mem x l = false <-> ~ In x l.
Proof.
  split; intro H.
  - intro Hin. apply mem_In in Hin. congruence.
  - destruct (mem x l) eqn:E; [|reflexivity]. apply mem_In in E. contradiction.
Qed.

Lemma nodupb_false l : nodupb l = false <-> ~ NoDup l.
Proof.
  split; intro H.
  - intro Hn. apply nodupb_NoDup in Hn. congruence.
  - destruct (nodupb l) eqn:E; [|reflexivity]. apply nodupb_NoDup in E. contradiction.
Qed.

Lemma set_eqb_false a b : set_eqb a b = false <-> ~ (forall v, In v a <-> In v b).
Proof.
  split; intro H.
  - intro Hn. pose proof (proj2 (set_eqb_iff a b) Hn). congruence.
  - destruct (set_eqb a b) eqn:E; [|reflexivity]. exfalso. apply H. apply (proj1 (set_eqb_iff a b)). exact E.
Qed.

(* ---- duplicate rank in a declaration *)
Definition dup_rank (s : spec) : Prop := exists t rs, In (t, rs) (s_decl s) /\ ~ NoDup rs.

Lemma r_dup_rank_iff s : r_dup_rank s = true <-> dup_rank s.
Proof.
  unfold r_dup_rank, dup_rank. rewrite existsb_exists. split.
  - intros [[t rs] [Hin H]]. simpl in H. btrue. exists t, rs. split; [exact Hin|]. apply nodupb_false. exact H.
  - intros [t [rs [Hin H]]]. exists (t, rs). split; [exact Hin|]. simpl. btrue. apply nodupb_false. exact H.
Qed.

(* ---- undeclared or repeated tensor in an Einsum *)
Definition undeclared_tensor (s : spec) : Prop :=
  exists e n, In e (s_einsums s) /\ In n (es_names e) /\ ~ In n (map fst (s_decl s)).

Lemma r_undeclared_iff s : r_undeclared s = true <-> undeclared_tensor s.
Proof.
  unfold r_undeclared, undeclared_tensor. rewrite any_einsum_exists. split.
  - intros [e [He H]]. apply existsb_exists in H as [n [Hn H]]. btrue. exists e, n. repeat split; auto.
    apply mem_false. exact H.
  - intros [e [n [He [Hn H]]]]. exists e. split; [exact He|]. apply existsb_exists. exists n. split; [exact Hn|].
    btrue. apply mem_false. exact H.
Qed.

Definition repeated_tensor (s : spec) : Prop := exists e, In e (s_einsums s) /\ ~ NoDup (es_names e).

Lemma r_repeated_iff s : r_repeated s = true <-> repeated_tensor s.
Proof.
  unfold r_repeated, repeated_tensor. rewrite any_einsum_exists. split.
  - intros [e [He H]]. btrue. exists e. split; [exact He|]. apply nodupb_false. exact H.
  - intros [e [He H]]. exists e. split; [exact He|]. btrue. apply nodupb_false. exact H.
Qed.

(* ---- terms ranging over different rank sets *)
Definition term_rank_mismatch (s : spec) : Prop :=
  exists e t1 t2, In e (s_einsums s) /\ In t1 (e_terms e) /\ In t2 (e_terms e) /\
                  ~ (forall v, In v (term_vars t1) <-> In v (term_vars t2)).

Lemma r_term_mismatch_iff s : r_term_mismatch s = true <-> term_rank_mismatch s.
Proof.
  unfold r_term_mismatch, term_rank_mismatch. rewrite any_einsum_exists. split.
  - intros [e [He H]]. apply existsb_exists in H as [t1 [H1 H]]. apply existsb_exists in H as [t2 [H2 H]]. btrue.
    exists e, t1, t2. repeat split; auto. apply set_eqb_false. exact H.
  - intros [e [t1 [t2 [He [H1 [H2 H]]]]]]. exists e. split; [exact He|]. apply existsb_exists. exists t1. split; [exact H1|].
    apply existsb_exists. exists t2. split; [exact H2|]. btrue. apply set_eqb_false. exact H.
Qed.

(* ---- rules on one entry of the partitioning dictionary *)
Lemma entry_rule_iff (s : spec) (f : einsum -> pentry -> bool) (P : einsum -> pentry -> Prop) :
  (forall e en, f e en = true <-> P e en) ->
  any_einsum (fun e => existsb (f e) (e_parts e)) s = true <->
  exists e en, In e (s_einsums s) /\ In en (e_parts e) /\ P e en.
Proof.
  intro Hf. rewrite any_einsum_exists. split.
  - intros [e [He H]]. apply existsb_exists in H as [en [Hen H]]. exists e, en. repeat split; auto. apply Hf. exact H.
  - intros [e [en [He [Hen H]]]]. exists e. split; [exact He|]. apply existsb_exists. exists en. split; [exact Hen|].
    apply Hf. exact H.
Qed.

Definition flatten_with_others (s : spec) : Prop :=
  exists e en, In e (s_einsums s) /\ In en (e_parts e) /\ (flatten_entry en /\ 2 <= length (pe_parts en)).

Lemma r_flatten_with_others_iff s : r_flatten_with_others s = true <-> flatten_with_others s.
Proof.
  apply (entry_rule_iff s (fun _ en => flatten_entry_b en && Nat.leb 2 (length (pe_parts en)))).
  intros e en. rewrite andb_true_iff, flatten_entry_iff, Nat.leb_le. tauto.
Qed.

Definition flatten_lt2 (s : spec) : Prop :=
  exists e en, In e (s_einsums s) /\ In en (e_parts e) /\ (flatten_entry en /\ length (pe_ranks en) < 2).

Lemma r_flatten_lt2_iff s : r_flatten_lt2 s = true <-> flatten_lt2 s.
Proof.
  apply (entry_rule_iff s (fun _ en => flatten_entry_b en && Nat.ltb (length (pe_ranks en)) 2)).
  intros e en. rewrite andb_true_iff, flatten_entry_iff, Nat.ltb_lt. tauto.
Qed.

(* r takes part in index math: some tensor access relates it, with a non-zero net coefficient, to the
   declared rank D of the position it is written at (expression - D is not identically 0 in r) *)
Definition index_math_rank (s : spec) (e : einsum) (r : string) : Prop :=
  exists a d x, In a (es_accesses e) /\ In (d, x) (combine (decl_ranks s (a_name a)) (a_idx a)) /\
                In r (d :: iexpr_vars x) /\ net_coef d x r <> 0%Z.

Lemma imath_iff s e r : imath s e r = true <-> index_math_rank s e r.
Proof.
  unfold imath, index_math_rank, acc_rel_has, rel_has. rewrite existsb_exists. split.
  - intros [a [Ha H]]. apply existsb_exists in H as [[d x] [Hdx H]]. cbn [fst snd] in H. btrue.
    exists a, d, x. repeat split; auto. apply mem_In. exact H.
    intro Hz. rewrite Hz in H0. discriminate.
  - intros [a [d [x [Ha [Hdx [Hin Hz]]]]]]. exists a. split; [exact Ha|]. apply existsb_exists. exists (d, x).
    split; [exact Hdx|]. cbn [fst snd]. btrue. apply mem_In. exact Hin. apply Z.eqb_neq. exact Hz.
Qed.

Definition flatten_index_math (s : spec) : Prop :=
  exists e en, In e (s_einsums s) /\ In en (e_parts e) /\
               (flatten_entry en /\ exists r, In r (pe_ranks en) /\ index_math_rank s e r).

Lemma r_flatten_index_math_iff s : r_flatten_index_math s = true <-> flatten_index_math s.
Proof.
  apply (entry_rule_iff s (fun e en => flatten_entry_b en && existsb (imath s e) (pe_ranks en))).
  intros e en. rewrite andb_true_iff, flatten_entry_iff, existsb_exists.
  split; intros [H1 [r [Hr H]]]; (split; [exact H1|]); exists r; (split; [exact Hr|]); apply imath_iff; exact H.
Qed.

(* the partitioning dictionary maps r alone to a non-empty directive list *)
Definition independently_partitioned (entries : list pentry) (r : string) : Prop :=
  exists p ps, part_of entries [r] = Some (p :: ps).

Lemma partitioned_indep_iff entries r : partitioned_indep entries r = true <-> independently_partitioned entries r.
Proof.
  unfold partitioned_indep, independently_partitioned. destruct (part_of entries [r]) as [[|p ps]|]; split;
    try discriminate; try (intros [p' [ps' H]]; discriminate).
  - intros _. exists p, ps. reflexivity.
  - reflexivity.
Qed.

Definition flatten_and_partitioned (s : spec) : Prop :=
  exists e en, In e (s_einsums s) /\ In en (e_parts e) /\
               (flatten_entry en /\ exists r, In r (pe_ranks en) /\ independently_partitioned (e_parts e) r).

Lemma r_flatten_and_partitioned_iff s : r_flatten_and_partitioned s = true <-> flatten_and_partitioned s.
Proof.
  apply (entry_rule_iff s (fun e en => flatten_entry_b en && existsb (partitioned_indep (e_parts e)) (pe_ranks en))).
  intros e en. rewrite andb_true_iff, flatten_entry_iff, existsb_exists.
  split; intros [H1 [r [Hr H]]]; (split; [exact H1|]); exists r; (split; [exact Hr|]); apply partitioned_indep_iff; exact H.
Qed.

(* a name that only flattening produces *)
Definition derived (orig : list string) (r : string) : Prop :=
  ~ In r orig /\ ~ exists x, In x orig /\ x ++ "0" = r.

Lemma derived_name_iff orig r : derived_name orig r = true <-> derived orig r.
Proof.
  unfold derived_name, derived, bottom_of_orig. rewrite andb_true_iff, !negb_true_iff, mem_false. split.
  - intros [H1 H2]. split; [exact H1|]. intros [x [Hx Hs]].
    assert (existsb (fun x => String.eqb (x ++ "0") r) orig = true); [|congruence].
    apply existsb_exists. exists x. split; [exact Hx|]. apply String.eqb_eq. exact Hs.
  - intros [H1 H2]. split; [exact H1|].
    destruct (existsb (fun x => String.eqb (x ++ "0") r) orig) eqn:E; [|reflexivity].
    exfalso. apply H2. apply existsb_exists in E as [x [Hx Hs]]. exists x. split; [exact Hx|]. apply String.eqb_eq. exact Hs.
Qed.

Definition flatten_of_flattened (s : spec) : Prop :=
  exists e en1 en2, In e (s_einsums s) /\ In en1 (e_parts e) /\ In en2 (e_parts e) /\
    flatten_entry en1 /\ derived (orig_ranks s e) (flat_name en1) /\
    flatten_entry en2 /\ In (flat_name en1) (pe_ranks en2).

Lemma r_flatten_of_flattened_iff s : r_flatten_of_flattened s = true <-> flatten_of_flattened s.
Proof.
  unfold r_flatten_of_flattened, flatten_of_flattened. rewrite any_einsum_exists. split.
  - intros [e [He H]]. apply existsb_exists in H as [en1 [H1 H]].
    apply andb_true_iff in H as [H Hx]. apply andb_true_iff in H as [Hf1 Hd].
    apply existsb_exists in Hx as [en2 [H2 Hx]]. apply andb_true_iff in Hx as [Hf2 Hm].
    apply derived_name_iff in Hd.
    exists e, en1, en2. repeat split; auto; try (apply flatten_entry_iff; assumption); try apply Hd.
    apply mem_In. assumption.
  - intros [e [en1 [en2 [He [H1 [H2 [Hf1 [Hd [Hf2 Hin]]]]]]]]]. exists e. split; [exact He|].
    apply existsb_exists. exists en1. split; [exact H1|]. btrue.
    + apply flatten_entry_iff. exact Hf1.
    + apply derived_name_iff. exact Hd.
    + apply existsb_exists. exists en2. split; [exact H2|]. btrue; [apply flatten_entry_iff; exact Hf2|apply mem_In; exact Hin].
Qed.

(* ---- an n-way split after an occupancy split: ... uniform_occupancy ... nway_shape ... in one stack *)
Lemma occ_then_nway_seen ps : forall seen, occ_then_nway seen ps = true <->
  ((seen = true /\ In DNway ps) \/ exists pre l mid post, ps = (pre ++ DUOcc l :: mid ++ DNway :: post)%list).
Proof.
  induction ps as [|p ps IH]; intro seen; simpl.
  - split; [discriminate|]. intros [[_ []]|[pre [l [mid [post H]]]]]. destruct pre; discriminate.
  - rewrite orb_true_iff, andb_true_iff, IH. split.
    + intros [[Hn Hs]|[[Hs Hin]|[pre [l [mid [post H]]]]]].
      * left. split; [exact Hs|]. left. destruct p; try discriminate. reflexivity.
      * apply orb_true_iff in Hs as [Hs|Hs].
        -- left. split; [exact Hs|right; exact Hin].
        -- right. destruct p; try discriminate. apply in_split in Hin as [mid [post Hin]].
           exists [], leader, mid, post. simpl. rewrite Hin. reflexivity.
      * right. exists (p :: pre), l, mid, post. simpl. rewrite H. reflexivity.
    + intros [[Hs [Hp|Hin]]|[pre [l [mid [post H]]]]].
      * left. subst p. split; [reflexivity|exact Hs].
      * right. left. split; [rewrite Hs; reflexivity|exact Hin].
      * destruct pre as [|p' pre]; simpl in H; inversion H; subst.
        -- right. left. split; [simpl; apply orb_true_r|]. apply in_or_app. right. left. reflexivity.
        -- right. right. exists pre, l, mid, post. reflexivity.
Qed.

Definition nway_after_occupancy (s : spec) : Prop :=
  exists e en, In e (s_einsums s) /\ In en (e_parts e) /\
               (exists pre l mid post, pe_parts en = (pre ++ DUOcc l :: mid ++ DNway :: post)%list).

Lemma r_nway_after_occupancy_iff s : r_nway_after_occupancy s = true <-> nway_after_occupancy s.
Proof.
  apply (entry_rule_iff s (fun _ en => occ_then_nway false (pe_parts en))).
  intros e en. rewrite occ_then_nway_seen. split.
  - intros [[H _]|H]; [discriminate|exact H].
  - intro H. right. exact H.
Qed.

(* ---- a shape split after flattening: a shape directive applies to the flattened rank (its own list,
        or the list of the rank it follows) *)
Definition shape_after_flatten (s : spec) : Prop :=
  exists e en1 en2 ps d, In e (s_einsums s) /\ In en1 (e_parts e) /\ In en2 (e_parts e) /\
    flatten_entry en1 /\ ~ In (flat_name en1) (orig_ranks s e) /\ pe_ranks en2 = [flat_name en1] /\
    eff_parts (e_parts e) (pe_parts en2) = Some ps /\ In d ps /\ (d = DUShape \/ d = DNway).

Lemma is_static_iff d : is_static d = true <-> (d = DUShape \/ d = DNway).
Proof. destruct d; simpl; split; try discriminate; auto; intros [H|H]; discriminate. Qed.

Lemma r_shape_after_flatten_iff s : r_shape_after_flatten s = true <-> shape_after_flatten s.
Proof.
  unfold r_shape_after_flatten, shape_after_flatten, shape_split_applies. rewrite any_einsum_exists. split.
  - intros [e [He H]]. apply existsb_exists in H as [en1 [H1 H]].
    apply andb_true_iff in H as [H Hx]. apply andb_true_iff in H as [Hf1 Hno]. apply negb_true_iff in Hno.
    apply existsb_exists in Hx as [en2 [H2 Hx]]. apply andb_true_iff in Hx as [Hk Hs].
    destruct (eff_parts (e_parts e) (pe_parts en2)) as [ps|] eqn:E; [|discriminate].
    apply existsb_exists in Hs as [d [Hd Hst]].
    exists e, en1, en2, ps, d. repeat split; auto.
    + apply flatten_entry_iff. assumption.
    + apply mem_false. assumption.
    + apply strs_eqb_eq. assumption.
    + apply is_static_iff. exact Hst.
  - intros [e [en1 [en2 [ps [d [He [H1 [H2 [Hf [Hno [Hk [He2 [Hd Hst]]]]]]]]]]]]]. exists e. split; [exact He|].
    apply existsb_exists. exists en1. split; [exact H1|]. btrue.
    + apply flatten_entry_iff. exact Hf.
    + apply mem_false. exact Hno.
    + apply existsb_exists. exists en2. split; [exact H2|]. btrue.
      * apply strs_eqb_eq. exact Hk.
      * rewrite He2. apply existsb_exists. exists d. split; [exact Hd|]. apply is_static_iff. exact Hst.
Qed.

(* ---- a non-flatten directive on a rank tuple *)
Definition directive_on_tuple (s : spec) : Prop :=
  exists e en, In e (s_einsums s) /\ In en (e_parts e) /\
               (length (pe_ranks en) <> 1 /\ pe_parts en <> [] /\ ~ flatten_entry en).

Lemma r_directive_on_tuple_iff s : r_directive_on_tuple s = true <-> directive_on_tuple s.
Proof.
  apply (entry_rule_iff s (fun _ en => negb (Nat.eqb (length (pe_ranks en)) 1) &&
                                       negb (Nat.eqb (length (pe_parts en)) 0) && negb (flatten_entry_b en))).
  intros e en. rewrite !andb_true_iff, !negb_true_iff, !Nat.eqb_neq. split.
  - intros [[H1 H2] H3]. repeat split; auto.
    + intro Hn. rewrite Hn in H2. apply H2. reflexivity.
    + intro Hf. apply flatten_entry_iff in Hf. congruence.
  - intros [H1 [H2 H3]]. repeat split; auto.
    + destruct (pe_parts en); [congruence|discriminate].
    + destruct (flatten_entry_b en) eqn:E; [|reflexivity]. apply flatten_entry_iff in E. contradiction.
Qed.

(* ---- an Einsum without accelerator config in the bindings *)
Definition missing_config (s : spec) : Prop :=
  exists bs b, s_bind s = Some bs /\ In b bs /\ forall c, In c (snd b) -> c = false.

Lemma r_missing_config_iff s : r_missing_config s = true <-> missing_config s.
Proof.
  unfold r_missing_config, missing_config. destruct (s_bind s) as [bs|].
  - rewrite existsb_exists. split.
    + intros [b [Hb H]]. btrue. exists bs, b. repeat split; auto. intros c Hc.
      destruct c; [|reflexivity]. assert (existsb (fun c => c) (snd b) = true); [|congruence].
      apply existsb_exists. exists true. auto.
    + intros [bs' [b [Hbs [Hb H]]]]. inversion Hbs; subst bs'. exists b. split; [exact Hb|]. btrue.
      destruct (existsb (fun c => c) (snd b)) eqn:E; [|reflexivity].
      apply existsb_exists in E as [c [Hc Ht]]. rewrite (H c Hc) in Ht. discriminate.
  - split; [discriminate|]. intros [bs [b [H _]]]. discriminate.
Qed.

(* ---- the two dataflow rules *)
Definition Holds (ranks : list string) (r : string) : Prop := In r ranks \/ exists x, In x ranks /\ x ++ "0" = r.

Lemma holds_iff ranks r : holds ranks r = true <-> Holds ranks r.
Proof.
  unfold holds, Holds. rewrite orb_true_iff, existsb_exists. split.
  - intros [H|[x [Hx H]]]; [left; apply mem_In; exact H|right; exists x; split; [exact Hx|apply String.eqb_eq; exact H]].
  - intros [H|[x [Hx H]]]; [left; apply mem_In; exact H|right; exists x; split; [exact Hx|apply String.eqb_eq; exact H]].
Qed.

Definition iterated (e : einsum) (r : string) : Prop :=
  match e_loop e with Some l => In r l | None => True end.

(* the flattened rank is iterated; the output holds every rank of the tuple; every input lacks one *)
Definition output_only_flattened_loop (s : spec) : Prop :=
  exists e en, In e (s_einsums s) /\ In en (e_parts e) /\ flatten_entry en /\
    iterated e (flat_name en) /\
    (forall r, In r (pe_ranks en) -> Holds (eff_ranks s (a_name (e_out e))) r) /\
    (forall a, In a (concat (e_terms e)) -> exists r, In r (pe_ranks en) /\ ~ Holds (eff_ranks s (a_name a)) r).

Lemma holds_all_iff ranks T : holds_all ranks T = true <-> forall r, In r T -> Holds ranks r.
Proof.
  unfold holds_all. rewrite forallb_forall. split; intros H r Hr; apply holds_iff; apply H; exact Hr.
Qed.

Lemma not_holds_all_iff ranks T : holds_all ranks T = false <-> exists r, In r T /\ ~ Holds ranks r.
Proof.
  unfold holds_all. induction T as [|x T IH]; simpl.
  - split; [discriminate|]. intros [r [[] _]].
  - rewrite andb_false_iff, IH. split.
    + intros [H|[r [Hr H]]].
      * exists x. split; [left; reflexivity|]. intro Hh. apply holds_iff in Hh. congruence.
      * exists r. split; [right; exact Hr|exact H].
    + intros [r [[Hr|Hr] H]].
      * subst. left. destruct (holds ranks r) eqn:E; [|reflexivity]. apply holds_iff in E. contradiction.
      * right. exists r. split; assumption.
Qed.

Lemma r_output_only_flattened_loop_iff s : r_output_only_flattened_loop s = true <-> output_only_flattened_loop s.
Proof.
  unfold r_output_only_flattened_loop, output_only_flattened_loop, flat_entries, output_only_flat, in_loop, iterated.
  rewrite any_einsum_exists. split.
  - intros [e [He H]]. apply existsb_exists in H as [T [HT H]]. apply in_map_iff in HT as [en [HT Hen]]. subst T.
    apply filter_In in Hen as [Hen Hf]. btrue. exists e, en. repeat split; auto.
    + apply is_flatten_In. exact Hf.
    + unfold flat_name. destruct (e_loop e); [apply mem_In; exact H|exact I].
    + apply holds_all_iff. exact H1.
    + intros a Ha. rewrite forallb_forall in H0. specialize (H0 a Ha). btrue. apply not_holds_all_iff. exact H0.
  - intros [e [en [He [Hen [Hf [Hit [Hout Hin]]]]]]]. exists e. split; [exact He|]. apply existsb_exists.
    exists (pe_ranks en). split.
    + apply in_map. apply filter_In. split; [exact Hen|apply is_flatten_In; exact Hf].
    + btrue.
      * unfold flat_name in Hit. destruct (e_loop e); [apply mem_In; exact Hit|reflexivity].
      * apply holds_all_iff. exact Hout.
      * apply forallb_forall. intros a Ha. btrue. apply not_holds_all_iff. apply Hin. exact Ha.
Qed.

(* an output rank that takes part in index math is not iterated by the explicit loop order (under the name of its
   innermost level): its coordinate would be projected from the ranks that are iterated *)
Definition project_into_output (s : spec) : Prop :=
  exists e l q, In e (s_einsums s) /\ e_loop e = Some l /\ In q (acc_vars (e_out e)) /\
                index_math_rank s e q /\ ~ In (innermost (e_parts e) q) l.

Lemma r_project_into_output_iff s : r_project_into_output s = true <-> project_into_output s.
Proof.
  unfold r_project_into_output, project_into_output, projects_output. rewrite any_einsum_exists. split.
  - intros [e [He H]]. destruct (e_loop e) as [l|] eqn:El; [|discriminate].
    apply existsb_exists in H as [q [Hq H]]. btrue. exists e, l, q. repeat split; auto.
    + apply imath_iff. exact H.
    + apply mem_false. exact H0.
  - intros [e [l [q [He [El [Hq [Him Hn]]]]]]]. exists e. split; [exact He|]. rewrite El.
    apply existsb_exists. exists q. split; [exact Hq|]. btrue; [apply imath_iff; exact Him|apply mem_false; exact Hn].
Qed.

(* ================================================================== structural sufficient condition for no_crash *)

Definition well_formed (s : spec) : Prop :=
  forall e, In e (s_einsums s) ->
    e_terms e <> [] /\
    forall en, In en (e_parts e) ->
      pe_ranks en <> [] /\
      forall l tl, pe_parts en = DFollow l :: tl -> part_of (e_parts e) [l] <> None.

Lemma part_loop_crash im entries orig todo : forall all,
  part_loop im entries orig all todo = Crash ->
  exists en all', In en todo /\ fst (part_step im entries orig all' en) = Crash.
Proof.
  induction todo as [|x todo IH]; intros all H; simpl in H; [discriminate|].
  destruct (part_step im entries orig all x) as [r all'] eqn:E. destruct r.
  - apply IH in H as [en [a [Hin Hc]]]. exists en, a. split; [right; exact Hin|exact Hc].
  - discriminate.
  - exists x, all. split; [left; reflexivity|]. rewrite E. reflexivity.
Qed.

Lemma check_tuple_ranks_no_crash entries orig all T : check_tuple_ranks entries orig all T <> Crash.
Proof.
  induction T as [|r T IH]; simpl; [discriminate|].
  destruct (partitioned_indep entries r); [discriminate|].
  destruct (negb (mem r orig)); [|exact IH].
  destruct (mem r all); [discriminate|]. destruct (negb (bottom_of_orig orig r)); [discriminate|exact IH].
Qed.

Lemma check_flatten_no_crash im entries orig all T parts : check_flatten im entries orig all T parts <> Crash.
Proof.
  unfold check_flatten. destruct (negb (existsb is_flatten parts)).
  - destruct (Nat.eqb (length T) 1); discriminate.
  - destruct (Nat.ltb 1 (length parts)); [discriminate|]. destruct (Nat.ltb (length T) 2); [discriminate|].
    destruct (existsb im T); [discriminate|]. apply check_tuple_ranks_no_crash.
Qed.

Lemma part_step_crash im entries orig all en :
  fst (part_step im entries orig all en) = Crash ->
  pe_ranks en = [] \/ exists l tl, pe_parts en = DFollow l :: tl /\ part_of entries [l] = None.
Proof.
  unfold part_step. destruct (pe_parts en) as [|p ps] eqn:Ep; [discriminate|].
  destruct (nway_after_dyn (p :: ps)); [discriminate|].
  pose proof (check_flatten_no_crash im entries orig all (pe_ranks en) (p :: ps)) as Hc.
  destruct (check_flatten im entries orig all (pe_ranks en) (p :: ps)); try discriminate; [|congruence].
  destruct (pe_ranks en) as [|src [|r2 T]]; [left; reflexivity| |discriminate].
  destruct (eff_parts entries (p :: ps)) as [l|] eqn:E.
  - destruct (negb (mem src orig) && existsb is_static l); discriminate.
  - intros _. right. unfold eff_parts in E. destruct p; try discriminate. exists leader, ps. split; [reflexivity|exact E].
Qed.

Theorem well_formed_no_crash s : well_formed s -> no_crash s.
Proof.
  intro Hwf. unfold no_crash, stages. constructor.
  { unfold bind_guard. destruct (s_bind s); [|discriminate]. destruct (forallb _ _); discriminate. }
  constructor.
  { unfold decl_guard. destruct (forallb _ _); [|discriminate]. destruct (forallb _ _); discriminate. }
  apply Forall_forall. intros r Hr. apply in_flat_map in Hr as [e [He Hr]].
  destruct (Hwf e He) as [Ht Hen]. simpl in Hr. destruct Hr as [Hr|[Hr|[Hr|[]]]]; subst r.
  - unfold eq_guard. destruct (e_terms e); [congruence|]. destruct (forallb _ _); [|discriminate].
    destruct (forallb _ _); [|discriminate]. destruct (nodupb _); discriminate.
  - intro Hc. unfold part_guard in Hc. apply part_loop_crash in Hc as [en [all [Hin Hc]]].
    apply part_step_crash in Hc. destruct (Hen en Hin) as [Hne Hfol].
    destruct Hc as [Hc|[l [tl [Hp Hnone]]]]; [contradiction|]. apply (Hfol l tl Hp). exact Hnone.
  - unfold flow_guard. destruct (existsb _ _); [discriminate|]. destruct (projects_output s e); discriminate.
Qed.

(* ================================================================== the rules in their Prop reading *)

Section PropForms.
Variable s : spec.
Hypothesis Hnc : no_crash s.

Theorem dup_rank_rejected_P : dup_rank s -> exists x, guard s = Err x.
Proof. intro H. apply dup_rank_rejected; [apply r_dup_rank_iff; exact H|exact Hnc]. Qed.
Theorem undeclared_tensor_rejected_P : undeclared_tensor s -> exists x, guard s = Err x.
Proof. intro H. apply undeclared_tensor_rejected; [apply r_undeclared_iff; exact H|exact Hnc]. Qed.
Theorem repeated_tensor_rejected_P : repeated_tensor s -> exists x, guard s = Err x.
Proof. intro H. apply repeated_tensor_rejected; [apply r_repeated_iff; exact H|exact Hnc]. Qed.
Theorem term_rank_mismatch_rejected_P : term_rank_mismatch s -> exists x, guard s = Err x.
Proof. intro H. apply term_rank_mismatch_rejected; [apply r_term_mismatch_iff; exact H|exact Hnc]. Qed.
Theorem flatten_with_others_rejected_P : flatten_with_others s -> exists x, guard s = Err x.
Proof. intro H. apply flatten_with_others_rejected; [apply r_flatten_with_others_iff; exact H|exact Hnc]. Qed.
Theorem flatten_lt2_rejected_P : flatten_lt2 s -> exists x, guard s = Err x.
Proof. intro H. apply flatten_lt2_rejected; [apply r_flatten_lt2_iff; exact H|exact Hnc]. Qed.
Theorem flatten_index_math_rejected_P : flatten_index_math s -> exists x, guard s = Err x.
Proof. intro H. apply flatten_index_math_rejected; [apply r_flatten_index_math_iff; exact H|exact Hnc]. Qed.
Theorem flatten_and_partitioned_rejected_P : flatten_and_partitioned s -> exists x, guard s = Err x.
Proof. intro H. apply flatten_and_partitioned_rejected; [apply r_flatten_and_partitioned_iff; exact H|exact Hnc]. Qed.
Theorem flatten_of_flattened_rejected_P : flatten_of_flattened s -> exists x, guard s = Err x.
Proof. intro H. apply flatten_of_flattened_rejected; [apply r_flatten_of_flattened_iff; exact H|exact Hnc]. Qed.
Theorem nway_after_occupancy_rejected_P : nway_after_occupancy s -> exists x, guard s = Err x.
Proof. intro H. apply nway_after_occupancy_rejected; [apply r_nway_after_occupancy_iff; exact H|exact Hnc]. Qed.
Theorem shape_after_flatten_rejected_P : shape_after_flatten s -> exists x, guard s = Err x.
Proof. intro H. apply shape_after_flatten_rejected; [apply r_shape_after_flatten_iff; exact H|exact Hnc]. Qed.
Theorem directive_on_tuple_rejected_P : directive_on_tuple s -> exists x, guard s = Err x.
Proof. intro H. apply directive_on_tuple_rejected; [apply r_directive_on_tuple_iff; exact H|exact Hnc]. Qed.
Theorem project_into_output_rejected_P : project_into_output s -> exists x, guard s = Err x.
Proof. intro H. apply project_into_output_rejected; [apply r_project_into_output_iff; exact H|exact Hnc]. Qed.
Theorem output_only_flattened_loop_rejected_P : output_only_flattened_loop s -> exists x, guard s = Err x.
Proof. intro H. apply output_only_flattened_loop_rejected; [apply r_output_only_flattened_loop_iff; exact H|exact Hnc]. Qed.
End PropForms.

Theorem missing_config_rejected_P s : missing_config s -> guard s = Err ENoConfig.
Proof. intro H. apply missing_config_rejected. apply r_missing_config_iff. exact H. Qed.

(* the kernel-evaluated list `violated s` names exactly the deciders that answer true
   (and each decider is exact for its rule: lemmas r_*_iff above) *)
Theorem violated_iff s n : In n (violated s) <-> exists f, In (n, f) rules /\ f s = true.
Proof.
  unfold violated. rewrite in_map_iff. split.
  - intros [[n' f] [Hn Hin]]. simpl in Hn. subst n'. apply filter_In in Hin as [Hin Hf]. exists f. split; assumption.
  - intros [f [Hin Hf]]. exists (n, f). split; [reflexivity|]. apply filter_In. split; assumption.
Qed.

Theorem deciders_exact s :
  (r_dup_rank s = true <-> dup_rank s) /\ (r_undeclared s = true <-> undeclared_tensor s) /\
  (r_repeated s = true <-> repeated_tensor s) /\ (r_term_mismatch s = true <-> term_rank_mismatch s) /\
  (r_flatten_with_others s = true <-> flatten_with_others s) /\ (r_flatten_lt2 s = true <-> flatten_lt2 s) /\
  (r_flatten_index_math s = true <-> flatten_index_math s) /\
  (r_flatten_and_partitioned s = true <-> flatten_and_partitioned s) /\
  (r_flatten_of_flattened s = true <-> flatten_of_flattened s) /\
  (r_nway_after_occupancy s = true <-> nway_after_occupancy s) /\
  (r_shape_after_flatten s = true <-> shape_after_flatten s) /\
  (r_directive_on_tuple s = true <-> directive_on_tuple s) /\
  (r_project_into_output s = true <-> project_into_output s) /\
  (r_output_only_flattened_loop s = true <-> output_only_flattened_loop s) /\
  (r_missing_config s = true <-> missing_config s).
Proof.
  repeat split;
    first [apply r_dup_rank_iff | apply r_undeclared_iff | apply r_repeated_iff | apply r_term_mismatch_iff
          | apply r_flatten_with_others_iff | apply r_flatten_lt2_iff | apply r_flatten_index_math_iff
          | apply r_flatten_and_partitioned_iff | apply r_flatten_of_flattened_iff | apply r_nway_after_occupancy_iff
          | apply r_shape_after_flatten_iff | apply r_directive_on_tuple_iff | apply r_project_into_output_iff
          | apply r_output_only_flattened_loop_iff | apply r_missing_config_iff].
Qed.
