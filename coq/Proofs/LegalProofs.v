(* Proofs about Model/Legal.v (property C18): every instance of a stated legality rule is
   rejected by the guards, wherever the violation sits (any Einsum of the cascade, any entry of
   the partitioning dictionary, any position of a rank tuple, any depth of a directive stack)
   and whatever else the specification contains. *)
From Coq Require Import String List Bool ZArith Ascii Lia.
Require Import TV.Model.Fusion TV.Proofs.FusionProofs TV.Model.Legal.
Import ListNotations.
Open Scope string_scope.

(* ------------------------------------------------------------------ list / boolean basics *)

Lemma nodupb_NoDup l : nodupb l = true <-> NoDup l.
Proof.
  induction l as [|x l IH]; simpl.
  - split; [constructor|reflexivity].
  - rewrite andb_true_iff, negb_true_iff, IH. split.
    + intros [H1 H2]. constructor; [|exact H2]. intro Hin. apply mem_In in Hin. congruence.
    + intro H. inversion H; subst. split; [|assumption].
      destruct (mem x l) eqn:E; [|reflexivity]. apply mem_In in E. contradiction.
Qed.

Lemma inclb_incl a b : inclb a b = true <-> incl a b.
Proof.
  unfold inclb, incl. rewrite forallb_forall. split; intros H x Hx.
  - apply mem_In. apply H. exact Hx.
  - apply mem_In. apply H. exact Hx.
Qed.

Lemma set_eqb_iff a b : set_eqb a b = true <-> (forall v, In v a <-> In v b).
Proof.
  unfold set_eqb. rewrite andb_true_iff, !inclb_incl. unfold incl. split.
  - intros [H1 H2] v. split; auto.
  - intros H. split; intros v Hv; apply H; exact Hv.
Qed.

Lemma set_eqb_refl a : set_eqb a a = true.
Proof. apply set_eqb_iff. tauto. Qed.

Lemma existsb_negb_forallb {A} (f : A -> bool) l : existsb (fun x => negb (f x)) l = negb (forallb f l).
Proof. induction l as [|x l IH]; simpl; [reflexivity|]. rewrite IH. destruct (f x); reflexivity. Qed.

Lemma existsb_false_forallb {A} (f : A -> bool) l :
  existsb (fun x => negb (f x)) l = true -> forallb f l = false.
Proof. rewrite existsb_negb_forallb. apply negb_true_iff. Qed.

Lemma is_flatten_In ps : existsb is_flatten ps = true <-> In DFlatten ps.
Proof.
  rewrite existsb_exists. split.
  - intros [d [Hd Hf]]. destruct d; try discriminate. exact Hd.
  - intro H. exists DFlatten. split; [exact H|reflexivity].
Qed.

(* ------------------------------------------------------------------ the pipeline: first non-Ok stage *)

Definition no_crash (s : spec) : Prop := Forall (fun r => r <> Crash) (stages s).

Lemma first_nonok_rejects l r : In r l -> r <> Ok -> first_nonok l <> Ok.
Proof.
  induction l as [|x l IH]; simpl; [tauto|].
  intros [H|H] Hr.
  - subst. destruct r; congruence.
  - destruct x; try discriminate. apply IH; assumption.
Qed.

Lemma first_nonok_in l : first_nonok l = Ok \/ In (first_nonok l) l.
Proof.
  induction l as [|x l IH]; simpl; [left; reflexivity|].
  destruct x; try (right; left; reflexivity).
  destruct IH as [H|H]; [left; exact H|right; right; exact H].
Qed.

Lemma stage_rejects s r : In r (stages s) -> r <> Ok -> no_crash s -> exists x, guard s = Err x.
Proof.
  intros Hin Hr Hnc. unfold guard.
  pose proof (first_nonok_rejects _ _ Hin Hr) as Hn.
  destruct (first_nonok_in (stages s)) as [H|H]; [contradiction|].
  unfold no_crash in Hnc. rewrite Forall_forall in Hnc. specialize (Hnc _ H).
  destruct (first_nonok (stages s)) as [|x|]; try congruence. exists x. reflexivity.
Qed.

Lemma einsum_stage_in s e r : In e (s_einsums s) -> In r (einsum_stages s e) -> In r (stages s).
Proof.
  intros He Hr. unfold stages. right. right. apply in_flat_map. exists e. split; assumption.
Qed.

Lemma any_einsum_exists f s : any_einsum f s = true <-> exists e, In e (s_einsums s) /\ f e = true.
Proof. unfold any_einsum. apply existsb_exists. Qed.

(* ------------------------------------------------------------------ rules of the declaration and the Einsum *)

Lemma dup_rank_guard s : r_dup_rank s = true -> decl_guard s = Err EDupRank.
Proof.
  unfold r_dup_rank, decl_guard. intro H.
  rewrite (existsb_false_forallb (fun d => nodupb (snd d)) _ H). reflexivity.
Qed.

Lemma missing_config_guard s : r_missing_config s = true -> bind_guard s = Err ENoConfig.
Proof.
  unfold r_missing_config, bind_guard. destruct (s_bind s) as [bs|]; [|discriminate]. intro H.
  rewrite (existsb_false_forallb (fun b => existsb (fun c => c) (snd b)) _ H). reflexivity.
Qed.

Lemma undeclared_guard s e :
  existsb (fun n => negb (mem n (map fst (s_decl s)))) (es_names e) = true -> eq_guard s e <> Ok.
Proof.
  intro H. unfold eq_guard. destruct (e_terms e) as [|t0 ts]; [discriminate|].
  destruct (forallb _ ts); [|discriminate].
  rewrite (existsb_false_forallb (fun n => mem n (map fst (s_decl s))) _ H). discriminate.
Qed.

Lemma repeated_guard s e : nodupb (es_names e) = false -> eq_guard s e <> Ok.
Proof.
  intro H. unfold eq_guard. destruct (e_terms e) as [|t0 ts]; [discriminate|].
  destruct (forallb _ ts); [|discriminate].
  destruct (forallb _ (es_names e)); [|discriminate]. rewrite H. discriminate.
Qed.

Lemma term_mismatch_guard s e t1 t2 :
  In t1 (e_terms e) -> In t2 (e_terms e) -> set_eqb (term_vars t1) (term_vars t2) = false -> eq_guard s e <> Ok.
Proof.
  intros H1 H2 Hne. unfold eq_guard. destruct (e_terms e) as [|t0 ts]; [discriminate|].
  destruct (forallb (fun t => set_eqb (term_vars t) (term_vars t0)) ts) eqn:E; [|discriminate].
  exfalso. rewrite forallb_forall in E.
  assert (Hall : forall t, In t (t0 :: ts) -> forall v, In v (term_vars t) <-> In v (term_vars t0)).
  { intros t [Ht|Ht]; [subst; tauto|]. apply set_eqb_iff. apply E. exact Ht. }
  assert (set_eqb (term_vars t1) (term_vars t2) = true); [|congruence].
  apply set_eqb_iff. intro v. rewrite (Hall t1 H1 v), (Hall t2 H2 v). tauto.
Qed.

(* ------------------------------------------------------------------ the partitioning loop *)

Section PartLoop.
Variable im : string -> bool.
Variable entries : list pentry.
Variable orig : list string.

(* an entry that one iteration rejects whatever all_ranks has become is rejected by the loop,
   wherever it sits in the dictionary *)
Lemma part_loop_reject_local todo all en :
  In en todo -> (forall all', fst (part_step im entries orig all' en) <> Ok) ->
  part_loop im entries orig all todo <> Ok.
Proof.
  revert all. induction todo as [|x todo IH]; intros all Hin Hloc; [destruct Hin|].
  simpl. destruct Hin as [Hx|Hin].
  - subst x. specialize (Hloc all). destruct (part_step im entries orig all en) as [r all'].
    simpl in Hloc. destruct r; congruence.
  - destruct (part_step im entries orig all x) as [r all']. destruct r; try discriminate.
    apply IH; assumption.
Qed.

Lemma step_reject_of_check all en :
  pe_parts en <> [] ->
  check_flatten im entries orig all (pe_ranks en) (pe_parts en) <> Ok ->
  fst (part_step im entries orig all en) <> Ok.
Proof.
  intros Hne Hc. unfold part_step. destruct (pe_parts en) as [|p ps] eqn:Ep; [congruence|].
  destruct (nway_after_dyn (p :: ps)); [discriminate|].
  destruct (check_flatten im entries orig all (pe_ranks en) (p :: ps)) as [|x|]; simpl; congruence.
Qed.

Lemma ctr_reject all T r :
  In r T -> (partitioned_indep entries r = true \/ derived_name orig r = true) ->
  check_tuple_ranks entries orig all T <> Ok.
Proof.
  intros Hin Hr. induction T as [|x T IH]; [destruct Hin|]. simpl.
  destruct (partitioned_indep entries x) eqn:Ep; [discriminate|].
  destruct Hin as [Hx|Hin].
  - subst x. destruct Hr as [Hr|Hr]; [congruence|].
    unfold derived_name in Hr. apply andb_true_iff in Hr as [H1 H2]. rewrite H1.
    destruct (mem r all); [discriminate|]. rewrite H2. discriminate.
  - destruct (negb (mem x orig)); [|apply IH; exact Hin].
    destruct (mem x all); [discriminate|]. destruct (negb (bottom_of_orig orig x)); [discriminate|].
    apply IH; exact Hin.
Qed.

Lemma check_flatten_reject all T parts :
  existsb is_flatten parts = true ->
  (2 <= length parts \/ length T < 2 \/ existsb im T = true \/ check_tuple_ranks entries orig all T <> Ok) ->
  check_flatten im entries orig all T parts <> Ok.
Proof.
  intros Hf H. unfold check_flatten. rewrite Hf. simpl.
  destruct (Nat.ltb 1 (length parts)) eqn:E1; [discriminate|].
  destruct (Nat.ltb (length T) 2) eqn:E2; [discriminate|].
  destruct (existsb im T) eqn:E3; [discriminate|].
  apply Nat.ltb_ge in E1. apply Nat.ltb_ge in E2.
  destruct H as [H|[H|[H|H]]]; try lia; try discriminate. exact H.
Qed.

Lemma flatten_parts_nonempty en : flatten_entry_b en = true -> pe_parts en <> [].
Proof. unfold flatten_entry_b. destruct (pe_parts en); [discriminate|discriminate]. Qed.

(* a flatten() entry with one of the four defects is rejected by one iteration, whatever all_ranks is *)
Lemma flatten_entry_rejected all en :
  flatten_entry_b en = true ->
  (2 <= length (pe_parts en) \/ length (pe_ranks en) < 2 \/ existsb im (pe_ranks en) = true \/
   exists r, In r (pe_ranks en) /\ (partitioned_indep entries r = true \/ derived_name orig r = true)) ->
  fst (part_step im entries orig all en) <> Ok.
Proof.
  intros Hf H. apply step_reject_of_check; [apply flatten_parts_nonempty; exact Hf|].
  apply check_flatten_reject; [exact Hf|].
  destruct H as [H|[H|[H|[r [Hr Hc]]]]]; auto.
  right. right. right. eapply ctr_reject; eassumption.
Qed.

Lemma occ_then_nway_dyn ps : forall seen dyn,
  occ_then_nway seen ps = true -> (seen = true -> dyn = true) -> nway_after_dyn_aux dyn ps = true.
Proof.
  induction ps as [|p ps IH]; intros seen dyn H Hs; simpl in *; [discriminate|].
  apply orb_true_iff in H as [H|H].
  - apply andb_true_iff in H as [Hn Hseen]. rewrite (Hs Hseen).
    destruct p; try discriminate. reflexivity.
  - destruct (is_static p) eqn:Est.
    + destruct (is_nway p && dyn); [reflexivity|]. apply (IH (seen || is_occ p)); [exact H|].
      destruct p; try discriminate; simpl; rewrite orb_false_r; exact Hs.
    + apply (IH (seen || is_occ p)); [exact H|reflexivity].
Qed.

Lemma nway_entry_rejected all en :
  occ_then_nway false (pe_parts en) = true -> fst (part_step im entries orig all en) <> Ok.
Proof.
  intro H. unfold part_step.
  assert (Hn : nway_after_dyn (pe_parts en) = true).
  { unfold nway_after_dyn. apply (occ_then_nway_dyn _ false false H). discriminate. }
  destruct (pe_parts en) as [|p ps]; [discriminate|]. rewrite Hn. discriminate.
Qed.

Lemma tuple_entry_rejected all en :
  Nat.eqb (length (pe_ranks en)) 1 = false -> Nat.eqb (length (pe_parts en)) 0 = false ->
  flatten_entry_b en = false -> fst (part_step im entries orig all en) <> Ok.
Proof.
  intros H1 H2 H3. apply step_reject_of_check.
  - destruct (pe_parts en); [discriminate|discriminate].
  - unfold check_flatten. unfold flatten_entry_b in H3. rewrite H3. simpl. rewrite H1. discriminate.
Qed.

Lemma shape_entry_rejected all en name :
  pe_ranks en = [name] -> mem name orig = false -> shape_split_applies entries en = true ->
  fst (part_step im entries orig all en) <> Ok.
Proof.
  intros Hr Hno Hs. unfold shape_split_applies in Hs. unfold part_step.
  destruct (pe_parts en) as [|p ps] eqn:Ep; [simpl in Hs; discriminate|].
  destruct (nway_after_dyn (p :: ps)); [discriminate|].
  destruct (check_flatten im entries orig all (pe_ranks en) (p :: ps)) as [|x|]; try (simpl; congruence).
  rewrite Hr. destruct (eff_parts entries (p :: ps)) as [l|]; [|discriminate].
  rewrite Hno, Hs. discriminate.
Qed.

End PartLoop.

Lemma part_guard_reject s e en :
  In en (e_parts e) ->
  (forall all, fst (part_step (imath s e) (e_parts e) (orig_ranks s e) all en) <> Ok) ->
  part_guard s e <> Ok.
Proof. intros Hin H. unfold part_guard. eapply part_loop_reject_local; eassumption. Qed.

(* ------------------------------------------------------------------ lifting to the whole specification *)

Lemma part_rule_rejected s (f : einsum -> pentry -> bool) :
  (forall e en all, f e en = true ->
     fst (part_step (imath s e) (e_parts e) (orig_ranks s e) all en) <> Ok) ->
  any_einsum (fun e => existsb (f e) (e_parts e)) s = true -> no_crash s -> exists x, guard s = Err x.
Proof.
  intros Hloc H Hnc. apply any_einsum_exists in H as [e [He H]].
  apply existsb_exists in H as [en [Hen Hf]].
  apply (stage_rejects s (part_guard s e)); [|eapply part_guard_reject; eauto|exact Hnc].
  eapply einsum_stage_in; [exact He|]. simpl. auto.
Qed.

Lemma eq_rule_rejected s (f : einsum -> bool) :
  (forall e, f e = true -> eq_guard s e <> Ok) ->
  any_einsum f s = true -> no_crash s -> exists x, guard s = Err x.
Proof.
  intros Hloc H Hnc. apply any_einsum_exists in H as [e [He H]].
  apply (stage_rejects s (eq_guard s e)); [|auto|exact Hnc].
  eapply einsum_stage_in; [exact He|]. simpl. auto.
Qed.

(* ------------------------------------------------------------------ the fifteen rules *)

Theorem dup_rank_rejected s : r_dup_rank s = true -> no_crash s -> exists x, guard s = Err x.
Proof.
  intros H Hnc. apply (stage_rejects s (decl_guard s)); [simpl; auto| |exact Hnc].
  rewrite (dup_rank_guard s H). discriminate.
Qed.

Theorem missing_config_rejected s : r_missing_config s = true -> guard s = Err ENoConfig.
Proof. intro H. unfold guard, stages. simpl. rewrite (missing_config_guard s H). reflexivity. Qed.

Theorem undeclared_tensor_rejected s : r_undeclared s = true -> no_crash s -> exists x, guard s = Err x.
Proof. apply eq_rule_rejected. intros e H. apply undeclared_guard. exact H. Qed.

Theorem repeated_tensor_rejected s : r_repeated s = true -> no_crash s -> exists x, guard s = Err x.
Proof. apply eq_rule_rejected. intros e H. apply repeated_guard. apply negb_true_iff. exact H. Qed.

Theorem term_rank_mismatch_rejected s : r_term_mismatch s = true -> no_crash s -> exists x, guard s = Err x.
Proof.
  apply eq_rule_rejected. intros e H.
  apply existsb_exists in H as [t1 [H1 H]]. apply existsb_exists in H as [t2 [H2 H]].
  apply (term_mismatch_guard s e t1 t2 H1 H2). apply negb_true_iff. exact H.
Qed.

Theorem flatten_with_others_rejected s : r_flatten_with_others s = true -> no_crash s -> exists x, guard s = Err x.
Proof.
  apply (part_rule_rejected s (fun _ en => flatten_entry_b en && Nat.leb 2 (length (pe_parts en)))).
  intros e en all H. apply andb_true_iff in H as [Hf Hl]. apply Nat.leb_le in Hl.
  apply flatten_entry_rejected; auto.
Qed.

Theorem flatten_lt2_rejected s : r_flatten_lt2 s = true -> no_crash s -> exists x, guard s = Err x.
Proof.
  apply (part_rule_rejected s (fun _ en => flatten_entry_b en && Nat.ltb (length (pe_ranks en)) 2)).
  intros e en all H. apply andb_true_iff in H as [Hf Hl]. apply Nat.ltb_lt in Hl.
  apply flatten_entry_rejected; auto.
Qed.

Theorem flatten_index_math_rejected s : r_flatten_index_math s = true -> no_crash s -> exists x, guard s = Err x.
Proof.
  apply (part_rule_rejected s (fun e en => flatten_entry_b en && existsb (imath s e) (pe_ranks en))).
  intros e en all H. apply andb_true_iff in H as [Hf Hl].
  apply flatten_entry_rejected; auto.
Qed.

Theorem flatten_and_partitioned_rejected s :
  r_flatten_and_partitioned s = true -> no_crash s -> exists x, guard s = Err x.
Proof.
  apply (part_rule_rejected s (fun e en => flatten_entry_b en && existsb (partitioned_indep (e_parts e)) (pe_ranks en))).
  intros e en all H. apply andb_true_iff in H as [Hf Hl]. apply existsb_exists in Hl as [r [Hr Hp]].
  apply flatten_entry_rejected; [exact Hf|]. right. right. right. exists r. auto.
Qed.

Theorem flatten_of_flattened_rejected s :
  r_flatten_of_flattened s = true -> no_crash s -> exists x, guard s = Err x.
Proof.
  intros H Hnc. apply any_einsum_exists in H as [e [He H]].
  apply existsb_exists in H as [en1 [Hen1 H]]. apply andb_true_iff in H as [H H2].
  apply andb_true_iff in H as [Hf1 Hd]. apply existsb_exists in H2 as [en2 [Hen2 H2]].
  apply andb_true_iff in H2 as [Hf2 Hm]. apply mem_In in Hm.
  apply (stage_rejects s (part_guard s e)); [eapply einsum_stage_in; [exact He|simpl; auto]| |exact Hnc].
  apply (part_guard_reject s e en2 Hen2). intro all.
  apply flatten_entry_rejected; [exact Hf2|]. right. right. right. exists (flat_name en1). auto.
Qed.

Theorem nway_after_occupancy_rejected s :
  r_nway_after_occupancy s = true -> no_crash s -> exists x, guard s = Err x.
Proof.
  apply (part_rule_rejected s (fun _ en => occ_then_nway false (pe_parts en))).
  intros e en all H. apply nway_entry_rejected. exact H.
Qed.

Theorem shape_after_flatten_rejected s :
  r_shape_after_flatten s = true -> no_crash s -> exists x, guard s = Err x.
Proof.
  intros H Hnc. apply any_einsum_exists in H as [e [He H]].
  apply existsb_exists in H as [en1 [Hen1 H]]. apply andb_true_iff in H as [H H2].
  apply andb_true_iff in H as [Hf1 Hno]. apply existsb_exists in H2 as [en2 [Hen2 H2]].
  apply andb_true_iff in H2 as [Hk Hs]. apply strs_eqb_eq in Hk. apply negb_true_iff in Hno.
  apply (stage_rejects s (part_guard s e)); [eapply einsum_stage_in; [exact He|simpl; auto]| |exact Hnc].
  apply (part_guard_reject s e en2 Hen2). intro all.
  eapply shape_entry_rejected; eauto.
Qed.

Theorem directive_on_tuple_rejected s :
  r_directive_on_tuple s = true -> no_crash s -> exists x, guard s = Err x.
Proof.
  apply (part_rule_rejected s (fun _ en => negb (Nat.eqb (length (pe_ranks en)) 1) &&
                                           negb (Nat.eqb (length (pe_parts en)) 0) && negb (flatten_entry_b en))).
  intros e en all H. apply andb_true_iff in H as [H H3]. apply andb_true_iff in H as [H1 H2].
  apply negb_true_iff in H1, H2, H3. apply tuple_entry_rejected; assumption.
Qed.

(* the two dataflow rules: flow_guard is the stated condition itself (the loop-nest construction
   that leads to the two raises is not modelled), so these two are immediate *)
Theorem output_only_flattened_loop_rejected s :
  r_output_only_flattened_loop s = true -> no_crash s -> exists x, guard s = Err x.
Proof.
  intros H Hnc. apply any_einsum_exists in H as [e [He H]].
  apply (stage_rejects s (flow_guard s e)); [eapply einsum_stage_in; [exact He|simpl; auto]| |exact Hnc].
  unfold flow_guard. rewrite H. discriminate.
Qed.

Theorem project_into_output_rejected s :
  r_project_into_output s = true -> no_crash s -> exists x, guard s = Err x.
Proof.
  intros H Hnc. apply any_einsum_exists in H as [e [He H]].
  apply (stage_rejects s (flow_guard s e)); [eapply einsum_stage_in; [exact He|simpl; auto]| |exact Hnc].
  unfold flow_guard. destruct (existsb _ _); [discriminate|]. rewrite H. discriminate.
Qed.

(* all of them at once: a specification that is an instance of ANY stated rule is never accepted *)
Theorem violated_rejected s : violated s <> [] -> no_crash s -> exists x, guard s = Err x.
Proof.
  intros Hv Hnc. unfold violated in Hv.
  destruct (filter (fun nr => snd nr s) rules) as [|nr l] eqn:E; [simpl in Hv; congruence|].
  assert (Hin : In nr (filter (fun nr => snd nr s) rules)) by (rewrite E; left; reflexivity).
  apply filter_In in Hin as [Hin Ht]. unfold rules in Hin. simpl in Hin.
  repeat (destruct Hin as [Hin|Hin]; [subst nr; simpl in Ht|]); try contradiction.
  - apply dup_rank_rejected; assumption.
  - apply undeclared_tensor_rejected; assumption.
  - apply repeated_tensor_rejected; assumption.
  - apply term_rank_mismatch_rejected; assumption.
  - apply flatten_with_others_rejected; assumption.
  - apply flatten_lt2_rejected; assumption.
  - apply flatten_index_math_rejected; assumption.
  - apply flatten_and_partitioned_rejected; assumption.
  - apply flatten_of_flattened_rejected; assumption.
  - apply nway_after_occupancy_rejected; assumption.
  - apply shape_after_flatten_rejected; assumption.
  - apply directive_on_tuple_rejected; assumption.
  - apply project_into_output_rejected; assumption.
  - apply output_only_flattened_loop_rejected; assumption.
  - exists ENoConfig. apply missing_config_rejected; assumption.
Qed.
