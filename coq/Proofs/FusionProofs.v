(* Proofs about Model/Fusion.v (property C13). *)
From Coq Require Import String List Bool Lia.
Require Import TV.Model.Fusion.
Import ListNotations.

Definition disj (a b : list string) : Prop := forall c, In c a -> In c b -> False.
Definition cdisj (e1 e2 : einfo) : Prop := disj (e_comps e1) (e_comps e2).

Definition same_cp (b : list einfo) : Prop :=
  forall e1 e2, In e1 b -> In e2 b -> e_config e1 = e_config e2 /\ e_prefix e1 = e_prefix e2.

Definition block_ok (b : list einfo) : Prop := same_cp b /\ ForallOrdPairs cdisj b.

(* The property: every Einsum exactly once, in order, in contiguous non-empty groups;
   inside a group same configuration, same temporal prefix, pairwise disjoint components. *)
Definition legal (h : list einfo) (bs : list (list einfo)) : Prop :=
  concat bs = h /\ Forall (fun b => b <> [] /\ block_ok b) bs.

(* ---- boolean reflections ---- *)
Lemma strs_eqb_eq a b : strs_eqb a b = true <-> a = b.
Proof.
  revert b; induction a as [|x a IH]; intros [|y b]; simpl; split; intro H; try congruence; try reflexivity.
  - apply andb_true_iff in H as [H1 H2]. apply String.eqb_eq in H1. apply IH in H2. congruence.
  - inversion H; subst. rewrite String.eqb_refl. simpl. apply IH. reflexivity.
Qed.

Lemma mem_In x l : mem x l = true <-> In x l.
Proof.
  unfold mem. rewrite existsb_exists. split.
  - intros [y [Hy He]]. apply String.eqb_eq in He. subst. exact Hy.
  - intro H. exists x. split; [exact H|apply String.eqb_refl].
Qed.

Lemma disjointb_disj a b : disjointb a b = true <-> disj a b.
Proof.
  unfold disjointb, disj. rewrite forallb_forall. split.
  - intros H c Ha Hb. specialize (H c Ha). apply mem_In in Hb. rewrite Hb in H. discriminate.
  - intros H c Ha. destruct (mem c b) eqn:E; [|reflexivity]. apply mem_In in E. exfalso. eauto.
Qed.

Lemma disj_sym a b : disj a b -> disj b a.
Proof. unfold disj. eauto. Qed.

Lemma cdisj_sym e1 e2 : cdisj e1 e2 -> cdisj e2 e1.
Proof. apply disj_sym. Qed.

(* ---- ordered pairs and reversal ---- *)
Lemma FOP_snoc {A} (R : A -> A -> Prop) l a :
  ForallOrdPairs R l -> (forall x, In x l -> R x a) -> ForallOrdPairs R (l ++ [a]).
Proof.
  induction 1 as [|x l Hx Hl IH]; intros Ha; simpl.
  - constructor; constructor.
  - constructor.
    + apply Forall_app. split; [exact Hx|]. constructor; [apply Ha; left; reflexivity|constructor].
    + apply IH. intros y Hy. apply Ha. right. exact Hy.
Qed.

Lemma FOP_rev {A} (R : A -> A -> Prop) l :
  (forall x y, R x y -> R y x) -> ForallOrdPairs R l -> ForallOrdPairs R (rev l).
Proof.
  intros Hs. induction 1 as [|x l Hx Hl IH]; simpl; [constructor|].
  apply FOP_snoc; [exact IH|]. intros y Hy. apply Hs. apply in_rev in Hy.
  rewrite Forall_forall in Hx. apply Hx. exact Hy.
Qed.

Lemma same_cp_rev b : same_cp b -> same_cp (rev b).
Proof. intros H e1 e2 H1 H2. apply H; apply in_rev; assumption. Qed.

Lemma block_ok_rev b : block_ok b -> block_ok (rev b).
Proof. intros [H1 H2]. split; [apply same_cp_rev; exact H1|apply FOP_rev; [exact cdisj_sym|exact H2]]. Qed.

(* ---- the invariant ---- *)
Record Inv (s : fstate) (h : list einfo) : Prop := {
  inv_concat : concat (chron s) = h;
  inv_blocks : Forall (fun b => b <> [] /\ block_ok b) (f_blocks s);
  inv_head : match f_blocks s with
             | [] => f_config s = None
             | b :: _ => forall e, In e b ->
                 f_config s = Some (e_config e) /\ f_fused s = e_prefix e /\ incl (e_comps e) (f_used s)
             end }.

Lemma Inv_init : Inv finit [].
Proof. split; simpl; [reflexivity|constructor|reflexivity]. Qed.

Lemma chron_cons_block s b bs : f_blocks s = b :: bs ->
  concat (chron s) = concat (rev (map (@rev einfo) bs)) ++ rev b.
Proof. intros H. unfold chron. rewrite H. simpl. rewrite concat_app. simpl. rewrite app_nil_r. reflexivity. Qed.

Lemma fusable_spec s e : fusable s e = true ->
  f_config s = Some (e_config e) /\ e_prefix e = f_fused s /\ disj (f_used s) (e_comps e).
Proof.
  unfold fusable. intros H. apply andb_true_iff in H as [H H3]. apply andb_true_iff in H as [H1 H2].
  split; [|split].
  - unfold cfg_eqb in H1. destruct (f_config s); [|discriminate]. apply String.eqb_eq in H1. congruence.
  - apply strs_eqb_eq. exact H2.
  - apply disjointb_disj. exact H3.
Qed.

Lemma Inv_step s h e : Inv s h -> Inv (fstep s e) (h ++ [e]).
Proof.
  intros [Hc Hb Hh]. unfold fstep. destruct (fusable s e) eqn:Hf.
  - apply fusable_spec in Hf as [F1 [F2 F3]].
    destruct (f_blocks s) as [|b bs] eqn:Eb.
    + rewrite Hh in F1. discriminate.
    + inversion Hb as [|b' bs' [Hne [Hsc Hfop]] Hbs]; subst b' bs'.
      split.
      * unfold chron in *. simpl in *. rewrite Eb in Hc. simpl in Hc.
        rewrite concat_app in *. simpl in *. rewrite app_nil_r in *. rewrite <- Hc.
        rewrite <- app_assoc. reflexivity.
      * simpl. constructor; [|exact Hbs]. split; [discriminate|]. split.
        -- intros e1 e2 [H1|H1] [H2|H2]; subst.
           ++ split; reflexivity.
           ++ destruct (Hh e2 H2) as [A [B _]]. split; congruence.
           ++ destruct (Hh e1 H1) as [A [B _]]. split; congruence.
           ++ apply Hsc; assumption.
        -- constructor; [|exact Hfop]. apply Forall_forall. intros e' He' c Hc1 Hc2.
           destruct (Hh e' He') as [_ [_ Hincl]]. apply (F3 c); [apply Hincl; exact Hc2|exact Hc1].
      * simpl. intros e' [He'|He'].
        -- subst e'. split; [exact F1|]. split; [congruence|]. apply incl_appr. apply incl_refl.
        -- destruct (Hh e' He') as [A [B C]]. split; [exact A|]. split; [exact B|]. apply incl_appl. exact C.
  - split.
    + unfold chron in *. simpl. rewrite concat_app. simpl. rewrite Hc. reflexivity.
    + simpl. constructor; [|exact Hb]. split; [discriminate|]. split.
      * intros e1 e2 [H1|[]] [H2|[]]. subst. split; reflexivity.
      * constructor; constructor.
    + simpl. intros e' [He'|[]]. subst. split; [reflexivity|]. split; [reflexivity|apply incl_refl].
Qed.

Lemma frun_snoc h e : frun (h ++ [e]) = fstep (frun h) e.
Proof. unfold frun. rewrite fold_left_app. reflexivity. Qed.

Lemma Inv_run h : Inv (frun h) h.
Proof.
  induction h as [|e h IH] using rev_ind; [exact Inv_init|].
  rewrite frun_snoc. apply Inv_step. exact IH.
Qed.

Theorem fusion_legal : forall h, legal h (chron (frun h)).
Proof.
  intros h. destruct (Inv_run h) as [Hc Hb _]. split; [exact Hc|].
  unfold chron. apply Forall_rev. apply Forall_forall. intros b Hb'.
  apply in_map_iff in Hb' as [b0 [E Hin]]. subst b.
  rewrite Forall_forall in Hb. destruct (Hb b0 Hin) as [Hne Hok]. split.
  - intro H. apply Hne. destruct b0; [reflexivity|]. simpl in H. destruct (rev b0); discriminate.
  - apply block_ok_rev. exact Hok.
Qed.

(* corollaries in the vocabulary of the property statement *)
Corollary blocks_flatten h : concat (get_blocks (frun h)) = map e_name h.
Proof.
  unfold get_blocks. rewrite <- concat_map. destruct (fusion_legal h) as [H _]. rewrite H. reflexivity.
Qed.

Corollary blocks_same_config_prefix h b e1 e2 :
  In b (chron (frun h)) -> In e1 b -> In e2 b -> e_config e1 = e_config e2 /\ e_prefix e1 = e_prefix e2.
Proof.
  intros Hb. destruct (fusion_legal h) as [_ H]. rewrite Forall_forall in H.
  destruct (H b Hb) as [_ [Hs _]]. apply Hs.
Qed.

Corollary blocks_disjoint_components h b :
  In b (chron (frun h)) -> ForallOrdPairs cdisj b.
Proof.
  intros Hb. destruct (fusion_legal h) as [_ H]. rewrite Forall_forall in H.
  destruct (H b Hb) as [_ [_ Hd]]. exact Hd.
Qed.

(* ---- the pinned tree violated it (finding F1) ---- *)
Open Scope string_scope.
Definition f1_T := mkE "T" "configA" ["M"; "K"] ["FPMul0"].
Definition f1_Z := mkE "Z" "configA" ["M"; "K"] ["FPMul0"].
Lemma pinned_components_refuted :
  exists h, get_blocks (frun_pinned h) = [["T"; "Z"]] /\ ~ legal h (chron (frun_pinned h)).
Proof.
  exists [f1_T; f1_Z]. split; [vm_compute; reflexivity|].
  intros [_ H]. vm_compute in H. inversion H as [|b bs [_ [_ Hd]] _]; subst.
  inversion Hd as [|x l Hx _]; subst. inversion Hx as [|y l' Hy _]; subst.
  apply (Hy "FPMul0"); left; reflexivity.
Qed.

Close Scope string_scope.
(* ---- the decision procedure used on the code's own answer (T-ref) ---- *)
Lemma take_block_spec n h b r : take_block n h = Some (b, r) -> h = b ++ r /\ length b = n.
Proof.
  revert h b r. induction n as [|n IH]; intros h b r H; simpl in H.
  - inversion H; subst. split; reflexivity.
  - destruct h as [|e h]; [discriminate|]. destruct (take_block n h) as [[b' r']|] eqn:E; [|discriminate].
    inversion H; subst. destruct (IH _ _ _ E) as [A B]. subst. split; reflexivity.
Qed.

Lemma pair_disjb_spec b : pair_disjb b = true -> ForallOrdPairs cdisj b.
Proof.
  induction b as [|e b IH]; simpl; intros H; [constructor|].
  apply andb_true_iff in H as [H1 H2]. constructor; [|apply IH; exact H2].
  apply Forall_forall. intros e' He'. rewrite forallb_forall in H1. apply disjointb_disj. apply H1. exact He'.
Qed.

Lemma same_cfg_prefixb_spec b : same_cfg_prefixb b = true -> b <> [] /\ same_cp b.
Proof.
  destruct b as [|e b]; simpl; [discriminate|]. intros H. split; [discriminate|].
  rewrite forallb_forall in H.
  assert (K : forall e', In e' (e :: b) -> e_config e = e_config e' /\ e_prefix e = e_prefix e').
  { intros e' [He'|He']; [subst; split; reflexivity|]. specialize (H e' He').
    apply andb_true_iff in H as [A B]. apply String.eqb_eq in A. apply strs_eqb_eq in B. split; assumption. }
  intros e1 e2 H1 H2. destruct (K e1 H1) as [A1 B1]. destruct (K e2 H2) as [A2 B2]. split; congruence.
Qed.

Theorem legal_blocks_b_sound : forall bs h, legal_blocks_b h bs = true ->
  exists ibs, map (map e_name) ibs = bs /\ legal h ibs.
Proof.
  induction bs as [|names bs IH]; intros h H; simpl in H.
  - destruct h; [|discriminate]. exists []. split; [reflexivity|]. split; [reflexivity|constructor].
  - destruct (take_block (length names) h) as [[b r]|] eqn:E; [|discriminate].
    apply andb_true_iff in H as [H H3]. apply andb_true_iff in H as [H1 H2].
    apply strs_eqb_eq in H1. unfold block_okb in H2. apply andb_true_iff in H2 as [H2a H2b].
    destruct (take_block_spec _ _ _ _ E) as [Hh _].
    destruct (IH r H3) as [ibs [Hm [Hc Hf]]].
    exists (b :: ibs). split; [simpl; congruence|]. split.
    + simpl. congruence.
    + constructor; [|exact Hf]. destruct (same_cfg_prefixb_spec _ H2a) as [A B].
      split; [exact A|]. split; [exact B|apply pair_disjb_spec; exact H2b].
Qed.

(* completeness: the checker accepts every legal block structure, so it never
   raises an alarm on a compiler whose blocks satisfy the property *)
Lemma take_block_app b r : take_block (length b) (b ++ r) = Some (b, r).
Proof. induction b as [|e b IH]; simpl; [reflexivity|]. rewrite IH. reflexivity. Qed.

Lemma pair_disjb_complete b : ForallOrdPairs cdisj b -> pair_disjb b = true.
Proof.
  induction 1 as [|e b He Hb IH]; simpl; [reflexivity|]. apply andb_true_iff. split; [|exact IH].
  apply forallb_forall. intros e' He'. apply disjointb_disj. rewrite Forall_forall in He. apply He. exact He'.
Qed.

Lemma same_cfg_prefixb_complete b : b <> [] -> same_cp b -> same_cfg_prefixb b = true.
Proof.
  destruct b as [|e b]; [congruence|]. intros _ H. simpl. apply forallb_forall. intros e' He'.
  destruct (H e e' (or_introl eq_refl) (or_intror He')) as [A B].
  apply andb_true_iff. split; [apply String.eqb_eq; exact A|apply strs_eqb_eq; exact B].
Qed.

Theorem legal_blocks_b_complete : forall ibs h, legal h ibs -> legal_blocks_b h (map (map e_name) ibs) = true.
Proof.
  induction ibs as [|b ibs IH]; intros h [Hc Hf]; simpl in *.
  - subst. reflexivity.
  - inversion Hf as [|b' l' [Hne [Hs Hd]] Hf']; subst. rewrite map_length. rewrite take_block_app.
    apply andb_true_iff. split; [apply andb_true_iff; split|].
    + apply strs_eqb_eq. reflexivity.
    + unfold block_okb. apply andb_true_iff. split;
        [apply same_cfg_prefixb_complete; assumption|apply pair_disjb_complete; assumption].
    + apply IH. split; [reflexivity|exact Hf'].
Qed.

(* the prefix function: no spatial rank inside, maximal *)
Lemma temporal_prefix_spec loop space :
  exists rest, loop = temporal_prefix loop space ++ rest /\
    (forall r, In r (temporal_prefix loop space) -> ~ In r space) /\
    match rest with [] => True | r :: _ => In r space end.
Proof.
  induction loop as [|r loop IH]; simpl.
  - exists []. split; [reflexivity|]. split; [intros r []|exact I].
  - destruct (mem r space) eqn:E.
    + exists (r :: loop). split; [reflexivity|]. split; [intros x []|apply mem_In; exact E].
    + destruct IH as [rest [A [B C]]]. exists rest. split; [simpl; congruence|]. split; [|exact C].
      intros x [Hx|Hx]; [subst; intro H; apply mem_In in H; congruence|apply B; exact Hx].
Qed.
