(* Pruning of pass-through nodes (FlowGraph.__prune) preserves the dependences among the nodes
   that stay (property C10, mechanism 1). *)
From Coq Require Import String List Bool PArith Arith Lia Permutation.
Require Import TV.Model.FlowOrder TV.Proofs.FlowOrderProofs.
Import ListNotations.
Open Scope list_scope.

Definition acyclic (g : graph) : Prop := forall x, ~ reach g x x.

Lemma prune_node_edge : forall g n a b,
  In (a, b) (prune_node g n) <->
  (In (a, b) g /\ a <> n /\ b <> n) \/ (In (a, n) g /\ In (n, b) g).
Proof.
  intros g n a b. unfold prune_node. rewrite in_app_iff, filter_In, in_flat_map. simpl.
  rewrite andb_true_iff, !negb_true_iff, !Pos.eqb_neq. split.
  - intros [H | [[i m] [Hin H]]]; [left; tauto|]. simpl in H.
    destruct (Pos.eqb m n) eqn:E; [|inversion H]. apply Pos.eqb_eq in E. subst m.
    apply in_flat_map in H. destruct H as [[m' o] [Hout H]]. simpl in H.
    destruct (Pos.eqb m' n) eqn:E'; [|inversion H]. apply Pos.eqb_eq in E'. subst m'.
    destruct H as [H | []]. inversion H; subst. right. tauto.
  - intros [H | [H1 H2]]; [left; tauto|]. right.
    exists (a, n). split; [exact H1|]. simpl. rewrite Pos.eqb_refl.
    apply in_flat_map. exists (n, b). split; [exact H2|]. simpl. rewrite Pos.eqb_refl. simpl. tauto.
Qed.

Lemma acyclic_no_self : forall g n, acyclic g -> ~ In (n, n) g.
Proof. intros g n H Hi. apply (H n). apply reach_edge. exact Hi. Qed.

Lemma prune_node_avoids : forall g n a b, acyclic g -> In (a, b) (prune_node g n) -> a <> n /\ b <> n.
Proof.
  intros g n a b Hac H. apply prune_node_edge in H. destruct H as [H | [H1 H2]]; [tauto|].
  split; intros E; subst; eapply acyclic_no_self; eassumption.
Qed.

Lemma prune_node_reach_back : forall g n a b, reach (prune_node g n) a b -> reach g a b.
Proof.
  intros g n a b H. induction H as [a b He | a m b He _ IH].
  - apply prune_node_edge in He. destruct He as [[He _] | [H1 H2]].
    + apply reach_edge. exact He.
    + eapply reach_step; [exact H1 | apply reach_edge; exact H2].
  - apply prune_node_edge in He. destruct He as [[He _] | [H1 H2]].
    + eapply reach_step; eassumption.
    + eapply reach_step; [exact H1|]. eapply reach_step; eassumption.
Qed.

Lemma prune_node_reach_fwd : forall g n a b, acyclic g -> reach g a b -> b <> n ->
  (a <> n -> reach (prune_node g n) a b) /\
  (a = n -> forall i, In (i, n) g -> reach (prune_node g n) i b).
Proof.
  intros g n a b Hac H. induction H as [a b He | a m b He Hr IH]; intros Hb.
  - split.
    + intros Ha. apply reach_edge. apply prune_node_edge. left. tauto.
    + intros Ha i Hi. subst a. apply reach_edge. apply prune_node_edge. right. tauto.
  - specialize (IH Hb). destruct IH as [IH1 IH2]. split.
    + intros Ha. destruct (Pos.eq_dec m n) as [E | Hm].
      * subst m. apply (IH2 eq_refl a He).
      * eapply reach_step; [|apply IH1; exact Hm]. apply prune_node_edge. left. tauto.
    + intros Ha i Hi. subst a.
      assert (Hm : m <> n) by (intros E; subst; eapply acyclic_no_self; eassumption).
      eapply reach_step; [|apply IH1; exact Hm]. apply prune_node_edge. right. tauto.
Qed.

(* removing one pass-through node: the nodes that stay depend on each other exactly as before *)
Lemma prune_node_reach : forall g n a b, acyclic g -> a <> n -> b <> n ->
  (reach (prune_node g n) a b <-> reach g a b).
Proof.
  intros g n a b Hac Ha Hb. split.
  - apply prune_node_reach_back.
  - intros H. apply (proj1 (prune_node_reach_fwd g n a b Hac H Hb)). exact Ha.
Qed.

Lemma prune_node_acyclic : forall g n, acyclic g -> acyclic (prune_node g n).
Proof. intros g n Hac x H. apply (Hac x). eapply prune_node_reach_back. exact H. Qed.

(* the whole pruning pass, any list of removed nodes, any acyclic graph *)
Theorem prune_reach : forall ns g a b, acyclic g -> ~ In a ns -> ~ In b ns ->
  (reach (prune g ns) a b <-> reach g a b).
Proof.
  unfold prune. induction ns as [|n ns IH]; intros g a b Hac Ha Hb; simpl; [tauto|].
  simpl in Ha, Hb. rewrite IH; [|apply prune_node_acyclic; exact Hac | tauto | tauto].
  apply prune_node_reach; [exact Hac | intros E; subst; tauto | intros E; subst; tauto].
Qed.

(* and no edge of the pruned graph touches a removed node *)
Theorem prune_avoids : forall ns g a b, acyclic g -> In (a, b) (prune g ns) -> ~ In a ns /\ ~ In b ns.
Proof.
  unfold prune. induction ns as [|n ns IH]; intros g a b Hac H; simpl in *; [tauto|].
  pose proof (prune_node_acyclic g n Hac) as Hac'.
  destruct (IH _ _ _ Hac' H) as [Ha Hb].
  assert (Hn : a <> n /\ b <> n).
  { (* an edge of the final graph is a dependence of prune_node g n among nodes other than n *)
    assert (Hr : reach (prune_node g n) a b).
    { pose proof (prune_reach ns (prune_node g n) a b Hac' Ha Hb) as Hpr. unfold prune in Hpr.
      apply (proj1 Hpr). apply reach_edge. exact H. }
    clear -Hr Hac. induction Hr as [a b He | a m b He _ IHr].
    - eapply prune_node_avoids; eassumption.
    - destruct (prune_node_avoids _ _ _ _ Hac He). tauto. }
  split; intros [E | Hi]; try tauto; subst; tauto.
Qed.

Lemma topo_acyclic_g : forall g l, topo g l -> acyclic g.
Proof. intros g l Ht x. eapply topo_acyclic. exact Ht. Qed.

Lemma same_setb_iff : forall a b, same_setb a b = true <-> (forall x, In x a <-> In x b).
Proof.
  intros a b. unfold same_setb. rewrite andb_true_iff, !forallb_memb. split.
  - intros [H1 H2] x. split; auto.
  - intros H. split; intros x Hx; apply H; exact Hx.
Qed.

(* the checker evaluated on the code's graph before and after FlowGraph.__prune *)
Theorem prune_okb_sound : forall gu lu gp lp,
  topo gu lu -> topo gp lp -> prune_okb gu lu gp lp = true ->
  forall a b, In a lp -> In b lp -> (reach gp a b <-> reach gu a b).
Proof.
  intros gu lu gp lp Hu Hp H a b Ha Hb.
  unfold prune_okb in H. apply andb_true_iff in H. destruct H as [Hsub H].
  rewrite forallb_forall in H. specialize (H a Ha). pose proof (proj1 (same_setb_iff _ _) H) as H'. clear H. rename H' into H.
  specialize (H b). rewrite filter_In, memb_In in H.
  rewrite (desc_set_spec gu lu a b Hu), (desc_set_spec gp lp a b Hp) in H.
  split.
  - intros Hr.
    assert (R : b = a \/ (In b lp /\ reach gp a b)) by tauto.
    apply H in R. destruct R as [[E | [_ Hru]] _]; [|exact Hru].
    rewrite E in Hr. exfalso. exact (topo_acyclic gp lp a Hp Hr).
  - intros Hr.
    assert (Hbu : In b lu) by (eapply prec_In; eapply reach_prec; eassumption).
    assert (L : (b = a \/ (In b lu /\ reach gu a b)) /\ In b lp) by tauto.
    apply H in L. destruct L as [E | [_ Hrp]]; [|exact Hrp].
    rewrite E in Hr. exfalso. exact (topo_acyclic gu lu a Hu Hr).
Qed.

(* Example: the unpruned chain  Output -> TensorNode Z -> GetRoot Z -> FiberNode z_m -> Loop M
   with the two pass-through nodes removed *)
Example ex_prune :
  let g := [(1, 2); (2, 3); (3, 4); (4, 5); (6, 4)]%positive in
  same_edgesb (prune g [2; 4]%positive) [(1, 3); (3, 5); (6, 5)]%positive = true /\
  prune_okb g [1; 6; 2; 3; 4; 5]%positive (prune g [2; 4]%positive) [1; 6; 3; 5]%positive = true.
Proof. split; vm_compute; reflexivity. Qed.

(* ------------------------------------------------------------------------- *)
(* name-level conflicts: the later statement depends on the earlier one        *)
(* ------------------------------------------------------------------------- *)

(* when the checker accepts, every conflicting pair is ordered by the graph itself, hence emitted in
   the same relative order under EVERY topological order (every tie-break of the sort), before and
   after hoisting *)
Theorem conflicts_okb_sound : forall g l groups,
  topo g l -> conflicts_okb g l groups = true ->
  forall a bs b, In (a, bs) groups -> In b bs ->
    reach g a b /\ forall l', topo g l' -> prec l' a b.
Proof.
  intros g l groups Ht H a bs b Hg Hb. unfold conflicts_okb in H.
  rewrite forallb_forall in H. specialize (H (a, bs) Hg). cbv zeta in H. simpl in H.
  rewrite forallb_forall in H. specialize (H b Hb).
  change (descb_in (desc_set g l a) a b) with (descb g l a b) in H.
  apply (descb_iff g l a b Ht) in H. split; [exact H|].
  intros l' Ht'. eapply reach_prec; eassumption.
Qed.

Theorem conflicts_okb_complete : forall g l groups,
  topo g l -> (forall a bs b, In (a, bs) groups -> In b bs -> reach g a b) ->
  conflicts_okb g l groups = true.
Proof.
  intros g l groups Ht H. unfold conflicts_okb. apply forallb_forall. intros [a bs] Hg. cbv zeta. simpl.
  apply forallb_forall. intros b Hb.
  change (descb_in (desc_set g l a) a b) with (descb g l a b).
  apply (descb_iff g l a b Ht). eapply H; eassumption.
Qed.
