(* C05, specification side: the meaning of a cascade (Model/Einsum.v `denote_all`, the oracle every
   emitted cascade is executed against) IS the sequential composition of its Einsums, and the
   meaning of one Einsum depends on the environment only through the tensors it reads - so the
   prefix compiled (and computed) before Einsum i matters only through the intermediates i reads. *)
From Coq Require Import String List ZArith Bool.
Require Import TV.Model.Einsum.
Import ListNotations.
Local Open Scope Z_scope.
Local Open Scope string_scope.

Definition factor_reads (n : string) (f : factor) : bool :=
  match f with FTensor m _ => String.eqb m n | FVar _ => false end.
Definition term_reads (n : string) (t : term) : bool := existsb (factor_reads n) (t_factors t).
Definition einsum_reads (n : string) (e : einsum) : bool := existsb (term_reads n) (e_terms e).

Lemma fold_left_ext_in {A B} (f g : A -> B -> A) l :
  (forall a b, In b l -> f a b = g a b) -> forall a, fold_left f l a = fold_left g l a.
Proof.
  induction l as [|x l IH]; intros H a; [reflexivity|]. cbn [fold_left].
  rewrite (H a x (or_introl eq_refl)). apply IH. intros a' b Hb. apply H. right. exact Hb.
Qed.

Lemma factor_val_reads ts1 ts2 sc p f :
  (forall n, factor_reads n f = true -> tlookup n ts1 = tlookup n ts2) ->
  factor_val ts1 sc p f = factor_val ts2 sc p f.
Proof.
  destruct f as [m idx|v]; intros H; [|reflexivity]. cbn [factor_val].
  rewrite (H m); [reflexivity|]. cbn [factor_reads]. apply String.eqb_refl.
Qed.

Lemma term_val_reads ts1 ts2 sc p t :
  (forall n, term_reads n t = true -> tlookup n ts1 = tlookup n ts2) ->
  term_val ts1 sc p t = term_val ts2 sc p t.
Proof.
  intros H. unfold term_val.
  assert (E : map (factor_val ts1 sc p) (t_factors t) = map (factor_val ts2 sc p) (t_factors t)).
  { apply map_ext_in. intros f Hf. apply factor_val_reads. intros n Hn. apply H.
    unfold term_reads. apply existsb_exists. exists f. split; assumption. }
  rewrite E. reflexivity.
Qed.

(* the value of an Einsum depends only on the tensors it reads *)
Theorem denote_reads_only e ts1 ts2 sc :
  (forall n, einsum_reads n e = true -> tlookup n ts1 = tlookup n ts2) ->
  denote e ts1 sc = denote e ts2 sc.
Proof.
  intros H. unfold denote. f_equal. apply fold_left_ext_in. intros d p _.
  assert (E : fold_left (fun s t => s + term_val ts1 sc p t) (e_terms e) 0 =
              fold_left (fun s t => s + term_val ts2 sc p t) (e_terms e) 0).
  { apply fold_left_ext_in. intros s t Ht. f_equal. apply term_val_reads. intros n Hn. apply H.
    unfold einsum_reads. apply existsb_exists. exists t. split; assumption. }
  rewrite E. reflexivity.
Qed.

(* in particular: a tensor the Einsum does not read may be present, absent or different *)
Corollary denote_frame e n d ts sc :
  einsum_reads n e = false -> denote e ((n, d) :: ts) sc = denote e ts sc.
Proof.
  intros H. apply denote_reads_only. intros m Hm. cbn [tlookup].
  destruct (String.eqb_spec m n) as [->|_]; [congruence|reflexivity].
Qed.

(* a cascade is the sequential composition of its parts *)
Theorem denote_all_app es1 es2 ts sc :
  denote_all (es1 ++ es2) ts sc = denote_all es2 (denote_all es1 ts sc) sc.
Proof. revert ts. induction es1 as [|e es1 IH]; intros ts; [reflexivity|]. cbn [app denote_all]. apply IH. Qed.

(* Einsum i of a cascade computes its own meaning on the results of the prefix before it,
   and is found under its declared name whatever was bound under that name before *)
Theorem denote_all_last es e ts sc :
  tlookup (e_out e) (denote_all (es ++ [e]) ts sc) = denote e (denote_all es ts sc) sc.
Proof. rewrite denote_all_app. cbn [denote_all tlookup]. rewrite String.eqb_refl. reflexivity. Qed.

(* nothing already computed is disturbed by a later Einsum with another output name *)
Theorem denote_all_keeps es e ts sc n :
  n <> e_out e -> tlookup n (denote_all (es ++ [e]) ts sc) = tlookup n (denote_all es ts sc).
Proof.
  intros H. rewrite denote_all_app. cbn [denote_all tlookup].
  destruct (String.eqb_spec n (e_out e)) as [E|_]; [contradiction|reflexivity].
Qed.

(* the prefix matters to Einsum i only through the tensors i reads: two prefixes (histories) that
   leave the same contents under every name i reads give i the same result *)
Theorem cascade_step_depends_on_reads es es' e ts ts' sc :
  (forall n, einsum_reads n e = true ->
             tlookup n (denote_all es ts sc) = tlookup n (denote_all es' ts' sc)) ->
  tlookup (e_out e) (denote_all (es ++ [e]) ts sc) = tlookup (e_out e) (denote_all (es' ++ [e]) ts' sc).
Proof. intros H. rewrite !denote_all_last. apply denote_reads_only. exact H. Qed.

(* non-vacuity: T[m] = A[m]; Z[m] = T[m] * B[m]  on concrete data *)
Example cascade_example :
  let eT := mkEinsum "T" [[(1, "m")]] [mkTerm [FTensor "A" [[(1, "m")]]] None] [("m", 3)] in
  let eZ := mkEinsum "Z" [[(1, "m")]] [mkTerm [FTensor "T" [[(1, "m")]]; FTensor "B" [[(1, "m")]]] None] [("m", 3)] in
  let ts := [("A", [([0], 2); ([2], 5)]); ("B", [([2], 3)])] in
  tlookup "Z" (denote_all [eT; eZ] ts []) = [([2], 15)] /\ einsum_reads "A" eZ = false.
Proof. vm_compute. split; reflexivity. Qed.
