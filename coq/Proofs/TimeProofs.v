(* Proofs about Model/Time.v (property C14). *)
From Coq Require Import String List Bool Ascii ZArith QArith Qcanon Lia Permutation.
Require Import TV.Model.Fusion TV.Model.Time TV.Proofs.FusionProofs.
Import ListNotations.
Open Scope list_scope.

(* ------------------------------------------------------------------------- *)
(* generic list facts                                                         *)
(* ------------------------------------------------------------------------- *)

Lemma Permutation_concat {A} (l l' : list (list A)) : Permutation l l' -> Permutation (concat l) (concat l').
Proof.
  induction 1; simpl.
  - constructor.
  - apply Permutation_app_head. assumption.
  - rewrite !app_assoc. apply Permutation_app_tail. apply Permutation_app_comm.
  - eapply Permutation_trans; eassumption.
Qed.

Lemma Forall2_perm_concat {A} (l l' : list (list A)) :
  Forall2 (@Permutation A) l l' -> Permutation (concat l) (concat l').
Proof. induction 1; simpl; [constructor|apply Permutation_app; assumption]. Qed.

Lemma filter_partition_perm {A} (f : A -> bool) (l : list A) :
  Permutation (filter f l ++ filter (fun x => negb (f x)) l) l.
Proof.
  induction l as [|a l IH]; simpl; [constructor|].
  destruct (f a); simpl.
  - constructor. exact IH.
  - eapply Permutation_trans; [apply Permutation_sym, Permutation_middle|]. constructor. exact IH.
Qed.

Lemma filter_filter_comm_ext {A} (f g : A -> bool) (l : list A) :
  (forall x, f x = true -> g x = true) -> filter f (filter g l) = filter f l.
Proof.
  intros H. induction l as [|a l IH]; simpl; [reflexivity|].
  destruct (g a) eqn:G; simpl.
  - destruct (f a); congruence.
  - destruct (f a) eqn:F; [apply H in F; congruence|exact IH].
Qed.

(* ---- multiset comparison ---- *)
Lemma remove1_sound {A} (eqb : A -> A -> bool) (R : A -> A -> Prop) a l l' :
  (forall b, eqb a b = true -> R a b) ->
  remove1 eqb a l = Some l' -> exists b, R a b /\ Permutation l (b :: l').
Proof.
  intros HR. revert l'. induction l as [|b l IH]; simpl; intros l' H; [discriminate|].
  destruct (eqb a b) eqn:E.
  - inversion H; subst. exists b. split; [apply HR; exact E|apply Permutation_refl].
  - destruct (remove1 eqb a l) as [r|] eqn:Er; simpl in H; [|discriminate].
    inversion H; subst. destruct (IH r eq_refl) as [b' [Hb Hp]].
    exists b'. split; [exact Hb|].
    eapply Permutation_trans; [apply perm_skip; exact Hp|apply perm_swap].
Qed.

Lemma msetb_sound {A} (eqb : A -> A -> bool) (R : A -> A -> Prop) :
  (forall a b, eqb a b = true -> R a b) ->
  forall l1 l2, msetb eqb l1 l2 = true -> exists l2', Permutation l2 l2' /\ Forall2 R l1 l2'.
Proof.
  intros HR. induction l1 as [|a l1 IH]; simpl; intros l2 H.
  - destruct l2; [|discriminate]. exists []. split; constructor.
  - destruct (remove1 eqb a l2) as [r|] eqn:Er; [|discriminate].
    destruct (remove1_sound eqb R a l2 r (HR a) Er) as [b [Hb Hp]].
    destruct (IH r H) as [r' [Hp' HF]].
    exists (b :: r'). split.
    + eapply Permutation_trans; [exact Hp|]. constructor. exact Hp'.
    + constructor; assumption.
Qed.

Lemma leaf_eqb_eq p q : leaf_eqb p q = true <-> p = q.
Proof.
  destruct p as [a b], q as [c d]. unfold leaf_eqb; simpl. rewrite andb_true_iff, !String.eqb_eq.
  split; [intros [? ?]; congruence|intros H; inversion H; auto].
Qed.

Lemma Forall2_eq {A} (l l' : list A) : Forall2 eq l l' -> l = l'.
Proof. induction 1; congruence. Qed.

Lemma mset_leaves_perm l1 l2 : msetb leaf_eqb l1 l2 = true -> Permutation l1 l2.
Proof.
  intros H. destruct (msetb_sound leaf_eqb eq (fun a b => proj1 (leaf_eqb_eq a b)) l1 l2 H) as [l2' [Hp HF]].
  apply Forall2_eq in HF. subst. apply Permutation_sym. exact Hp.
Qed.

(* ---- nodup_s ---- *)
Lemma nodup_s_In x l : In x (nodup_s l) <-> In x l.
Proof.
  induction l as [|y l IH]; simpl; [tauto|].
  rewrite filter_In, IH, negb_true_iff, String.eqb_neq.
  destruct (string_dec y x) as [->|N]; [tauto|].
  split; [intros [?|[? ?]]; auto|intros [?|?]; [auto|right; split; congruence]].
Qed.

Lemma NoDup_filter {A} (f : A -> bool) l : NoDup l -> NoDup (filter f l).
Proof.
  induction 1; simpl; [constructor|]. destruct (f x); [constructor|]; auto.
  rewrite filter_In. tauto.
Qed.

Lemma nodup_s_NoDup l : NoDup (nodup_s l).
Proof.
  induction l as [|y l IH]; simpl; constructor.
  - rewrite filter_In, negb_true_iff, String.eqb_neq. tauto.
  - apply NoDup_filter. exact IH.
Qed.

Lemma flat_map_ext_in_s {A B} (f g : A -> list B) l :
  (forall a, In a l -> f a = g a) -> flat_map f l = flat_map g l.
Proof.
  induction l as [|a l IH]; simpl; intros H; [reflexivity|].
  rewrite (H a (or_introl eq_refl)), IH; [reflexivity|]. intros; apply H; right; assumption.
Qed.

(* grouping the pairs by component loses nothing and duplicates nothing *)
Lemma groups_perm (ks : list string) : forall (l : list leaf),
  NoDup ks -> (forall p, In p l -> In (snd p) ks) ->
  Permutation (flat_map (fun c => of_comp c l) ks) l.
Proof.
  induction ks as [|k ks IH]; intros l Hnd Hin; simpl.
  - destruct l as [|p l]; [constructor|]. destruct (Hin p (or_introl eq_refl)).
  - inversion Hnd as [|? ? Hk Hnd']; subst.
    set (l' := filter (fun p : leaf => negb (String.eqb (snd p) k)) l).
    assert (E : flat_map (fun c => of_comp c l) ks = flat_map (fun c => of_comp c l') ks).
    { apply flat_map_ext_in_s. intros c Hc. unfold of_comp, l'. symmetry. apply filter_filter_comm_ext.
      intros p Hp. apply String.eqb_eq in Hp. rewrite negb_true_iff, String.eqb_neq. intros E. rewrite Hp in E. subst c. rewrite E in Hc. contradiction. }
    rewrite E.
    eapply Permutation_trans; [apply Permutation_app_head; apply (IH l' Hnd')|].
    + intros p Hp. unfold l' in Hp. apply filter_In in Hp as [Hp Hne].
      rewrite negb_true_iff, String.eqb_neq in Hne. destruct (Hin p Hp) as [->|]; [congruence|assumption].
    + unfold of_comp, l'. apply filter_partition_perm.
Qed.

(* ------------------------------------------------------------------------- *)
(* evaluation in any commutative, associative (add, max, zero)                *)
(* ------------------------------------------------------------------------- *)
Section Alg.
  Context {T : Type}.
  Variable add mx : T -> T -> T.
  Variable zero : T.
  Hypothesis add_comm : forall a b, add a b = add b a.
  Hypothesis add_assoc : forall a b c, add a (add b c) = add (add a b) c.
  Hypothesis add_0_l : forall a, add zero a = a.
  Hypothesis mx_comm : forall a b, mx a b = mx b a.
  Hypothesis mx_assoc : forall a b c, mx a (mx b c) = mx (mx a b) c.
  Variable rho : string -> string -> T.

  Notation sum := (sum_list add zero).
  Notation ev := (eval add mx zero rho).
  Notation sl := (sum_leaves add zero rho).

  Lemma add_0_r a : add a zero = a.
  Proof. rewrite add_comm. apply add_0_l. Qed.

  Lemma sum_app l1 l2 : sum (l1 ++ l2) = add (sum l1) (sum l2).
  Proof.
    induction l1 as [|a l1 IH]; simpl; [symmetry; apply add_0_l|].
    rewrite IH. apply add_assoc.
  Qed.

  Lemma sum_perm l1 l2 : Permutation l1 l2 -> sum l1 = sum l2.
  Proof.
    induction 1; simpl; [reflexivity|congruence| |congruence].
    rewrite !add_assoc. f_equal. apply add_comm.
  Qed.

  Lemma sl_app l1 l2 : sl (l1 ++ l2) = add (sl l1) (sl l2).
  Proof. unfold sum_leaves. rewrite map_app. apply sum_app. Qed.

  Lemma sl_perm l1 l2 : Permutation l1 l2 -> sl l1 = sl l2.
  Proof. intros H. unfold sum_leaves. apply sum_perm. apply Permutation_map. exact H. Qed.

  (* max of a list, zero for the empty one *)
  Definition mlist (l : list T) : T := match l with [] => zero | x :: xs => maxl mx x xs end.

  Lemma maxl_shift ws a w : fold_left mx ws (mx a w) = mx a (fold_left mx ws w).
  Proof.
    revert a w. induction ws as [|u ws IH]; intros a w; simpl; [reflexivity|].
    rewrite <- mx_assoc. apply IH.
  Qed.

  Lemma mlist_cons x l : l <> [] -> mlist (x :: l) = mx x (mlist l).
  Proof.
    destruct l as [|y ys]; [congruence|]. intros _. simpl. unfold maxl. simpl. apply maxl_shift.
  Qed.

  Lemma mlist_app l1 l2 : l1 <> [] -> l2 <> [] -> mlist (l1 ++ l2) = mx (mlist l1) (mlist l2).
  Proof.
    intros H1 H2. destruct l1 as [|x xs]; [congruence|]. destruct l2 as [|y ys]; [congruence|].
    simpl. unfold maxl. rewrite fold_left_app. simpl. apply maxl_shift.
  Qed.

  Lemma mlist_perm l l' : Permutation l l' -> mlist l = mlist l'.
  Proof.
    induction 1 as [|x l l' Hp IH|x y l|l l' l'' H1 IH1 H2 IH2].
    - reflexivity.
    - destruct l as [|a l].
      + apply Permutation_nil in Hp. subst. reflexivity.
      + destruct l' as [|a' l']; [apply Permutation_sym, Permutation_nil in Hp; discriminate|].
        rewrite (mlist_cons x (a :: l)), (mlist_cons x (a' :: l')) by discriminate. f_equal. exact IH.
    - simpl. unfold maxl. simpl. rewrite (mx_comm y x). reflexivity.
    - congruence.
  Qed.

  (* ---- expressions ---- *)
  Lemma eval_summands x : ev x = sum (map ev (summands x)).
  Proof.
    induction x; simpl; try (symmetry; apply add_0_r); try reflexivity.
    rewrite map_app, sum_app. congruence.
  Qed.

  Lemma maxargs_nonempty x : maxargs x <> [].
  Proof.
    induction x; simpl; try discriminate.
    intros H. apply app_eq_nil in H as [H _]. contradiction.
  Qed.

  Lemma eval_maxargs x : ev x = mlist (map ev (maxargs x)).
  Proof.
    induction x; simpl; try reflexivity.
    rewrite map_app, mlist_app.
    - congruence.
    - intros H. apply map_eq_nil in H. exact (maxargs_nonempty _ H).
    - intros H. apply map_eq_nil in H. exact (maxargs_nonempty _ H).
  Qed.

  Lemma as_leaves_eval l g : as_leaves l = Some g -> map ev l = map (rho_l rho) g.
  Proof.
    revert g. induction l as [|x l IH]; simpl; intros g H.
    - inversion H. reflexivity.
    - destruct x; try discriminate. destruct (as_leaves l) as [g'|]; [|discriminate].
      inversion H; subst. simpl. f_equal. apply IH. reflexivity.
  Qed.

  Lemma as_leaves_leaves l g : as_leaves l = Some g -> flat_map leaves l = g.
  Proof.
    revert g. induction l as [|x l IH]; simpl; intros g H.
    - inversion H. reflexivity.
    - destruct x; try discriminate. destruct (as_leaves l) as [g'|]; [|discriminate].
      inversion H; subst. simpl. f_equal. apply IH. reflexivity.
  Qed.

  Lemma leaves_summands x : leaves x = flat_map leaves (summands x).
  Proof.
    induction x; simpl; try reflexivity.
    - rewrite flat_map_app. congruence.
    - rewrite app_nil_r. reflexivity.
  Qed.

  Lemma leaves_maxargs x : leaves x = flat_map leaves (maxargs x).
  Proof.
    induction x; simpl; try (rewrite app_nil_r; reflexivity); try reflexivity.
    rewrite flat_map_app. congruence.
  Qed.

  (* ---- shapes ---- *)
  Definition mgroup (gs : list (list leaf)) : T := mlist (map sl gs).
  Definition eval_shape (s : shape) : T := add (sl (fst s)) (sum (map mgroup (snd s))).
  Definition shape_leaves (s : shape) : list leaf := fst s ++ concat (map (@concat leaf) (snd s)).

  Lemma map_opt_groups (args : list texp) gs :
    map_opt (fun a => as_leaves (summands a)) args = Some gs ->
    map ev args = map sl gs /\ flat_map leaves args = concat gs.
  Proof.
    revert gs. induction args as [|a args IH]; simpl; intros gs H.
    - inversion H. split; reflexivity.
    - destruct (as_leaves (summands a)) as [g|] eqn:Ea; [|discriminate].
      destruct (map_opt _ args) as [gs'|]; [|discriminate]. inversion H; subst.
      destruct (IH gs' eq_refl) as [I1 I2]. simpl. split.
      + f_equal; [|exact I1]. rewrite eval_summands. unfold sum_leaves. f_equal. apply as_leaves_eval. exact Ea.
      + rewrite leaves_summands, (as_leaves_leaves _ _ Ea), I2. reflexivity.
  Qed.

  Lemma shape_of_summands_sound l s :
    shape_of_summands l = Some s ->
    sum (map ev l) = eval_shape s /\ Permutation (flat_map leaves l) (shape_leaves s).
  Proof.
    revert s. induction l as [|x l IH]; simpl; intros s H.
    - inversion H; subst. unfold eval_shape, shape_leaves; simpl. split; [symmetry; apply add_0_l|constructor].
    - destruct (shape_of_summands l) as [[lo mg]|]; [|discriminate].
      destruct (IH _ eq_refl) as [I1 I2]. unfold eval_shape, shape_leaves in *. simpl in *.
      destruct x; try discriminate.
      + inversion H; subst. simpl. split.
        * rewrite I1. unfold sum_leaves. simpl. rewrite add_assoc. reflexivity.
        * constructor. exact I2.
      + destruct (map_opt _ (maxargs (TMax x1 x2))) as [gs|] eqn:Em; [|discriminate].
        inversion H; subst. simpl. apply map_opt_groups in Em as [M1 M2]. split.
        * rewrite I1. change (mx (ev x1) (ev x2)) with (ev (TMax x1 x2)). rewrite (eval_maxargs (TMax x1 x2)). rewrite M1.
          fold (mgroup gs). rewrite !add_assoc. f_equal. apply add_comm.
        * change (leaves x1 ++ leaves x2) with (leaves (TMax x1 x2)).
          rewrite (leaves_maxargs (TMax x1 x2)), M2.
          eapply Permutation_trans; [apply Permutation_app_head; exact I2|].
          rewrite !app_assoc. apply Permutation_app_tail. apply Permutation_app_comm.
  Qed.

  Lemma shape_of_sound x s :
    shape_of x = Some s -> ev x = eval_shape s /\ Permutation (leaves x) (shape_leaves s).
  Proof.
    unfold shape_of. intros H. apply shape_of_summands_sound in H as [H1 H2].
    rewrite eval_summands, leaves_summands. split; assumption.
  Qed.

  (* two shapes that are equal as nested multisets evaluate alike and hold the same leaves *)
  Lemma group_eqb_sound : forall g1 g2, msetb leaf_eqb g1 g2 = true -> Permutation g1 g2.
  Proof. exact mset_leaves_perm. Qed.

  Definition groups_rel (G1 G2 : list (list leaf)) : Prop :=
    mgroup G1 = mgroup G2 /\ Permutation (concat G1) (concat G2).

  Lemma groups_eqb_sound G1 G2 : msetb (msetb leaf_eqb) G1 G2 = true -> groups_rel G1 G2.
  Proof.
    intros H. destruct (msetb_sound _ (@Permutation leaf) group_eqb_sound G1 G2 H) as [G2' [Hp HF]].
    split.
    - unfold mgroup. rewrite (mlist_perm _ _ (Permutation_map sl Hp)). f_equal.
      clear Hp H. induction HF; simpl; [reflexivity|]. f_equal; [apply sl_perm; assumption|assumption].
    - eapply Permutation_trans; [apply Forall2_perm_concat; exact HF|].
      apply Permutation_sym, Permutation_concat. exact Hp.
  Qed.

  Lemma shape_eqb_sound s1 s2 :
    shape_eqb s1 s2 = true -> eval_shape s1 = eval_shape s2 /\ Permutation (shape_leaves s1) (shape_leaves s2).
  Proof.
    unfold shape_eqb. rewrite andb_true_iff. intros [H1 H2].
    apply mset_leaves_perm in H1.
    destruct (msetb_sound _ groups_rel groups_eqb_sound _ _ H2) as [M2' [Hp HF]].
    unfold eval_shape, shape_leaves. split.
    - rewrite (sl_perm _ _ H1). f_equal.
      rewrite (sum_perm _ _ (Permutation_map mgroup Hp)). f_equal.
      clear Hp H2. induction HF as [|a b l l' [Hab _] _ IH]; simpl; [reflexivity|]. congruence.
    - apply Permutation_app; [exact H1|].
      eapply Permutation_trans; [|apply Permutation_sym, Permutation_concat, Permutation_map; exact Hp].
      clear Hp H2. induction HF as [|a b l l' [_ Hab] _ IH]; simpl; [constructor|].
      apply Permutation_app; assumption.
  Qed.

  (* ---- the specification side ---- *)
  Variable comps : string -> list string.
  Notation ct := (ctime add zero rho comps).
  Notation bt := (block_time add mx zero rho comps).
  Notation ru := (rollup add mx zero rho comps).

  Lemma block_time_mlist b : bt b = mlist (map (ct b) (active comps b)).
  Proof. unfold block_time. destruct (active comps b); reflexivity. Qed.

  Lemma pairs_in_active b p : In p (pairs_of comps b) -> In (snd p) (active comps b).
  Proof. intros H. unfold active. apply nodup_s_In. apply in_map. exact H. Qed.

  Lemma groups_concat_perm b : Permutation (concat (groups_of comps b)) (pairs_of comps b).
  Proof.
    unfold groups_of. rewrite <- flat_map_concat_map.
    apply groups_perm; [apply nodup_s_NoDup|apply pairs_in_active].
  Qed.

  Lemma mgroup_groups b : mgroup (groups_of comps b) = bt b.
  Proof.
    rewrite block_time_mlist. unfold mgroup, groups_of. rewrite map_map. reflexivity.
  Qed.

  Lemma spec_shape_sound blocks :
    eval_shape (spec_shape comps blocks) = ru blocks /\
    Permutation (shape_leaves (spec_shape comps blocks)) (all_pairs comps blocks).
  Proof.
    induction blocks as [|b bs [I1 I2]]; simpl.
    - unfold eval_shape, shape_leaves; simpl. split; [apply add_0_l|constructor].
    - destruct (spec_shape comps bs) as [lo mg] eqn:Es.
      pose proof (mgroup_groups b) as Hg. pose proof (groups_concat_perm b) as Hc.
      unfold rollup in *. simpl. unfold eval_shape, shape_leaves in *. simpl in *.
      destruct (groups_of comps b) as [|g [|g2 gs]] eqn:Eg.
      + simpl in *. split.
        * rewrite I1. rewrite <- Hg. unfold mgroup. simpl. symmetry. apply add_0_l.
        * apply Permutation_nil in Hc. rewrite Hc. exact I2.
      + simpl in *. split.
        * rewrite sl_app, <- add_assoc, I1. f_equal. rewrite <- Hg. reflexivity.
        * rewrite app_nil_r in Hc. rewrite <- app_assoc. apply Permutation_app; assumption.
      + simpl in *. split.
        * rewrite <- I1, <- Hg. rewrite !add_assoc. f_equal. apply add_comm.
        * eapply Permutation_trans; [apply Permutation_app_swap_app|].
          apply Permutation_app; [exact Hc|exact I2].
  Qed.

  (* THE VALIDATOR IS SOUND: an accepted expression denotes the roll-up, and its leaves are exactly the
     registered (Einsum, component) pairs, each as often as it is registered *)
  Theorem time_okb_sound blocks x :
    time_okb comps blocks x = true ->
    ev x = ru blocks /\ Permutation (leaves x) (all_pairs comps blocks).
  Proof.
    unfold time_okb. destruct (shape_of x) as [s|] eqn:Es; [|discriminate]. intros H.
    apply shape_of_sound in Es as [E1 E2]. apply shape_eqb_sound in H as [H1 H2].
    destruct (spec_shape_sound blocks) as [S1 S2]. split.
    - congruence.
    - eapply Permutation_trans; [exact E2|]. eapply Permutation_trans; [exact H2|exact S2].
  Qed.

  (* ------------------------------------------------------------------------- *)
  (* Collector.__build_time computes the roll-up                                 *)
  (* ------------------------------------------------------------------------- *)
  Lemma dict_get_add d c t k :
    dict_get (dict_add d c t) k =
    if String.eqb k c then Some (match dict_get d c with Some v => TAdd v t | None => t end) else dict_get d k.
  Proof.
    induction d as [|[k' v] d IH]; simpl.
    - rewrite (String.eqb_sym c k). reflexivity.
    - destruct (String.eqb_spec k' c) as [->|N]; simpl.
      + rewrite (String.eqb_sym c k). destruct (String.eqb_spec k c); reflexivity.
      + destruct (String.eqb_spec k' k) as [->|N2].
        * destruct (String.eqb_spec k c); [congruence|reflexivity].
        * exact IH.
  Qed.

  Lemma keys_dict_add d c t :
    map fst (dict_add d c t) = if mem c (map fst d) then map fst d else map fst d ++ [c].
  Proof.
    unfold mem. induction d as [|[k' v] d IH]; simpl; [reflexivity|].
    rewrite (String.eqb_sym c k'). destruct (String.eqb k' c); simpl; [reflexivity|].
    rewrite IH. destruct (existsb (String.eqb c) (map fst d)); reflexivity.
  Qed.

  Lemma dict_get_some_in d k v : dict_get d k = Some v -> In k (map fst d).
  Proof.
    induction d as [|[k' v'] d IH]; simpl; [discriminate|].
    destruct (String.eqb_spec k' k); [auto|]. intros H. right. auto.
  Qed.

  Lemma dict_get_in d k : In k (map fst d) -> exists v, dict_get d k = Some v.
  Proof.
    induction d as [|[k' v'] d IH]; simpl; [tauto|].
    destruct (String.eqb_spec k' k); [eauto|]. intros [?|?]; [contradiction|auto].
  Qed.

  Definition dinv (d : dict) (ps : list leaf) : Prop :=
    NoDup (map fst d) /\ (forall k, In k (map fst d) <-> In k (map snd ps)) /\
    (forall k v, dict_get d k = Some v -> ev v = sl (of_comp k ps) /\ leaves v = of_comp k ps).

  Lemma of_comp_app c l1 l2 : of_comp c (l1 ++ l2) = of_comp c l1 ++ of_comp c l2.
  Proof. apply filter_app. Qed.

  Lemma of_comp_absent c ps : ~ In c (map snd ps) -> of_comp c ps = [].
  Proof.
    induction ps as [|p ps IH]; simpl; [reflexivity|]. intros H.
    destruct (String.eqb_spec (snd p) c); [tauto|]. apply IH. tauto.
  Qed.

  Lemma dinv_step d ps e c : dinv d ps -> dinv (dict_add d c (TLeaf e c)) (ps ++ [(e, c)]).
  Proof.
    intros [Hnd [Hmem Hval]]. split; [|split].
    - rewrite keys_dict_add. destruct (mem c (map fst d)) eqn:Em; [exact Hnd|].
      apply (Permutation_NoDup (l := c :: map fst d)); [apply Permutation_cons_append|].
      constructor; [|exact Hnd]. intros Hin. apply mem_In in Hin. congruence.
    - intros k. rewrite map_app, in_app_iff, keys_dict_add. simpl.
      destruct (mem c (map fst d)) eqn:Em.
      + apply mem_In in Em. rewrite <- Hmem. split; [tauto|]. intros [?|[<-|[]]]; assumption.
      + rewrite in_app_iff, Hmem. simpl. tauto.
    - intros k v. rewrite dict_get_add, of_comp_app. simpl.
      destruct (String.eqb_spec k c) as [->|N].
      + rewrite String.eqb_refl. intros H. inversion H; subst; clear H.
        destruct (dict_get d c) as [v0|] eqn:Eg.
        * destruct (Hval c v0 Eg) as [H1 H2]. simpl. rewrite H1, H2. split; [|reflexivity].
          rewrite sl_app. unfold sum_leaves at 3. simpl. unfold rho_l. simpl. rewrite add_0_r. reflexivity.
        * assert (Hn : ~ In c (map snd ps)).
          { rewrite <- Hmem. intros Hin. apply dict_get_in in Hin as [v Hv]. congruence. }
          rewrite (of_comp_absent c ps Hn). simpl. split; [|reflexivity].
          unfold sum_leaves. simpl. unfold rho_l. simpl. rewrite add_0_r. reflexivity.
      + destruct (String.eqb_spec c k) as [->|_]; [congruence|]. rewrite app_nil_r. apply Hval.
  Qed.

  Lemma fold_bstep_inv ps : forall d l done, dinv d done -> dinv (fst (fold_left bstep ps (d, l))) (done ++ ps).
  Proof.
    induction ps as [|[e c] ps IH]; intros d l done H; simpl.
    - rewrite app_nil_r. exact H.
    - unfold bstep at 2. simpl. change (done ++ (e, c) :: ps) with (done ++ [(e, c)] ++ ps). rewrite app_assoc.
      apply IH. apply dinv_step. exact H.
  Qed.

  Lemma fold_bstep_last ps : forall st, ps <> [] ->
    exists c, snd (fold_left bstep ps st) = Some c /\ In c (map snd ps).
  Proof.
    induction ps as [|p ps IH]; intros st H; [congruence|]. simpl.
    destruct ps as [|q ps].
    - simpl. exists (snd p). auto.
    - destruct (IH (bstep st p)) as [c [H1 H2]]; [discriminate|]. exists c. split; [exact H1|right; exact H2].
  Qed.

  Lemma insert_s_perm x l : Permutation (insert_s x l) (x :: l).
  Proof.
    induction l as [|y l IH]; simpl; [constructor; constructor|].
    destruct (String.leb x y); [apply Permutation_refl|].
    eapply Permutation_trans; [apply perm_skip; exact IH|apply perm_swap].
  Qed.

  Lemma sort_s_perm l : Permutation (sort_s l) l.
  Proof.
    induction l as [|x l IH]; simpl; [constructor|].
    eapply Permutation_trans; [apply insert_s_perm|]. constructor. exact IH.
  Qed.

  Lemma get_all_in d ks : (forall k, In k ks -> In k (map fst d)) ->
    exists vs, get_all d ks = Some vs /\ Forall2 (fun k v => dict_get d k = Some v) ks vs.
  Proof.
    induction ks as [|k ks IH]; simpl; intros H.
    - exists []. split; [reflexivity|constructor].
    - destruct (dict_get_in d k (H k (or_introl eq_refl))) as [v Hv].
      destruct IH as [vs [H1 H2]]; [intros; apply H; right; assumption|].
      rewrite Hv, H1. exists (v :: vs). split; [reflexivity|constructor; assumption].
  Qed.

  Lemma eval_fold_max vs : forall v, ev (fold_left TMax vs v) = maxl mx (ev v) (map ev vs).
  Proof. induction vs as [|w vs IH]; intros v; simpl; [reflexivity|]. rewrite IH. reflexivity. Qed.

  Lemma leaves_fold_max vs : forall v, leaves (fold_left TMax vs v) = leaves v ++ flat_map leaves vs.
  Proof.
    induction vs as [|w vs IH]; intros v; simpl; [rewrite app_nil_r; reflexivity|].
    rewrite IH. simpl. rewrite app_assoc. reflexivity.
  Qed.

  Lemma vals_of (d : dict) ps ks vs :
    (forall k v, dict_get d k = Some v -> ev v = sl (of_comp k ps) /\ leaves v = of_comp k ps) ->
    Forall2 (fun k v => dict_get d k = Some v) ks vs ->
    map ev vs = map (fun k => sl (of_comp k ps)) ks /\ flat_map leaves vs = flat_map (fun k => of_comp k ps) ks.
  Proof.
    intros Hval HF. induction HF as [|k v ks' vs' Hkv _ [I1 I2]]; simpl; [split; reflexivity|].
    destruct (Hval k v Hkv) as [H1 H2].
    split; [f_equal; [exact H1|exact I1]|rewrite H2, I2; reflexivity].
  Qed.

  Lemma block_expr_sound last b :
    exists x last', block_expr comps last b = (Some x, last') /\ ev x = bt b /\
                    Permutation (leaves x) (pairs_of comps b).
  Proof.
    unfold block_expr.
    set (ps := pairs_of comps b).
    set (st := fold_left bstep ps ([], last)).
    assert (Hinv : dinv (fst st) ps).
    { apply (fold_bstep_inv ps [] last []). split; [constructor|split]; simpl; [tauto|discriminate]. }
    destruct Hinv as [Hnd [Hmem Hval]].
    set (d := fst st) in *.
    set (ks := sort_s (map fst d)).
    assert (Pk : Permutation ks (map fst d)) by apply sort_s_perm.
    assert (Pa : Permutation ks (active comps b)).
    { eapply Permutation_trans; [exact Pk|]. apply NoDup_Permutation; [exact Hnd|apply nodup_s_NoDup|].
      intros k. unfold active. rewrite nodup_s_In. apply Hmem. }
    assert (Hin : forall k, In k ks -> In k (map fst d)).
    { intros k Hk. eapply Permutation_in; [exact Pk|exact Hk]. }
    destruct (get_all_in d ks Hin) as [vs [Hga HF]].
    assert (Hev : map ev vs = map (ct b) ks /\ flat_map leaves vs = flat_map (fun k => of_comp k ps) ks).
    { exact (vals_of d ps ks vs Hval HF). }
    destruct Hev as [Hev Hlv].
    assert (F1 : mlist (map (ct b) ks) = bt b).
    { rewrite block_time_mlist. apply mlist_perm. apply Permutation_map. exact Pa. }
    assert (F2 : Permutation (flat_map (fun k => of_comp k ps) ks) ps).
    { apply groups_perm.
      - eapply Permutation_NoDup; [apply Permutation_sym; exact Pk|exact Hnd].
      - intros p Hp. eapply Permutation_in; [apply Permutation_sym; exact Pa|]. apply pairs_in_active. exact Hp. }
    destruct ks as [|k [|k2 ks']] eqn:Eks.
    - exists TZero, (snd st). split; [reflexivity|]. simpl in *. split; [exact F1|exact F2].
    - (* one component: component_time[comp] with the loop variable *)
      assert (Hne : ps <> []).
      { intros E. assert (Hk : In k (map snd ps)) by (apply Hmem, Hin; left; reflexivity). rewrite E in Hk. exact Hk. }
      destruct (fold_bstep_last ps ([], last) Hne) as [c [Hc1 Hc2]]. fold st in Hc1.
      assert (c = k).
      { apply Hmem in Hc2. eapply Permutation_in in Hc2; [|apply Permutation_sym; exact Pk].
        destruct Hc2 as [?|[]]. congruence. }
      subst c. rewrite Hc1.
      inversion HF as [|? v ? ? Hkv HF' ]; subst. inversion HF'; subst.
      rewrite Hkv. exists v, (Some k). split; [reflexivity|].
      simpl in Hev, Hlv, F1, F2. inversion Hev as [Hv]. split.
      + rewrite Hv. exact F1.
      + rewrite app_nil_r in Hlv. rewrite Hlv. exact F2.
    - rewrite Hga. destruct vs as [|v vs']; [inversion HF|].
      exists (fold_left TMax vs' v), (snd st). split; [reflexivity|]. split.
      + rewrite eval_fold_max. rewrite <- F1, <- Hev. reflexivity.
      + rewrite leaves_fold_max. change (leaves v ++ flat_map leaves vs') with (flat_map leaves (v :: vs')).
        rewrite Hlv. exact F2.
  Qed.

  Lemma build_time_from_sound blocks : forall time last,
    (time = None -> blocks <> []) ->
    exists x, build_time_from comps time last blocks = Some x /\
      ev x = match time with Some t => add (ev t) (ru blocks) | None => ru blocks end /\
      Permutation (leaves x) (match time with Some t => leaves t | None => [] end ++ all_pairs comps blocks).
  Proof.
    induction blocks as [|b bs IH]; intros time last Hne; cbn [build_time_from].
    - destruct time as [t|]; [|exfalso; apply Hne; reflexivity].
      exists t. unfold rollup. simpl. rewrite add_0_r, app_nil_r. repeat split. apply Permutation_refl.
    - destruct (block_expr_sound last b) as [x [last' [Hb [Hev Hlv]]]]. rewrite Hb.
      destruct (IH (Some (match time with Some t => TAdd t x | None => x end)) last') as [y [Hy [Ey Ly]]]; [discriminate|].
      exists y. split; [exact Hy|]. unfold rollup in *. simpl. destruct time as [t|]; simpl in *.
      + split.
        * rewrite Ey, Hev. rewrite !add_assoc. reflexivity.
        * eapply Permutation_trans; [exact Ly|]. rewrite <- !app_assoc. apply Permutation_app_head.
          apply Permutation_app_tail. exact Hlv.
      + split.
        * rewrite Ey, Hev. reflexivity.
        * eapply Permutation_trans; [exact Ly|]. apply Permutation_app_tail. exact Hlv.
  Qed.

  (* THE CODE'S EXPRESSION: never raises for a non-empty block list, denotes the roll-up, and its leaves are
     exactly the registered pairs *)
  Theorem build_time_sem blocks :
    blocks <> [] ->
    exists x, build_time comps blocks = Some x /\ ev x = ru blocks /\
              Permutation (leaves x) (all_pairs comps blocks).
  Proof.
    intros H. destruct (build_time_from_sound blocks None None (fun _ => H)) as [x [H1 [H2 H3]]].
    exists x. auto.
  Qed.
End Alg.

(* ------------------------------------------------------------------------- *)
(* every registered component time enters exactly once                        *)
(* ------------------------------------------------------------------------- *)
Lemma all_pairs_flat comps blocks :
  all_pairs comps blocks = flat_map (fun e => map (pair e) (comps e)) (concat blocks).
Proof.
  unfold all_pairs, pairs_of. induction blocks as [|b bs IH]; simpl; [reflexivity|].
  rewrite flat_map_app, IH. reflexivity.
Qed.

Lemma NoDup_app_intro {A} (l1 l2 : list A) :
  NoDup l1 -> NoDup l2 -> (forall x, In x l1 -> ~ In x l2) -> NoDup (l1 ++ l2).
Proof.
  induction 1 as [|a l1 Ha Hl IH]; simpl; intros H2 Hd; [exact H2|].
  constructor.
  - rewrite in_app_iff. intros [?|?]; [contradiction|]. apply (Hd a); auto.
  - apply IH; [exact H2|]. intros x Hx. apply Hd. right. exact Hx.
Qed.

Lemma NoDup_map_pair (e : string) (l : list string) : NoDup l -> NoDup (map (pair e) l).
Proof.
  induction 1; simpl; constructor; [|assumption].
  rewrite in_map_iff. intros [y [Hy Hin]]. inversion Hy; subst. contradiction.
Qed.

Lemma in_pairs (comps : string -> list string) es (e c : string) :
  In (e, c) (flat_map (fun e => map (pair e) (comps e)) es) <-> In e es /\ In c (comps e).
Proof.
  rewrite in_flat_map. split.
  - intros [e' [He Hin]]. apply in_map_iff in Hin as [c' [Hc Hin]]. inversion Hc; subst. auto.
  - intros [He Hc]. exists e. split; [exact He|]. apply in_map. exact Hc.
Qed.

Lemma NoDup_pairs (comps : string -> list string) es :
  NoDup es -> (forall e, NoDup (comps e)) -> NoDup (flat_map (fun e => map (pair e) (comps e)) es).
Proof.
  intros Hes Hc. induction Hes as [|e es He Hes IH]; simpl; [constructor|].
  apply NoDup_app_intro; [apply NoDup_map_pair, Hc|exact IH|].
  intros [e' c'] Hin Hin'. apply in_map_iff in Hin as [c [Hc' _]]. inversion Hc'; subst.
  apply in_pairs in Hin' as [Hin' _]. contradiction.
Qed.

(* if every Einsum lies in one block and no component is registered twice for an Einsum, then each
   registered (Einsum, component) time is a leaf of the expression exactly once, and nothing else is *)
Theorem each_once_of_perm comps blocks x :
  Permutation (leaves x) (all_pairs comps blocks) ->
  NoDup (concat blocks) -> (forall e, NoDup (comps e)) ->
  NoDup (leaves x) /\ forall e c, In (e, c) (leaves x) <-> In e (concat blocks) /\ In c (comps e).
Proof.
  intros Hp Hb Hc. rewrite all_pairs_flat in Hp. split.
  - eapply Permutation_NoDup; [apply Permutation_sym; exact Hp|]. apply NoDup_pairs; assumption.
  - intros e c. rewrite <- in_pairs. split; apply Permutation_in; [exact Hp|apply Permutation_sym; exact Hp].
Qed.

(* the general form (registrations counted with multiplicity) *)
Theorem leaf_count_of_perm comps blocks x (dec : forall p q : leaf, {p = q} + {p <> q}) :
  Permutation (leaves x) (all_pairs comps blocks) ->
  forall p, count_occ dec (leaves x) p = count_occ dec (all_pairs comps blocks) p.
Proof. intros Hp p. apply Permutation_count_occ. exact Hp. Qed.

(* ------------------------------------------------------------------------- *)
(* instance counts and divisors                                               *)
(* ------------------------------------------------------------------------- *)
Lemma lookup_last_app {B} k (l1 l2 : list (string * B)) :
  lookup_last k (l1 ++ l2) = match lookup_last k l2 with Some r => Some r | None => lookup_last k l1 end.
Proof.
  induction l1 as [|[k' v] l1 IH]; simpl; [destruct (lookup_last k l2); reflexivity|].
  rewrite IH. destruct (lookup_last k l2); [reflexivity|]. reflexivity.
Qed.

Lemma count_decl_app c l1 l2 : count_decl c (l1 ++ l2) = (count_decl c l1 + count_decl c l2)%nat.
Proof. induction l1 as [|[k v] l1 IH]; simpl; [reflexivity|]. rewrite IH. lia. Qed.

Lemma count_zero_lookup c (l : list (string * cinfo)) : count_decl c l = 0%nat -> lookup_last c l = None.
Proof.
  induction l as [|[k v] l IH]; simpl; [reflexivity|].
  destruct (String.eqb k c); [discriminate|]. intros H. rewrite IH by exact H. reflexivity.
Qed.

Lemma lookup_some_count c l (ci : cinfo) : lookup_last c l = Some ci -> (1 <= count_decl c l)%nat.
Proof.
  destruct (count_decl c l) eqn:E; [|lia]. rewrite (count_zero_lookup c l E). discriminate.
Qed.

Lemma lookup_first_split {B} cfg (a : list (string * B)) lv :
  lookup_first cfg a = Some lv -> exists pre post, a = pre ++ (cfg, lv) :: post.
Proof.
  induction a as [|[k v] a IH]; simpl; [discriminate|].
  destruct (String.eqb_spec k cfg) as [->|N].
  - intros H. inversion H; subst. exists [], a. reflexivity.
  - intros H. destruct (IH H) as [pre [post ->]]. exists ((k, v) :: pre), post. reflexivity.
Qed.

Lemma built_app a1 a2 : built (a1 ++ a2) = built a1 ++ built a2.
Proof. unfold built. apply flat_map_app. Qed.

(* a component name declared once in the whole architecture: the code's single dictionary gives the
   instance count (class, bandwidth) of the Einsum's own configuration tree *)
Theorem instances_unique a cfg c ci :
  spec_cinfo a cfg c = Some ci -> count_decl c (built a) = 1%nat -> code_cinfo a c = Some ci.
Proof.
  unfold spec_cinfo, code_cinfo. destruct (lookup_first cfg a) as [lv|] eqn:El; [|discriminate].
  intros Hs Hc. destruct (lookup_first_split cfg a lv El) as [pre [post ->]].
  change (pre ++ (cfg, lv) :: post) with (pre ++ [(cfg, lv)] ++ post) in *.
  rewrite !built_app in *. rewrite !count_decl_app in Hc.
  assert (E : built [(cfg, lv)] = built_level lv) by (unfold built; simpl; apply app_nil_r).
  rewrite E in *. pose proof (lookup_some_count _ _ _ Hs) as H1.
  rewrite !lookup_last_app.
  rewrite (count_zero_lookup c (built post)) by lia. rewrite Hs. reflexivity.
Qed.

Corollary divisor_unique a cfg c :
  spec_cinfo a cfg c <> None -> count_decl c (built a) = 1%nat -> code_divisor a cfg c = spec_divisor a cfg c.
Proof.
  intros Hs Hc. unfold code_divisor, spec_divisor. destruct (spec_cinfo a cfg c) as [ci|] eqn:E; [|congruence].
  rewrite (instances_unique a cfg c ci E Hc). reflexivity.
Qed.

(* "divides its operation or bit count by clock frequency (or bandwidth) times the instance count" *)
Theorem divisor_form a cfg c n cls bw :
  spec_cinfo a cfg c = Some (n, cls, bw) ->
  spec_divisor a cfg c = Some (if is_memory cls then bw * n else cfg_freq a cfg * n)%Z.
Proof. intros H. unfold spec_divisor. rewrite H. reflexivity. Qed.

(* the instance count of a component is the N + 1 of the level NAME[0..N] that declares it *)
Theorem spec_cinfo_level raw f locals subs d :
  In d locals -> (forall d', In d' locals -> c_name d' = c_name d -> d' = d) ->
  (forall s, In s subs -> count_decl (c_name d) (built_level s) = 0%nat) ->
  lookup_last (c_name d) (built_level (Level raw f locals subs)) =
  Some (match parse_level raw with Some (_, n) => n | None => 0%Z end, c_class d, c_bw d).
Proof.
  intros Hin Huniq Hsubs. simpl. rewrite lookup_last_app.
  assert (Hs : count_decl (c_name d) (flat_map built_level subs) = 0%nat).
  { induction subs as [|s subs IH]; simpl; [reflexivity|]. rewrite count_decl_app.
    rewrite (Hsubs s (or_introl eq_refl)), IH; [reflexivity|]. intros; apply Hsubs; right; assumption. }
  rewrite (count_zero_lookup _ _ Hs).
  set (n := match parse_level raw with Some (_, n) => n | None => 0%Z end).
  induction locals as [|d0 locals IH]; [destruct Hin|]. simpl.
  match goal with |- context [@lookup_last ?B ?k ?l] => destruct (@lookup_last B k l) as [r|] eqn:El end.
  - (* found further right: it is d itself *)
    assert (exists d', In d' locals /\ c_name d' = c_name d /\ r = (n, c_class d', c_bw d')) as [d' [H1 [H2 ->]]].
    { clear -El. induction locals as [|x locals IH]; simpl in El; [discriminate|].
      destruct (lookup_last (c_name d) (map _ locals)) as [r'|] eqn:E.
      - inversion El; subst. destruct (IH eq_refl) as [d' [? [? ?]]]. exists d'. simpl. auto.
      - destruct (String.eqb_spec (c_name x) (c_name d)); [|discriminate]. inversion El; subst.
        exists x. simpl. auto. }
    rewrite (Huniq d' (or_intror H1) H2). reflexivity.
  - destruct Hin as [->|Hin].
    + rewrite String.eqb_refl. reflexivity.
    + exfalso. clear -El Hin. induction locals as [|x locals IH]; [destruct Hin|]. simpl in El.
      destruct (lookup_last (c_name d) (map _ locals)) eqn:E; [discriminate|].
      destruct Hin as [->|Hin]; [rewrite String.eqb_refl in El; discriminate|]. apply IH; [exact Hin|reflexivity].
Qed.

(* the pinned tree keeps ONE component dictionary for all configurations: a name shared by two
   configurations takes the instance count / bandwidth of the configuration built last (finding F14) *)
Definition f14_arch : arch :=
  [("P1", Level "System" 1000 [mkC "Mem" "dram" 512]
            [Level "PE[0..3]" 0 [mkC "Buf" "buffet" 0; mkC "Mul" "compute" 0] []]);
   ("P2", Level "System" 7 [mkC "Mem" "dram" 4096]
            [Level "PE[0..7]" 0 [mkC "Buf" "buffet" 0; mkC "Mul" "compute" 0] []])]%string.

Theorem shared_name_divisor_refuted :
  exists a cfg c1 c2,
    spec_divisor a cfg c1 = Some 4000%Z /\ code_divisor a cfg c1 = Some 8000%Z /\
    spec_divisor a cfg c2 = Some 512%Z /\ code_divisor a cfg c2 = Some 4096%Z.
Proof. exists f14_arch, "P1"%string, "Mul"%string, "Mem"%string. vm_compute. repeat split. Qed.

(* ------------------------------------------------------------------------- *)
(* level names                                                                *)
(* ------------------------------------------------------------------------- *)
Fixpoint all_s (p : ascii -> bool) (s : string) : bool :=
  match s with
  | EmptyString => true
  | String a s' => p a && all_s p s'
  end.

Definition alnum_ (c : ascii) : bool := is_alpha_ c || is_digit c.
Definition cname (s : string) : Prop :=
  exists a r, s = String a r /\ is_alpha_ a = true /\ all_s alnum_ r = true.

Lemma alpha_not_ws a : is_alpha_ a = true -> is_ws a = false.
Proof. destruct a as [[] [] [] [] [] [] [] []]; vm_compute; congruence. Qed.
Lemma digit_not_ws a : is_digit a = true -> is_ws a = false.
Proof. destruct a as [[] [] [] [] [] [] [] []]; vm_compute; congruence. Qed.

Lemma span_all p x r :
  all_s p x = true -> match r with String a _ => p a = false | EmptyString => True end ->
  span p (x ++ r)%string = (x, r).
Proof.
  intros Hx Hr. induction x as [|a x IH]; simpl in *.
  - destruct r as [|b r]; [reflexivity|]. simpl. rewrite Hr. reflexivity.
  - apply andb_true_iff in Hx as [Ha Hx]. rewrite Ha, (IH Hx). reflexivity.
Qed.

Lemma skip_ws_nonws a r : is_ws a = false -> skip_ws (String a r) = String a r.
Proof. intros H. simpl. rewrite H. reflexivity. Qed.

(* NAME[0..N] declares N + 1 instances; NAME declares one *)
Theorem parse_level_multiple name ds :
  cname name -> all_s is_digit ds = true -> ds <> EmptyString ->
  parse_level (name ++ "[0.." ++ ds ++ "]")%string = Some (name, (digits_val ds 0 + 1)%Z).
Proof.
  intros [a [r [-> [Ha Hr]]]] Hd Hne.
  unfold parse_level.
  change ((String a r ++ "[0.." ++ ds ++ "]")%string) with (String a (r ++ "[0.." ++ ds ++ "]")%string).
  rewrite (skip_ws_nonws a _ (alpha_not_ws a Ha)). rewrite Ha.
  change (String a (r ++ "[0.." ++ ds ++ "]")%string) with ((String a r ++ ("[0.." ++ ds ++ "]"))%string).
  rewrite (span_all (fun c => (is_alpha_ c || is_digit c)%bool) (String a r) ("[0.." ++ ds ++ "]")%string).
  - change (skip_ws ("[0.." ++ ds ++ "]")%string) with ("[0.." ++ ds ++ "]")%string.
    change (strip_prefix "[0.." ("[0.." ++ ds ++ "]")%string) with (Some (ds ++ "]")%string).
    cbv iota beta.
    destruct ds as [|d ds]; [congruence|]. simpl in Hd. apply andb_true_iff in Hd as [Hd1 Hd2].
    change ((String d ds ++ "]")%string) with (String d (ds ++ "]")%string).
    rewrite (skip_ws_nonws d _ (digit_not_ws d Hd1)).
    change (String d (ds ++ "]")%string) with ((String d ds ++ "]")%string).
    rewrite (span_all is_digit (String d ds) "]"%string).
    + reflexivity.
    + simpl. rewrite Hd1, Hd2. reflexivity.
    + reflexivity.
  - simpl. rewrite Ha. exact Hr.
  - reflexivity.
Qed.

Theorem parse_level_single name : cname name -> parse_level name = Some (name, 1%Z).
Proof.
  intros [a [r [-> [Ha Hr]]]]. unfold parse_level.
  rewrite (skip_ws_nonws a _ (alpha_not_ws a Ha)). rewrite Ha.
  replace (String a r) with ((String a r ++ "")%string) at 1.
  - rewrite (span_all (fun c => (is_alpha_ c || is_digit c)%bool) (String a r) ""%string).
    + reflexivity.
    + simpl. rewrite Ha. exact Hr.
    + exact I.
  - simpl. f_equal. clear. induction r; simpl; congruence.
Qed.

(* ------------------------------------------------------------------------- *)
(* exact rationals are an instance                                            *)
(* ------------------------------------------------------------------------- *)
Lemma Qcmax_comm a b : Qcmax a b = Qcmax b a.
Proof.
  unfold Qcmax. destruct (Qle_bool a b) eqn:E1, (Qle_bool b a) eqn:E2; try reflexivity.
  - apply Qle_bool_iff in E1, E2. apply Qc_is_canon. apply Qle_antisym; assumption.
  - exfalso. assert (~ (a <= b)%Q) by (rewrite <- Qle_bool_iff; congruence).
    assert (~ (b <= a)%Q) by (rewrite <- Qle_bool_iff; congruence).
    destruct (Qlt_le_dec a b) as [H1|H1]; [apply Qlt_le_weak in H1|]; contradiction.
Qed.

Lemma Qle_bool_false a b : Qle_bool a b = false -> (b <= a)%Q.
Proof.
  intros E. destruct (Qlt_le_dec a b) as [H|H]; [|exact H].
  apply Qlt_le_weak in H. apply Qle_bool_iff in H. congruence.
Qed.

Lemma Qle_bool_false_lt a b : Qle_bool a b = false -> (b < a)%Q.
Proof.
  intros E. destruct (Qlt_le_dec b a) as [H|H]; [exact H|]. apply Qle_bool_iff in H. congruence.
Qed.

Lemma Qcmax_assoc a b c : Qcmax a (Qcmax b c) = Qcmax (Qcmax a b) c.
Proof.
  unfold Qcmax.
  destruct (Qle_bool b c) eqn:Ebc, (Qle_bool a b) eqn:Eab; simpl;
    try rewrite Ebc; try rewrite Eab; try reflexivity;
    destruct (Qle_bool a c) eqn:Eac; try reflexivity; exfalso;
    repeat match goal with
           | H : Qle_bool _ _ = true |- _ => apply Qle_bool_iff in H
           | H : Qle_bool _ _ = false |- _ => apply Qle_bool_false_lt in H
           end.
  - apply (Qlt_irrefl c). eapply Qlt_le_trans; [exact Eac|]. eapply Qle_trans; eassumption.
  - apply (Qlt_irrefl a). eapply Qle_lt_trans; [exact Eac|]. eapply Qlt_trans; eassumption.
Qed.

Lemma Qcplus_0_l' a : (0 + a)%Qc = a.
Proof. apply Qcplus_0_l. Qed.

(* ------------------------------------------------------------------------- *)
(* examples: the hypotheses are met by non-trivial objects                    *)
(* ------------------------------------------------------------------------- *)
Open Scope string_scope.
Open Scope list_scope.
(* the registrations of tests/integration/gamma.yaml as compiled by the real code *)
Definition gamma_comps (e : string) : list string :=
  if String.eqb e "T" then ["MainMemory"; "Intersect"]
  else if String.eqb e "Z" then ["MainMemory"; "HighRadixMerger"; "FPMul"; "FPAdd"] else []%list.

Example gamma_build :
  build_time gamma_comps [["T"; "Z"]]%string =
  Some (TMax (TMax (TMax (TMax (TLeaf "Z" "FPAdd") (TLeaf "Z" "FPMul")) (TLeaf "Z" "HighRadixMerger"))
                   (TLeaf "T" "Intersect"))
             (TAdd (TLeaf "T" "MainMemory") (TLeaf "Z" "MainMemory")))%string.
Proof. vm_compute. reflexivity. Qed.

(* a legal rewrite of the same expression (arguments commuted, max nested differently) is accepted *)
Example gamma_rewrite_accepted :
  time_okb gamma_comps [["T"; "Z"]]%string
    (TMax (TAdd (TLeaf "Z" "MainMemory") (TLeaf "T" "MainMemory"))
          (TMax (TLeaf "T" "Intersect")
                (TMax (TLeaf "Z" "HighRadixMerger") (TMax (TLeaf "Z" "FPMul") (TLeaf "Z" "FPAdd")))))%string = true.
Proof. vm_compute. reflexivity. Qed.

(* dropping a registered time, or using it twice, is rejected *)
Example gamma_dropped_rejected :
  time_okb gamma_comps [["T"; "Z"]]%string
    (TMax (TMax (TMax (TLeaf "Z" "FPAdd") (TLeaf "Z" "FPMul")) (TLeaf "Z" "HighRadixMerger"))
          (TAdd (TLeaf "T" "MainMemory") (TLeaf "Z" "MainMemory")))%string = false.
Proof. vm_compute. reflexivity. Qed.

Example outerspace_two_blocks :
  let comps e := if String.eqb e "T0" then ["MainMemory"; "FPMul"]
                 else if String.eqb e "T1" then ["MainMemory"]
                 else if String.eqb e "Z" then ["MainMemory"; "SortHW"; "FPAdd"] else []%list in
  exists x, build_time comps [["T0"]; ["T1"; "Z"]]%string = Some x /\
            time_okb comps [["T0"]; ["T1"; "Z"]]%string x = true /\
            NoDup (concat [["T0"]; ["T1"; "Z"]]%string) /\ (forall e, NoDup (comps e)).
Proof.
  eexists. split; [vm_compute; reflexivity|]. split; [vm_compute; reflexivity|]. split.
  - repeat constructor; simpl; intuition discriminate.
  - intros e. destruct (String.eqb e "T0"); [|destruct (String.eqb e "T1"); [|destruct (String.eqb e "Z")]];
      repeat constructor; simpl; intuition discriminate.
Qed.

Example level_names :
  parse_level "PE[0..127]" = Some ("PE", 128%Z) /\ parse_level "System" = Some ("System", 1%Z) /\
  parse_level " PE [0.. 7 ] " = Some ("PE", 8%Z) /\ parse_level "PE[0 ..7]" = None /\ parse_level "PE[1..7]" = None.
Proof. vm_compute. repeat split. Qed.

Example cname_PE : cname "PE".
Proof. exists "P"%char, "E"%string. repeat split. Qed.

(* ------------------------------------------------------------------------- *)
(* packaged statements                                                        *)
(* ------------------------------------------------------------------------- *)
Definition maxplus {T} (add mx : T -> T -> T) (zero : T) : Prop :=
  (forall a b, add a b = add b a) /\ (forall a b c, add a (add b c) = add (add a b) c) /\
  (forall a, add zero a = a) /\
  (forall a b, mx a b = mx b a) /\ (forall a b c, mx a (mx b c) = mx (mx a b) c).

Lemma maxplus_Qc : maxplus Qcplus Qcmax 0%Qc.
Proof.
  repeat split; [apply Qcplus_comm|apply Qcplus_assoc|apply Qcplus_0_l|apply Qcmax_comm|apply Qcmax_assoc].
Qed.

Lemma maxplus_Z : maxplus Z.add Z.max 0%Z.
Proof. repeat split; intros; lia. Qed.

Lemma maxplus_unit : maxplus (fun _ _ : unit => tt) (fun _ _ => tt) tt.
Proof. repeat split; intros; try reflexivity. destruct a; reflexivity. Qed.

Theorem build_time_rollup {T} (add mx : T -> T -> T) (zero : T) :
  maxplus add mx zero ->
  forall rho comps blocks, blocks <> [] ->
  exists x, build_time comps blocks = Some x /\
            eval add mx zero rho x = rollup add mx zero rho comps blocks.
Proof.
  intros [H1 [H2 [H3 [H4 H5]]]] rho comps blocks Hne.
  destruct (build_time_sem add mx zero H1 H2 H3 H4 H5 rho comps blocks Hne) as [x [Hx [He _]]]. eauto.
Qed.

Theorem build_time_leaves comps blocks x :
  build_time comps blocks = Some x -> Permutation (leaves x) (all_pairs comps blocks).
Proof.
  intros Hx. destruct blocks as [|b bs]; [discriminate|].
  destruct maxplus_unit as [H1 [H2 [H3 [H4 H5]]]].
  destruct (build_time_sem _ _ tt H1 H2 H3 H4 H5 (fun _ _ => tt) comps (b :: bs)) as [y [Hy [_ Hp]]]; [discriminate|].
  congruence.
Qed.

Theorem build_time_each_once comps blocks x :
  build_time comps blocks = Some x -> NoDup (concat blocks) -> (forall e, NoDup (comps e)) ->
  NoDup (leaves x) /\ forall e c, In (e, c) (leaves x) <-> In e (concat blocks) /\ In c (comps e).
Proof. intros Hx. apply each_once_of_perm. apply build_time_leaves. exact Hx. Qed.

Theorem validator_sound {T} (add mx : T -> T -> T) (zero : T) :
  maxplus add mx zero ->
  forall rho comps blocks x, time_okb comps blocks x = true ->
  eval add mx zero rho x = rollup add mx zero rho comps blocks.
Proof.
  intros [H1 [H2 [H3 [H4 H5]]]] rho comps blocks x H.
  exact (proj1 (time_okb_sound add mx zero H1 H2 H3 H4 H5 rho comps blocks x H)).
Qed.

Theorem validator_each_once comps blocks x :
  time_okb comps blocks x = true -> NoDup (concat blocks) -> (forall e, NoDup (comps e)) ->
  NoDup (leaves x) /\ forall e c, In (e, c) (leaves x) <-> In e (concat blocks) /\ In c (comps e).
Proof.
  intros H. apply each_once_of_perm. destruct maxplus_unit as [H1 [H2 [H3 [H4 H5]]]].
  exact (proj2 (time_okb_sound _ _ tt H1 H2 H3 H4 H5 (fun _ _ => tt) comps blocks x H)).
Qed.

(* the code's own expression passes the validator's conclusion in particular for exact rationals *)
Corollary build_time_rollup_Qc rho comps blocks :
  blocks <> [] ->
  exists x, build_time comps blocks = Some x /\
            eval Qcplus Qcmax 0%Qc rho x = rollup Qcplus Qcmax 0%Qc rho comps blocks.
Proof. apply build_time_rollup. exact maxplus_Qc. Qed.
