(* Proofs about Model/TensorSM.v (C05, C07). *)
From Coq Require Import String List Bool Arith.
Require Import TV.Model.TensorSM.
Import ListNotations.

Lemma tstep_name t o : t_name (tstep t o) = t_name t.
Proof. destruct o; reflexivity. Qed.
Lemma tstep_init t o : t_init (tstep t o) = t_init t.
Proof. destruct o; reflexivity. Qed.

Lemma trun_name_init ops : forall t, t_name (trun t ops) = t_name t /\ t_init (trun t ops) = t_init t.
Proof.
  induction ops as [|o ops IH]; intros t; [split; reflexivity|].
  cbn [trun fold_left]. fold (trun (tstep t o) ops). destruct (IH (tstep t o)) as [A B].
  rewrite A, B, tstep_name, tstep_init. split; reflexivity.
Qed.

(* after ANY sequence of operations reset gives back the initial state: all seven fields *)
Theorem reset_restores name ranks ops : treset (trun (tinit name ranks) ops) = tinit name ranks.
Proof.
  unfold treset. destruct (trun_name_init ops (tinit name ranks)) as [A B]. rewrite A, B. reflexivity.
Qed.

(* init_ranks is never written *)
Theorem init_ranks_constant name ranks ops : t_init (trun (tinit name ranks) ops) = ranks.
Proof. destruct (trun_name_init ops (tinit name ranks)) as [_ B]. exact B. Qed.

(* a reset in the middle of a history makes everything before it irrelevant *)
Theorem reset_forgets name ranks ops1 ops2 :
  trun (tinit name ranks) (ops1 ++ OReset :: ops2) = trun (tinit name ranks) ops2.
Proof.
  unfold trun. rewrite fold_left_app. cbn [fold_left tstep].
  fold (trun (tinit name ranks) ops1). rewrite reset_restores. reflexivity.
Qed.

(* the tensor name spells the active ranks *)
Theorem tensor_name_spells t :
  exists suffix, tensor_name t = (t_name t ++ "_" ++ String.concat "" (active t) ++ suffix)%string /\
                 (suffix = ""%string \/ suffix = "_flat"%string).
Proof.
  unfold tensor_name. destruct (t_flat t && negb (t_out t)); eexists; split; try reflexivity; auto.
Qed.
