(* C07 (runtime half): every tensor-producing operation of the modelled runtime only
   allocates; objects that existed before are untouched and the environment is unchanged. *)
From Coq Require Import String List ZArith Bool FMapPositive Lia.
Require Import TV.Model.Py TV.Model.Rt TV.Model.Interp.
Import ListNotations.

Definition frame (st st' : state) : Prop :=
  (forall l, (l < next st)%positive -> PM.find l (heap st') = PM.find l (heap st)) /\
  (next st <= next st')%positive /\ env st' = env st.

Lemma frame_refl st : frame st st.
Proof. split; [reflexivity|]. split; [lia|reflexivity]. Qed.

Lemma frame_trans a b c : frame a b -> frame b c -> frame a c.
Proof.
  intros [H1 [H2 H3]] [K1 [K2 K3]]. split; [|split; [lia|congruence]].
  intros l Hl. rewrite K1 by lia. apply H1. exact Hl.
Qed.

Lemma alloc_frame o st : frame st (snd (alloc o st)).
Proof.
  unfold alloc, frame. cbn [snd next heap env]. split; [|split; [lia|reflexivity]].
  intros l Hl. apply PM.gso. lia.
Qed.

Lemma store_frame d : forall t st, frame st (snd (store d t st)).
Proof.
  induction d as [|d IH]; intros t st; cbn [store].
  - apply alloc_frame.
  - assert (G : forall (l : list (value * trie)) (acc : list (value * value)) st0, frame st st0 ->
               frame st (snd (fold_left (fun acc ct => let '(es, s) := acc in
                                                       let '(v, s') := store d (snd ct) s in
                                                       ((es ++ [(fst ct, v)])%list, s')) l (acc, st0)))).
    { induction l as [|ct l IHl]; intros acc st0 H; cbn [fold_left]; [exact H|].
      destruct (store d (snd ct) st0) as [v s'] eqn:E. apply IHl.
      eapply frame_trans; [exact H|]. pose proof (IH (snd ct) st0) as F. rewrite E in F. exact F. }
    specialize (G (tchildren t) [] st (frame_refl st)).
    destruct (fold_left _ (tchildren t) ([], st)) as [elems st'] eqn:E. cbn [snd] in G.
    eapply frame_trans; [exact G|apply alloc_frame].
Qed.

Lemma new_tensor_frame ids t nm st : frame st (snd (new_tensor ids t nm st)).
Proof.
  unfold new_tensor. pose proof (store_frame (length ids) t st) as F.
  destruct (store (length ids) t st) as [root st1]. cbn [snd] in F.
  eapply frame_trans; [exact F|apply alloc_frame].
Qed.

Lemma tensor_op_frame tv d n mid f st v st' : tensor_op tv d n mid f st = Ok (v, st') -> frame st st'.
Proof.
  unfold tensor_op. destruct (get_tensor st tv) as [[[ids root] nm]|]; [|discriminate].
  destruct (Nat.ltb (length ids) (d + n)); [discriminate|].
  destruct (load (length ids) st root); [|discriminate].
  destruct (tmap_depth d f t); [|discriminate]. intros H. injection H as H.
  pose proof (new_tensor_frame (splice ids d n (mid (firstn n (skipn d ids)))) t0 nm st) as F.
  rewrite H in F. exact F.
Qed.

(* swizzleRanks, splitUniform, splitEqual, splitNonUniform, flattenRanks, mergeRanks, unflattenRanks:
   whatever the arguments, a successful call leaves every pre-existing object and the environment unchanged *)
Definition allocating (m : string) : bool :=
  existsb (String.eqb m) ["swizzleRanks"; "splitUniform"; "splitEqual"; "splitNonUniform"; "flattenRanks"; "mergeRanks"; "unflattenRanks"; "getRoot"; "getRankIds"]%string.

Theorem fresh_ops_frame tv m args kw st v st' :
  allocating m = true -> tensor_method tv m args kw st = Ok (v, st') -> frame st st'.
Proof.
  intros Hm. unfold tensor_method.
  destruct (get_tensor st tv) as [[[ids root] nm]|]; [|discriminate].
  destruct (String.eqb m "getRoot") eqn:E1; [intros H; injection H as _ <-; apply frame_refl|].
  destruct (String.eqb m "getRankIds") eqn:E2; [intros H; injection H as _ <-; apply frame_refl|].
  destruct (String.eqb m "setRankIds") eqn:E3.
  { apply String.eqb_eq in E3. subst m. discriminate Hm. }
  destruct (String.eqb m "swizzleRanks") eqn:E4.
  { destruct (kwarg "rank_ids" kw); [|discriminate]. destruct (str_list v0); [|discriminate].
    destruct (all_some _); [|discriminate]. destruct (_ || _); [discriminate|].
    destruct (load (length ids) st root); [|discriminate]. intros H. injection H as H.
    pose proof (new_tensor_frame l (tswizzle l0 t) nm st) as F. rewrite H in F. exact F. }
  destruct (String.eqb m "splitUniform") eqn:E5.
  { unfold bind. destruct (nat_kw "depth" 0 kw); [|discriminate]. destruct (kw_int "pre_halo" 0 kw); [|discriminate].
    destruct (kw_int "post_halo" 0 kw); [|discriminate].
    destruct args as [|[] [|? ?]]; try discriminate. apply tensor_op_frame. }
  destruct (String.eqb m "splitEqual") eqn:E6.
  { unfold bind. destruct (nat_kw "depth" 0 kw); [|discriminate].
    destruct args as [|[] [|? ?]]; try discriminate. apply tensor_op_frame. }
  destruct (String.eqb m "splitNonUniform") eqn:E7.
  { unfold bind. destruct (nat_kw "depth" 0 kw); [|discriminate].
    destruct args as [|? [|? ?]]; try discriminate. destruct (coords_of st v0); [|discriminate]. apply tensor_op_frame. }
  destruct (String.eqb m "flattenRanks" || String.eqb m "mergeRanks") eqn:E8.
  { unfold bind. destruct (nat_kw "depth" 0 kw); [|discriminate]. destruct (nat_kw "levels" 1 kw); [|discriminate].
    destruct (kwarg "coord_style" kw) as [[]|]; try discriminate.
    destruct (String.eqb s "tuple")%string eqn:Et.
    - apply String.eqb_eq in Et. subst s. apply tensor_op_frame.
    - destruct (String.eqb s "absolute")%string eqn:Ea.
      + apply String.eqb_eq in Ea. subst s. apply tensor_op_frame.
      + intros H. exfalso. revert H.
        repeat match goal with |- context [match ?x with _ => _ end] => destruct x; try discriminate end. }
  destruct (String.eqb m "unflattenRanks") eqn:E9.
  { unfold bind. destruct (nat_kw "depth" 0 kw); [|discriminate]. destruct (nat_kw "levels" 1 kw); [|discriminate].
    apply tensor_op_frame. }
  discriminate.
Qed.

(* setRankIds is the only tensor method that writes, and it writes only its receiver *)
Theorem set_rank_ids_frame l args kw st v st' :
  tensor_method (VLoc l) "setRankIds" args kw st = Ok (v, st') ->
  (forall l', l' <> l -> PM.find l' (heap st') = PM.find l' (heap st)) /\ env st' = env st /\ next st' = next st.
Proof.
  unfold tensor_method. destruct (get_tensor st (VLoc l)) as [[[ids root] nm]|]; [|discriminate].
  cbn. destruct (kwarg "rank_ids" kw); [|discriminate]. destruct (str_list v0); [|discriminate].
  destruct (Nat.eqb _ _); [|discriminate]. intros H. injection H as _ <-. cbn.
  split; [|split; reflexivity]. intros l' Hl'. apply PM.gso. exact Hl'.
Qed.
