(* C02: the SHAPE split of the loop-nest abstraction (Model/NestPart.v) IS the runtime model's splitUniform
   (Model/Rt.v, the function the interpreter runs), under the embedding to_rt of Nest tries into Rt tries; and the
   runtime model's mergeRanks is its inverse.
   1. split_node_is_split_uniform: one fiber;  2. split_at_is_tmap_split_uniform: at any depth (Rt.tmap_depth, the way
   Interp.tensor_op applies splitUniform(depth=d));  3. merge1 / merge_levels 1 of the split image gives back the
   original, one fiber and at any depth; merge1 of ANY two-level image whose concatenation is sorted is the
   concatenation;  4. lookups: the payload the runtime model finds at (.., bucket, c, ..) in the split trie is the one
   at (.., c, ..) in the original, nothing at any other upper coordinate, and NestPartProofs.den_split_at read on the
   tries of the runtime model;  5. mergeRanks at depth d of any mergeable trie; a two-level stack of splits.
   Same layout as NestOccProofs section 7 (bounds_split / equal_split are split_nonuniform / split_equal). *)
From Coq Require Import ZArith List Bool Lia String Sorted.
Require TV.Model.Rt TV.Proofs.SplitArith TV.Proofs.RtLaws.
Require Import TV.Model.Nest TV.Model.NestPart TV.Proofs.NestPartProofs TV.Model.NestOcc TV.Proofs.NestOccProofs.
Import ListNotations.
Open Scope Z_scope.
Ltac Zify.zify_post_hook ::= Z.to_euclidean_division_equations.

(* ---------- 0. the hypotheses ---------- *)
(* a fiber the two models split alike: coordinates strictly increasing and non-negative.
   Both are forced: Rt.split_uniform creates partitions only at NON-NEGATIVE multiples of the step (an element c < 0 is
   lost, RtLaws.split_uniform_negative_lost) whereas split_node keeps bucket s c < 0; and Rt.split_uniform emits the
   partitions in increasing order whereas split_node emits them in the order `nodup` meets them (last occurrence
   first seen), which is the increasing order only when the buckets are non-decreasing along the fiber. *)
Definition fits (l : list (coord * trie)) : Prop := StronglySorted Z.lt (keys l) /\ Forall (fun c => 0 <= c) (keys l).

(* the weakest hypothesis under which the proof goes through: buckets non-decreasing, coordinates non-negative
   (repeated coordinates are allowed) *)
Definition fits_weak (s : Z) (l : list (coord * trie)) : Prop :=
  StronglySorted Z.le (map (bucket s) (keys l)) /\ Forall (fun c => 0 <= c) (keys l).

(* every fiber at depth d fits (and there IS a fiber at depth d on every path: split_at leaves a leaf above depth d
   alone, the runtime operation fails on it) *)
Fixpoint fits_at (d : nat) (t : trie) : Prop :=
  match t with
  | Leaf _ => False
  | Node l => match d with
              | O => fits l
              | S d' => Forall (fun ct => fits_at d' (snd ct)) l
              end
  end.

(* executable versions *)
Definition fitsb (l : list (coord * trie)) : bool := sortedb (keys l) && forallb (fun c => 0 <=? c) (keys l).
Fixpoint fits_atb (d : nat) (t : trie) : bool :=
  match t with
  | Leaf _ => false
  | Node l => match d with
              | O => fitsb l
              | S d' => forallb (fun ct => fits_atb d' (snd ct)) l
              end
  end.

Lemma fitsb_sound l : fitsb l = true -> fits l.
Proof.
  unfold fitsb, fits. intros H. apply andb_true_iff in H as [H1 H2]. split; [apply sortedb_sound; exact H1|].
  rewrite Forall_forall. rewrite forallb_forall in H2. intros c Hc. specialize (H2 c Hc). lia.
Qed.

Lemma fits_atb_sound : forall d t, fits_atb d t = true -> fits_at d t.
Proof.
  induction d as [|d IH]; intros [v|l] H; cbn [fits_atb fits_at] in *; try discriminate.
  - apply fitsb_sound. exact H.
  - rewrite Forall_forall. rewrite forallb_forall in H. intros ct Hct. apply IH, H, Hct.
Qed.

Lemma SS_map {A B} (R : A -> A -> Prop) (R' : B -> B -> Prop) (f : A -> B) l :
  (forall a b, R a b -> R' (f a) (f b)) -> StronglySorted R l -> StronglySorted R' (map f l).
Proof.
  intros HR. induction 1 as [|x l Hs IH Hf]; cbn [map]; constructor; [exact IH|].
  rewrite Forall_forall in *. intros y Hy. apply in_map_iff in Hy as [a [<- Ha]]. apply HR, Hf, Ha.
Qed.

Lemma fits_fits_weak s l : 0 < s -> fits l -> fits_weak s l.
Proof.
  intros Hs [H1 H2]. split; [|exact H2]. eapply SS_map; [|exact H1].
  intros a b Hab. apply (SplitArith.upper_mono s a b Hs). lia.
Qed.

(* ---------- 1. one fiber ---------- *)
Lemma kz_to_rt_ct l : map RtLaws.kz (map to_rt_ct l) = keys l.
Proof. unfold keys. rewrite map_map. apply map_ext. intros [c t]. reflexivity. Qed.

Lemma int_key_to_rt l : Forall RtLaws.int_key (map to_rt_ct l).
Proof. rewrite Forall_forall. intros x Hx. apply in_map_iff in Hx as [[c t] [<- _]]. exists c. reflexivity. Qed.

(* nodup of a non-decreasing list is strictly increasing ... *)
Lemma nodup_sorted l : StronglySorted Z.le l -> StronglySorted Z.lt (nodup Z.eq_dec l).
Proof.
  induction 1 as [|x l Hs IH Hf]; cbn [nodup]; [constructor|].
  destruct (in_dec Z.eq_dec x l) as [Hin|Hnin]; [exact IH|]. constructor; [exact IH|].
  rewrite Forall_forall in *. intros y Hy. apply nodup_In in Hy. specialize (Hf y Hy).
  assert (x <> y) by (intros ->; contradiction). lia.
Qed.

(* ... and a strictly increasing list is determined by its elements *)
Lemma sorted_ext (l1 : list Z) : forall l2, StronglySorted Z.lt l1 -> StronglySorted Z.lt l2 ->
  (forall x, In x l1 <-> In x l2) -> l1 = l2.
Proof.
  induction l1 as [|a l1 IH]; intros [|b l2] H1 H2 Hin.
  - reflexivity.
  - destruct (proj2 (Hin b) (or_introl eq_refl)).
  - destruct (proj1 (Hin a) (or_introl eq_refl)).
  - apply StronglySorted_inv in H1 as [H1 F1]. apply StronglySorted_inv in H2 as [H2 F2].
    rewrite Forall_forall in F1, F2.
    assert (E : a = b).
    { destruct (proj1 (Hin a) (or_introl eq_refl)) as [E|Ha]; [congruence|].
      destruct (proj2 (Hin b) (or_introl eq_refl)) as [E|Hb]; [congruence|].
      specialize (F1 _ Hb). specialize (F2 _ Ha). lia. }
    subst b. f_equal. apply IH; [exact H1|exact H2|]. intros x. split; intros Hx.
    + destruct (proj1 (Hin x) (or_intror Hx)) as [E|H]; [|exact H]. specialize (F1 _ Hx). lia.
    + destruct (proj2 (Hin x) (or_intror Hx)) as [E|H]; [|exact H]. specialize (F2 _ Hx). lia.
Qed.

(* the upper coordinates splitUniform(s) creates (no halo) are the buckets, each once, in the order of the fiber *)
Lemma su_starts_nodup s cs : 0 < s -> StronglySorted Z.le (map (bucket s) cs) -> Forall (fun c => 0 <= c) cs ->
  RtLaws.su_starts s 0 0 cs = nodup Z.eq_dec (map (bucket s) cs).
Proof.
  intros Hs Hb Hnn. destruct (RtLaws.su_starts_spec s 0 0 cs Hs) as [Hss Hin].
  apply sorted_ext; [exact Hss|apply nodup_sorted; exact Hb|].
  rewrite Forall_forall in Hnn. intros x. rewrite Hin, nodup_In, in_map_iff. unfold bucket. split.
  - intros [c [k [Hc [Hk [-> Hr]]]]]. exists c. split; [|exact Hc]. f_equal. nia.
  - intros [c [<- Hc]]. exists c, (c / s). specialize (Hnn c Hc).
    split; [exact Hc|]. split; [apply Z.div_pos; lia|]. split; [reflexivity|]. nia.
Qed.

(* the window of the partition at a multiple of s is the bucket test *)
Lemma window_bucket s k c : 0 < s -> ((s * k - 0 <=? c) && (c <? s * k + s + 0)) = (bucket s c =? s * k).
Proof.
  intros Hs. pose proof (SplitArith.upper_covers s c Hs) as Hc. change (SplitArith.upper s c) with (bucket s c) in Hc.
  destruct (Z.eqb_spec (bucket s c) (s * k)) as [E|E].
  - rewrite E in Hc. destruct (Z.leb_spec (s * k - 0) c); [|lia]. destruct (Z.ltb_spec c (s * k + s + 0)); [reflexivity|lia].
  - destruct (Z.leb_spec (s * k - 0) c); [|reflexivity]. destruct (Z.ltb_spec c (s * k + s + 0)); [|reflexivity].
    exfalso. apply E. symmetry. apply (SplitArith.upper_unique s c (s * k) Hs); [exists k; reflexivity|lia].
Qed.

Lemma su_sel_to_rt s k l : 0 < s ->
  RtLaws.su_sel s 0 0 (s * k) (map to_rt_ct l) = map to_rt_ct (filter (fun ct => bucket s (fst ct) =? s * k) l).
Proof.
  intros Hs. unfold RtLaws.su_sel. rewrite filter_map_comm. f_equal. apply filter_ext. intros [c t].
  unfold to_rt_ct, RtLaws.kz. cbn [fst]. apply window_bucket. exact Hs.
Qed.

Theorem split_node_is_split_uniform_weak s l : 0 < s -> fits_weak s l ->
  Rt.split_uniform s 0 0 (to_rt (Node l)) = Some (to_rt (Node (split_node s l))).
Proof.
  intros Hs [Hb Hnn]. rewrite !to_rt_node. rewrite (RtLaws.split_uniform_eq s 0 0 _ Hs (int_key_to_rt l)).
  rewrite kz_to_rt_ct. unfold keys in *. rewrite (su_starts_nodup s (map fst l) Hs Hb Hnn).
  rewrite (map_map fst (bucket s)). unfold split_node. rewrite !map_map. f_equal. f_equal. apply map_ext_in. intros p Hp.
  apply nodup_In, in_map_iff in Hp as [ct [<- _]]. unfold to_rt_ct at 2. cbn [fst snd]. rewrite to_rt_node.
  unfold bucket at 1 2. rewrite (su_sel_to_rt s (fst ct / s) l Hs). reflexivity.
Qed.

(* 1. NestPart.split_node is Rt.split_uniform (no halo) *)
Theorem split_node_is_split_uniform s l : 0 < s -> fits l ->
  Rt.split_uniform s 0 0 (to_rt (Node l)) = Some (to_rt (Node (split_node s l))).
Proof. intros Hs Hf. apply split_node_is_split_uniform_weak; [exact Hs|apply fits_fits_weak; assumption]. Qed.

(* ---------- 2. at depth d ---------- *)
(* a generic lifting: a fiber-level correspondence f ~ g lifts through Rt.tmap_depth *)
Fixpoint lift_at (d : nat) (g : trie -> trie) (t : trie) {struct d} : trie :=
  match d with
  | O => g t
  | S d' => match t with
            | Node l => Node (map (fun ct => (fst ct, lift_at d' g (snd ct))) l)
            | Leaf v => Leaf v
            end
  end.

Fixpoint holds_at (d : nat) (P : trie -> Prop) (t : trie) : Prop :=
  match d with
  | O => P t
  | S d' => match t with
            | Node l => Forall (fun ct => holds_at d' P (snd ct)) l
            | Leaf _ => False
            end
  end.

(* the loop of Rt.tmap_depth over the children, named *)
Fixpoint tmap_go (F : Rt.trie -> option Rt.trie) (l : list (Rt.value * Rt.trie)) : option (list (Rt.value * Rt.trie)) :=
  match l with
  | [] => Some []
  | (c, s) :: l' => match F s, tmap_go F l' with
                    | Some s', Some r => Some ((c, s') :: r)
                    | _, _ => None end
  end.

Lemma tmap_depth_S d f l :
  Rt.tmap_depth (S d) f (Rt.TNode l) = option_map Rt.TNode (tmap_go (Rt.tmap_depth d f) l).
Proof.
  cbn [Rt.tmap_depth].
  match goal with |- match ?G l with _ => _ end = _ => assert (E : forall l0, G l0 = tmap_go (Rt.tmap_depth d f) l0) end.
  { induction l0 as [|[c s] l0 IHl]; [reflexivity|]. cbn [tmap_go]. rewrite <- IHl. reflexivity. }
  rewrite E. destruct (tmap_go (Rt.tmap_depth d f) l); reflexivity.
Qed.

Lemma tmap_depth_lift (f : Rt.trie -> option Rt.trie) (g : trie -> trie) (P : trie -> Prop) :
  (forall t, P t -> f (to_rt t) = Some (to_rt (g t))) ->
  forall d t, holds_at d P t -> Rt.tmap_depth d f (to_rt t) = Some (to_rt (lift_at d g t)).
Proof.
  intros Hfg. induction d as [|d IH]; intros t H; cbn [holds_at] in H; [apply Hfg; exact H|].
  destruct t as [v|l]; [destruct H|]. cbn [lift_at]. rewrite !to_rt_node, tmap_depth_S.
  enough (G : tmap_go (Rt.tmap_depth d f) (map to_rt_ct l)
              = Some (map to_rt_ct (map (fun ct => (fst ct, lift_at d g (snd ct))) l)))
    by (rewrite G; reflexivity).
  induction H as [|[c s] l Hct Hl IHl]; [reflexivity|]. cbn [map tmap_go to_rt_ct fst snd] in *.
  rewrite (IH _ Hct), IHl. reflexivity.
Qed.

Definition split_top (s : Z) (t : trie) : trie := match t with Node l => Node (split_node s l) | Leaf v => Leaf v end.

Lemma split_at_lift : forall d s t, split_at d s t = lift_at d (split_top s) t.
Proof.
  induction d as [|d IH]; intros s [v|l]; cbn [split_at lift_at split_top]; try reflexivity.
  f_equal. apply map_ext. intros ct. rewrite IH. reflexivity.
Qed.

Definition fiber_fits (t : trie) : Prop := match t with Node l => fits l | Leaf _ => False end.

Lemma fits_at_holds : forall d t, fits_at d t <-> holds_at d fiber_fits t.
Proof.
  induction d as [|d IH]; intros [v|l]; cbn [fits_at holds_at fiber_fits]; try tauto.
  rewrite !Forall_forall. split; intros H ct Hct; apply IH, H, Hct.
Qed.

(* 2. NestPart.split_at d is splitUniform(depth=d) as Interp.tensor_op runs it (Rt.tmap_depth d) *)
Theorem split_at_is_tmap_split_uniform d s t : 0 < s -> fits_at d t ->
  Rt.tmap_depth d (Rt.split_uniform s 0 0) (to_rt t) = Some (to_rt (split_at d s t)).
Proof.
  intros Hs Hf. rewrite split_at_lift. apply (tmap_depth_lift _ _ fiber_fits); [|apply fits_at_holds; exact Hf].
  intros [v|l] H; [destruct H|]. apply split_node_is_split_uniform; assumption.
Qed.

(* ---------- 3. the inverse: mergeRanks ---------- *)
Lemma int_sorted_to_rt l : StronglySorted Z.lt (keys l) -> RtLaws.int_sorted (map to_rt_ct l).
Proof.
  intros H. split; [apply int_key_to_rt|]. unfold keys in H. induction l as [|[c t] l IH]; cbn [map]; [constructor|].
  apply StronglySorted_inv in H as [H F]. constructor; [apply IH; exact H|].
  rewrite Forall_forall in *. intros x Hx. apply in_map_iff in Hx as [[c' t'] [<- Hx]]. unfold to_rt_ct, RtLaws.kz. cbn [fst].
  apply F. apply (in_map fst) in Hx. exact Hx.
Qed.

Lemma nonneg_to_rt l : Forall (fun c => 0 <= c) (keys l) -> RtLaws.nonneg_keys (map to_rt_ct l).
Proof.
  unfold RtLaws.nonneg_keys, keys. rewrite !Forall_forall. intros H x Hx. apply in_map_iff in Hx as [[c t] [<- Hx]].
  unfold to_rt_ct, RtLaws.kz. cbn [fst]. apply H. apply (in_map fst) in Hx. exact Hx.
Qed.

(* 3a. mergeRanks (one level, "absolute") of the split image is the original fiber *)
Theorem merge1_split_node s l : 0 < s -> fits l ->
  Rt.merge1 (to_rt (Node (split_node s l))) = Some (to_rt (Node l)).
Proof.
  intros Hs Hf. pose proof (split_node_is_split_uniform s l Hs Hf) as E. destruct Hf as [H1 H2].
  rewrite to_rt_node in E at 1.
  destruct (RtLaws.split_uniform_merge1 s (map to_rt_ct l) Hs (int_sorted_to_rt l H1) (nonneg_to_rt l H2)) as [t' [E1 E2]].
  rewrite E in E1. injection E1 as <-. exact E2.
Qed.

Lemma merge_levels_1 t : Rt.merge_levels 1 t = Rt.merge1 t.
Proof. cbn [Rt.merge_levels]. destruct (Rt.merge1 t); reflexivity. Qed.

(* the footer's call: mergeRanks(depth=d, levels=1, coord_style="absolute") runs Rt.merge_levels 1 *)
Corollary merge_levels_split_node s l : 0 < s -> fits l ->
  Rt.merge_levels 1 (to_rt (Node (split_node s l))) = Some (to_rt (Node l)).
Proof. intros. rewrite merge_levels_1. apply merge1_split_node; assumption. Qed.

Lemma fits_at_rt : forall d t, fits_at d t ->
  RtLaws.at_depth d (RtLaws.fiber_ok (fun l => RtLaws.int_sorted l /\ RtLaws.nonneg_keys l)) (to_rt t).
Proof.
  induction d as [|d IH]; intros [v|l] H; cbn [fits_at] in H; try contradiction.
  - cbn [RtLaws.at_depth]. exists (map to_rt_ct l). split; [reflexivity|].
    destruct H as [H1 H2]. split; [apply int_sorted_to_rt; exact H1|apply nonneg_to_rt; exact H2].
  - cbn [RtLaws.at_depth]. exists (map to_rt_ct l). split; [reflexivity|].
    rewrite Forall_forall in *. intros x Hx. apply in_map_iff in Hx as [[c t] [<- Hx]]. cbn [to_rt_ct snd].
    apply IH. apply (H _ Hx).
Qed.

(* 3b. at depth d *)
Theorem merge1_split_at d s t : 0 < s -> fits_at d t ->
  Rt.tmap_depth d Rt.merge1 (to_rt (split_at d s t)) = Some (to_rt t).
Proof.
  intros Hs Hf. destruct (RtLaws.split_uniform_merge1_depth d s (to_rt t) Hs (fits_at_rt d t Hf)) as [t' [E1 E2]].
  rewrite (split_at_is_tmap_split_uniform d s t Hs Hf) in E1. injection E1 as <-. exact E2.
Qed.

Lemma tmap_depth_ext f g : (forall t, f t = g t) -> forall d t, Rt.tmap_depth d f t = Rt.tmap_depth d g t.
Proof.
  intros Hfg. induction d as [|d IH]; intros t; [apply Hfg|]. destruct t as [v|l]; [reflexivity|].
  rewrite !tmap_depth_S. f_equal. induction l as [|[c s] l IHl]; [reflexivity|]. cbn [tmap_go]. rewrite IH, IHl. reflexivity.
Qed.

Corollary merge_levels_split_at d s t : 0 < s -> fits_at d t ->
  Rt.tmap_depth d (Rt.merge_levels 1) (to_rt (split_at d s t)) = Some (to_rt t).
Proof. intros. rewrite (tmap_depth_ext _ _ merge_levels_1). apply merge1_split_at; assumption. Qed.

(* 3c. the merge itself, on ANY two-level trie (not only on split images: the partitioned OUTPUT the footer merges is
   built by the loop nest, not by splitUniform): when the lower fibers concatenated are strictly increasing - the
   partitions are consecutive pieces - mergeRanks is their concatenation *)
Definition merge_node (parts : list (coord * trie)) : list (coord * trie) := flat_map (fun pt => children (snd pt)) parts.

Lemma lowers_to_rt parts : Forall (fun pt : coord * trie => exists l', snd pt = Node l') parts ->
  List.concat (RtLaws.lowers (map to_rt_ct parts)) = map to_rt_ct (merge_node parts).
Proof.
  unfold RtLaws.lowers, merge_node. induction 1 as [|[p t] parts [l' E] _ IH]; [reflexivity|].
  cbn [snd] in E. subst t. cbn [map List.concat flat_map snd children]. rewrite map_app, <- IH. reflexivity.
Qed.

Theorem merge_node_is_merge1 parts :
  Forall (fun pt : coord * trie => exists l', snd pt = Node l') parts -> StronglySorted Z.lt (keys (merge_node parts)) ->
  Rt.merge1 (to_rt (Node parts)) = Some (to_rt (Node (merge_node parts))).
Proof.
  intros Hn Hs. rewrite !to_rt_node. rewrite RtLaws.merge1_concat.
  - rewrite (lowers_to_rt parts Hn). reflexivity.
  - unfold RtLaws.all_nodes. rewrite Forall_forall in *. intros x Hx. apply in_map_iff in Hx as [[p t] [<- Hx]]. destruct (Hn _ Hx) as [l' E].
    cbn [snd] in E. subst t. exists (map to_rt_ct l'). reflexivity.
  - rewrite (lowers_to_rt parts Hn). apply int_sorted_to_rt. exact Hs.
Qed.

(* ... and on split images the concatenation is the original (a fact of the abstraction alone) *)
Theorem merge_node_split_node s l : fits_weak s l -> merge_node (split_node s l) = l.
Proof.
  intros [Hb _]. unfold keys in Hb. rewrite map_map in Hb.
  unfold merge_node, split_node. rewrite flat_map_concat_map, map_map. cbn [snd children].
  apply (RtLaws.classes_concat (fun ct : coord * trie => bucket s (fst ct))).
  - apply nodup_sorted. exact Hb.
  - clear - Hb. remember (map (fun x : coord * trie => bucket s (fst x)) l) as bs eqn:E.
    revert l E. induction Hb as [|b bs Hs IH Hf]; intros [|ct l] E; try discriminate; [constructor|].
    cbn [map] in E. injection E as -> ->. constructor; [apply IH; reflexivity|].
    rewrite Forall_forall in *. intros x Hx. apply Hf. apply (in_map (fun x : coord * trie => bucket s (fst x))) in Hx. exact Hx.
  - intros a Ha. apply nodup_In. apply (in_map (fun ct : coord * trie => bucket s (fst ct))) in Ha. exact Ha.
Qed.

(* ---------- 4. lookups ---------- *)
(* the payload at a path of a Nest trie *)
Fixpoint nlookup (zs : list Z) (t : trie) : option Z :=
  match zs, t with
  | [], Leaf v => Some v
  | c :: zs', Node l => match lookup c l with Some t' => nlookup zs' t' | None => None end
  | _, _ => None
  end.

Lemma alookup_to_rt c l : Rt.alookup (Rt.VInt c) (map to_rt_ct l) = option_map to_rt (lookup c l).
Proof.
  induction l as [|[c' t] l IH]; [reflexivity|]. cbn [map to_rt_ct Rt.alookup lookup fst snd]. rewrite RtLaws.veqb_int.
  destruct (c =? c'); [reflexivity|exact IH].
Qed.

(* RtLaws.zl (the runtime model's lookup along integer coordinates) on an embedded trie is the Nest lookup *)
Lemma zl_to_rt : forall zs t, RtLaws.zl zs (to_rt t) = option_map Rt.VInt (nlookup zs t).
Proof.
  induction zs as [|c zs IH]; intros [v|l]; try reflexivity.
  rewrite to_rt_node, RtLaws.zl_cons, alookup_to_rt. cbn [nlookup]. destruct (lookup c l); cbn [option_map]; [apply IH|reflexivity].
Qed.

(* Nest.den is the lookup at the coordinates of the point (0 on a miss) *)
Lemma den_nlookup : forall rs t p, den rs t p = match nlookup (map p rs) t with Some v => v | None => 0 end.
Proof.
  induction rs as [|r rs IH]; intros [v|l] p; cbn [den map nlookup]; try reflexivity.
  destruct (lookup (p r) l); [apply IH|reflexivity].
Qed.

Definition rt_den (zs : list Z) (T : Rt.trie) : Z := match RtLaws.zl zs T with Some (Rt.VInt v) => v | _ => 0 end.

Lemma den_rt rs t p : den rs t p = rt_den (map p rs) (to_rt t).
Proof. unfold rt_den. rewrite zl_to_rt, den_nlookup. destruct (nlookup (map p rs) t); reflexivity. Qed.

Lemma lookup_map_snd (g : trie -> trie) x l :
  lookup x (map (fun ct => (fst ct, g (snd ct))) l) = option_map g (lookup x l).
Proof. induction l as [|[c t] l IH]; [reflexivity|]. cbn [map lookup fst snd]. destruct (x =? c); [reflexivity|exact IH]. Qed.

(* in the split trie, (.., u, c, ..) holds what (.., c, ..) held when u is the bucket of c, and nothing otherwise
   (no hypothesis on the trie: a fact of the abstraction) *)
Lemma nlookup_split_at : forall d s t pre u c post, List.length pre = d ->
  nlookup (pre ++ u :: c :: post) (split_at d s t) = if u =? bucket s c then nlookup (pre ++ c :: post) t else None.
Proof.
  induction d as [|d IH]; intros s t pre u c post Hlen.
  - destruct pre; [|discriminate]. cbn [app]. destruct t as [v|l]; [cbn; destruct (u =? bucket s c); reflexivity|].
    cbn [split_at nlookup]. rewrite lookup_split_node.
    destruct (existsb (fun ct => bucket s (fst ct) =? u) l) eqn:Hex.
    + cbn [nlookup]. rewrite lookup_filter_bucket. rewrite (Z.eqb_sym u). destruct (bucket s c =? u); reflexivity.
    + destruct (Z.eqb_spec u (bucket s c)) as [->|_]; [|reflexivity].
      destruct (lookup c l) as [t'|] eqn:El; [|reflexivity]. rewrite (lookup_some_existsb s c l t' El) in Hex. discriminate.
  - destruct pre as [|x pre]; [discriminate|]. injection Hlen as Hlen. cbn [app].
    destruct t as [v|l]; [cbn; destruct (u =? bucket s c); reflexivity|].
    cbn [split_at nlookup]. rewrite lookup_map_snd. destruct (lookup x l) as [t'|]; cbn [option_map].
    + apply IH. exact Hlen.
    + destruct (u =? bucket s c); reflexivity.
Qed.

(* 4a. the same on the runtime model's tries *)
Theorem zl_split_at d s t pre u c post : List.length pre = d ->
  RtLaws.zl (pre ++ u :: c :: post) (to_rt (split_at d s t)) =
  if u =? bucket s c then RtLaws.zl (pre ++ c :: post) (to_rt t) else None.
Proof.
  intros Hlen. rewrite !zl_to_rt, (nlookup_split_at d s t pre u c post Hlen). destruct (u =? bucket s c); reflexivity.
Qed.

(* 4b. ... read on the RESULT of the runtime operation: whatever trie splitUniform(s, depth=d) returns on (the image of)
   a fitting trie, the payload at (pre, bucket s c, c, post) is the payload the original holds at (pre, c, post), and
   there is nothing at (pre, u, c, post) for any other u *)
Theorem split_uniform_lookup d s t T' pre c post : 0 < s -> fits_at d t -> List.length pre = d ->
  Rt.tmap_depth d (Rt.split_uniform s 0 0) (to_rt t) = Some T' ->
  RtLaws.zl (pre ++ bucket s c :: c :: post) T' = RtLaws.zl (pre ++ c :: post) (to_rt t) /\
  forall u, u <> bucket s c -> RtLaws.zl (pre ++ u :: c :: post) T' = None.
Proof.
  intros Hs Hf Hlen E. rewrite (split_at_is_tmap_split_uniform d s t Hs Hf) in E. injection E as <-. split.
  - rewrite (zl_split_at d s t pre _ c post Hlen), Z.eqb_refl. reflexivity.
  - intros u Hu. rewrite (zl_split_at d s t pre u c post Hlen). destruct (Z.eqb_spec u (bucket s c)); [contradiction|reflexivity].
Qed.

(* 4c. NestPartProofs.den_split_at on the runtime model: the value the runtime's split tensor has at a point of the
   partitioned space is the value of the original at the collapsed point when the point is consistent, 0 otherwise *)
Theorem den_split_uniform d rs t p r r1 r0 s T' : 0 < s -> fits_at d t -> nth_error rs d = Some r -> NoDup rs ->
  Rt.tmap_depth d (Rt.split_uniform s 0 0) (to_rt t) = Some T' ->
  rt_den (map p (split_ranks d r1 r0 rs)) T' =
  if consistent r1 r0 s p then rt_den (map (collapse r r0 p) rs) (to_rt t) else 0.
Proof.
  intros Hs Hf Hnth Hnd E. rewrite (split_at_is_tmap_split_uniform d s t Hs Hf) in E. injection E as <-.
  rewrite <- !den_rt. apply den_split_at; assumption.
Qed.

(* ---------- 5. mergeRanks at depth d, two-level stacks ---------- *)
Definition merge_top (t : trie) : trie := match t with Node parts => Node (merge_node parts) | Leaf v => Leaf v end.
Definition mergeable (t : trie) : Prop :=
  match t with
  | Node parts => Forall (fun pt : coord * trie => exists l', snd pt = Node l') parts /\
                  StronglySorted Z.lt (keys (merge_node parts))
  | Leaf _ => False
  end.

(* 3c at depth d *)
Theorem merge_at_is_tmap_merge1 d t : holds_at d mergeable t ->
  Rt.tmap_depth d Rt.merge1 (to_rt t) = Some (to_rt (lift_at d merge_top t)).
Proof.
  apply (tmap_depth_lift Rt.merge1 merge_top mergeable). intros [v|parts] H; [destruct H|].
  destruct H as [H1 H2]. apply merge_node_is_merge1; assumption.
Qed.

Lemma keys_filter_sorted (f : coord * trie -> bool) l : StronglySorted Z.lt (keys l) -> StronglySorted Z.lt (keys (filter f l)).
Proof.
  unfold keys. induction l as [|ct l IH]; intros H; [constructor|]. cbn [map] in H. apply StronglySorted_inv in H as [H F].
  cbn [filter]. destruct (f ct); [|apply IH; exact H]. cbn [map]. constructor; [apply IH; exact H|].
  rewrite Forall_forall in *. intros x Hx. apply in_map_iff in Hx as [ct' [<- Hx]]. apply filter_In in Hx as [Hx _].
  apply F. apply (in_map fst) in Hx. exact Hx.
Qed.

Lemma fits_filter (f : coord * trie -> bool) l : fits l -> fits (filter f l).
Proof.
  intros [H1 H2]. split; [apply keys_filter_sorted; exact H1|]. unfold keys in *. rewrite Forall_forall in *.
  intros x Hx. apply in_map_iff in Hx as [ct [<- Hx]]. apply filter_In in Hx as [Hx _]. apply H2. apply (in_map fst) in Hx. exact Hx.
Qed.

(* the lower fibers of a split fit again: a second split (of the lower rank, now at depth d + 1) is covered *)
Lemma fits_at_split_at : forall d s t, fits_at d t -> fits_at (S d) (split_at d s t).
Proof.
  induction d as [|d IH]; intros s [v|l] H; cbn [fits_at] in H; try contradiction.
  - cbn [split_at fits_at]. unfold split_node. rewrite Forall_forall. intros pt Hpt. apply in_map_iff in Hpt as [p [<- _]].
    cbn [snd fits_at]. apply fits_filter. exact H.
  - cbn [split_at]. change (Forall (fun ct => fits_at (S d) (snd ct)) (map (fun ct => (fst ct, split_at d s (snd ct))) l)).
    rewrite Forall_forall in *. intros x Hx. apply in_map_iff in Hx as [ct [<- Hx]]. cbn [snd]. apply IH, H, Hx.
Qed.

(* a two-level stack on one rank (the trie side of NestPartProofs.partitioned_nest_sound_2): splitUniform(s2, depth=d)
   then splitUniform(s1, depth=d+1) *)
Theorem split_at_2_is_tmap_split_uniform d s2 s1 t : 0 < s2 -> 0 < s1 -> fits_at d t ->
  exists T1, Rt.tmap_depth d (Rt.split_uniform s2 0 0) (to_rt t) = Some T1 /\
    Rt.tmap_depth (S d) (Rt.split_uniform s1 0 0) T1 = Some (to_rt (split_at (S d) s1 (split_at d s2 t))).
Proof.
  intros H2 H1 Hf. eexists. split; [apply split_at_is_tmap_split_uniform; assumption|].
  apply split_at_is_tmap_split_uniform; [exact H1|apply fits_at_split_at; exact Hf].
Qed.

(* ---------- examples ---------- *)
Section Examples.
Local Open Scope string_scope.
(* a matrix with ranks M, K; rank K (depth 1) is split by 3: the first row has buckets 0, 3, 9, 21 (bucket 6, 12, .. are
   empty and do not appear), the second row buckets 0 and 6 *)
Definition ex_fiber : list (coord * trie) :=
  [(0, Leaf 1); (1, Leaf 2); (4, Leaf 3); (5, Leaf 4); (9, Leaf 5); (10, Leaf 6); (23, Leaf 7)].
Definition ex_mat : trie := Node [(0, Node ex_fiber); (3, Node [(2, Leaf 8); (7, Leaf 9)])].
Definition ex_fiber_split : list (coord * trie) :=
  [(0, Node [(0, Leaf 1); (1, Leaf 2)]); (3, Node [(4, Leaf 3); (5, Leaf 4)]); (9, Node [(9, Leaf 5); (10, Leaf 6)]);
   (21, Node [(23, Leaf 7)])].
Definition ex_mat_split : trie :=
  Node [(0, Node ex_fiber_split); (3, Node [(0, Node [(2, Leaf 8)]); (6, Node [(7, Leaf 9)])])].

Example ex_fiber_fits : fits ex_fiber.
Proof. apply fitsb_sound. vm_compute. reflexivity. Qed.
Example ex_mat_fits : fits_at 1 ex_mat.
Proof. apply fits_atb_sound. vm_compute. reflexivity. Qed.

Example split_node_is_split_uniform_ex :
  split_node 3 ex_fiber = ex_fiber_split /\
  Rt.split_uniform 3 0 0 (to_rt (Node ex_fiber)) = Some (to_rt (Node ex_fiber_split)).
Proof.
  split; [vm_compute; reflexivity|]. rewrite (split_node_is_split_uniform 3 ex_fiber eq_refl ex_fiber_fits).
  vm_compute. reflexivity.
Qed.

Example split_at_is_tmap_split_uniform_ex :
  split_at 1 3 ex_mat = ex_mat_split /\
  Rt.tmap_depth 1 (Rt.split_uniform 3 0 0) (to_rt ex_mat) = Some (to_rt ex_mat_split).
Proof.
  split; [vm_compute; reflexivity|]. rewrite (split_at_is_tmap_split_uniform 1 3 ex_mat eq_refl ex_mat_fits).
  vm_compute. reflexivity.
Qed.

Example merge1_split_node_ex : Rt.merge1 (to_rt (Node ex_fiber_split)) = Some (to_rt (Node ex_fiber)).
Proof. exact (merge1_split_node 3 ex_fiber eq_refl ex_fiber_fits). Qed.

Example merge_levels_split_at_ex : Rt.tmap_depth 1 (Rt.merge_levels 1) (to_rt ex_mat_split) = Some (to_rt ex_mat).
Proof. exact (merge_levels_split_at 1 3 ex_mat eq_refl ex_mat_fits). Qed.

(* the merge of a two-level trie that is NOT a split image (partition coordinates are not buckets) *)
Example merge_node_is_merge1_ex :
  let parts := [(2, Node [(0, Leaf 1); (5, Leaf 2)]); (1, Node []); (7, Node [(6, Leaf 3)])] in
  Rt.merge1 (to_rt (Node parts)) = Some (to_rt (Node [(0, Leaf 1); (5, Leaf 2); (6, Leaf 3)])).
Proof.
  cbv zeta. rewrite merge_node_is_merge1; [vm_compute; reflexivity| |apply sortedb_sound; vm_compute; reflexivity].
  repeat constructor; eexists; reflexivity.
Qed.

Example merge_node_split_node_ex : merge_node (split_node 3 ex_fiber) = ex_fiber.
Proof. apply merge_node_split_node, fits_fits_weak; [reflexivity|exact ex_fiber_fits]. Qed.

(* the hypotheses are needed: a negative coordinate, a decreasing fiber *)
Example split_node_negative_differs :
  Rt.split_uniform 3 0 0 (to_rt (Node [(-2, Leaf 1); (1, Leaf 2)])) <> Some (to_rt (Node (split_node 3 [(-2, Leaf 1); (1, Leaf 2)]))).
Proof. vm_compute. discriminate. Qed.
Example split_node_unsorted_differs :
  Rt.split_uniform 3 0 0 (to_rt (Node [(1, Leaf 1); (5, Leaf 2); (0, Leaf 3)])) <>
  Some (to_rt (Node (split_node 3 [(1, Leaf 1); (5, Leaf 2); (0, Leaf 3)]))).
Proof. vm_compute. discriminate. Qed.

Example split_uniform_lookup_ex : forall T', Rt.tmap_depth 1 (Rt.split_uniform 3 0 0) (to_rt ex_mat) = Some T' ->
  RtLaws.zl [0; 9; 10] T' = Some (Rt.VInt 6) /\ RtLaws.zl [0; 3; 10] T' = None /\ RtLaws.zl [3; 6; 7] T' = Some (Rt.VInt 9).
Proof.
  intros T' E.
  destruct (split_uniform_lookup 1 3 ex_mat T' [0] 10 [] eq_refl ex_mat_fits eq_refl E) as [E1 E2].
  destruct (split_uniform_lookup 1 3 ex_mat T' [3] 7 [] eq_refl ex_mat_fits eq_refl E) as [E3 _].
  split; [exact E1|]. split; [apply E2; vm_compute; discriminate|exact E3].
Qed.

Example den_split_uniform_ex : forall T', Rt.tmap_depth 1 (Rt.split_uniform 3 0 0) (to_rt ex_mat) = Some T' ->
  let p (u c : Z) : point := fun r => if String.eqb r "M" then 0 else if String.eqb r "K1" then u else if String.eqb r "K0" then c else 0 in
  rt_den (map (p 9 10) ["M"; "K1"; "K0"]) T' = 6 /\ rt_den (map (p 3 10) ["M"; "K1"; "K0"]) T' = 0.
Proof.
  intros T' E p. change ["M"; "K1"; "K0"] with (split_ranks 1 "K1" "K0" ["M"; "K"]). split.
  - etransitivity; [apply (den_split_uniform 1 ["M"; "K"] ex_mat (p 9 10) "K" "K1" "K0" 3 T' eq_refl ex_mat_fits eq_refl); [|exact E]|vm_compute; reflexivity].
    repeat constructor; cbn; intuition discriminate.
  - etransitivity; [apply (den_split_uniform 1 ["M"; "K"] ex_mat (p 3 10) "K" "K1" "K0" 3 T' eq_refl ex_mat_fits eq_refl); [|exact E]|vm_compute; reflexivity].
    repeat constructor; cbn; intuition discriminate.
Qed.

Example merge_at_is_tmap_merge1_ex :
  Rt.tmap_depth 1 Rt.merge1 (to_rt (Node [(4, Node [(2, Node [(0, Leaf 1); (5, Leaf 2)]); (7, Node [(6, Leaf 3)])]); (5, Node [])]))
  = Some (to_rt (Node [(4, Node [(0, Leaf 1); (5, Leaf 2); (6, Leaf 3)]); (5, Node [])])).
Proof.
  rewrite merge_at_is_tmap_merge1; [vm_compute; reflexivity|]. cbn [holds_at].
  constructor; [|constructor; [|constructor]]; cbn [snd mergeable].
  - split; [|apply sortedb_sound; vm_compute; reflexivity].
    constructor; [eexists; reflexivity|]. constructor; [eexists; reflexivity|constructor].
  - split; constructor.
Qed.


Example split_at_2_is_tmap_split_uniform_ex :
  exists T1, Rt.tmap_depth 1 (Rt.split_uniform 6 0 0) (to_rt ex_mat) = Some T1 /\
    Rt.tmap_depth 2 (Rt.split_uniform 3 0 0) T1 =
             Some (to_rt (Node [(0, Node [(0, Node [(0, Node [(0, Leaf 1); (1, Leaf 2)]); (3, Node [(4, Leaf 3); (5, Leaf 4)])]);
                                          (6, Node [(9, Node [(9, Leaf 5); (10, Leaf 6)])]);
                                          (18, Node [(21, Node [(23, Leaf 7)])])]);
                                (3, Node [(0, Node [(0, Node [(2, Leaf 8)])]); (6, Node [(6, Node [(7, Leaf 9)])])])])).
Proof.
  destruct (split_at_2_is_tmap_split_uniform 1 6 3 ex_mat eq_refl eq_refl ex_mat_fits) as [T1 [E1 E2]].
  exists T1. split; [exact E1|]. rewrite E2. vm_compute. reflexivity.
Qed.
End Examples.
