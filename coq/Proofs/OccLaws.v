(* Laws of occupancy partitioning (C03): splitEqual chunks and leader/follower boundaries. *)
From Coq Require Import ZArith Lia List Sorted.
Require Import TV.Model.Rt.
Import ListNotations.

(* ---- splitEqual: Rt.chunks ---- *)
Lemma chunks_concat {A} (n : nat) : (0 < n)%nat -> forall fuel (l : list A), (length l < fuel)%nat ->
  concat (chunks fuel n l) = l.
Proof.
  intros Hn. induction fuel as [|f IH]; intros l Hl; [lia|].
  destruct l as [|x l]; [reflexivity|].
  cbn [chunks concat]. rewrite IH.
  - apply firstn_skipn.
  - rewrite skipn_length. cbn [length] in *. lia.
Qed.

Lemma chunks_sizes {A} (n : nat) : (0 < n)%nat -> forall fuel (l : list A), (length l < fuel)%nat ->
  Forall (fun ch => ch <> [] /\ (length ch <= n)%nat) (chunks fuel n l).
Proof.
  intros Hn. induction fuel as [|f IH]; intros l Hl; [lia|].
  destruct l as [|x l]; [constructor|].
  cbn [chunks]. constructor.
  - split.
    + destruct n; [lia|]. cbn. discriminate.
    + rewrite firstn_length. lia.
  - apply IH. rewrite skipn_length. cbn [length] in *. lia.
Qed.

(* every chunk except possibly the last has exactly n elements *)
Lemma chunks_full {A} (n : nat) : (0 < n)%nat -> forall fuel (l : list A), (length l < fuel)%nat ->
  forall pre ch post, chunks fuel n l = pre ++ ch :: post -> post <> [] -> length ch = n.
Proof.
  intros Hn. induction fuel as [|f IH]; intros l Hl pre ch post E Hpost; [lia|].
  destruct l as [|x l]; [destruct pre; discriminate|].
  cbn [chunks] in E. destruct pre as [|c0 pre].
  - cbn in E. injection E as E1 E2. subst ch.
    destruct (Nat.le_gt_cases n (length (x :: l))) as [Hle|Hgt].
    + rewrite firstn_length. lia.
    + exfalso. apply Hpost. rewrite <- E2.
      rewrite skipn_all2 by lia. destruct f; reflexivity.
  - cbn in E. injection E as _ E2. eapply IH; [|exact E2|exact Hpost].
    rewrite skipn_length. cbn [length] in *. lia.
Qed.

(* ---- leader / follower boundaries: Z view of Rt.split_bounds ---- *)
Open Scope Z_scope.

(* partition index of coordinate c for increasing boundaries bs: the last boundary <= c *)
Fixpoint part_of (bs : list Z) (c : Z) : option Z :=
  match bs with
  | [] => None
  | b :: bs' => if c <? b then None
                else match part_of bs' c with Some b' => Some b' | None => Some b end
  end.

Definition in_part (bs : list Z) (b c : Z) : Prop :=
  exists pre post, bs = pre ++ b :: post /\ b <= c /\ match post with [] => True | b' :: _ => c < b' end.

Lemma part_of_lt_head b bs c : StronglySorted Z.lt (b :: bs) -> c < b -> part_of (b :: bs) c = None.
Proof. intros _ H. cbn. destruct (Z.ltb_spec c b); [reflexivity|lia]. Qed.

Lemma sorted_tail_gt b bs : StronglySorted Z.lt (b :: bs) -> Forall (fun x => b < x) bs.
Proof. intros H. inversion H; assumption. Qed.

Lemma part_of_none bs c : StronglySorted Z.lt bs -> part_of bs c = None ->
  match bs with [] => True | b :: _ => c < b end.
Proof.
  destruct bs as [|b bs]; intros Hs H; [exact I|]. cbn in H.
  destruct (Z.ltb_spec c b); [assumption|]. destruct (part_of bs c); discriminate.
Qed.

(* the follower element c goes to the partition whose boundary b is the leader chunk holding c:
   exactly one boundary satisfies b <= c < next boundary *)
Theorem follow_exactly_one bs c : StronglySorted Z.lt bs ->
  (forall b, part_of bs c = Some b -> in_part bs b c) /\
  (forall b, in_part bs b c -> part_of bs c = Some b).
Proof.
  induction bs as [|b0 bs IH]; intros Hs.
  - split; [discriminate|]. intros b [pre [post [E _]]]. destruct pre; discriminate.
  - assert (Hs' : StronglySorted Z.lt bs) by (inversion Hs; assumption).
    pose proof (sorted_tail_gt _ _ Hs) as Hgt. destruct (IH Hs') as [IH1 IH2]. split.
    + intros b H. cbn in H. destruct (Z.ltb_spec c b0) as [Hlt|Hge]; [discriminate|].
      destruct (part_of bs c) as [b'|] eqn:E.
      * injection H as <-. destruct (IH1 b' eq_refl) as [pre [post [E1 [E2 E3]]]].
        exists (b0 :: pre), post. subst bs. split; [reflexivity|]. split; assumption.
      * injection H as <-. exists [], bs. split; [reflexivity|]. split; [lia|].
        apply part_of_none in E; [|assumption]. destruct bs; [exact I|exact E].
    + intros b [pre [post [E [Hle Hnext]]]]. cbn.
      destruct pre as [|p pre]; cbn in E.
      * injection E as <- <-. destruct (Z.ltb_spec c b0); [lia|].
        destruct (part_of bs c) as [b'|] eqn:E'; [|reflexivity].
        exfalso. destruct (IH1 b' eq_refl) as [pre' [post' [E1 [E2 _]]]].
        destruct bs as [|b1 bs1]; [destruct pre'; discriminate|].
        assert (b1 <= b').
        { destruct pre' as [|q pre']; cbn in E1; injection E1 as E1a E1b; [lia|].
          subst q. inversion Hs' as [|? ? _ Hall]; subst. rewrite Forall_forall in Hall.
          assert (Hin : In b' (pre' ++ b' :: post')) by (apply in_or_app; right; left; reflexivity).
          specialize (Hall b' Hin). lia. }
        lia.
      * injection E as Ep E. subst p. rewrite Forall_forall in Hgt.
        assert (Hb : In b bs) by (rewrite E; apply in_or_app; right; left; reflexivity).
        specialize (Hgt b Hb). destruct (Z.ltb_spec c b0); [lia|].
        rewrite (IH2 b); [reflexivity|]. exists pre, post. split; [exact E|]. split; assumption.
Qed.

(* the leader's own chunk coordinates are boundaries of exactly this kind: if the leader chunk with first
   coordinate b holds c (b <= c and c before the next chunk) then the follower partition of c is b: no pair
   that must meet is separated, and no other follower partition holds c: none is met twice *)
Corollary leader_follower_meet bs b c : StronglySorted Z.lt bs -> in_part bs b c ->
  part_of bs c = Some b /\ forall b', in_part bs b' c -> b' = b.
Proof.
  intros Hs H. destruct (follow_exactly_one bs c Hs) as [_ H2]. split; [apply H2; exact H|].
  intros b' H'. apply H2 in H. apply H2 in H'. congruence.
Qed.
