From Coq Require Import String List Bool.
Require Import TV.Model.BindStore.
Import ListNotations.
Open Scope string_scope.

(* with a private copy, building a component leaves the parsed store exactly as it was ... *)
Theorem build_copy_pure fmt ranks types st n : snd (build true fmt ranks types st n) = st.
Proof. reflexivity. Qed.

(* ... for any sequence of component constructions (a whole compilation) ... *)
Theorem build_all_pure fmt ranks types (ns : list string) st :
  fold_left (fun s n => snd (build true fmt ranks types s n)) ns st = st.
Proof. induction ns as [|n ns IH]; cbn [fold_left]; [reflexivity|]. rewrite build_copy_pure. exact IH. Qed.

(* ... so compiling again from the same objects sees the same bindings *)
Theorem build_repeatable fmt ranks types st n :
  fst (build true fmt ranks types (snd (build true fmt ranks types st n)) n) = fst (build true fmt ranks types st n).
Proof. reflexivity. Qed.

(* the pinned tree (sharing): the store is changed, and the second construction sees other bindings *)
Definition f2_store : store :=
  [("RegFile", [[("tensor", "Z"); ("rank", "M"); ("type", "coord"); ("format", "default"); ("evict-on", "root"); ("style", "eager")]])].

Theorem shared_build_refuted :
  exists st n fmt ranks types,
    snd (build false fmt ranks types st n) <> st /\
    fst (build false fmt ranks types (snd (build false fmt ranks types st n)) n) <> fst (build false fmt ranks types st n).
Proof.
  exists f2_store, "RegFile", "default", ["M"; "N"], [["coord"; "payload"]; ["coord"; "payload"]].
  split; vm_compute; discriminate.
Qed.
