(* The C01 core induction: a well-formed nest computes the sum of products at every point. *)
From Coq Require Import ZArith List Bool Lia String.
Require Import TV.Model.Nest.
Import ListNotations.
Open Scope Z_scope.

Lemma den_default : forall rs p, den rs (default_of rs) p = 0.
Proof. intros [|r rs] p; reflexivity. Qed.

Lemma den_advance : forall r c t p, p r = c -> participates r t = true -> has_coord c t = true ->
  den (rem (advance c t)) (cur (advance c t)) p = den (rem t) (cur t) p.
Proof.
  intros r c [rs cu] p Hp Hpart Hc. unfold participates, has_coord, advance in *; cbn [rem cur] in *.
  destruct rs as [|r' rs']; [discriminate|]. apply String.eqb_eq in Hpart; subst r'.
  destruct cu as [v|l]; [discriminate|].
  cbn [den]. rewrite Hp. destruct (lookup c l) eqn:E; [reflexivity|discriminate].
Qed.

Lemma den_dead : forall r c t p, p r = c -> participates r t = true -> has_coord c t = false ->
  den (rem t) (cur t) p = 0.
Proof.
  intros r c [rs cu] p Hp Hpart Hc. unfold participates, has_coord in *; cbn [rem cur] in *.
  destruct rs as [|r' rs']; [discriminate|]. apply String.eqb_eq in Hpart; subst r'.
  destruct cu as [v|l]; [reflexivity|]. cbn [den]. rewrite Hp.
  destruct (lookup c l); [discriminate|reflexivity].
Qed.

Lemma den_kill : forall r t p, participates r t = true -> den (rem (kill t)) (cur (kill t)) p = 0.
Proof.
  intros r [rs cu] p Hpart. unfold participates, kill in *; cbn [rem cur] in *.
  destruct rs as [|r' rs']; [discriminate|]. cbn [rem cur]. apply den_default.
Qed.

Lemma term_den_alive : forall r c tm p, p r = c -> term_alive r c tm = true ->
  term_den (map (fun t => if participates r t then advance c t else t) tm) p = term_den tm p.
Proof.
  intros r c tm p Hp. induction tm as [|t tm IH]; intros Hal; [reflexivity|].
  cbn [term_alive forallb] in Hal. apply andb_true_iff in Hal as [Ht Hal].
  cbn [map term_den fold_right]. fold (term_den (map (fun t => if participates r t then advance c t else t) tm) p).
  fold (term_den tm p). rewrite (IH Hal).
  destruct (participates r t) eqn:Hpart; [|reflexivity].
  cbn in Ht. rewrite (den_advance r c t p Hp Hpart Ht). reflexivity.
Qed.

Lemma term_den_zero_if : forall tm p, (exists t, In t tm /\ den (rem t) (cur t) p = 0) -> term_den tm p = 0.
Proof.
  induction tm as [|t tm IH]; intros p [t0 [Hin Hz]]; [destruct Hin|].
  cbn [term_den fold_right]. fold (term_den tm p). destruct Hin as [<-|Hin].
  - rewrite Hz. apply Z.mul_0_l.
  - rewrite (IH p (ex_intro _ t0 (conj Hin Hz))). apply Z.mul_0_r.
Qed.

Lemma term_dead_witness : forall r c tm, term_alive r c tm = false ->
  exists t, In t tm /\ participates r t = true /\ has_coord c t = false.
Proof.
  intros r c tm. induction tm as [|t tm IH]; intros H; [discriminate|].
  cbn [term_alive forallb] in H. apply andb_false_iff in H as [H|H].
  - apply orb_false_iff in H as [H1 H2]. apply negb_false_iff in H1. exists t; cbn; auto.
  - destruct (IH H) as [t0 [Hin Hr]]. exists t0; cbn; auto.
Qed.

Lemma term_den_step : forall r c tm p, p r = c -> term_den (step_term r c tm) p = term_den tm p.
Proof.
  intros r c tm p Hp. unfold step_term. destruct (term_alive r c tm) eqn:Hal.
  - apply term_den_alive; assumption.
  - destruct (term_dead_witness r c tm Hal) as [t0 [Hin [Hpart Hno]]].
    rewrite (term_den_zero_if tm p).
    2:{ exists t0; split; [assumption|]. apply (den_dead r c t0 p Hp Hpart Hno). }
    apply term_den_zero_if. exists (kill t0). split.
    + apply in_map_iff. exists t0. rewrite Hpart. auto.
    + apply (den_kill r t0 p Hpart).
Qed.

Lemma body_den_step : forall r c tms p, p r = c -> body_den (map (step_term r c) tms) p = body_den tms p.
Proof.
  intros r c tms p Hp. induction tms as [|tm tms IH]; [reflexivity|].
  cbn [map body_den fold_right]. fold (body_den (map (step_term r c) tms) p). fold (body_den tms p).
  rewrite IH, (term_den_step r c tm p Hp). reflexivity.
Qed.

(* every term dead at c => body denotes 0 at points with p r = c *)
Lemma body_den_all_dead : forall r c tms p, p r = c -> existsb (term_alive r c) tms = false -> body_den tms p = 0.
Proof.
  intros r c tms p Hp. induction tms as [|tm tms IH]; intros H; [reflexivity|].
  cbn [existsb] in H. apply orb_false_iff in H as [H1 H2].
  cbn [body_den fold_right]. fold (body_den tms p). rewrite (IH H2).
  destruct (term_dead_witness r c tm H1) as [t0 [Hin [Hpart Hno]]].
  rewrite (term_den_zero_if tm p); [reflexivity|].
  exists t0; split; [assumption|apply (den_dead r c t0 p Hp Hpart Hno)].
Qed.

Lemma sum_at_app : forall p a b, sum_at p (a ++ b) = sum_at p a + sum_at p b.
Proof. intros p a b; induction a as [|x a IH]; cbn [app sum_at]; [reflexivity|]. destruct (matches p (fst x)); lia. Qed.

Lemma sum_at_cons_level : forall p r c cs,
  sum_at p (map (fun qv => ((r, c) :: fst qv, snd qv)) cs) = if Z.eqb (p r) c then sum_at p cs else 0.
Proof.
  intros p r c cs. induction cs as [|x cs IH]; cbn [map sum_at]; [destruct (p r =? c); reflexivity|].
  rewrite IH. cbn [fst snd matches forallb]. destruct (p r =? c); cbn [andb]; [reflexivity|reflexivity].
Qed.

(* summing over a NoDup list of branches: only the branch c = p r contributes *)
Lemma sum_at_flat_map : forall p r (f : coord -> list contrib) cs, NoDup cs ->
  sum_at p (flat_map (fun c => map (fun qv => ((r, c) :: fst qv, snd qv)) (f c)) cs)
  = if in_dec Z.eq_dec (p r) cs then sum_at p (f (p r)) else 0.
Proof.
  intros p r f cs Hnd. induction Hnd as [|c cs Hnotin Hnd IH]; [reflexivity|].
  cbn [flat_map]. rewrite sum_at_app, sum_at_cons_level, IH.
  destruct (Z.eqb_spec (p r) c) as [->|Hne].
  - destruct (in_dec Z.eq_dec c cs) as [Hin|_]; [contradiction|].
    destruct (in_dec Z.eq_dec c (c :: cs)) as [_|Hn]; [lia|exfalso; apply Hn; left; reflexivity].
  - destruct (in_dec Z.eq_dec (p r) cs) as [Hin|Hn];
    destruct (in_dec Z.eq_dec (p r) (c :: cs)) as [Hin'|Hn']; try lia.
    + exfalso; apply Hn'; right; assumption.
    + destruct Hin' as [->|Hin']; [contradiction|contradiction].
Qed.

(* well-formedness: at each level every term has a participant (so "alive" is never vacuous);
   at the bottom all tensors are exhausted *)
Lemma lookup_in_keys : forall c l t, lookup c l = Some t -> In c (keys l).
Proof.
  intros c l; induction l as [|[c' t'] l IH]; intros t H; [discriminate|].
  cbn in *. destruct (Z.eqb_spec c c'); [left; congruence|right; eauto].
Qed.

Lemma visited_spec : forall r tms, (forall tm, In tm tms -> exists t, In t tm /\ participates r t = true) ->
  forall c, In c (visited r tms) <-> existsb (term_alive r c) tms = true.
Proof.
  intros r tms Hpart c. unfold visited. rewrite nodup_In, in_flat_map, existsb_exists.
  split.
  - intros [tm [Hin Hc]]. exists tm; split; [assumption|]. unfold term_coords in Hc.
    destruct (filter (participates r) tm); [destruct Hc|]. apply filter_In in Hc. tauto.
  - intros [tm [Hin Hal]]. exists tm; split; [assumption|]. unfold term_coords.
    destruct (Hpart tm Hin) as [t0 [Hin0 Hp0]].
    destruct (filter (participates r) tm) as [|t ts] eqn:E.
    + assert (In t0 (filter (participates r) tm)) by (apply filter_In; auto). rewrite E in H; destruct H.
    + apply filter_In; split; [|assumption].
      assert (Ht : In t (filter (participates r) tm)) by (rewrite E; left; reflexivity).
      apply filter_In in Ht as [Htin Htp].
      unfold term_alive in Hal. rewrite forallb_forall in Hal. specialize (Hal t Htin).
      rewrite Htp in Hal. cbn in Hal. unfold has_coord in Hal. unfold tkeys.
      destruct (cur t) as [v|l]; [discriminate|]. destruct (lookup c l) eqn:El; [|discriminate].
      eapply lookup_in_keys; eassumption.
Qed.

Lemma term_leaf_den : forall tm p, (forall t, In t tm -> rem t = []) -> term_den tm p = term_leaf tm.
Proof.
  induction tm as [|t tm IH]; intros p H; [reflexivity|].
  cbn [term_den term_leaf fold_right]. fold (term_den tm p). fold (term_leaf tm).
  rewrite IH by (intros; apply H; right; assumption).
  rewrite (H t (or_introl eq_refl)). destruct (cur t); reflexivity.
Qed.

Theorem nest_sound : forall L tms, wf L tms -> forall p, sum_at p (run L tms) = body_den tms p.
Proof.
  induction L as [|r L IH]; intros tms Hwf p.
  - cbn [run sum_at fst snd matches forallb]. cbn in Hwf. rewrite Z.add_0_r.
    induction tms as [|tm tms IHt]; [reflexivity|].
    cbn [fold_right body_den]. fold (body_den tms p).
    rewrite (term_leaf_den tm p) by (intros; eapply Hwf; [left; reflexivity|assumption]).
    specialize (IHt (fun tm' H => Hwf tm' (or_intror H))). cbn [fold_right] in IHt. lia.
  - destruct Hwf as [Hpart Hwf]. cbn [run].
    rewrite sum_at_flat_map by apply NoDup_nodup.
    destruct (in_dec Z.eq_dec (p r) (visited r tms)) as [Hin|Hnin].
    + rewrite (IH _ (Hwf (p r)) p). apply body_den_step. reflexivity.
    + symmetry. apply (body_den_all_dead r (p r)); [reflexivity|].
      destruct (existsb (term_alive r (p r)) tms) eqn:E; [|reflexivity].
      exfalso. apply Hnin. apply visited_spec; assumption.
Qed.




(* ---------- the static validator implies well-formedness for ANY tries of that rank structure ---------- *)
Lemma participates_heads r t : participates r t = heads r (rem t).
Proof. reflexivity. Qed.

Lemma rem_advance r c t : participates r t = true -> rem (advance c t) = tl (rem t).
Proof.
  unfold participates, advance. destruct t as [rs cu]; cbn [rem cur]. destruct rs as [|r' rs']; [discriminate|].
  intros _. destruct cu as [v|l]; [reflexivity|]. destruct (lookup c l); reflexivity.
Qed.

Lemma rem_kill r t : participates r t = true -> rem (kill t) = tl (rem t).
Proof.
  unfold participates, kill. destruct t as [rs cu]; cbn [rem cur]. destruct rs as [|r' rs']; [discriminate|]. reflexivity.
Qed.

Lemma rems_step_term r c tm : map rem (step_term r c tm) = step_rems r (map rem tm).
Proof.
  unfold step_term, step_rems. destruct (term_alive r c tm); rewrite !map_map; apply map_ext; intros t;
    rewrite <- participates_heads; destruct (participates r t) eqn:E; try reflexivity.
  - apply (rem_advance r c t E).
  - apply (rem_kill r t E).
Qed.

Lemma rems_step r c tms : map (map rem) (map (step_term r c) tms) = map (step_rems r) (map (map rem) tms).
Proof. rewrite !map_map. apply map_ext. intros tm. apply rems_step_term. Qed.

Theorem swf_wf : forall L tms, swf L (map (map rem) tms) = true -> wf L tms.
Proof.
  induction L as [|r L IH]; intros tms H; cbn [swf wf] in *.
  - intros tm Htm t Ht. rewrite forallb_forall in H.
    specialize (H (map rem tm) (in_map _ _ _ Htm)). rewrite forallb_forall in H.
    specialize (H (rem t) (in_map _ _ _ Ht)). destruct (rem t); [reflexivity|discriminate].
  - apply andb_true_iff in H as [H1 H2]. split.
    + intros tm Htm. rewrite forallb_forall in H1. specialize (H1 (map rem tm) (in_map _ _ _ Htm)).
      apply existsb_exists in H1 as [rs [Hin Hh]]. apply in_map_iff in Hin as [t [E Ht]]. subst rs.
      exists t. split; [exact Ht|]. rewrite participates_heads. exact Hh.
    + intros c. apply IH. rewrite rems_step. exact H2.
Qed.

Lemma nats_eqb_eq a b : nats_eqb a b = true -> a = b.
Proof.
  revert b; induction a as [|x a IH]; intros [|y b] H; cbn in H; try discriminate; [reflexivity|].
  apply andb_true_iff in H as [H1 H2]. apply Nat.eqb_eq in H1. rewrite (IH b H2). congruence.
Qed.
Lemma natss_eqb_eq a b : natss_eqb a b = true -> a = b.
Proof.
  revert b; induction a as [|x a IH]; intros [|y b] H; cbn in H; try discriminate; [reflexivity|].
  apply andb_true_iff in H as [H1 H2]. apply nats_eqb_eq in H1. rewrite (IH b H2). congruence.
Qed.
Lemma views_eqb_eq a b : views_eqb a b = true -> a = b.
Proof.
  revert b; induction a as [|[r x] a IH]; intros [|[r' y] b] H; cbn in H; try discriminate; [reflexivity|].
  apply andb_true_iff in H as [H H3]. apply andb_true_iff in H as [H1 H2].
  apply String.eqb_eq in H1. apply natss_eqb_eq in H2. rewrite (IH b H3). congruence.
Qed.

(* certified validation: if the validator accepts the rank structure and the per-level co-iteration read off an
   emitted program, then for ALL input tries with those rank orders the nest computes the sum of products at
   every point, and the text's co-iteration is exactly the one `run` performs *)
Theorem nest_okb_sound : forall L tms views,
  nest_okb L (map (map rem) tms) views = true ->
  views = expected_views L (map (map rem) tms) /\ forall p, sum_at p (run L tms) = body_den tms p.
Proof.
  intros L tms views H. unfold nest_okb in H. apply andb_true_iff in H as [H1 H2]. split.
  - symmetry. apply views_eqb_eq. exact H2.
  - apply nest_sound. apply swf_wf. exact H1.
Qed.
