(* The C01 core induction: a well-formed nest computes the sum of products at every point. *)
From Coq Require Import ZArith List Bool Lia String.
Require Import TV.Model.Nest.
Import ListNotations.
Open Scope Z_scope.

Lemma den_default : forall rs p, den rs (default_of rs) p = 0.
Proof. intros [|r rs] p; reflexivity. Qed.

Lemma den_advance : forall r c t p, p r = c -> participates r t = true -> has_coord c t = true ->
  den (rem (advance c t)) (cur (advance c t)) p = den (rem t) (cur t) p.
Proof.
  intros r c [rs cu] p Hp Hpart Hc. unfold participates, has_coord, advance in *; cbn [rem cur] in *.
  destruct rs as [|r' rs']; [discriminate|]. apply String.eqb_eq in Hpart; subst r'.
  destruct cu as [v|l]; [discriminate|].
  cbn [den]. rewrite Hp. destruct (lookup c l) eqn:E; [reflexivity|discriminate].
Qed.

Lemma den_dead : forall r c t p, p r = c -> participates r t = true -> has_coord c t = false ->
  den (rem t) (cur t) p = 0.
Proof.
  intros r c [rs cu] p Hp Hpart Hc. unfold participates, has_coord in *; cbn [rem cur] in *.
  destruct rs as [|r' rs']; [discriminate|]. apply String.eqb_eq in Hpart; subst r'.
  destruct cu as [v|l]; [reflexivity|]. cbn [den]. rewrite Hp.
  destruct (lookup c l); [discriminate|reflexivity].
Qed.

Lemma den_kill : forall r t p, participates r t = true -> den (rem (kill t)) (cur (kill t)) p = 0.
Proof.
  intros r [rs cu] p Hpart. unfold participates, kill in *; cbn [rem cur] in *.
  destruct rs as [|r' rs']; [discriminate|]. cbn [rem cur]. apply den_default.
Qed.

Lemma term_den_alive : forall r c tm p, p r = c -> term_alive r c tm = true ->
  term_den (map (fun t => if participates r t then advance c t else t) tm) p = term_den tm p.
Proof.
  intros r c tm p Hp. induction tm as [|t tm IH]; intros Hal; [reflexivity|].
  cbn [term_alive forallb] in Hal. apply andb_true_iff in Hal as [Ht Hal].
  cbn [map term_den fold_right]. fold (term_den (map (fun t => if participates r t then advance c t else t) tm) p).
  fold (term_den tm p). rewrite (IH Hal).
  destruct (participates r t) eqn:Hpart; [|reflexivity].
  cbn in Ht. rewrite (den_advance r c t p Hp Hpart Ht). reflexivity.
Qed.

Lemma term_den_zero_if : forall tm p, (exists t, In t tm /\ den (rem t) (cur t) p = 0) -> term_den tm p = 0.
Proof.
  induction tm as [|t tm IH]; intros p [t0 [Hin Hz]]; [destruct Hin|].
  cbn [term_den fold_right]. fold (term_den tm p). destruct Hin as [<-|Hin].
  - rewrite Hz. apply Z.mul_0_l.
  - rewrite (IH p (ex_intro _ t0 (conj Hin Hz))). apply Z.mul_0_r.
Qed.

Lemma term_dead_witness : forall r c tm, term_alive r c tm = false ->
  exists t, In t tm /\ participates r t = true /\ has_coord c t = false.
Proof.
  intros r c tm. induction tm as [|t tm IH]; intros H; [discriminate|].
  cbn [term_alive forallb] in H. apply andb_false_iff in H as [H|H].
  - apply orb_false_iff in H as [H1 H2]. apply negb_false_iff in H1. exists t; cbn; auto.
  - destruct (IH H) as [t0 [Hin Hr]]. exists t0; cbn; auto.
Qed.

Lemma term_den_step : forall r c tm p, p r = c -> term_den (step_term r c tm) p = term_den tm p.
Proof.
  intros r c tm p Hp. unfold step_term. destruct (term_alive r c tm) eqn:Hal.
  - apply term_den_alive; assumption.
  - destruct (term_dead_witness r c tm Hal) as [t0 [Hin [Hpart Hno]]].
    rewrite (term_den_zero_if tm p).
    2:{ exists t0; split; [assumption|]. apply (den_dead r c t0 p Hp Hpart Hno). }
    apply term_den_zero_if. exists (kill t0). split.
    + apply in_map_iff. exists t0. rewrite Hpart. auto.
    + apply (den_kill r t0 p Hpart).
Qed.

Lemma body_den_step : forall r c tms p, p r = c -> body_den (map (step_term r c) tms) p = body_den tms p.
Proof.
  intros r c tms p Hp. induction tms as [|tm tms IH]; [reflexivity|].
  cbn [map body_den fold_right]. fold (body_den (map (step_term r c) tms) p). fold (body_den tms p).
  rewrite IH, (term_den_step r c tm p Hp). reflexivity.
Qed.

(* every term dead at c => body denotes 0 at points with p r = c *)
Lemma body_den_all_dead : forall r c tms p, p r = c -> existsb (term_alive r c) tms = false -> body_den tms p = 0.
Proof.
  intros r c tms p Hp. induction tms as [|tm tms IH]; intros H; [reflexivity|].
  cbn [existsb] in H. apply orb_false_iff in H as [H1 H2].
  cbn [body_den fold_right]. fold (body_den tms p). rewrite (IH H2).
  destruct (term_dead_witness r c tm H1) as [t0 [Hin [Hpart Hno]]].
  rewrite (term_den_zero_if tm p); [reflexivity|].
  exists t0; split; [assumption|apply (den_dead r c t0 p Hp Hpart Hno)].
Qed.

Lemma sum_at_app : forall p a b, sum_at p (a ++ b) = sum_at p a + sum_at p b.
Proof. intros p a b; induction a as [|x a IH]; cbn [app sum_at]; [reflexivity|]. destruct (matches p (fst x)); lia. Qed.

Lemma sum_at_cons_level : forall p r c cs,
  sum_at p (map (fun qv => ((r, c) :: fst qv, snd qv)) cs) = if Z.eqb (p r) c then sum_at p cs else 0.
Proof.
  intros p r c cs. induction cs as [|x cs IH]; cbn [map sum_at]; [destruct (p r =? c); reflexivity|].
  rewrite IH. cbn [fst snd matches forallb]. destruct (p r =? c); cbn [andb]; [reflexivity|reflexivity].
Qed.

(* summing over a NoDup list of branches: only the branch c = p r contributes *)
Lemma sum_at_flat_map : forall p r (f : coord -> list contrib) cs, NoDup cs ->
  sum_at p (flat_map (fun c => map (fun qv => ((r, c) :: fst qv, snd qv)) (f c)) cs)
  = if in_dec Z.eq_dec (p r) cs then sum_at p (f (p r)) else 0.
Proof.
  intros p r f cs Hnd. induction Hnd as [|c cs Hnotin Hnd IH]; [reflexivity|].
  cbn [flat_map]. rewrite sum_at_app, sum_at_cons_level, IH.
  destruct (Z.eqb_spec (p r) c) as [->|Hne].
  - destruct (in_dec Z.eq_dec c cs) as [Hin|_]; [contradiction|].
    destruct (in_dec Z.eq_dec c (c :: cs)) as [_|Hn]; [lia|exfalso; apply Hn; left; reflexivity].
  - destruct (in_dec Z.eq_dec (p r) cs) as [Hin|Hn];
    destruct (in_dec Z.eq_dec (p r) (c :: cs)) as [Hin'|Hn']; try lia.
    + exfalso; apply Hn'; right; assumption.
    + destruct Hin' as [->|Hin']; [contradiction|contradiction].
Qed.

(* well-formedness: at each level every term has a participant (so "alive" is never vacuous);
   at the bottom all tensors are exhausted *)
Lemma lookup_in_keys : forall c l t, lookup c l = Some t -> In c (keys l).
Proof.
  intros c l; induction l as [|[c' t'] l IH]; intros t H; [discriminate|].
  cbn in *. destruct (Z.eqb_spec c c'); [left; congruence|right; eauto].
Qed.

Lemma visited_spec : forall r tms, (forall tm, In tm tms -> exists t, In t tm /\ participates r t = true) ->
  forall c, In c (visited r tms) <-> existsb (term_alive r c) tms = true.
Proof.
  intros r tms Hpart c. unfold visited. rewrite nodup_In, in_flat_map, existsb_exists.
  split.
  - intros [tm [Hin Hc]]. exists tm; split; [assumption|]. unfold term_coords in Hc.
    destruct (filter (participates r) tm); [destruct Hc|]. apply filter_In in Hc. tauto.
  - intros [tm [Hin Hal]]. exists tm; split; [assumption|]. unfold term_coords.
    destruct (Hpart tm Hin) as [t0 [Hin0 Hp0]].
    destruct (filter (participates r) tm) as [|t ts] eqn:E.
    + assert (In t0 (filter (participates r) tm)) by (apply filter_In; auto). rewrite E in H; destruct H.
    + apply filter_In; split; [|assumption].
      assert (Ht : In t (filter (participates r) tm)) by (rewrite E; left; reflexivity).
      apply filter_In in Ht as [Htin Htp].
      unfold term_alive in Hal. rewrite forallb_forall in Hal. specialize (Hal t Htin).
      rewrite Htp in Hal. cbn in Hal. unfold has_coord in Hal. unfold tkeys.
      destruct (cur t) as [v|l]; [discriminate|]. destruct (lookup c l) eqn:El; [|discriminate].
      eapply lookup_in_keys; eassumption.
Qed.

Lemma term_leaf_den : forall tm p, (forall t, In t tm -> rem t = []) -> term_den tm p = term_leaf tm.
Proof.
  induction tm as [|t tm IH]; intros p H; [reflexivity|].
  cbn [term_den term_leaf fold_right]. fold (term_den tm p). fold (term_leaf tm).
  rewrite IH by (intros; apply H; right; assumption).
  rewrite (H t (or_introl eq_refl)). destruct (cur t); reflexivity.
Qed.

Theorem nest_sound : forall L tms, wf L tms -> forall p, sum_at p (run L tms) = body_den tms p.
Proof.
  induction L as [|r L IH]; intros tms Hwf p.
  - cbn [run sum_at fst snd matches forallb]. cbn in Hwf. rewrite Z.add_0_r.
    induction tms as [|tm tms IHt]; [reflexivity|].
    cbn [fold_right body_den]. fold (body_den tms p).
    rewrite (term_leaf_den tm p) by (intros; eapply Hwf; [left; reflexivity|assumption]).
    specialize (IHt (fun tm' H => Hwf tm' (or_intror H))). cbn [fold_right] in IHt. lia.
  - destruct Hwf as [Hpart Hwf]. cbn [run].
    rewrite sum_at_flat_map by apply NoDup_nodup.
    destruct (in_dec Z.eq_dec (p r) (visited r tms)) as [Hin|Hnin].
    + rewrite (IH _ (Hwf (p r)) p). apply body_den_step. reflexivity.
    + symmetry. apply (body_den_all_dead r (p r)); [reflexivity|].
      destruct (existsb (term_alive r (p r)) tms) eqn:E; [|reflexivity].
      exfalso. apply Hnin. apply visited_spec; assumption.
Qed.




(* ---------- the static validator implies well-formedness for ANY tries of that rank structure ---------- *)
Lemma participates_heads r t : participates r t = heads r (rem t).
Proof. reflexivity. Qed.

Lemma rem_advance r c t : participates r t = true -> rem (advance c t) = tl (rem t).
Proof.
  unfold participates, advance. destruct t as [rs cu]; cbn [rem cur]. destruct rs as [|r' rs']; [discriminate|].
  intros _. destruct cu as [v|l]; [reflexivity|]. destruct (lookup c l); reflexivity.
Qed.

Lemma rem_kill r t : participates r t = true -> rem (kill t) = tl (rem t).
Proof.
  unfold participates, kill. destruct t as [rs cu]; cbn [rem cur]. destruct rs as [|r' rs']; [discriminate|]. reflexivity.
Qed.

Lemma rems_step_term r c tm : map rem (step_term r c tm) = step_rems r (map rem tm).
Proof.
  unfold step_term, step_rems. destruct (term_alive r c tm); rewrite !map_map; apply map_ext; intros t;
    rewrite <- participates_heads; destruct (participates r t) eqn:E; try reflexivity.
  - apply (rem_advance r c t E).
  - apply (rem_kill r t E).
Qed.

Lemma rems_step r c tms : map (map rem) (map (step_term r c) tms) = map (step_rems r) (map (map rem) tms).
Proof. rewrite !map_map. apply map_ext. intros tm. apply rems_step_term. Qed.

Theorem swf_wf : forall L tms, swf L (map (map rem) tms) = true -> wf L tms.
Proof.
  induction L as [|r L IH]; intros tms H; cbn [swf wf] in *.
  - intros tm Htm t Ht. rewrite forallb_forall in H.
    specialize (H (map rem tm) (in_map _ _ _ Htm)). rewrite forallb_forall in H.
    specialize (H (rem t) (in_map _ _ _ Ht)). destruct (rem t); [reflexivity|discriminate].
  - apply andb_true_iff in H as [H1 H2]. split.
    + intros tm Htm. rewrite forallb_forall in H1. specialize (H1 (map rem tm) (in_map _ _ _ Htm)).
      apply existsb_exists in H1 as [rs [Hin Hh]]. apply in_map_iff in Hin as [t [E Ht]]. subst rs.
      exists t. split; [exact Ht|]. rewrite participates_heads. exact Hh.
    + intros c. apply IH. rewrite rems_step. exact H2.
Qed.

Lemma nats_eqb_eq a b : nats_eqb a b = true -> a = b.
Proof.
  revert b; induction a as [|x a IH]; intros [|y b] H; cbn in H; try discriminate; [reflexivity|].
  apply andb_true_iff in H as [H1 H2]. apply Nat.eqb_eq in H1. rewrite (IH b H2). congruence.
Qed.
Lemma natss_eqb_eq a b : natss_eqb a b = true -> a = b.
Proof.
  revert b; induction a as [|x a IH]; intros [|y b] H; cbn in H; try discriminate; [reflexivity|].
  apply andb_true_iff in H as [H1 H2]. apply nats_eqb_eq in H1. rewrite (IH b H2). congruence.
Qed.
Lemma views_eqb_eq a b : views_eqb a b = true -> a = b.
Proof.
  revert b; induction a as [|[r x] a IH]; intros [|[r' y] b] H; cbn in H; try discriminate; [reflexivity|].
  apply andb_true_iff in H as [H H3]. apply andb_true_iff in H as [H1 H2].
  apply String.eqb_eq in H1. apply natss_eqb_eq in H2. rewrite (IH b H3). congruence.
Qed.

(* certified validation: if the validator accepts the rank structure and the per-level co-iteration read off an
   emitted program, then for ALL input tries with those rank orders the nest computes the sum of products at
   every point, and the text's co-iteration is exactly the one `run` performs *)
Theorem nest_okb_sound : forall L tms views,
  nest_okb L (map (map rem) tms) views = true ->
  views = expected_views L (map (map rem) tms) /\ forall p, sum_at p (run L tms) = body_den tms p.
Proof.
  intros L tms views H. unfold nest_okb in H. apply andb_true_iff in H as [H1 H2]. split.
  - symmetry. apply views_eqb_eq. exact H2.
  - apply nest_sound. apply swf_wf. exact H1.
Qed.


(* ---------- the update statement ---------- *)
Lemma leaf_term_eval_shift t tm ps : leaf_term_eval (t :: tm) (map S ps) = leaf_term_eval tm ps.
Proof.
  unfold leaf_term_eval. induction ps as [|i ps IH]; [reflexivity|].
  cbn [map fold_right]. rewrite IH. reflexivity.
Qed.

Lemma leaf_term_eval_all tm : leaf_term_eval tm (seq 0 (List.length tm)) = term_leaf tm.
Proof.
  induction tm as [|t tm IH]; [reflexivity|].
  cbn [List.length seq]. rewrite <- seq_shift.
  change (leaf_term_eval (t :: tm) (0%nat :: map S (seq 0 (List.length tm)))) with
         (leaf_val (nth 0 (t :: tm) dummy_t) * leaf_term_eval (t :: tm) (map S (seq 0 (List.length tm)))).
  rewrite leaf_term_eval_shift, IH. cbn [nth term_leaf fold_right]. unfold leaf_val.
  destruct (cur t); reflexivity.
Qed.

Lemma leaf_okb_eval : forall lv tms, leaf_okb lv (map (@List.length _) tms) = true ->
  leaf_eval lv tms = fold_right (fun tm acc => term_leaf tm + acc) 0 tms.
Proof.
  induction lv as [|ps lv IH]; intros [|tm tms] H; cbn [map leaf_okb] in H; try discriminate; [reflexivity|].
  apply andb_true_iff in H as [H1 H2]. apply nats_eqb_eq in H1. subst ps.
  cbn [leaf_eval fold_right]. rewrite (IH tms H2), leaf_term_eval_all. reflexivity.
Qed.

Lemma length_step_term r c tm : List.length (step_term r c tm) = List.length tm.
Proof. unfold step_term. destruct (term_alive r c tm); apply map_length. Qed.

Lemma lengths_step r c (tms : list term) : map (@List.length _) (map (step_term r c) tms) = map (@List.length _) tms.
Proof. rewrite map_map. apply map_ext. intros tm. apply length_step_term. Qed.

(* with an accepted update expression the nest the text writes IS the nest of the soundness theorem *)
Theorem run_lv_eq : forall lv L tms, leaf_okb lv (map (@List.length _) tms) = true -> run_lv lv L tms = run L tms.
Proof.
  intros lv L. induction L as [|r L IH]; intros tms H; cbn [run_lv run].
  - rewrite (leaf_okb_eval lv tms H). reflexivity.
  - apply flat_map_ext. intros c. rewrite IH; [reflexivity|]. rewrite lengths_step. exact H.
Qed.

(* ---------- `<<=` versus `+=` ---------- *)
(* keys of the contributions: every key lists the loop ranks in loop order, and no key occurs twice *)
Lemma run_keys_ranks : forall L tms qv, In qv (run L tms) -> map fst (fst qv) = L.
Proof.
  induction L as [|r L IH]; intros tms qv H; cbn [run] in H.
  - destruct H as [<-|[]]. reflexivity.
  - apply in_flat_map in H as [c [_ H]]. apply in_map_iff in H as [qv' [<- H]]. cbn [fst map]. f_equal. eapply IH; eassumption.
Qed.

Lemma NoDup_app_intro {A} (a b : list A) : NoDup a -> NoDup b -> (forall x, In x a -> In x b -> False) -> NoDup (a ++ b).
Proof.
  intros Ha Hb Hd. induction Ha as [|x a Hx Ha IH]; [exact Hb|]. cbn. constructor.
  - intros Hin. apply in_app_or in Hin as [Hin|Hin]; [contradiction|]. apply (Hd x); [left; reflexivity|exact Hin].
  - apply IH. intros y Hy1 Hy2. apply (Hd y); [right; exact Hy1|exact Hy2].
Qed.

(* two contributions with the same rank list that both match an output point fixing all those ranks have equal coordinates *)
Lemma matches_out_all_eq : forall out o (a b : list (rank * coord)),
  map fst a = map fst b -> (forall r, In r (map fst a) -> rmem r out = true) ->
  matches_out out o a = true -> matches_out out o b = true -> a = b.
Proof.
  intros out o a. induction a as [|[r c] a IH]; intros [|[r' c'] b] Hk Hall Ha Hb; cbn [map] in Hk; try discriminate; [reflexivity|].
  injection Hk as -> Hk. cbn [matches_out forallb fst snd] in Ha, Hb.
  apply andb_true_iff in Ha as [Ha1 Ha2]. apply andb_true_iff in Hb as [Hb1 Hb2].
  rewrite (Hall r' (or_introl eq_refl)) in Ha1, Hb1. cbn in Ha1, Hb1.
  apply Z.eqb_eq in Ha1, Hb1. f_equal; [congruence|].
  apply IH; try assumption. intros r0 H0. apply Hall. right. exact H0.
Qed.

Lemma run_keys_nodup : forall L tms, NoDup (map fst (run L tms)).
Proof.
  induction L as [|r L IH]; intros tms; cbn [run].
  - cbn. constructor; [intros []|constructor].
  - assert (Hnd : NoDup (visited r tms)) by apply NoDup_nodup.
    induction Hnd as [|c cs Hnotin Hnd IHcs]; [constructor|].
    cbn [flat_map]. rewrite map_app. apply NoDup_app_intro.
    + rewrite map_map. cbn [fst].
      assert (Hinj : forall l, NoDup l -> NoDup (map (fun q : list (rank * coord) => (r, c) :: q) l)).
      { intros l Hl. induction Hl as [|x l Hx Hl IHl]; [constructor|]. cbn. constructor; [|exact IHl].
        intros Hin. apply in_map_iff in Hin as [y [Ey Hy]]. injection Ey as ->. contradiction. }
      rewrite <- (map_map fst (fun q => (r, c) :: q)). apply Hinj. apply IH.
    + exact IHcs.
    + intros k Hk1 Hk2. apply in_map_iff in Hk1 as [qv1 [<- H1]]. apply in_map_iff in H1 as [qv1' [<- H1]].
      apply in_map_iff in Hk2 as [qv2 [E2 H2]]. apply in_flat_map in H2 as [c2 [Hc2 H2]].
      apply in_map_iff in H2 as [qv2' [<- H2]]. cbn [fst] in E2. injection E2 as E2 _. subst c2. contradiction.
Qed.

Lemma out_sum_none : forall out o cs, existsb (fun qv => matches_out out o (fst qv)) cs = false -> out_sum_at out o cs = 0.
Proof.
  intros out o cs. induction cs as [|qv cs IH]; intros H; [reflexivity|].
  cbn [existsb] in H. apply orb_false_iff in H as [H1 H2]. cbn [out_sum_at]. rewrite H1. apply IH. exact H2.
Qed.

(* if every loop rank is an output rank, every output point receives at most one contribution: assigning is accumulating *)
Lemma assign_eq_acc_keys : forall L out o cs, (forall r, In r L -> rmem r out = true) ->
  (forall qv, In qv cs -> map fst (fst qv) = L) -> NoDup (map fst cs) ->
  out_assign_at out o cs = out_sum_at out o cs.
Proof.
  intros L out o cs Hall. induction cs as [|qv cs IH]; intros Hk Hnd; [reflexivity|].
  cbn [map] in Hnd. apply NoDup_cons_iff in Hnd as [Hnotin Hnd].
  cbn [out_assign_at out_sum_at].
  specialize (IH (fun qv' H => Hk qv' (or_intror H)) Hnd).
  destruct (matches_out out o (fst qv)) eqn:Hm; cbn [andb]; [|exact IH].
  destruct (existsb (fun qv' => matches_out out o (fst qv')) cs) eqn:Hex.
  - exfalso. apply existsb_exists in Hex as [qv' [Hin Hm']]. apply Hnotin.
    assert (E : fst qv = fst qv').
    { apply (matches_out_all_eq out o); try assumption.
      - rewrite (Hk qv (or_introl eq_refl)), (Hk qv' (or_intror Hin)). reflexivity.
      - intros r Hr. apply Hall. rewrite <- (Hk qv (or_introl eq_refl)). exact Hr. }
    rewrite E. apply in_map. exact Hin.
  - cbn [negb]. rewrite (out_sum_none out o cs Hex). lia.
Qed.

Lemma rmem_forallb L out : forallb (fun r => rmem r out) L = true -> forall r, In r L -> rmem r out = true.
Proof. intros H r Hr. rewrite forallb_forall in H. apply H. exact Hr. Qed.

(* the operator the text uses leaves in every output point what accumulation would leave *)
Theorem nest_result_acc : forall acc L out tms o, op_okb acc L out = true ->
  nest_result acc out o (run L tms) = out_sum_at out o (run L tms).
Proof.
  intros acc L out tms o H. unfold nest_result. destruct acc; [reflexivity|].
  cbn in H. apply (assign_eq_acc_keys L); [apply rmem_forallb; exact H| |apply run_keys_nodup].
  intros qv Hin. eapply run_keys_ranks. exact Hin.
Qed.

(* certified validation of a whole emitted sum-of-products program, update statement included *)
Theorem nest_full_okb_sound : forall L tms views acc lv out,
  nest_full_okb L (map (map rem) tms) views acc lv out = true ->
  views = expected_views L (map (map rem) tms) /\
  (forall o, nest_result acc out o (run_lv lv L tms) = out_sum_at out o (run L tms)) /\
  (forall p, sum_at p (run L tms) = body_den tms p).
Proof.
  intros L tms views acc lv out H. unfold nest_full_okb in H.
  apply andb_true_iff in H as [H H3]. apply andb_true_iff in H as [H1 H2].
  destruct (nest_okb_sound L tms views H1) as [Hv Hs]. split; [exact Hv|]. split; [|exact Hs].
  intros o. rewrite map_map in H2.
  assert (H2' : leaf_okb lv (map (@List.length _) tms) = true).
  { rewrite <- H2. f_equal. apply map_ext. intros tm. symmetry. apply map_length. }
  rewrite (run_lv_eq lv L tms H2'). apply nest_result_acc. exact H3.
Qed.

(* non-vacuity: a two-term sum with a reduction, a scalar and an accumulate; and an assignment without reduction *)
Example nest_full_okb_example :
  nest_full_okb ["M"; "K"]%string [[["M"; "K"]; ["K"]]; [["M"; "K"]; []]]%string
                [("M"%string, [[0%nat]; [0%nat]]); ("K"%string, [[0%nat; 1%nat]; [0%nat]])] true [[0%nat; 1%nat]; [0%nat; 1%nat]] ["M"]%string = true
  /\ nest_full_okb ["M"]%string [[["M"]; []]]%string [("M"%string, [[0%nat]])] false [[0%nat; 1%nat]] ["M"]%string = true
  /\ nest_full_okb ["M"; "K"]%string [[["M"; "K"]; ["K"]]]%string
                [("M"%string, [[0%nat]]); ("K"%string, [[0%nat; 1%nat]])] false [[0%nat; 1%nat]] ["M"]%string = false.
Proof. repeat split; vm_compute; reflexivity. Qed.
