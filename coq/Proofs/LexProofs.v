(* The tokenizer of Model/Lex.v is the inverse of writing tokens out with blanks between them.

     lex_render : lex m (render ts ws) = Some ts     for tokens of mode m, blank strings ws (any, also empty),
                                                     and no adjacent pair of tokens that would glue
     lex_sound  : lex m s = Some ts  ->  s = render ts ws for some blank strings ws, and every token is a token of mode m
*)
From Coq Require Import String Ascii List Bool Arith NArith Lia.
Require Import TV.Model.Lex.
Import ListNotations.
Open Scope string_scope.

Global Arguments is_blank : simpl never.
Global Arguments is_alpha : simpl never.
Global Arguments is_digit : simpl never.
Global Arguments is_alnum : simpl never.
Global Arguments sym_of_char : simpl never.

(* ------------------------------------------------------------------ strings *)

Lemma sapp_nil_r (s : string) : s ++ "" = s.
Proof. induction s; simpl; congruence. Qed.

Lemma sapp_assoc (a b c : string) : (a ++ b) ++ c = a ++ b ++ c.
Proof. induction a; simpl; congruence. Qed.

Lemma slength_app (a b : string) : String.length (a ++ b) = String.length a + String.length b.
Proof. induction a; simpl; congruence. Qed.

Lemma all_chars_app p a b : all_chars p (a ++ b) = all_chars p a && all_chars p b.
Proof. induction a; simpl; auto. rewrite IHa. now rewrite andb_assoc. Qed.

Definition hd_char (s : string) : option ascii := match s with EmptyString => None | String c _ => Some c end.

(* the first character of s, if any, does not satisfy p *)
Definition stops (p : ascii -> bool) (s : string) : Prop := forall d, hd_char s = Some d -> p d = false.

Lemma span_app p w rest : all_chars p w = true -> stops p rest -> span p (w ++ rest) = (w, rest).
Proof.
  induction w as [|c w IH]; simpl; intros Hw Hr.
  - destruct rest as [|d r]; simpl; auto. rewrite (Hr d eq_refl). reflexivity.
  - apply andb_prop in Hw. destruct Hw as [Hc Hw]. rewrite Hc, (IH Hw Hr). reflexivity.
Qed.

Lemma span_spec p s a b : span p s = (a, b) -> s = a ++ b /\ all_chars p a = true /\ stops p b.
Proof.
  revert a b. induction s as [|c s IH]; simpl; intros a b H.
  - inversion H; subst. repeat split; auto. intros d Hd; discriminate.
  - destruct (p c) eqn:Hc.
    + destruct (span p s) as [a' b'] eqn:Hs. inversion H; subst.
      destruct (IH _ _ eq_refl) as (E & Ha & Hb). simpl. rewrite Hc, Ha. repeat split; auto. now rewrite <- E.
    + inversion H; subst. repeat split; auto. intros d Hd. simpl in Hd. inversion Hd; subst. exact Hc.
Qed.

Lemma span_length p s a b : span p s = (a, b) -> String.length b <= String.length s.
Proof.
  intros H. apply span_spec in H. destruct H as (E & _ & _). subst. rewrite slength_app. lia.
Qed.

(* ------------------------------------------------------------------ character classes (by exhaustion) *)

Ltac all_ascii c := destruct c as [[] [] [] [] [] [] [] []]; vm_compute; try reflexivity; try discriminate; auto.

Lemma blank_not_alpha c : is_blank c = true -> is_alpha c = false.
Proof. all_ascii c. Qed.
Lemma blank_not_digit c : is_blank c = true -> is_digit c = false.
Proof. all_ascii c. Qed.
Lemma blank_not_alnum c : is_blank c = true -> is_alnum c = false.
Proof. all_ascii c. Qed.
Lemma blank_not_sym c : is_blank c = true -> sym_of_char c = None.
Proof. all_ascii c. Qed.
Lemma blank_not_lpar c : is_blank c = true -> Ascii.eqb c "("%char = false.
Proof. all_ascii c. Qed.
Lemma alpha_not_blank c : is_alpha c = true -> is_blank c = false.
Proof. all_ascii c. Qed.
Lemma alpha_not_digit c : is_alpha c = true -> is_digit c = false.
Proof. all_ascii c. Qed.
Lemma digit_not_blank c : is_digit c = true -> is_blank c = false.
Proof. all_ascii c. Qed.
Lemma digit_not_alpha c : is_digit c = true -> is_alpha c = false.
Proof. all_ascii c. Qed.
Lemma alpha_alnum c : is_alpha c = true -> is_alnum c = true.
Proof. unfold is_alnum. intros ->. reflexivity. Qed.
Lemma digit_alnum c : is_digit c = true -> is_alnum c = true.
Proof. unfold is_alnum. intros ->. apply orb_true_r. Qed.
Lemma sym_not_blank c y : sym_of_char c = Some y -> is_blank c = false.
Proof. all_ascii c. Qed.
Lemma sym_not_alpha c y : sym_of_char c = Some y -> is_alpha c = false.
Proof. all_ascii c. Qed.
Lemma sym_not_digit c y : sym_of_char c = Some y -> is_digit c = false.
Proof. all_ascii c. Qed.
Lemma sym_not_alnum c y : sym_of_char c = Some y -> is_alnum c = false.
Proof. all_ascii c. Qed.
Lemma sym_of_sym_char y : sym_of_char (sym_char y) = Some y.
Proof. destruct y; reflexivity. Qed.
Lemma sym_char_of_sym c y : sym_of_char c = Some y -> c = sym_char y.
Proof. destruct c as [[] [] [] [] [] [] [] []]; vm_compute; intros H; try discriminate; inversion H; reflexivity. Qed.
Lemma lpar_not_alnum c : Ascii.eqb c "("%char = true -> is_alnum c = false.
Proof. all_ascii c. Qed.

Lemma all_chars_weaken (p q : ascii -> bool) s : (forall c, p c = true -> q c = true) -> all_chars p s = true -> all_chars q s = true.
Proof.
  intros H. induction s as [|c s IH]; simpl; auto. intros E. apply andb_prop in E. destruct E as [E1 E2].
  rewrite (H _ E1), (IH E2). reflexivity.
Qed.

(* ------------------------------------------------------------------ lexing what was written *)

Lemma lex_blank_only m w n : blank w = true -> String.length w < n -> lex_fuel m n w = Some [].
Proof.
  revert n. induction w as [|c w IH]; intros n Hb Hn.
  - destruct n; [lia|reflexivity].
  - simpl in Hb. apply andb_prop in Hb. destruct Hb as [Hc Hw]. destruct n; [simpl in Hn; lia|].
    simpl. rewrite Hc. apply IH; auto. simpl in Hn. lia.
Qed.

Lemma lex_skip m w n s : blank w = true -> lex_fuel m (String.length w + n) (w ++ s) = lex_fuel m n s.
Proof.
  induction w as [|c w IH]; simpl; intros Hb; auto.
  apply andb_prop in Hb. destruct Hb as [Hc Hw]. rewrite Hc. auto.
Qed.

(* which character may directly follow the text of a token *)
Definition follows_ok (t : token) (d : ascii) : bool :=
  match t with
  | TName _ => negb (is_alnum d) && negb (Ascii.eqb d "("%char)
  | TNum _ => negb (is_digit d)
  | TDotW _ => negb (is_alnum d)
  | _ => true
  end.
Definition head_ok (t : token) (rest : string) : Prop := forall d, hd_char rest = Some d -> follows_ok t d = true.

Lemma lex_tok m t rest n :
  tok_ok m t = true -> head_ok t rest -> lex_fuel m (S n) (text t ++ rest) = ocons t (lex_fuel m n rest).
Proof.
  intros Hok Hh. destruct t as [s|s|s|s| |y]; simpl in Hok.
  - (* TName *)
    destruct s as [|c w]; [discriminate|]. simpl in Hok. apply andb_prop in Hok. destruct Hok as [Hc Hw].
    simpl. rewrite (alpha_not_blank _ Hc), Hc.
    assert (Hst : stops is_alnum rest).
    { intros d Hd. specialize (Hh d Hd). simpl in Hh. apply andb_prop in Hh. destruct Hh as [H1 _].
      now apply negb_true_iff in H1. }
    rewrite (span_app _ _ _ Hw Hst).
    destruct rest as [|d r]; auto.
    specialize (Hh d eq_refl). simpl in Hh. apply andb_prop in Hh. destruct Hh as [_ H2].
    apply negb_true_iff in H2. rewrite H2. reflexivity.
  - (* TNum *)
    destruct s as [|c w]; [discriminate|]. simpl in Hok. apply andb_prop in Hok. destruct Hok as [Hc Hw].
    simpl. rewrite (digit_not_blank _ Hc), (digit_not_alpha _ Hc), Hc.
    assert (Hst : stops is_digit rest).
    { intros d Hd. specialize (Hh d Hd). simpl in Hh. now apply negb_true_iff in Hh. }
    rewrite (span_app _ _ _ Hw Hst). reflexivity.
  - (* TKw *)
    destruct s as [|c w]; [discriminate|]. simpl in Hok. apply andb_prop in Hok. destruct Hok as [Hc Hw].
    simpl. rewrite (alpha_not_blank _ Hc), Hc. rewrite sapp_assoc.
    assert (Hst : stops is_alnum ("(" ++ rest)).
    { intros d Hd. simpl in Hd. inversion Hd; subst. reflexivity. }
    rewrite (span_app _ _ _ Hw Hst). simpl. reflexivity.
  - (* TDotW *)
    apply andb_prop in Hok. destruct Hok as [Hm Hw]. destruct m; try discriminate.
    simpl.
    assert (Hst : stops is_alnum rest).
    { intros d Hd. specialize (Hh d Hd). simpl in Hh. now apply negb_true_iff in Hh. }
    rewrite (span_app _ _ _ Hw Hst). reflexivity.
  - (* TRange *)
    destruct m; try discriminate. reflexivity.
  - (* TSym *)
    destruct y, m; try discriminate; reflexivity.
Qed.

Definition first_char (t : token) : ascii :=
  match text t with String c _ => c | EmptyString => " "%char end.

Lemma text_first m t : tok_ok m t = true -> exists r, text t = String (first_char t) r.
Proof.
  unfold first_char. destruct t as [s|s|s|s| |y]; simpl; intros H; try (destruct s; [discriminate|]); simpl; eauto.
Qed.

Lemma glue_follows m t1 t2 : tok_ok m t2 = true -> glue_bad t1 t2 = false -> follows_ok t1 (first_char t2) = true.
Proof.
  intros Hok Hg.
  assert (Hns : starts_word t2 = false -> is_alnum (first_char t2) = false).
  { destruct t2 as [s|s|s|s| |y]; simpl; try discriminate; intros _; try reflexivity. destruct y; reflexivity. }
  destruct t1 as [s1|s1|s1|s1| |y1]; simpl in *; auto.
  - apply orb_false_iff in Hg. destruct Hg as [H1 H2]. rewrite (Hns H1). simpl.
    destruct t2 as [s|s|s|s| |y]; simpl in *; try discriminate; try reflexivity. destruct y; try discriminate; reflexivity.
  - specialize (Hns Hg). unfold is_alnum in Hns. apply orb_false_iff in Hns. destruct Hns as [_ ->]. reflexivity.
  - now rewrite (Hns Hg).
Qed.

Lemma blank_follows t d : is_blank d = true -> follows_ok t d = true.
Proof.
  intros H. destruct t; simpl; auto.
  - now rewrite (blank_not_alnum _ H), (blank_not_lpar _ H).
  - now rewrite (blank_not_digit _ H).
  - now rewrite (blank_not_alnum _ H).
Qed.

Lemma blanks_hd ws : blanks ws = true -> blank (hd EmptyString ws) = true.
Proof. destruct ws; simpl; auto. intros H. apply andb_prop in H. tauto. Qed.
Lemma blanks_tl ws : blanks ws = true -> blanks (tl ws) = true.
Proof. destruct ws; simpl; auto. intros H. apply andb_prop in H. tauto. Qed.

Lemma render_head_ok m t1 ts ws :
  forallb (tok_ok m) ts = true -> blanks ws = true -> sepfree (t1 :: ts) = true -> head_ok t1 (render ts ws).
Proof.
  intros Hok Hb Hs d Hd.
  pose proof (blanks_hd _ Hb) as Hw.
  destruct ts as [|t2 ts]; simpl in Hd.
  - destruct (hd EmptyString ws) as [|c w]; [discriminate|]. simpl in Hd, Hw. inversion Hd; subst.
    apply andb_prop in Hw. apply blank_follows. tauto.
  - destruct (hd EmptyString ws) as [|c w].
    + simpl in Hd. simpl in Hok. apply andb_prop in Hok. destruct Hok as [Hok2 _].
      destruct (text_first _ _ Hok2) as [r Hr]. rewrite Hr in Hd. simpl in Hd. inversion Hd; subst.
      simpl in Hs. apply andb_prop in Hs. destruct Hs as [Hg _]. apply negb_true_iff in Hg.
      eapply glue_follows; eauto.
    + simpl in Hd, Hw. inversion Hd; subst. apply andb_prop in Hw. apply blank_follows. tauto.
Qed.

Lemma sepfree_tail t ts : sepfree (t :: ts) = true -> sepfree ts = true.
Proof. destruct ts; simpl; auto. intros H. apply andb_prop in H. tauto. Qed.

Lemma text_length m t : tok_ok m t = true -> 1 <= String.length (text t).
Proof. intros H. destruct (text_first _ _ H) as [r ->]. simpl. lia. Qed.

Lemma lex_fuel_render m ts : forall ws n,
  forallb (tok_ok m) ts = true -> blanks ws = true -> sepfree ts = true ->
  String.length (render ts ws) < n -> lex_fuel m n (render ts ws) = Some ts.
Proof.
  induction ts as [|t ts IH]; intros ws n Hok Hb Hs Hn.
  - simpl in *. apply lex_blank_only; auto. now apply blanks_hd.
  - simpl in Hok. apply andb_prop in Hok. destruct Hok as [Hok1 Hok].
    simpl in Hn |- *. set (w := hd EmptyString ws) in *.
    rewrite !slength_app in Hn.
    pose proof (text_length _ _ Hok1) as Hl.
    replace n with (String.length w + S (n - String.length w - 1)) by lia.
    rewrite lex_skip by (now apply blanks_hd).
    assert (Hh : head_ok t (render ts (tl ws))).
    { eapply render_head_ok; eauto. now apply blanks_tl. }
    rewrite (lex_tok m t _ _ Hok1 Hh).
    rewrite IH; auto.
    + now apply blanks_tl.
    + eapply sepfree_tail; eauto.
    + lia.
Qed.

Theorem lex_render m ts ws :
  forallb (tok_ok m) ts = true -> blanks ws = true -> sepfree ts = true -> lex m (render ts ws) = Some ts.
Proof. intros. unfold lex. apply lex_fuel_render; auto. Qed.

(* ------------------------------------------------------------------ whatever lexes was written that way *)

Lemma ocons_some {A} (a : A) o l : ocons a o = Some l -> exists l', o = Some l' /\ l = a :: l'.
Proof. destruct o; simpl; intros H; inversion H; eauto. Qed.

Lemma lex_fuel_sound m n : forall s ts, lex_fuel m n s = Some ts ->
  exists ws, blanks ws = true /\ List.length ws = S (List.length ts) /\ s = render ts ws /\ forallb (tok_ok m) ts = true.
Proof.
  induction n as [|n IH]; intros s ts H; [discriminate|].
  simpl in H. destruct s as [|c r].
  - inversion H; subst. exists [EmptyString]. repeat split; reflexivity.
  - destruct (is_blank c) eqn:Hbl.
    { destruct (IH _ _ H) as (ws & Hb & Hlen & E & Hok).
      destruct ws as [|w ws]; [discriminate|].
      exists (String c w :: ws). simpl in Hb. apply andb_prop in Hb. destruct Hb as [Hb1 Hb2].
      repeat split; auto.
      - simpl. unfold blank in *. simpl. now rewrite Hbl, Hb1, Hb2.
      - subst r. destruct ts; reflexivity. }
    destruct (is_alpha c) eqn:Hal.
    { destruct (span is_alnum r) as [w r1] eqn:Hsp. apply span_spec in Hsp. destruct Hsp as (E & Hw & Hst).
      assert (Hid : is_ident (String c w) = true) by (simpl; now rewrite Hal, Hw).
      destruct r1 as [|c1 r2].
      - apply ocons_some in H. destruct H as (l & H & ->). destruct (IH _ _ H) as (ws & Hb & Hlen & E' & Hok).
        exists (EmptyString :: ws). repeat split; auto.
        + simpl. now rewrite Hlen.
        + simpl. rewrite <- E'. subst r. now rewrite sapp_nil_r.
        + simpl. simpl in Hid. now rewrite Hid, Hok.
      - destruct (Ascii.eqb c1 "("%char) eqn:Hp.
        + apply Ascii.eqb_eq in Hp. subst c1.
          apply ocons_some in H. destruct H as (l & H & ->). destruct (IH _ _ H) as (ws & Hb & Hlen & E' & Hok).
          exists (EmptyString :: ws). repeat split; auto.
          * simpl. now rewrite Hlen.
          * simpl. rewrite <- E'. subst r. rewrite sapp_assoc. reflexivity.
          * simpl. simpl in Hid. now rewrite Hid, Hok.
        + apply ocons_some in H. destruct H as (l & H & ->). destruct (IH _ _ H) as (ws & Hb & Hlen & E' & Hok).
          exists (EmptyString :: ws). repeat split; auto.
          * simpl. now rewrite Hlen.
          * simpl. rewrite <- E'. now subst r.
          * simpl. simpl in Hid. now rewrite Hid, Hok. }
    destruct (is_digit c) eqn:Hdg.
    { destruct (span is_digit r) as [w r1] eqn:Hsp. apply span_spec in Hsp. destruct Hsp as (E & Hw & Hst).
      apply ocons_some in H. destruct H as (l & H & ->). destruct (IH _ _ H) as (ws & Hb & Hlen & E' & Hok).
      exists (EmptyString :: ws). repeat split; auto.
      - simpl. now rewrite Hlen.
      - simpl. rewrite <- E'. now subst r.
      - simpl. now rewrite Hdg, Hw, Hok. }
    destruct (sym_of_char c) as [y|] eqn:Hsy; [|discriminate].
    pose proof (sym_char_of_sym _ _ Hsy) as Hc.
    assert (Hgen : forall l, lex_fuel m n r = Some l -> tok_ok m (TSym y) = true ->
              exists ws, blanks ws = true /\ List.length ws = S (List.length (TSym y :: l)) /\
                         String c r = render (TSym y :: l) ws /\ forallb (tok_ok m) (TSym y :: l) = true).
    { intros l Hl Hy. destruct (IH _ _ Hl) as (ws & Hb & Hlen & E' & Hok).
      exists (EmptyString :: ws). repeat split; auto.
      - simpl. now rewrite Hlen.
      - simpl. rewrite <- E'. now subst c.
      - cbn [forallb]. now rewrite Hy, Hok. }
    destruct y.
    + (* [ *)
      destruct (is_mrange m) eqn:Hm.
      * destruct r as [|a [|b [|d r3]]]; try discriminate.
        destruct (Ascii.eqb a "0"%char && Ascii.eqb b "."%char && Ascii.eqb d "."%char) eqn:Hz; [|discriminate].
        apply andb_prop in Hz. destruct Hz as [Hz Hz3]. apply andb_prop in Hz. destruct Hz as [Hz1 Hz2].
        apply Ascii.eqb_eq in Hz1, Hz2, Hz3. subst a b d.
        apply ocons_some in H. destruct H as (l & H & ->). destruct (IH _ _ H) as (ws & Hb & Hlen & E' & Hok).
        exists (EmptyString :: ws). repeat split; auto.
        -- simpl. now rewrite Hlen.
        -- simpl. rewrite <- E'. now subst c.
        -- simpl. now rewrite Hm, Hok.
      * apply ocons_some in H. destruct H as (l & H & ->). apply Hgen; auto. simpl. now rewrite Hm.
    + apply ocons_some in H. destruct H as (l & H & ->). apply Hgen; auto.
    + apply ocons_some in H. destruct H as (l & H & ->). apply Hgen; auto.
    + apply ocons_some in H. destruct H as (l & H & ->). apply Hgen; auto.
    + apply ocons_some in H. destruct H as (l & H & ->). apply Hgen; auto.
    + apply ocons_some in H. destruct H as (l & H & ->). apply Hgen; auto.
    + apply ocons_some in H. destruct H as (l & H & ->). apply Hgen; auto.
    + apply ocons_some in H. destruct H as (l & H & ->). apply Hgen; auto.
    + apply ocons_some in H. destruct H as (l & H & ->). apply Hgen; auto.
    + (* . *)
      destruct (is_mdot m) eqn:Hm.
      * destruct (span is_alnum r) as [w r1] eqn:Hsp. apply span_spec in Hsp. destruct Hsp as (E & Hw & Hst).
        apply ocons_some in H. destruct H as (l & H & ->). destruct (IH _ _ H) as (ws & Hb & Hlen & E' & Hok).
        exists (EmptyString :: ws). repeat split; auto.
        -- simpl. now rewrite Hlen.
        -- simpl. rewrite <- E'. now subst c r.
        -- simpl. now rewrite Hm, Hw, Hok.
      * apply ocons_some in H. destruct H as (l & H & ->). apply Hgen; auto. simpl. now rewrite Hm.
Qed.

Theorem lex_sound m s ts : lex m s = Some ts ->
  exists ws, blanks ws = true /\ List.length ws = S (List.length ts) /\ s = render ts ws /\ forallb (tok_ok m) ts = true.
Proof. apply lex_fuel_sound. Qed.

(* ------------------------------------------------------------------ decimal values *)

Lemma value_acc_app a s1 s2 : value_acc a (s1 ++ s2) = value_acc (value_acc a s1) s2.
Proof. revert a. induction s1; simpl; auto. Qed.

Lemma value_snoc s c : value (s ++ String c EmptyString) = (value s * 10 + digit_val c)%N.
Proof. unfold value. rewrite value_acc_app. reflexivity. Qed.

Lemma value_acc_zero a s : all_chars (fun c => Ascii.eqb c "0"%char) s = true -> value_acc a s = (a * 10 ^ N.of_nat (String.length s))%N.
Proof.
  revert a. induction s as [|c s IH]; intros a H.
  - simpl. now rewrite N.mul_1_r.
  - simpl in H. apply andb_prop in H. destruct H as [Hc Hs]. apply Ascii.eqb_eq in Hc. subst c.
    simpl value_acc. rewrite IH by auto. simpl String.length. rewrite Nat2N.inj_succ, N.pow_succ_r'.
    change (digit_val "0"%char) with 0%N. ring.
Qed.

(* leading zeros do not change the value: int("007") = int("7") *)
Lemma value_leading_zeros z s : all_chars (fun c => Ascii.eqb c "0"%char) z = true -> value (z ++ s) = value s.
Proof.
  intros H. unfold value. rewrite value_acc_app. rewrite (value_acc_zero _ _ H). rewrite N.mul_0_l. reflexivity.
Qed.
