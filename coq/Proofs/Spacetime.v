(* C16: the emitted `timestamps` counter discipline (slip) yields pairwise distinct stamps, and the
   canvas API of the modelled runtime is observation-only. *)
From Coq Require Import String List ZArith Bool Arith Lia FMapPositive.
Require Import TV.Model.Py TV.Model.Rt TV.Model.Interp TV.Proofs.RtFrame.
Import ListNotations.
Close Scope Z_scope.

Section Slip.
  Variable A : Type.
  Variable eq_dec : forall x y : A, {x = y} + {x <> y}.

  (* what the emitted code computes: for the i-th activity with space stamp s,
     timestamps[s] is incremented (or set to 1) and the time stamp is timestamps[s] - 1,
     i.e. the number of earlier activities with the same space stamp *)
  Fixpoint stamps (seen : list A) (l : list A) : list (A * nat) :=
    match l with
    | [] => []
    | s :: l' => (s, count_occ eq_dec seen s) :: stamps (s :: seen) l'
    end.

  Lemma stamps_lower_bound l : forall seen s n, In (s, n) (stamps seen l) -> count_occ eq_dec seen s <= n.
  Proof.
    induction l as [|x l IH]; intros seen s n H; [destruct H|].
    cbn [stamps] in H. destruct H as [H|H].
    - injection H as <- <-. lia.
    - apply IH in H. cbn [count_occ] in H. destruct (eq_dec x s); lia.
  Qed.

  Theorem slip_unique l : forall seen, NoDup (stamps seen l).
  Proof.
    induction l as [|x l IH]; intros seen; cbn [stamps]; constructor; [|apply IH].
    intros H. apply stamps_lower_bound in H. cbn [count_occ] in H.
    destruct (eq_dec x x) as [_|N]; [lia|apply N; reflexivity].
  Qed.

  (* and the stamps are exactly one per activity, in order *)
  Theorem stamps_length l seen : length (stamps seen l) = length l.
  Proof. revert seen. induction l as [|x l IH]; intros seen; cbn [stamps length]; [reflexivity|]. rewrite IH. reflexivity. Qed.

  Theorem stamps_space l seen : map fst (stamps seen l) = l.
  Proof. revert seen. induction l as [|x l IH]; intros seen; cbn [stamps map fst]; [reflexivity|]. rewrite IH. reflexivity. Qed.
End Slip.

(* the canvas / metrics entry points of the modelled runtime never write an existing object:
   any global API call except the Tensor constructor only allocates or logs *)
Theorem observation_calls_frame g args kw st v st' :
  global_call g args kw st = Ok (v, st') -> frame st st'.
Proof.
  unfold global_call.
  destruct (String.eqb g "Tensor").
  { destruct (kwarg "rank_ids" kw); [|discriminate]. destruct (str_list v0); [|discriminate].
    set (a1 := match l with [] => alloc (OCell (VInt 0)) st | _ :: _ => alloc (OFiber (length l) []) st end).
    assert (F1 : frame st (snd a1)) by (subst a1; destruct l; apply alloc_frame).
    destruct a1 as [root st1]. cbn [snd] in F1. intros H. injection H as H.
    subst st'. eapply frame_trans; [exact F1|].
    match goal with |- frame st1 {| env := _; heap := PM.add _ ?o _; next := _; log := _ |} => exact (alloc_frame o st1) end. }
  destruct (String.eqb g "len").
  { destruct args as [|a [|? ?]]; try discriminate. destruct a; try (destruct (items_of st _); [|discriminate]);
      intros H; injection H as _ <-; apply frame_refl. }
  destruct (String.eqb g "enumerate").
  { destruct args as [|a [|? ?]]; try discriminate. destruct a; try (destruct (items_of st _); [|discriminate]);
      intros H; injection H as _ <-; apply frame_refl. }
  destruct (String.eqb g "min" || String.eqb g "max").
  { intros H. assert (st' = st); [|subst; apply frame_refl]. revert H.
    repeat match goal with
           | |- context [match ?x with _ => _ end] => destruct x; try discriminate
           | |- Ok (_, _) = Ok (_, _) -> _ => let H := fresh in intros H; injection H as _ <-; reflexivity
           end. }
  destruct (String.eqb g "int").
  { intros H. assert (st' = st); [|subst; apply frame_refl]. revert H.
    repeat match goal with
           | |- context [match ?x with _ => _ end] => destruct x; try discriminate
           | |- Ok (_, _) = Ok (_, _) -> _ => let H := fresh in intros H; injection H as _ <-; reflexivity
           end. }
  destruct (String.eqb g "set").
  { destruct args.
    - pose proof (alloc_frame (ODict []) st) as F. destruct (alloc (ODict []) st) as [c st1]. cbn [snd] in F.
      intros H. injection H as _ <-. exact F.
    - intros H. injection H as _ <-. apply frame_refl. }
  destruct (String.eqb g "createCanvas").
  { pose proof (alloc_frame (OCanvas (length args)) st) as F. destruct (alloc (OCanvas (length args)) st) as [c st1].
    cbn [snd] in F. intros H. injection H as _ <-. destruct F as [F1 [F2 F3]]. split; [exact F1|]. split; [exact F2|exact F3]. }
  intros H. injection H as _ <-. split; [reflexivity|]. split; [cbn; lia|reflexivity].
Qed.
