(* Algebraic laws of the modelled fibertree runtime (Model/Rt.v), for tries of ANY size:
   partitioning (splitUniform / splitEqual / splitNonUniform) is undone by mergeRanks,
   flattenRanks is undone by unflattenRanks, swizzling by the identity order is the identity.
   All statements are about the very definitions the interpreter runs (C02, C03). *)
From Coq Require Import ZArith List Bool Lia ZifyBool Sorted Permutation.
Require Import TV.Model.Rt TV.Proofs.OccLaws TV.Proofs.SplitArith.
Import ListNotations.
Open Scope Z_scope.
Ltac Zify.zify_post_hook ::= Z.to_euclidean_division_equations.

(* ------------------------------------------------------------ comparisons on VInt *)
Lemma veqb_int a b : veqb (VInt a) (VInt b) = (a =? b).
Proof.
  unfold veqb, vcmp, as_num, ncmp. destruct (Z.compare_spec a b); destruct (Z.eqb_spec a b); try reflexivity; lia.
Qed.

Lemma vltb_int a b : vltb (VInt a) (VInt b) = (a <? b).
Proof. reflexivity. Qed.

Lemma vleb_int a b : vleb (VInt a) (VInt b) = (a <=? b).
Proof. unfold vleb, vcmp, as_num, ncmp, Z.leb. destruct (a ?= b); reflexivity. Qed.

Lemma coordZ_int z : coordZ (VInt z) = Some z.
Proof. reflexivity. Qed.

Arguments veqb : simpl never.
Arguments vltb : simpl never.
Arguments vleb : simpl never.
Arguments coordZ : simpl never.

(* ------------------------------------------------------------ well-formed fibers *)
(* the coordinate of an element is an integer ... *)
Definition int_key {A} (ct : value * A) : Prop := exists z, fst ct = VInt z.
(* ... namely this one *)
Definition kz {A} (ct : value * A) : Z := match fst ct with VInt z => z | _ => 0 end.
(* coordinates are VInt z with z strictly increasing *)
Definition int_sorted {A} (l : list (value * A)) : Prop :=
  Forall int_key l /\ StronglySorted (fun a b => kz a < kz b) l.
Definition nonneg_keys {A} (l : list (value * A)) : Prop := Forall (fun ct => 0 <= kz ct) l.

Lemma int_key_eq {A} (ct : value * A) : int_key ct -> ct = (VInt (kz ct), snd ct).
Proof. destruct ct as [c x]. intros [z E]. cbn in E. subst c. reflexivity. Qed.

(* ---- StronglySorted toolkit ---- *)
Lemma SS_app {A} (R : A -> A -> Prop) l1 l2 :
  StronglySorted R (l1 ++ l2) <->
  StronglySorted R l1 /\ StronglySorted R l2 /\ (forall a b, In a l1 -> In b l2 -> R a b).
Proof.
  induction l1 as [|x l1 IH]; cbn [app].
  - split; [intros H; repeat split; [constructor|exact H|intros a b []]|intros [_ [H _]]; exact H].
  - split.
    + intros H. inversion H as [|? ? Hs Hf]; subst. apply IH in Hs. destruct Hs as [H1 [H2 H3]].
      rewrite Forall_app in Hf. destruct Hf as [Hf1 Hf2]. split; [constructor; assumption|]. split; [assumption|].
      intros a b [<-|Ha] Hb; [rewrite Forall_forall in Hf2; apply Hf2; exact Hb|apply H3; assumption].
    + intros [H1 [H2 H3]]. inversion H1 as [|? ? Hs Hf]; subst. constructor.
      * apply IH. split; [assumption|]. split; [assumption|]. intros a b Ha Hb. apply H3; [right; exact Ha|exact Hb].
      * rewrite Forall_app. split; [assumption|]. rewrite Forall_forall. intros b Hb. apply H3; [left; reflexivity|exact Hb].
Qed.

Lemma SS_filter {A} (R : A -> A -> Prop) f l : StronglySorted R l -> StronglySorted R (filter f l).
Proof.
  induction 1 as [|x l Hs IH Hf]; cbn [filter]; [constructor|].
  destruct (f x); [|exact IH]. constructor; [exact IH|].
  rewrite Forall_forall in *. intros y Hy. apply filter_In in Hy. apply Hf. tauto.
Qed.

Lemma SS_impl {A} (R R' : A -> A -> Prop) l : (forall a b, R a b -> R' a b) -> StronglySorted R l -> StronglySorted R' l.
Proof.
  intros HR. induction 1 as [|x l Hs IH Hf]; constructor; [exact IH|].
  rewrite Forall_forall in *. intros y Hy. apply HR, Hf, Hy.
Qed.

Lemma Forall_filter {A} (P : A -> Prop) f l : Forall P l -> Forall P (filter f l).
Proof. rewrite !Forall_forall. intros H x Hx. apply filter_In in Hx. apply H. tauto. Qed.

Lemma int_sorted_app {A} (l1 l2 : list (value * A)) :
  int_sorted (l1 ++ l2) <-> int_sorted l1 /\ int_sorted l2 /\ (forall a b, In a l1 -> In b l2 -> kz a < kz b).
Proof. unfold int_sorted. rewrite Forall_app, SS_app. tauto. Qed.

Lemma int_sorted_filter {A} f (l : list (value * A)) : int_sorted l -> int_sorted (filter f l).
Proof. intros [H1 H2]. split; [apply Forall_filter; exact H1|apply SS_filter; exact H2]. Qed.

Lemma int_sorted_nil {A} : int_sorted (@nil (value * A)).
Proof. split; constructor. Qed.

Lemma int_sorted_cons_inv {A} (ct : value * A) l : int_sorted (ct :: l) ->
  int_key ct /\ int_sorted l /\ forall b, In b l -> kz ct < kz b.
Proof.
  intros [H1 H2]. inversion H1; subst. inversion H2 as [|? ? Hs Hf]; subst.
  split; [assumption|]. split; [split; assumption|]. rewrite Forall_forall in Hf. exact Hf.
Qed.

(* ---- alookup / ainsert / asort on sorted integer fibers ---- *)
Lemma alookup_above {A} c (l : list (value * A)) :
  Forall int_key l -> (forall a, In a l -> kz a < c) -> alookup (VInt c) l = None.
Proof.
  induction l as [|ct l IH]; intros Hk Hlt; [reflexivity|].
  inversion Hk as [|? ? Hk1 Hk2]; subst. rewrite (int_key_eq ct Hk1). cbn [alookup].
  rewrite veqb_int. assert (kz ct < c) by (apply Hlt; left; reflexivity).
  destruct (Z.eqb_spec c (kz ct)); [lia|]. apply IH; [exact Hk2|]. intros a Ha. apply Hlt. right. exact Ha.
Qed.

Lemma ainsert_above {A} c x (l : list (value * A)) :
  Forall int_key l -> (forall a, In a l -> kz a < c) -> ainsert (VInt c) x l = l ++ [(VInt c, x)].
Proof.
  induction l as [|ct l IH]; intros Hk Hlt; [reflexivity|].
  inversion Hk as [|? ? Hk1 Hk2]; subst. rewrite (int_key_eq ct Hk1). cbn [ainsert app].
  rewrite veqb_int, vltb_int. assert (kz ct < c) by (apply Hlt; left; reflexivity).
  destruct (Z.ltb_spec c (kz ct)); [lia|]. destruct (Z.eqb_spec c (kz ct)); [lia|].
  f_equal. apply IH; [exact Hk2|]. intros a Ha. apply Hlt. right. exact Ha.
Qed.

(* the last element of a sorted fiber: lookup finds it, insert replaces it *)
Lemma alookup_last {A} c x (l : list (value * A)) :
  Forall int_key l -> (forall a, In a l -> kz a < c) -> alookup (VInt c) (l ++ [(VInt c, x)]) = Some x.
Proof.
  induction l as [|ct l IH]; intros Hk Hlt; cbn [app alookup].
  - rewrite veqb_int, Z.eqb_refl. reflexivity.
  - inversion Hk as [|? ? Hk1 Hk2]; subst. rewrite (int_key_eq ct Hk1).
    rewrite veqb_int. assert (kz ct < c) by (apply Hlt; left; reflexivity).
    destruct (Z.eqb_spec c (kz ct)); [lia|]. apply IH; [exact Hk2|]. intros a Ha. apply Hlt. right. exact Ha.
Qed.

Lemma ainsert_last {A} c x y (l : list (value * A)) :
  Forall int_key l -> (forall a, In a l -> kz a < c) -> ainsert (VInt c) y (l ++ [(VInt c, x)]) = l ++ [(VInt c, y)].
Proof.
  induction l as [|ct l IH]; intros Hk Hlt; cbn [app ainsert].
  - rewrite veqb_int, vltb_int, Z.eqb_refl, Z.ltb_irrefl. reflexivity.
  - inversion Hk as [|? ? Hk1 Hk2]; subst. rewrite (int_key_eq ct Hk1).
    rewrite veqb_int, vltb_int. assert (kz ct < c) by (apply Hlt; left; reflexivity).
    destruct (Z.ltb_spec c (kz ct)); [lia|]. destruct (Z.eqb_spec c (kz ct)); [lia|].
    f_equal. apply IH; [exact Hk2|]. intros a Ha. apply Hlt. right. exact Ha.
Qed.

Lemma asort_acc {A} (l acc : list (value * A)) : int_sorted (acc ++ l) ->
  fold_left (fun acc cx => ainsert (fst cx) (snd cx) acc) l acc = acc ++ l.
Proof.
  revert acc. induction l as [|ct l IH]; intros acc H; cbn [fold_left]; [rewrite app_nil_r; reflexivity|].
  pose proof H as H0. apply int_sorted_app in H0. destruct H0 as [[Ha _] [Hl Hlt]].
  apply int_sorted_cons_inv in Hl. destruct Hl as [Hk _].
  assert (Hlt' : forall a, In a acc -> kz a < kz ct) by (intros a Hin; apply Hlt; [exact Hin|left; reflexivity]).
  destruct ct as [c x]. destruct Hk as [z Hz]. cbn [fst] in Hz. subst c. cbn [fst snd]. unfold kz in Hlt' at 2. cbn [fst] in Hlt'.
  rewrite ainsert_above by assumption.
  rewrite IH; rewrite <- app_assoc; [reflexivity|exact H].
Qed.

Lemma asort_sorted {A} (l : list (value * A)) : int_sorted l -> asort l = l.
Proof. intros H. unfold asort. rewrite asort_acc; [reflexivity|exact H]. Qed.

(* ---- tmerge / merge1 of consecutive, disjoint, increasing fibers is concatenation ---- *)
Lemma tmerge_append fuel la lb : int_sorted (la ++ lb) ->
  tmerge (S fuel) (TNode la) (TNode lb) = TNode (la ++ lb).
Proof.
  cbn [tmerge]. intros H. f_equal. revert la H.
  induction lb as [|ct lb IH]; intros la H; cbn [fold_left]; [rewrite app_nil_r; reflexivity|].
  pose proof H as H0. apply int_sorted_app in H0. destruct H0 as [[Ha _] [Hl Hlt]].
  apply int_sorted_cons_inv in Hl. destruct Hl as [Hk _].
  assert (Hlt' : forall a, In a la -> kz a < kz ct) by (intros a Hin; apply Hlt; [exact Hin|left; reflexivity]).
  destruct ct as [c x]. destruct Hk as [z Hz]. cbn [fst] in Hz. subst c. cbn [fst snd]. unfold kz in Hlt' at 2. cbn [fst] in Hlt'.
  rewrite alookup_above by assumption. rewrite ainsert_above by assumption.
  rewrite IH; rewrite <- app_assoc; [reflexivity|exact H].
Qed.

Lemma merge_fold_concat ll : forall acc, int_sorted (acc ++ concat ll) ->
  fold_left (fun acc l' => tmerge 64 acc (TNode (asort l'))) ll (TNode acc) = TNode (acc ++ concat ll).
Proof.
  induction ll as [|l' ll IH]; intros acc H; cbn [fold_left concat] in *; [rewrite app_nil_r; reflexivity|].
  rewrite app_assoc in H. pose proof H as H0. apply int_sorted_app in H0. destruct H0 as [H1 _].
  pose proof H1 as H2. apply int_sorted_app in H2. destruct H2 as [_ [H2 _]].
  rewrite asort_sorted by exact H2. rewrite tmerge_append by exact H1.
  rewrite IH by exact H. rewrite <- app_assoc. reflexivity.
Qed.

Lemma all_some_map_Some {A B} (f : A -> B) l : all_some (map (fun x => Some (f x)) l) = Some (map f l).
Proof. induction l as [|x l IH]; cbn [map all_some]; [reflexivity|rewrite IH; reflexivity]. Qed.

(* the lower fibers of a two-level trie *)
Definition lowers (parts : list (value * trie)) : list (list (value * trie)) :=
  map (fun pt => tchildren (snd pt)) parts.
Definition all_nodes (parts : list (value * trie)) : Prop :=
  Forall (fun pt => exists l', snd pt = TNode l') parts.

Lemma merge1_lowers parts : all_nodes parts ->
  all_some (map (fun ct : value * trie => match snd ct with TNode l' => Some l' | TLeaf _ => None end) parts) = Some (lowers parts).
Proof.
  induction 1 as [|pt parts [l' E] Hf IH]; cbn [map all_some lowers]; [reflexivity|].
  rewrite E. fold (lowers parts). rewrite IH. reflexivity.
Qed.

(* KEY LAW: whenever the lower fibers of `parts`, concatenated in order, form a sorted fiber l
   (consecutive disjoint pieces), mergeRanks gives back exactly l *)
Theorem merge1_concat parts : all_nodes parts -> int_sorted (concat (lowers parts)) ->
  merge1 (TNode parts) = Some (TNode (concat (lowers parts))).
Proof.
  intros Hn Hs. unfold merge1. rewrite merge1_lowers by exact Hn.
  rewrite (merge_fold_concat (lowers parts) []); [reflexivity|exact Hs].
Qed.

(* ------------------------------------------------------------ splitUniform *)
Lemma zinsert_In z l x : In x (zinsert z l) <-> x = z \/ In x l.
Proof.
  induction l as [|y l IH]; cbn [zinsert In]; [intuition congruence|].
  destruct (Z.ltb_spec z y); [cbn [In]; intuition congruence|]. destruct (Z.eqb_spec z y); cbn [In]; [subst; intuition congruence|]. rewrite IH. intuition congruence.
Qed.

Lemma zinsert_sorted z l : StronglySorted Z.lt l -> StronglySorted Z.lt (zinsert z l).
Proof.
  induction 1 as [|y l Hs IH Hf]; cbn [zinsert]; [repeat constructor|].
  destruct (Z.ltb_spec z y).
  - constructor; [constructor; assumption|]. constructor; [assumption|].
    rewrite Forall_forall in *. intros x Hx. specialize (Hf x Hx). lia.
  - destruct (Z.eqb_spec z y); [constructor; assumption|]. constructor; [exact IH|].
    rewrite Forall_forall in *. intros x Hx. apply zinsert_In in Hx. destruct Hx as [->|Hx]; [lia|apply Hf; exact Hx].
Qed.

Lemma zrange_In k n : forall lo, In k (zrange lo n) <-> lo <= k < lo + Z.of_nat n.
Proof.
  induction n as [|n IH]; intros lo; cbn [zrange In]; [lia|]. rewrite IH. lia.
Qed.

(* the upper coordinates splitUniform creates, as a function of the (integer) coordinates *)
Definition su_starts (step pre post : Z) (cs : list Z) : list Z :=
  fold_left (fun acc c =>
               let kmin := (c - step - post) / step + 1 in
               let kmax := (c + pre) / step in
               fold_left (fun acc k => if 0 <=? k then zinsert (step * k) acc else acc)
                         (zrange kmin (Z.to_nat (kmax - kmin + 1))) acc) cs [].

Lemma su_inner step ks : forall acc,
  let r := fold_left (fun acc k => if 0 <=? k then zinsert (step * k) acc else acc) ks acc in
  (StronglySorted Z.lt acc -> StronglySorted Z.lt r) /\
  (forall x, In x r <-> In x acc \/ exists k, In k ks /\ 0 <= k /\ x = step * k).
Proof.
  induction ks as [|k ks IH]; intros acc; cbn [fold_left].
  - split; [tauto|]. intros x. split; [tauto|]. intros [H|[k [[] _]]]. exact H.
  - specialize (IH (if 0 <=? k then zinsert (step * k) acc else acc)). cbn zeta in IH. destruct IH as [IH1 IH2]. split.
    + intros H. apply IH1. destruct (0 <=? k); [apply zinsert_sorted|]; exact H.
    + intros x. rewrite IH2. destruct (Z.leb_spec 0 k).
      * rewrite zinsert_In. split.
        -- intros [[->|H1]|[k' [H1 H2]]]; [right; exists k; cbn; tauto|tauto|right; exists k'; cbn; tauto].
        -- intros [H1|[k' [[<-|H1] [H2 H3]]]]; [tauto|tauto|right; exists k'; tauto].
      * split.
        -- intros [H1|[k' [H1 H2]]]; [tauto|right; exists k'; cbn; tauto].
        -- intros [H1|[k' [[<-|H1] [H2 H3]]]]; [tauto|lia|right; exists k'; tauto].
Qed.

Lemma su_range step pre post c k : 0 < step ->
  (c - step - post) / step + 1 <= k < (c - step - post) / step + 1 + Z.of_nat (Z.to_nat ((c + pre) / step - ((c - step - post) / step + 1) + 1))
  <-> step * k - pre <= c < step * k + step + post.
Proof. intros Hs. split; intros H; nia. Qed.

Lemma su_outer step pre post cs : 0 < step -> forall acc,
  let r := fold_left (fun acc c =>
               let kmin := (c - step - post) / step + 1 in
               let kmax := (c + pre) / step in
               fold_left (fun acc k => if 0 <=? k then zinsert (step * k) acc else acc)
                         (zrange kmin (Z.to_nat (kmax - kmin + 1))) acc) cs acc in
  (StronglySorted Z.lt acc -> StronglySorted Z.lt r) /\
  (forall x, In x r <-> In x acc \/ exists c k, In c cs /\ 0 <= k /\ x = step * k /\ x - pre <= c < x + step + post).
Proof.
  intros Hs. induction cs as [|c cs IH]; intros acc; cbn [fold_left].
  - split; [tauto|]. intros x. split; [tauto|]. intros [H|[c [k [[] _]]]]. exact H.
  - cbn zeta. match goal with |- context [fold_left _ cs ?a] => specialize (IH a); pose proof (su_inner step (zrange ((c - step - post) / step + 1) (Z.to_nat ((c + pre) / step - ((c - step - post) / step + 1) + 1))) acc) as HI end.
    cbn zeta in IH, HI. destruct IH as [IH1 IH2]. destruct HI as [HI1 HI2]. split; [tauto|].
    intros x. rewrite IH2, HI2. split.
    + intros [[H|[k [H1 [H2 H3]]]]|[c' [k [H1 H2]]]]; [tauto| |right; exists c', k; cbn; tauto].
      right. exists c, k. apply zrange_In in H1. apply su_range in H1; [|exact Hs]. subst x. cbn. split; [tauto|]. split; [lia|]. split; [reflexivity|lia].
    + intros [H|[c' [k [[<-|H1] [H2 [H3 H4]]]]]]; [tauto| |right; exists c', k; tauto].
      left. right. exists k. split; [|tauto]. apply zrange_In. apply su_range; [exact Hs|]. subst x. lia.
Qed.

Lemma su_starts_spec step pre post cs : 0 < step ->
  StronglySorted Z.lt (su_starts step pre post cs) /\
  (forall x, In x (su_starts step pre post cs) <->
             exists c k, In c cs /\ 0 <= k /\ x = step * k /\ x - pre <= c < x + step + post).
Proof.
  intros Hs. destruct (su_outer step pre post cs Hs []) as [H1 H2]. split; [apply H1; constructor|].
  intros x. unfold su_starts. rewrite H2. cbn [In]. tauto.
Qed.

Lemma coords_int (l : list (value * trie)) : Forall int_key l ->
  all_some (map (fun ct => coordZ (fst ct)) l) = Some (map kz l).
Proof.
  induction 1 as [|ct l Hk Hf IH]; cbn [map all_some]; [reflexivity|].
  rewrite IH. destruct ct as [c x]. destruct Hk as [z Hz]. cbn [fst] in Hz. subst c. reflexivity.
Qed.

(* partition p of splitUniform(step, pre, post) *)
Definition su_sel (step pre post p : Z) (l : list (value * trie)) : list (value * trie) :=
  filter (fun ct => (p - pre <=? kz ct) && (kz ct <? p + step + post)) l.

Lemma split_uniform_eq step pre post l : 0 < step -> Forall int_key l ->
  split_uniform step pre post (TNode l) =
  Some (TNode (map (fun p => (VInt p, TNode (su_sel step pre post p l))) (su_starts step pre post (map kz l)))).
Proof.
  intros Hs Hk. unfold split_uniform. destruct (Z.leb_spec step 0); [lia|].
  rewrite coords_int by exact Hk. fold (su_starts step pre post (map kz l)).
  do 2 f_equal. apply map_ext. intros p. do 2 f_equal. unfold su_sel. apply filter_ext_in.
  intros ct Hin. rewrite Forall_forall in Hk. destruct ct as [c x]. destruct (Hk _ Hin) as [z Hz]. cbn [fst] in Hz. subst c. reflexivity.
Qed.

(* ---- a generic partition lemma: a list sorted by a class function w, cut into its classes ---- *)
Lemma split_class {A} (w : A -> Z) p (l : list A) :
  StronglySorted (fun a b => w a <= w b) l -> (forall a, In a l -> p <= w a) ->
  l = filter (fun a => w a =? p) l ++ filter (fun a => negb (w a =? p)) l.
Proof.
  induction 1 as [|x l Hs IH Hf]; intros Hp; [reflexivity|]. cbn [filter].
  destruct (Z.eqb_spec (w x) p) as [E|E]; cbn [negb app].
  - f_equal. apply IH. intros a Ha. apply Hp. right. exact Ha.
  - assert (Hx : p < w x) by (specialize (Hp x (or_introl eq_refl)); lia).
    rewrite Forall_forall in Hf.
    assert (E1 : filter (fun a => w a =? p) l = []).
    { clear IH. induction l as [|y l IHl]; [reflexivity|]. cbn [filter].
      assert (w x <= w y) by (apply Hf; left; reflexivity). destruct (Z.eqb_spec (w y) p); [lia|].
      apply IHl; [inversion Hs; assumption| |]; intros a Ha; [apply Hf|apply Hp]; cbn [In] in *; tauto. }
    assert (E2 : filter (fun a => negb (w a =? p)) l = l).
    { clear IH E1. induction l as [|y l IHl]; [reflexivity|]. cbn [filter].
      assert (w x <= w y) by (apply Hf; left; reflexivity). destruct (Z.eqb_spec (w y) p); [lia|]. cbn [negb]. f_equal.
      apply IHl; [inversion Hs; assumption| |]; intros a Ha; [apply Hf|apply Hp]; cbn [In] in *; tauto. }
    rewrite E1, E2. reflexivity.
Qed.

Lemma filter_filter_eq {A} (f g : A -> bool) l : (forall a, In a l -> g a = true -> f a = true) ->
  filter g (filter f l) = filter g l.
Proof.
  induction l as [|x l IH]; intros H; [reflexivity|]. cbn [filter].
  destruct (f x) eqn:Ef; cbn [filter].
  - destruct (g x); [f_equal|]; apply IH; intros a Ha; apply H; right; exact Ha.
  - destruct (g x) eqn:Eg; [rewrite (H x (or_introl eq_refl) Eg) in Ef; discriminate|].
    apply IH. intros a Ha. apply H. right. exact Ha.
Qed.

Lemma classes_concat {A} (w : A -> Z) (starts : list Z) : StronglySorted Z.lt starts -> forall (l : list A),
  StronglySorted (fun a b => w a <= w b) l -> (forall a, In a l -> In (w a) starts) ->
  concat (map (fun p => filter (fun a => w a =? p) l) starts) = l.
Proof.
  induction 1 as [|p ps Hs IH Hf]; intros l Hl Hin; cbn [map concat].
  - destruct l as [|a l]; [reflexivity|]. destruct (Hin a (or_introl eq_refl)).
  - rewrite Forall_forall in Hf.
    assert (Hp : forall a, In a l -> p <= w a).
    { intros a Ha. destruct (Hin a Ha) as [<-|H]; [lia|]. specialize (Hf _ H). lia. }
    etransitivity; [|symmetry; exact (split_class w p l Hl Hp)]. f_equal.
    rewrite <- (IH (filter (fun a => negb (w a =? p)) l)).
    + f_equal. apply map_ext_in. intros q Hq. symmetry. apply filter_filter_eq.
      intros a _ Ha. specialize (Hf q Hq). destruct (Z.eqb_spec (w a) q); [|discriminate]. destruct (Z.eqb_spec (w a) p); [lia|reflexivity].
    + apply SS_filter. exact Hl.
    + intros a Ha. apply filter_In in Ha. destruct Ha as [Ha Hne]. destruct (Hin a Ha) as [E|H]; [|exact H].
      rewrite <- E, Z.eqb_refl in Hne. discriminate.
Qed.

(* (a) splitUniform(step) without halos cuts a sorted non-negative integer fiber into consecutive pieces *)
Theorem split_uniform_partition step l : 0 < step -> int_sorted l -> nonneg_keys l ->
  exists parts, split_uniform step 0 0 (TNode l) = Some (TNode parts) /\
    int_sorted parts /\
    Forall (fun pt => exists k, 0 <= k /\ pt = (VInt (step * k), TNode (su_sel step 0 0 (step * k) l)) /\
                                su_sel step 0 0 (step * k) l <> []) parts /\
    (forall ct, In ct l -> In (VInt (upper step (kz ct)), TNode (su_sel step 0 0 (upper step (kz ct)) l)) parts) /\
    concat (lowers parts) = l.
Proof.
  intros Hs [Hk Hsort] Hnn. eexists. split; [apply split_uniform_eq; assumption|].
  destruct (su_starts_spec step 0 0 (map kz l) Hs) as [Hss Hin]. set (starts := su_starts step 0 0 (map kz l)) in *.
  assert (HinU : forall ct, In ct l -> In (upper step (kz ct)) starts).
  { intros ct Hct. apply Hin. exists (kz ct), (kz ct / step). unfold nonneg_keys in Hnn. rewrite Forall_forall in Hnn. specialize (Hnn _ Hct).
    split; [apply in_map; exact Hct|]. unfold upper. split; [apply Z.div_pos; lia|]. split; [reflexivity|]. nia. }
  split; [|split; [|split]].
  - split.
    + rewrite Forall_forall. intros pt Hpt. apply in_map_iff in Hpt. destruct Hpt as [p [<- _]]. exists p. reflexivity.
    + clear Hin HinU. induction Hss as [|p ps Hs' IH Hf]; cbn [map]; constructor; [exact IH|].
      rewrite Forall_forall in *. intros pt Hpt. apply in_map_iff in Hpt. destruct Hpt as [q [<- Hq]]. cbn. apply Hf. exact Hq.
  - rewrite Forall_forall. intros pt Hpt. apply in_map_iff in Hpt. destruct Hpt as [p [<- Hp]].
    apply Hin in Hp. destruct Hp as [c [k [Hc [Hk0 [-> Hr]]]]]. exists k. split; [exact Hk0|]. split; [reflexivity|].
    apply in_map_iff in Hc. destruct Hc as [ct [<- Hct]]. intros E.
    assert (Hx : In ct (su_sel step 0 0 (step * k) l)) by (apply filter_In; split; [exact Hct|lia]).
    rewrite E in Hx. destruct Hx.
  - intros ct Hct. apply in_map_iff. exists (upper step (kz ct)). split; [reflexivity|apply HinU; exact Hct].
  - unfold lowers. rewrite map_map. cbn [snd tchildren].
    etransitivity; [|apply (classes_concat (fun ct => upper step (kz ct)) starts Hss l)].
    + f_equal. apply map_ext_in. intros p Hp. apply Hin in Hp. destruct Hp as [_ [k [_ [_ [-> _]]]]].
      apply filter_ext. intros ct. pose proof (upper_covers step (kz ct) Hs) as Hc.
      destruct (Z.eqb_spec (upper step (kz ct)) (step * k)) as [E|E].
      * rewrite E in Hc. destruct (Z.leb_spec (step * k - 0) (kz ct)); [|lia]. destruct (Z.ltb_spec (kz ct) (step * k + step + 0)); [reflexivity|lia].
      * destruct (Z.leb_spec (step * k - 0) (kz ct)); [|reflexivity]. destruct (Z.ltb_spec (kz ct) (step * k + step + 0)); [|reflexivity].
        exfalso. apply E. symmetry. apply upper_unique; [exact Hs|exists k; reflexivity|lia].
    + eapply SS_impl; [|exact Hsort]. cbn beta. intros a b Hab. apply upper_mono; lia.
    + exact HinU.
Qed.

Lemma parts_all_nodes parts : Forall (fun pt : value * trie => exists c l', pt = (c, TNode l')) parts -> all_nodes parts.
Proof. apply Forall_impl. intros pt [c [l' ->]]. exists l'. reflexivity. Qed.

(* (b) split then merge is the identity *)
Theorem split_uniform_merge1 step l : 0 < step -> int_sorted l -> nonneg_keys l ->
  exists t', split_uniform step 0 0 (TNode l) = Some t' /\ merge1 t' = Some (TNode l).
Proof.
  intros Hs Hl Hnn. destruct (split_uniform_partition step l Hs Hl Hnn) as [parts [E [_ [Hp [_ Hc]]]]].
  exists (TNode parts). split; [exact E|]. rewrite merge1_concat; [rewrite Hc; reflexivity| |rewrite Hc; exact Hl].
  apply parts_all_nodes. revert Hp. apply Forall_impl. intros pt [k [_ [-> _]]]. eexists. eexists. reflexivity.
Qed.

Lemma int_sorted_map_starts {A} (f : Z -> A) starts : StronglySorted Z.lt starts ->
  int_sorted (map (fun p => (VInt p, f p)) starts).
Proof.
  intros Hss. split.
  - rewrite Forall_forall. intros pt Hpt. apply in_map_iff in Hpt. destruct Hpt as [p [<- _]]. exists p. reflexivity.
  - induction Hss as [|p ps Hs' IH Hf]; cbn [map]; constructor; [exact IH|].
    rewrite Forall_forall in *. intros pt Hpt. apply in_map_iff in Hpt. destruct Hpt as [q [<- Hq]]. cbn. apply Hf. exact Hq.
Qed.

(* (c) with halos: which partitions exist, and what each one holds (elements may occur in several) *)
Theorem split_uniform_halo step pre post l : 0 < step -> Forall int_key l ->
  exists parts, split_uniform step pre post (TNode l) = Some (TNode parts) /\
    int_sorted parts /\
    (forall pt, In pt parts <->
       exists k ct, 0 <= k /\ In ct l /\ step * k - pre <= kz ct < step * k + step + post /\
                    pt = (VInt (step * k), TNode (su_sel step pre post (step * k) l))) /\
    (forall p ct, In ct (su_sel step pre post p l) <-> In ct l /\ p - pre <= kz ct < p + step + post).
Proof.
  intros Hs Hk. eexists. split; [apply split_uniform_eq; assumption|].
  destruct (su_starts_spec step pre post (map kz l) Hs) as [Hss Hin]. split; [apply int_sorted_map_starts; exact Hss|]. split.
  - intros pt. rewrite in_map_iff. split.
    + intros [p [<- Hp]]. apply Hin in Hp. destruct Hp as [c [k [Hc [Hk0 [-> Hr]]]]].
      apply in_map_iff in Hc. destruct Hc as [ct [<- Hct]]. exists k, ct. tauto.
    + intros [k [ct [Hk0 [Hct [Hr ->]]]]]. exists (step * k). split; [reflexivity|]. apply Hin.
      exists (kz ct), k. split; [apply in_map; exact Hct|]. tauto.
  - intros p ct. unfold su_sel. rewrite filter_In. split; intros [H1 H2]; (split; [exact H1|lia]).
Qed.

(* with non-negative halos the home partition step*(c/step) of every element c >= 0 exists and holds it *)
Corollary split_uniform_halo_home step pre post l ct : 0 < step -> 0 <= pre -> 0 <= post -> Forall int_key l ->
  In ct l -> 0 <= kz ct ->
  exists parts, split_uniform step pre post (TNode l) = Some (TNode parts) /\
    In (VInt (upper step (kz ct)), TNode (su_sel step pre post (upper step (kz ct)) l)) parts /\
    In ct (su_sel step pre post (upper step (kz ct)) l).
Proof.
  intros Hs Hpre Hpost Hk Hct H0. destruct (split_uniform_halo step pre post l Hs Hk) as [parts [E [_ [H1 H2]]]].
  exists parts. split; [exact E|]. pose proof (upper_covers step (kz ct) Hs) as Hc. split.
  - apply H1. exists (kz ct / step), ct. fold (upper step (kz ct)). split; [apply Z.div_pos; lia|]. split; [exact Hct|]. split; [lia|reflexivity].
  - apply H2. split; [exact Hct|lia].
Qed.

(* ---- Examples: the hypotheses are satisfiable by a non-trivial fiber ---- *)
Definition ex_leaf z := TLeaf (VInt z).
Definition ex_fiber : list (value * trie) :=
  [(VInt 0, ex_leaf 10); (VInt 1, ex_leaf 11); (VInt 3, ex_leaf 13); (VInt 4, ex_leaf 14); (VInt 7, ex_leaf 17); (VInt 12, ex_leaf 22)].

Ltac prove_int_sorted :=
  split; [repeat constructor; eexists; reflexivity|repeat constructor; cbn; lia].

Example ex_fiber_sorted : int_sorted ex_fiber.
Proof. prove_int_sorted. Qed.
Example ex_fiber_nonneg : nonneg_keys ex_fiber.
Proof. repeat constructor; cbn; lia. Qed.

Example split_uniform_merge1_ex :
  split_uniform 3 0 0 (TNode ex_fiber) =
    Some (TNode [(VInt 0, TNode [(VInt 0, ex_leaf 10); (VInt 1, ex_leaf 11)]);
                 (VInt 3, TNode [(VInt 3, ex_leaf 13); (VInt 4, ex_leaf 14)]);
                 (VInt 6, TNode [(VInt 7, ex_leaf 17)]);
                 (VInt 12, TNode [(VInt 12, ex_leaf 22)])]) /\
  exists t', split_uniform 3 0 0 (TNode ex_fiber) = Some t' /\ merge1 t' = Some (TNode ex_fiber).
Proof.
  split; [vm_compute; reflexivity|].
  apply split_uniform_merge1; [lia|exact ex_fiber_sorted|exact ex_fiber_nonneg].
Qed.

(* with halos the same element sits in several partitions, and merging then ADDS the copies:
   split-with-halo followed by merge is NOT the identity on payloads *)
Example split_uniform_halo_ex :
  split_uniform 3 1 2 (TNode ex_fiber) =
    Some (TNode [(VInt 0, TNode [(VInt 0, ex_leaf 10); (VInt 1, ex_leaf 11); (VInt 3, ex_leaf 13); (VInt 4, ex_leaf 14)]);
                 (VInt 3, TNode [(VInt 3, ex_leaf 13); (VInt 4, ex_leaf 14); (VInt 7, ex_leaf 17)]);
                 (VInt 6, TNode [(VInt 7, ex_leaf 17)]);
                 (VInt 9, TNode [(VInt 12, ex_leaf 22)]);
                 (VInt 12, TNode [(VInt 12, ex_leaf 22)])]) /\
  (exists parts, split_uniform 3 1 2 (TNode ex_fiber) = Some (TNode parts) /\
     In (VInt (upper 3 7), TNode (su_sel 3 1 2 (upper 3 7) ex_fiber)) parts /\
     In (VInt 7, ex_leaf 17) (su_sel 3 1 2 (upper 3 7) ex_fiber)).
Proof.
  split; [vm_compute; reflexivity|].
  apply (split_uniform_halo_home 3 1 2 ex_fiber (VInt 7, ex_leaf 17)); try lia; [apply ex_fiber_sorted|cbn; tauto|cbn; lia].
Qed.

(* the hypothesis 0 <= c of (a)/(b) is necessary: a negative coordinate is dropped by split_uniform *)
Example split_uniform_negative_lost :
  split_uniform 3 0 0 (TNode [(VInt (-2), ex_leaf 10); (VInt 1, ex_leaf 11)]) = Some (TNode [(VInt 0, TNode [(VInt 1, ex_leaf 11)])]).
Proof. vm_compute. reflexivity. Qed.

(* ------------------------------------------------------------ splitEqual *)
Definition se_parts (n : Z) (l : list (value * trie)) : list (value * trie) :=
  map (fun ch => (match ch with (c, _) :: _ => c | [] => VNone end, TNode ch)) (chunks (S (length l)) (Z.to_nat n) l).

Lemma split_equal_eq n l : 0 < n -> split_equal n (TNode l) = Some (TNode (se_parts n l)).
Proof. intros Hn. unfold split_equal. destruct (Z.leb_spec n 0); [lia|reflexivity]. Qed.

Lemma se_parts_lowers n l : lowers (se_parts n l) = chunks (S (length l)) (Z.to_nat n) l.
Proof. unfold lowers, se_parts. rewrite map_map. cbn [snd tchildren]. apply map_id. Qed.

(* (d) splitEqual(n) then mergeRanks is the identity; the chunks are consecutive, non-empty, of n elements
   (but possibly the last) and each chunk's upper coordinate is its first coordinate *)
Theorem split_equal_merge1 n l : 0 < n -> int_sorted l ->
  exists t', split_equal n (TNode l) = Some t' /\ merge1 t' = Some (TNode l).
Proof.
  intros Hn Hl. exists (TNode (se_parts n l)). split; [apply split_equal_eq; exact Hn|].
  assert (Hc : concat (lowers (se_parts n l)) = l).
  { rewrite se_parts_lowers. apply chunks_concat; lia. }
  rewrite merge1_concat; [rewrite Hc; reflexivity| |rewrite Hc; exact Hl].
  unfold se_parts, all_nodes. rewrite Forall_forall. intros pt Hpt. apply in_map_iff in Hpt. destruct Hpt as [ch [<- _]]. eexists. reflexivity.
Qed.

Theorem split_equal_partition n l : 0 < n -> int_sorted l ->
  exists parts, split_equal n (TNode l) = Some (TNode parts) /\
    concat (lowers parts) = l /\
    int_sorted parts /\
    Forall (fun pt => exists c x ch, pt = (c, TNode ((c, x) :: ch)) /\ (length ((c, x) :: ch) <= Z.to_nat n)%nat) parts /\
    (forall pre pt post, parts = pre ++ pt :: post -> post <> [] -> length (tchildren (snd pt)) = Z.to_nat n).
Proof.
  intros Hn Hl. exists (se_parts n l). split; [apply split_equal_eq; exact Hn|].
  assert (Hn' : (0 < Z.to_nat n)%nat) by lia. assert (Hf : (length l < S (length l))%nat) by lia.
  pose proof (chunks_concat (Z.to_nat n) Hn' _ l Hf) as Hc.
  pose proof (chunks_sizes (Z.to_nat n) Hn' _ l Hf) as Hsz.
  pose proof (chunks_full (Z.to_nat n) Hn' _ l Hf) as Hfull.
  split; [rewrite se_parts_lowers; exact Hc|]. split; [|split].
  - (* upper coordinates: heads of consecutive non-empty pieces of a sorted fiber *)
    unfold se_parts. revert Hc Hsz Hl. generalize (chunks (S (length l)) (Z.to_nat n) l) as chs. clear.
    intros chs. revert l. induction chs as [|ch chs IH]; intros l Hc Hsz Hl; cbn [map]; [apply int_sorted_nil|].
    cbn [concat] in Hc. subst l. inversion Hsz as [|? ? [Hne _] Hsz']; subst.
    apply int_sorted_app in Hl. destruct Hl as [Hch [Hrest Hlt]].
    specialize (IH _ eq_refl Hsz' Hrest). destruct ch as [|[c x] ch]; [congruence|].
    apply int_sorted_cons_inv in Hch. destruct Hch as [Hk [_ Hgt]]. destruct IH as [IH1 IH2]. split.
    + constructor; [|exact IH1]. destruct Hk as [z Hz]. exists z. exact Hz.
    + constructor; [exact IH2|]. rewrite Forall_forall. intros pt Hpt. apply in_map_iff in Hpt.
      destruct Hpt as [ch' [<- Hch']]. rewrite Forall_forall in Hsz'. destruct (Hsz' _ Hch') as [Hne' _].
      destruct ch' as [|[c' x'] ch']; [congruence|]. unfold kz at 1 2. cbn [fst].
      specialize (Hlt (c, x) (c', x')). unfold kz in Hlt at 1 2. cbn [fst] in Hlt. apply Hlt; [left; reflexivity|].
      apply in_concat. exists ((c', x') :: ch'). split; [exact Hch'|left; reflexivity].
  - unfold se_parts. rewrite Forall_forall. intros pt Hpt. apply in_map_iff in Hpt. destruct Hpt as [ch [<- Hch]].
    rewrite Forall_forall in Hsz. destruct (Hsz _ Hch) as [Hne Hle]. destruct ch as [|[c x] ch]; [congruence|].
    exists c, x, ch. split; [reflexivity|exact Hle].
  - intros pre pt post E Hpost. unfold se_parts in E. apply map_eq_app in E. destruct E as [l1 [l2 [E [E1 E2]]]].
    apply map_eq_cons in E2. destruct E2 as [ch [l3 [E2 [E3 E4]]]]. subst l2 pt. cbn [snd tchildren].
    apply (Hfull l1 ch l3 E). intros ->. apply Hpost. subst post. reflexivity.
Qed.

Example split_equal_merge1_ex :
  split_equal 4 (TNode ex_fiber) =
    Some (TNode [(VInt 0, TNode [(VInt 0, ex_leaf 10); (VInt 1, ex_leaf 11); (VInt 3, ex_leaf 13); (VInt 4, ex_leaf 14)]);
                 (VInt 7, TNode [(VInt 7, ex_leaf 17); (VInt 12, ex_leaf 22)])]) /\
  exists t', split_equal 4 (TNode ex_fiber) = Some t' /\ merge1 t' = Some (TNode ex_fiber).
Proof. split; [vm_compute; reflexivity|]. apply split_equal_merge1; [lia|exact ex_fiber_sorted]. Qed.

(* ------------------------------------------------------------ flattenRanks / unflattenRanks *)
(* a two-level trie: sorted integer upper fiber, every child a non-empty sorted integer fiber *)
Definition wf2 (l : list (value * trie)) : Prop :=
  int_sorted l /\ Forall (fun ct => exists l', snd ct = TNode l' /\ int_sorted l' /\ l' <> []) l.

(* the flattened fiber: tuple coordinates (a, b), upper-major *)
Definition fl2 (l : list (value * trie)) : list (value * trie) :=
  concat (map (fun ct => map (fun ct' => (VTuple [fst ct; fst ct'], snd ct')) (tchildren (snd ct))) l).

Lemma all_some_map_in {A B} (f : A -> option B) (g : A -> B) l :
  (forall x, In x l -> f x = Some (g x)) -> all_some (map f l) = Some (map g l).
Proof.
  induction l as [|x l IH]; intros H; cbn [map all_some]; [reflexivity|].
  rewrite (H x (or_introl eq_refl)), IH; [reflexivity|]. intros y Hy. apply H. right. exact Hy.
Qed.

Lemma flatten1_eq l : wf2 l -> flatten1 (TNode l) = Some (TNode (fl2 l)).
Proof.
  intros [[Hk _] Hc]. unfold flatten1, fl2.
  rewrite (all_some_map_in _ (fun ct => map (fun ct' => (VTuple [fst ct; fst ct'], snd ct')) (tchildren (snd ct)))); [reflexivity|].
  intros ct Hct. rewrite Forall_forall in Hk, Hc. destruct (Hc _ Hct) as [l' [E [[Hk' _] _]]]. destruct (Hk _ Hct) as [a Ha].
  rewrite E. cbn [tchildren]. f_equal. apply map_ext_in. intros ct' Hct'. rewrite Forall_forall in Hk'.
  destruct (Hk' _ Hct') as [b Hb]. rewrite Ha, Hb. reflexivity.
Qed.

Definition uf_step (acc : trie) (ps : list value * trie) : trie :=
  match ps with
  | ([a; b], s) =>
      let sub := match alookup a (tchildren acc) with Some s' => tchildren s' | None => [] end in
      TNode (ainsert a (TNode (ainsert b s sub)) (tchildren acc))
  | _ => acc end.

Definition ps2 (l : list (value * trie)) : list (list value * trie) :=
  concat (map (fun ct => map (fun ct' => ([fst ct; fst ct'], snd ct')) (tchildren (snd ct))) l).

Lemma unflatten1_eq l : unflatten1 (TNode (fl2 l)) = Some (fold_left uf_step (ps2 l) (TNode [])).
Proof.
  unfold unflatten1. fold uf_step.
  rewrite (all_some_map_in _ (fun ct => match fst ct with VTuple [a; b] => ([a; b], snd ct) | _ => ([], snd ct) end)).
  - do 2 f_equal. unfold fl2, ps2. rewrite concat_map, map_map. f_equal. apply map_ext. intros ct. rewrite map_map. reflexivity.
  - intros x Hx. unfold fl2 in Hx. apply in_concat in Hx. destruct Hx as [lx [H1 H2]]. apply in_map_iff in H1.
    destruct H1 as [ct [<- _]]. apply in_map_iff in H2. destruct H2 as [ct' [<- _]]. reflexivity.
Qed.

Lemma uf_inner a pre l' : Forall int_key pre -> (forall x, In x pre -> kz x < a) -> forall cur, int_sorted (cur ++ l') ->
  fold_left uf_step (map (fun ct' => ([VInt a; fst ct'], snd ct')) l') (TNode (pre ++ [(VInt a, TNode cur)])) =
  TNode (pre ++ [(VInt a, TNode (cur ++ l'))]).
Proof.
  intros Hk Hlt. induction l' as [|ct' l' IH]; intros cur Hs; cbn [map fold_left]; [rewrite app_nil_r; reflexivity|].
  pose proof Hs as H0. apply int_sorted_app in H0. destruct H0 as [[Hc _] [Hl Hcl]].
  apply int_sorted_cons_inv in Hl. destruct Hl as [[b Hb] _].
  assert (Hlt' : forall x, In x cur -> kz x < b).
  { intros x Hx. specialize (Hcl x ct' Hx (or_introl eq_refl)). unfold kz in Hcl at 2. rewrite Hb in Hcl. exact Hcl. }
  destruct ct' as [c s]. cbn [fst] in Hb. subst c. cbn [fst snd uf_step tchildren].
  rewrite alookup_last by assumption. cbn [tchildren]. rewrite (ainsert_above b s cur) by assumption. rewrite ainsert_last by assumption.
  rewrite IH; rewrite <- app_assoc; [reflexivity|exact Hs].
Qed.

Lemma uf_outer l : forall pre, int_sorted (pre ++ l) ->
  Forall (fun ct => exists l', snd ct = TNode l' /\ int_sorted l' /\ l' <> []) l ->
  fold_left uf_step (ps2 l) (TNode pre) = TNode (pre ++ l).
Proof.
  induction l as [|ct l IH]; intros pre Hs Hc; [rewrite app_nil_r; reflexivity|].
  unfold ps2. cbn [map concat]. fold (ps2 l). rewrite fold_left_app.
  inversion Hc as [|? ? [l' [E [Hl' Hne]]] Hc']; subst.
  pose proof Hs as H0. apply int_sorted_app in H0. destruct H0 as [[Hk _] [Hl Hcl]].
  apply int_sorted_cons_inv in Hl. destruct Hl as [[a Ha] _].
  assert (Hlt : forall x, In x pre -> kz x < a).
  { intros x Hx. specialize (Hcl x ct Hx (or_introl eq_refl)). unfold kz in Hcl at 2. rewrite Ha in Hcl. exact Hcl. }
  destruct ct as [c t]. cbn [fst snd] in *. subst c t. cbn [tchildren].
  destruct l' as [|ct' l']; [congruence|]. cbn [map fold_left].
  pose proof Hl' as H1. apply int_sorted_cons_inv in H1. destruct H1 as [[b Hb] _].
  destruct ct' as [c s]. cbn [fst] in Hb. subst c. cbn [fst snd uf_step tchildren].
  rewrite alookup_above by assumption. cbn [ainsert]. rewrite ainsert_above by assumption.
  rewrite (uf_inner a pre l' Hk Hlt [(VInt b, s)] Hl'). cbn [app].
  rewrite IH; [rewrite <- app_assoc; reflexivity|rewrite <- app_assoc; exact Hs|exact Hc'].
Qed.

(* (f) flatten then unflatten is the identity on well-formed two-level tries *)
Theorem flatten1_unflatten1 l : wf2 l ->
  exists t', flatten1 (TNode l) = Some t' /\ unflatten1 t' = Some (TNode l).
Proof.
  intros H. exists (TNode (fl2 l)). split; [apply flatten1_eq; exact H|].
  rewrite unflatten1_eq. destruct H as [Hs Hc]. rewrite (uf_outer l [] Hs Hc). reflexivity.
Qed.

(* paths are preserved up to pairing the first two coordinates, in the same order *)
Definition pair2 (pv : list value * value) : list value * value :=
  match fst pv with a :: b :: r => (VTuple [a; b] :: r, snd pv) | _ => pv end.

Lemma paths_node l : paths (TNode l) = flat_map (fun ct => map (fun pv => (fst ct :: fst pv, snd pv)) (paths (snd ct))) l.
Proof. reflexivity. Qed.

Theorem flatten1_paths l : wf2 l -> paths (TNode (fl2 l)) = map pair2 (paths (TNode l)).
Proof.
  intros [_ Hc]. rewrite !paths_node. unfold fl2. induction Hc as [|ct l [l' [E _]] Hc IH]; [reflexivity|].
  cbn [map concat flat_map]. rewrite flat_map_app, map_app, IH. f_equal. clear IH.
  rewrite E. cbn [tchildren]. rewrite paths_node. generalize (fst ct) as a. intros a. clear E.
  induction l' as [|ct' l' IH']; [reflexivity|]. cbn [map flat_map]. rewrite !map_app, IH'. f_equal.
  rewrite !map_map. apply map_ext. intros pv. reflexivity.
Qed.

(* the flattened coordinates are the tuples (a, b), strictly increasing in lexicographic order *)
Lemma vltb_tuple2 a b a' b' :
  vltb (VTuple [VInt a; VInt b]) (VTuple [VInt a'; VInt b']) = (a <? a') || ((a =? a') && (b <? b')).
Proof.
  unfold vltb. cbn [vcmp as_num ncmp]. destruct (Z.compare_spec a a'); destruct (Z.ltb_spec a a'); destruct (Z.eqb_spec a a'); try lia; cbn [orb andb]; try reflexivity.
  destruct (Z.compare_spec b b'); destruct (Z.ltb_spec b b'); try lia; reflexivity.
Qed.

Definition tuple_key (ct : value * trie) : Prop := exists a b, fst ct = VTuple [VInt a; VInt b].

Theorem flatten1_lex_sorted l : wf2 l ->
  Forall tuple_key (fl2 l) /\ StronglySorted (fun x y => vltb (fst x) (fst y) = true) (fl2 l).
Proof.
  intros [Hs Hc]. unfold fl2. induction Hc as [|ct l [l' [E [Hl' _]]] Hc IH]; cbn [map concat]; [split; constructor|].
  apply int_sorted_cons_inv in Hs. destruct Hs as [[a Ha] [Hs Hlt]]. specialize (IH Hs). destruct IH as [IH1 IH2].
  rewrite E, Ha. cbn [tchildren]. split.
  - rewrite Forall_app. split; [|exact IH1]. rewrite Forall_forall. intros x Hx. apply in_map_iff in Hx.
    destruct Hx as [ct' [<- Hct']]. destruct Hl' as [Hk' _]. rewrite Forall_forall in Hk'. destruct (Hk' _ Hct') as [b Hb].
    exists a, b. cbn [fst]. rewrite Hb. reflexivity.
  - apply SS_app. split; [|split; [exact IH2|]].
    + destruct Hl' as [Hk' Hs']. clear E. induction Hs' as [|ct' l' Hs' IH' Hf]; cbn [map]; constructor.
      * apply IH'. inversion Hk'; assumption.
      * inversion Hk' as [|? ? [b Hb] Hk'']; subst. rewrite Forall_forall in *. intros x Hx. apply in_map_iff in Hx.
        destruct Hx as [ct'' [<- Hct'']]. destruct (Hk'' _ Hct'') as [b' Hb']. specialize (Hf _ Hct'').
        unfold kz in Hf. rewrite Hb, Hb' in Hf. cbn [fst]. rewrite Hb, Hb', vltb_tuple2.
        destruct (Z.ltb_spec a a); [lia|]. rewrite Z.eqb_refl. cbn. lia.
    + intros x y Hx Hy. apply in_map_iff in Hx. destruct Hx as [ct' [<- Hct']].
      apply in_concat in Hy. destruct Hy as [ly [H1 H2]]. apply in_map_iff in H1. destruct H1 as [cu [<- Hcu]].
      apply in_map_iff in H2. destruct H2 as [cu' [<- Hcu']]. cbn [fst].
      rewrite Forall_forall in IH1.
      assert (Hy : In (VTuple [fst cu; fst cu'], snd cu') (concat (map (fun ct0 => map (fun ct'0 => (VTuple [fst ct0; fst ct'0], snd ct'0)) (tchildren (snd ct0))) l))).
      { apply in_concat. eexists. split; [apply in_map_iff; exists cu; split; [reflexivity|exact Hcu]|]. apply in_map_iff. exists cu'. split; [reflexivity|exact Hcu']. }
      destruct (IH1 _ Hy) as [a' [b' Hab]]. cbn [fst] in Hab. injection Hab as Ha' Hb'.
      destruct Hl' as [Hk' _]. rewrite Forall_forall in Hk'. destruct (Hk' _ Hct') as [b Hb].
      rewrite Hb, Ha', Hb', vltb_tuple2. specialize (Hlt _ Hcu). unfold kz in Hlt. rewrite Ha, Ha' in Hlt.
      destruct (Z.ltb_spec a a'); [reflexivity|lia].
Qed.

Definition ex_trie2 : list (value * trie) :=
  [(VInt 0, TNode [(VInt 1, ex_leaf 1); (VInt 5, ex_leaf 2)]); (VInt 2, TNode [(VInt 0, ex_leaf 3)]);
   (VInt 3, TNode [(VInt 0, ex_leaf 4); (VInt 5, ex_leaf 5)])].

Example ex_trie2_wf : wf2 ex_trie2.
Proof.
  split; [prove_int_sorted|]. repeat constructor; eexists; (split; [reflexivity|]); (split; [prove_int_sorted|discriminate]).
Qed.

Example flatten1_unflatten1_ex :
  flatten1 (TNode ex_trie2) =
    Some (TNode [(VTuple [VInt 0; VInt 1], ex_leaf 1); (VTuple [VInt 0; VInt 5], ex_leaf 2); (VTuple [VInt 2; VInt 0], ex_leaf 3);
                 (VTuple [VInt 3; VInt 0], ex_leaf 4); (VTuple [VInt 3; VInt 5], ex_leaf 5)]) /\
  exists t', flatten1 (TNode ex_trie2) = Some t' /\ unflatten1 t' = Some (TNode ex_trie2).
Proof. split; [vm_compute; reflexivity|]. apply flatten1_unflatten1. exact ex_trie2_wf. Qed.

(* non-emptiness of the children is necessary: an empty child disappears in the flattened fiber *)
Example flatten1_empty_child_lost :
  match flatten1 (TNode [(VInt 0, TNode [(VInt 1, ex_leaf 1)]); (VInt 2, TNode [])]) with
  | Some t' => unflatten1 t' | None => None end = Some (TNode [(VInt 0, TNode [(VInt 1, ex_leaf 1)])]).
Proof. vm_compute. reflexivity. Qed.

(* ------------------------------------------------------------ splitNonUniform *)
Definition hd_opt (zs : list Z) : option Z := match zs with b :: _ => Some b | [] => None end.

(* partition [lo, hi) (hi = None: unbounded above) *)
Definition sb_sel (lo : Z) (hi : option Z) (l : list (value * trie)) : list (value * trie) :=
  filter (fun ct => (lo <=? kz ct) && match hi with Some h => kz ct <? h | None => true end) l.

Fixpoint sbz (zs : list Z) (l : list (value * trie)) : list (value * trie) :=
  match zs with
  | [] => []
  | b :: zs' => match sb_sel b (hd_opt zs') l with
                | [] => sbz zs' l
                | sel => (VInt b, TNode sel) :: sbz zs' l
                end
  end.

Lemma split_bounds_eq zs l : Forall int_key l -> split_bounds (map VInt zs) l = sbz zs l.
Proof.
  intros Hk. induction zs as [|b zs IH]; [reflexivity|]. cbn [map split_bounds sbz]. rewrite IH.
  assert (E : filter (fun ct : value * trie => vleb (VInt b) (fst ct) &&
                match match map VInt zs with b' :: _ => Some b' | [] => None end with Some h => vltb (fst ct) h | None => true end) l
              = sb_sel b (hd_opt zs) l).
  { unfold sb_sel. apply filter_ext_in. intros ct Hct. rewrite Forall_forall in Hk. destruct (Hk _ Hct) as [z Hz].
    unfold kz. rewrite Hz, vleb_int. destruct zs as [|b' zs]; cbn [map hd_opt]; [reflexivity|]. rewrite vltb_int. reflexivity. }
  rewrite E. destruct (sb_sel b (hd_opt zs) l); reflexivity.
Qed.

Lemma sbz_lowers b zs l : concat (lowers (sbz (b :: zs) l)) = sb_sel b (hd_opt zs) l ++ concat (lowers (sbz zs l)).
Proof. cbn [sbz]. destruct (sb_sel b (hd_opt zs) l) eqn:E; [reflexivity|]. cbn [lowers map concat snd tchildren]. reflexivity. Qed.

Lemma sbz_restrict m zs l : Forall (fun b => m <= b) zs -> sbz zs (filter (fun ct => m <=? kz ct) l) = sbz zs l.
Proof.
  induction 1 as [|b zs Hb Hf IH]; [reflexivity|]. cbn [sbz]. rewrite IH.
  assert (E : sb_sel b (hd_opt zs) (filter (fun ct => m <=? kz ct) l) = sb_sel b (hd_opt zs) l).
  { unfold sb_sel. apply filter_filter_eq. intros a _ Ha. lia. }
  rewrite E. reflexivity.
Qed.

Lemma split_threshold h (l : list (value * trie)) : StronglySorted (fun a b => kz a < kz b) l ->
  l = filter (fun ct => kz ct <? h) l ++ filter (fun ct => h <=? kz ct) l.
Proof.
  intros Hs. pose proof (split_class (fun ct : value * trie => if kz ct <? h then 0 else 1) 0 l) as H.
  rewrite H at 1.
  - f_equal; apply filter_ext; intros ct; destruct (Z.ltb_spec (kz ct) h); destruct (Z.leb_spec h (kz ct)); try reflexivity; lia.
  - eapply SS_impl; [|exact Hs]. cbn beta. intros a b Hab. destruct (Z.ltb_spec (kz a) h); destruct (Z.ltb_spec (kz b) h); lia.
  - intros a _. destruct (kz a <? h); lia.
Qed.

Lemma sbz_concat zs : StronglySorted Z.lt zs -> forall l, StronglySorted (fun a b => kz a < kz b) l ->
  match zs with b0 :: _ => forall ct, In ct l -> b0 <= kz ct | [] => l = [] end ->
  concat (lowers (sbz zs l)) = l.
Proof.
  induction 1 as [|b zs Hs IH Hf]; intros l Hl Hlo; [subst l; reflexivity|].
  rewrite sbz_lowers. destruct zs as [|b' zs].
  - cbn [sbz lowers map concat hd_opt]. rewrite app_nil_r. unfold sb_sel.
    clear - Hlo. induction l as [|ct l IHl]; [reflexivity|]. cbn [filter].
    pose proof (Hlo ct (or_introl eq_refl)). destruct (Z.leb_spec b (kz ct)); [|lia]. cbn [andb]. f_equal.
    apply IHl. intros x Hx. apply Hlo. right. exact Hx.
  - cbn [hd_opt]. inversion Hf as [|? ? Hbb' _]; subst.
    rewrite <- (sbz_restrict b' (b' :: zs) l).
    + rewrite IH.
      * rewrite (split_threshold b' l Hl) at 3. f_equal. unfold sb_sel. apply filter_ext_in. intros ct Hct.
        specialize (Hlo ct Hct). destruct (Z.leb_spec b (kz ct)); [reflexivity|lia].
      * apply SS_filter. exact Hl.
      * intros ct Hct. apply filter_In in Hct. lia.
    + constructor; [lia|]. inversion Hs as [|? ? _ Hf']; subst. revert Hf'. apply Forall_impl. intros x Hx. lia.
Qed.

Lemma sorted_decomp_unique zs : StronglySorted Z.lt zs -> forall pre b post pre' post',
  zs = pre ++ b :: post -> zs = pre' ++ b :: post' -> pre = pre' /\ post = post'.
Proof.
  induction 1 as [|x zs Hs IH Hf]; intros pre b post pre' post' E E'; [destruct pre; discriminate|].
  rewrite Forall_forall in Hf.
  destruct pre as [|p pre]; destruct pre' as [|p' pre']; cbn [app] in E, E'; injection E as E1 E2; injection E' as E1' E2'.
  - split; congruence.
  - exfalso. assert (In b zs) by (rewrite E2'; apply in_or_app; right; left; reflexivity). specialize (Hf b H). lia.
  - exfalso. assert (In b zs) by (rewrite E2; apply in_or_app; right; left; reflexivity). specialize (Hf b H). lia.
  - destruct (IH pre b post pre' post' E2 E2') as [-> ->]. split; congruence.
Qed.

Lemma sbz_spec zs l :
  Forall (fun pt => exists pre b post, zs = pre ++ b :: post /\ pt = (VInt b, TNode (sb_sel b (hd_opt post) l)) /\
                                       sb_sel b (hd_opt post) l <> []) (sbz zs l).
Proof.
  induction zs as [|b zs IH]; [constructor|]. cbn [sbz].
  assert (IH' : Forall (fun pt => exists pre b0 post, b :: zs = pre ++ b0 :: post /\ pt = (VInt b0, TNode (sb_sel b0 (hd_opt post) l)) /\
                                                       sb_sel b0 (hd_opt post) l <> []) (sbz zs l)).
  { revert IH. apply Forall_impl. intros pt [pre [b0 [post [E H]]]]. exists (b :: pre), b0, post. rewrite E. split; [reflexivity|exact H]. }
  destruct (sb_sel b (hd_opt zs) l) eqn:E; [exact IH'|]. constructor; [|exact IH'].
  exists [], b, zs. rewrite E. split; [reflexivity|]. split; [reflexivity|discriminate].
Qed.

Lemma sbz_sorted zs l : StronglySorted Z.lt zs -> int_sorted (sbz zs l).
Proof.
  induction 1 as [|b zs Hs IH Hf]; [apply int_sorted_nil|]. cbn [sbz].
  destruct (sb_sel b (hd_opt zs) l) eqn:E; [exact IH|]. destruct IH as [IH1 IH2]. split.
  - constructor; [exists b; reflexivity|exact IH1].
  - constructor; [exact IH2|]. pose proof (sbz_spec zs l) as Hsp. rewrite Forall_forall in *. intros pt Hpt.
    destruct (Hsp _ Hpt) as [pre [b0 [post [E0 [-> _]]]]]. unfold kz. cbn [fst]. apply Hf. rewrite E0. apply in_or_app. right. left. reflexivity.
Qed.

(* (e) splitNonUniform(boundaries) cuts a sorted integer fiber into consecutive non-empty pieces, one per
   boundary interval [b_j, b_j+1) that holds an element, and mergeRanks undoes it.  Hypotheses: boundaries
   integer and strictly increasing, the first boundary <= every coordinate (otherwise elements are dropped). *)
Theorem split_nonuniform_partition zs l : StronglySorted Z.lt zs -> int_sorted l ->
  match zs with b0 :: _ => forall ct, In ct l -> b0 <= kz ct | [] => l = [] end ->
  exists parts, split_nonuniform (map VInt zs) (TNode l) = Some (TNode parts) /\
    concat (lowers parts) = l /\
    int_sorted parts /\
    Forall (fun pt => exists b sel, pt = (VInt b, TNode sel) /\ sel <> [] /\ In b zs /\
                                    forall ct, In ct sel <-> In ct l /\ in_part zs b (kz ct)) parts /\
    (forall ct, In ct l -> exists b sel, In (VInt b, TNode sel) parts /\ In ct sel /\ part_of zs (kz ct) = Some b).
Proof.
  intros Hzs [Hk Hl] Hlo. exists (sbz zs l). unfold split_nonuniform. rewrite split_bounds_eq by exact Hk.
  split; [reflexivity|]. pose proof (sbz_concat zs Hzs l Hl Hlo) as Hc. split; [exact Hc|]. split; [apply sbz_sorted; exact Hzs|].
  assert (Hsp : Forall (fun pt => exists b sel, pt = (VInt b, TNode sel) /\ sel <> [] /\ In b zs /\
                                    forall ct, In ct sel <-> In ct l /\ in_part zs b (kz ct)) (sbz zs l)).
  { pose proof (sbz_spec zs l) as Hsp. revert Hsp. apply Forall_impl. intros pt [pre [b [post [E [-> Hne]]]]].
    exists b, (sb_sel b (hd_opt post) l). split; [reflexivity|]. split; [exact Hne|]. split; [rewrite E; apply in_or_app; right; left; reflexivity|].
    intros ct. unfold sb_sel. rewrite filter_In. split.
    - intros [H1 H2]. split; [exact H1|]. exists pre, post. split; [exact E|]. destruct post; cbn [hd_opt] in H2; lia.
    - intros [H1 [pre' [post' [E' [H2 H3]]]]]. split; [exact H1|].
      destruct (sorted_decomp_unique zs Hzs pre b post pre' post' E E') as [_ <-]. destruct post; cbn [hd_opt]; lia. }
  split; [exact Hsp|]. intros ct Hct. rewrite <- Hc in Hct. apply in_concat in Hct. destruct Hct as [lx [H1 H2]].
  unfold lowers in H1. apply in_map_iff in H1. destruct H1 as [pt [<- Hpt]]. rewrite Forall_forall in Hsp.
  destruct (Hsp _ Hpt) as [b [sel [-> [_ [_ Hin]]]]]. cbn [snd tchildren] in H2. exists b, sel. split; [exact Hpt|]. split; [exact H2|].
  apply Hin in H2. destruct H2 as [_ H2]. apply (follow_exactly_one zs (kz ct) Hzs). exact H2.
Qed.

Theorem split_nonuniform_merge1 zs l : StronglySorted Z.lt zs -> int_sorted l ->
  match zs with b0 :: _ => forall ct, In ct l -> b0 <= kz ct | [] => l = [] end ->
  exists t', split_nonuniform (map VInt zs) (TNode l) = Some t' /\ merge1 t' = Some (TNode l).
Proof.
  intros Hzs Hl Hlo. destruct (split_nonuniform_partition zs l Hzs Hl Hlo) as [parts [E [Hc [_ [Hp _]]]]].
  exists (TNode parts). split; [exact E|]. rewrite merge1_concat; [rewrite Hc; reflexivity| |rewrite Hc; exact Hl].
  revert Hp. apply Forall_impl. intros pt [b [sel [-> _]]]. exists sel. reflexivity.
Qed.

Example split_nonuniform_merge1_ex :
  split_nonuniform (map VInt [0; 2; 3; 10]) (TNode ex_fiber) =
    Some (TNode [(VInt 0, TNode [(VInt 0, ex_leaf 10); (VInt 1, ex_leaf 11)]);
                 (VInt 3, TNode [(VInt 3, ex_leaf 13); (VInt 4, ex_leaf 14); (VInt 7, ex_leaf 17)]);
                 (VInt 10, TNode [(VInt 12, ex_leaf 22)])]) /\
  exists t', split_nonuniform (map VInt [0; 2; 3; 10]) (TNode ex_fiber) = Some t' /\ merge1 t' = Some (TNode ex_fiber).
Proof.
  split; [vm_compute; reflexivity|]. apply split_nonuniform_merge1; [repeat constructor; lia|exact ex_fiber_sorted|].
  intros ct Hct. pose proof ex_fiber_nonneg as H. unfold nonneg_keys in H. rewrite Forall_forall in H. apply H. exact Hct.
Qed.

(* the hypothesis "first boundary <= every coordinate" is necessary: elements below it are dropped *)
Example split_nonuniform_below_lost :
  split_nonuniform (map VInt [1; 3]) (TNode [(VInt 0, ex_leaf 10); (VInt 1, ex_leaf 11); (VInt 4, ex_leaf 14)]) =
    Some (TNode [(VInt 1, TNode [(VInt 1, ex_leaf 11)]); (VInt 3, TNode [(VInt 4, ex_leaf 14)])]).
Proof. vm_compute. reflexivity. Qed.

(* ------------------------------------------------------------ swizzleRanks *)
(* a depth-n trie: every level a non-empty sorted integer fiber, leaves at depth exactly n *)
Fixpoint wft (n : nat) (t : trie) : Prop :=
  match n with
  | O => exists v, t = TLeaf v
  | S n' => exists l, t = TNode l /\ int_sorted l /\ l <> [] /\ Forall (fun ct => wft n' (snd ct)) l
  end.

Definition tins (t : trie) (pv : list value * value) : trie := tinsert (fst pv) (snd pv) t.

Lemma tbuild_eq ps : tbuild ps = fold_left tins ps (TNode []).
Proof. reflexivity. Qed.

Lemma wft_paths_nonempty n : forall t, wft n t -> paths t <> [].
Proof.
  induction n as [|n IH]; intros t H; cbn [wft] in H.
  - destruct H as [v ->]. discriminate.
  - destruct H as [l [-> [_ [Hne Hc]]]]. destruct l as [|ct l]; [congruence|]. inversion Hc as [|? ? H1 _]; subst.
    cbn [paths flat_map]. specialize (IH _ H1). destruct (paths (snd ct)); [congruence|]. discriminate.
Qed.

Lemma wft_paths_length n : forall t, wft n t -> Forall (fun pv => length (fst pv) = n) (paths t).
Proof.
  induction n as [|n IH]; intros t H; cbn [wft] in H.
  - destruct H as [v ->]. repeat constructor.
  - destruct H as [l [-> [_ [_ Hc]]]]. cbn [paths]. rewrite Forall_forall. intros pv Hpv. apply in_flat_map in Hpv.
    destruct Hpv as [ct [Hct Hpv]]. apply in_map_iff in Hpv. destruct Hpv as [pv' [<- Hpv']]. cbn [fst length].
    rewrite Forall_forall in Hc. specialize (IH _ (Hc _ Hct)). rewrite Forall_forall in IH. rewrite (IH _ Hpv'). reflexivity.
Qed.

Lemma tins_cons l c p v :
  tins (TNode l) (c :: p, v) = TNode (ainsert c (tinsert p v (match alookup c l with Some s => s | None => TNode [] end)) l).
Proof. reflexivity. Qed.

Lemma tins_prefix c pre : Forall int_key pre -> (forall x, In x pre -> kz x < c) -> forall ps s0,
  fold_left tins (map (fun pv => (VInt c :: fst pv, snd pv)) ps) (TNode (pre ++ [(VInt c, s0)])) =
  TNode (pre ++ [(VInt c, fold_left tins ps s0)]).
Proof.
  intros Hk Hlt. induction ps as [|pv ps IH]; intros s0; [reflexivity|]. cbn [map fold_left].
  rewrite tins_cons. rewrite alookup_last by assumption. rewrite ainsert_last by assumption.
  rewrite IH. reflexivity.
Qed.

Lemma tbuild_paths n : forall t, wft n t -> fold_left tins (paths t) (TNode []) = t.
Proof.
  induction n as [|n IH]; intros t H; cbn [wft] in H.
  - destruct H as [v ->]. reflexivity.
  - destruct H as [l [-> [Hs [_ Hc]]]]. cbn [paths].
    enough (G : forall pre, int_sorted (pre ++ l) ->
                fold_left tins (flat_map (fun ct => map (fun pv => (fst ct :: fst pv, snd pv)) (paths (snd ct))) l) (TNode pre) = TNode (pre ++ l))
      by (apply (G []); exact Hs).
    clear Hs. induction Hc as [|ct l Hct Hc IHl]; intros pre Hs; cbn [flat_map fold_left]; [rewrite app_nil_r; reflexivity|].
    rewrite fold_left_app. pose proof Hs as H0. apply int_sorted_app in H0. destruct H0 as [[Hk _] [Hl Hcl]].
    apply int_sorted_cons_inv in Hl. destruct Hl as [[c Hc0] _].
    assert (Hlt : forall x, In x pre -> kz x < c).
    { intros x Hx. specialize (Hcl x ct Hx (or_introl eq_refl)). unfold kz in Hcl at 2. rewrite Hc0 in Hcl. exact Hcl. }
    destruct ct as [c' s]. cbn [fst snd] in *. subst c'.
    pose proof (wft_paths_nonempty n s Hct) as Hne. pose proof (IH s Hct) as IHs.
    destruct (paths s) as [|pv ps]; [congruence|]. cbn [map fold_left].
    rewrite tins_cons. rewrite alookup_above by assumption. rewrite ainsert_above by assumption.
    rewrite tins_prefix by assumption. cbn [fold_left] in IHs. change (tinsert (fst pv) (snd pv) (TNode [])) with (tins (TNode []) pv). rewrite IHs.
    rewrite IHl; [rewrite <- app_assoc; reflexivity|rewrite <- app_assoc; exact Hs].
Qed.

Lemma nth_perm_id {A} (p : list A) d : nth_perm (seq 0 (length p)) p d = p.
Proof.
  unfold nth_perm. induction p as [|a p IH]; [reflexivity|]. cbn [length seq map nth]. f_equal.
  rewrite <- seq_shift, map_map. exact IH.
Qed.

(* (g, identity order) swizzling a well-formed depth-n trie by the identity rank order is the identity *)
Theorem tswizzle_id n t : wft n t \/ t = TNode [] -> tswizzle (seq 0 n) t = t.
Proof.
  intros [H| ->]; [|reflexivity]. unfold tswizzle. rewrite tbuild_eq.
  rewrite <- (tbuild_paths n t H) at 2. f_equal.
  pose proof (wft_paths_length n t H) as Hlen. induction Hlen as [|pv ps Hpv _ IH]; [reflexivity|].
  cbn [map]. rewrite IH. f_equal. rewrite <- Hpv, nth_perm_id. destruct pv; reflexivity.
Qed.

Example ex_trie2_wft : wft 2 (TNode ex_trie2).
Proof.
  eexists. split; [reflexivity|]. split; [prove_int_sorted|]. split; [discriminate|].
  repeat constructor; cbn [snd]; (eexists; split; [reflexivity|]; split; [prove_int_sorted|]; split; [discriminate|]);
    repeat constructor; eexists; reflexivity.
Qed.

Example tswizzle_id_ex : tswizzle (seq 0 2) (TNode ex_trie2) = TNode ex_trie2.
Proof. apply tswizzle_id. left. exact ex_trie2_wft. Qed.

(* ---- swizzleRanks by an arbitrary permutation: denotation ---- *)
(* the payload at a path: follow alookup along the coordinates *)
Fixpoint tlookup (p : list value) (t : trie) : option value :=
  match p, t with
  | [], TLeaf v => Some v
  | c :: p', TNode l => match alookup c l with Some s => tlookup p' s | None => None end
  | _, _ => None
  end.
Definition zl (zs : list Z) (t : trie) : option value := tlookup (map VInt zs) t.

Lemma zl_cons c zs l : zl (c :: zs) (TNode l) = match alookup (VInt c) l with Some s => zl zs s | None => None end.
Proof. reflexivity. Qed.
Lemma zl_empty zs : zl zs (TNode []) = None.
Proof. destruct zs; reflexivity. Qed.

(* -- ainsert / alookup on integer fibers, in general position -- *)
Lemma int_sorted_cons {A} (ct : value * A) l : int_key ct -> int_sorted l -> (forall b, In b l -> kz ct < kz b) -> int_sorted (ct :: l).
Proof.
  intros Hk [H1 H2] Hlt. split; constructor; try assumption. rewrite Forall_forall. exact Hlt.
Qed.

Ltac int_head Hk ct z y := inversion Hk as [|? ? [z Hz__] Hk']; subst; destruct ct as [c__ y]; cbn [fst] in Hz__; subst c__.

Lemma alookup_ainsert {A} c d x (l : list (value * A)) : Forall int_key l ->
  alookup (VInt d) (ainsert (VInt c) x l) = if d =? c then Some x else alookup (VInt d) l.
Proof.
  induction l as [|ct l IH]; intros Hk.
  - cbn [ainsert alookup]. rewrite veqb_int. reflexivity.
  - inversion Hk as [|? ? [z Hz] Hk']; subst. destruct ct as [c' y]. cbn [fst] in Hz. subst c'. cbn [ainsert].
    rewrite vltb_int, veqb_int. destruct (Z.ltb_spec c z).
    + cbn [alookup]. rewrite !veqb_int. reflexivity.
    + destruct (Z.eqb_spec c z).
      * subst z. cbn [alookup]. rewrite !veqb_int. destruct (d =? c); reflexivity.
      * cbn [alookup]. rewrite veqb_int, IH by exact Hk'. destruct (Z.eqb_spec d z); destruct (Z.eqb_spec d c); try reflexivity; lia.
Qed.

Lemma ainsert_In {A} c x (l : list (value * A)) y : Forall int_key l ->
  In y (ainsert (VInt c) x l) -> y = (VInt c, x) \/ In y l.
Proof.
  induction l as [|ct l IH]; intros Hk H.
  - cbn in H. destruct H as [<-|[]]. left. reflexivity.
  - inversion Hk as [|? ? [z Hz] Hk']; subst. destruct ct as [c' y']. cbn [fst] in Hz. subst c'. cbn [ainsert] in H.
    rewrite vltb_int, veqb_int in H. destruct (c <? z).
    + destruct H as [<-|H]; [left; reflexivity|right; exact H].
    + destruct (c =? z).
      * destruct H as [<-|H]; [left; reflexivity|right; right; exact H].
      * destruct H as [<-|H]; [right; left; reflexivity|]. destruct (IH Hk' H); [left; assumption|right; right; assumption].
Qed.

Lemma ainsert_nonempty {A} c x (l : list (value * A)) : ainsert c x l <> [].
Proof. destruct l as [|[c' y] l]; cbn [ainsert]; [discriminate|]. destruct (vltb c c'); [discriminate|]. destruct (veqb c c'); discriminate. Qed.

Lemma ainsert_sorted {A} c x (l : list (value * A)) : int_sorted l -> int_sorted (ainsert (VInt c) x l).
Proof.
  induction l as [|ct l IH]; intros Hs.
  - cbn [ainsert]. apply int_sorted_cons; [exists c; reflexivity|apply int_sorted_nil|intros b []].
  - pose proof Hs as Hs0. apply int_sorted_cons_inv in Hs. destruct Hs as [[z Hz] [Hl Hlt]].
    destruct ct as [c' y]. cbn [fst] in Hz. subst c'. cbn [ainsert]. rewrite vltb_int, veqb_int.
    assert (Hkz : kz (VInt z, y) = z) by reflexivity. rewrite Hkz in Hlt.
    destruct (Z.ltb_spec c z).
    + apply int_sorted_cons; [exists c; reflexivity|exact Hs0|]. intros b [<-|Hb]; [cbn; lia|]. specialize (Hlt b Hb). cbn. lia.
    + destruct (Z.eqb_spec c z).
      * subst z. apply int_sorted_cons; [exists c; reflexivity|exact Hl|]. intros b Hb. specialize (Hlt b Hb). cbn. lia.
      * apply int_sorted_cons; [exists z; reflexivity|apply IH; exact Hl|]. intros b Hb. rewrite Hkz.
        apply ainsert_In in Hb; [|apply Hl]. destruct Hb as [->|Hb]; [cbn; lia|apply Hlt; exact Hb].
Qed.

Lemma alookup_In {A} c s (l : list (value * A)) : Forall int_key l -> alookup (VInt c) l = Some s -> In (VInt c, s) l.
Proof.
  induction l as [|ct l IH]; intros Hk H; [discriminate|].
  inversion Hk as [|? ? [z Hz] Hk']; subst. destruct ct as [c' y]. cbn [fst] in Hz. subst c'. cbn [alookup] in H.
  rewrite veqb_int in H. destruct (Z.eqb_spec c z).
  - injection H as <-. subst z. left. reflexivity.
  - right. apply IH; assumption.
Qed.

Lemma In_alookup {A} c s (l : list (value * A)) : int_sorted l -> In (VInt c, s) l -> alookup (VInt c) l = Some s.
Proof.
  induction l as [|ct l IH]; intros Hs H; [destruct H|].
  apply int_sorted_cons_inv in Hs. destruct Hs as [[z Hz] [Hl Hlt]].
  destruct ct as [c' y]. cbn [fst] in Hz. subst c'. cbn [alookup]. rewrite veqb_int. destruct H as [H|H].
  - injection H as -> ->. rewrite Z.eqb_refl. reflexivity.
  - specialize (Hlt _ H). cbn in Hlt. destruct (Z.eqb_spec c z); [lia|]. apply IH; assumption.
Qed.

(* -- inserting one fresh path into a well-formed (or empty) trie -- *)
Definition inv (n : nat) (t : trie) : Prop := t = TNode [] \/ wft n t.

Lemma inv_S_node n t : inv (S n) t -> exists l, t = TNode l /\ int_sorted l /\ Forall (fun ct => wft n (snd ct)) l.
Proof.
  intros [->|[l [-> [Hs [_ Hc]]]]]; [exists []; split; [reflexivity|split; [apply int_sorted_nil|constructor]]|].
  exists l. split; [reflexivity|split; assumption].
Qed.

Lemma tinsert_spec : forall zs v t, inv (length zs) t -> zl zs t = None ->
  wft (length zs) (tinsert (map VInt zs) v t) /\
  zl zs (tinsert (map VInt zs) v t) = Some v /\
  (forall zs', length zs' = length zs -> zs' <> zs -> zl zs' (tinsert (map VInt zs) v t) = zl zs' t).
Proof.
  induction zs as [|c zs IH]; intros v t Hinv Hnone.
  - cbn [length map tinsert]. destruct Hinv as [->|[w ->]]; [|discriminate Hnone].
    split; [exists v; reflexivity|]. split; [reflexivity|]. intros zs' Hlen Hne. destruct zs'; [congruence|discriminate].
  - cbn [length] in *. apply inv_S_node in Hinv. destruct Hinv as [l [-> [Hs Hc]]].
    rewrite zl_cons in Hnone. cbn [map tinsert tchildren].
    set (sub := match alookup (VInt c) l with Some s => s | None => TNode [] end).
    assert (Hsub : inv (length zs) sub /\ zl zs sub = None).
    { unfold sub. destruct (alookup (VInt c) l) as [s|] eqn:E; [|split; [left; reflexivity|apply zl_empty]].
      split; [|exact Hnone]. right. apply alookup_In in E; [|apply Hs]. rewrite Forall_forall in Hc. apply (Hc _ E). }
    destruct Hsub as [Hsub1 Hsub2]. destruct (IH v sub Hsub1 Hsub2) as [W [Same Other]].
    split; [|split].
    + exists (ainsert (VInt c) (tinsert (map VInt zs) v sub) l). split; [reflexivity|].
      split; [apply ainsert_sorted; exact Hs|]. split; [apply ainsert_nonempty|].
      rewrite Forall_forall. intros y Hy. apply ainsert_In in Hy; [|apply Hs]. destruct Hy as [->|Hy]; [exact W|].
      rewrite Forall_forall in Hc. apply Hc. exact Hy.
    + rewrite zl_cons, alookup_ainsert by apply Hs. rewrite Z.eqb_refl. exact Same.
    + intros zs' Hlen Hne. destruct zs' as [|d zs']; [discriminate|]. cbn [length] in Hlen.
      rewrite !zl_cons, alookup_ainsert by apply Hs. destruct (Z.eqb_spec d c) as [->|Hdc]; [|reflexivity].
      rewrite Other; [|lia|congruence]. unfold sub. destruct (alookup (VInt c) l); [reflexivity|apply zl_empty].
Qed.

(* -- building from a duplicate-free list of integer paths -- *)
Definition vpath (pv : list Z * value) : list value * value := (map VInt (fst pv), snd pv).

Lemma tfold_spec n : forall ps t0, inv n t0 -> NoDup (map fst ps) -> Forall (fun pv => length (fst pv) = n) ps ->
  (forall pv, In pv ps -> zl (fst pv) t0 = None) ->
  inv n (fold_left tins (map vpath ps) t0) /\
  (ps <> [] -> wft n (fold_left tins (map vpath ps) t0)) /\
  (forall zs v, length zs = n -> (zl zs (fold_left tins (map vpath ps) t0) = Some v <-> In (zs, v) ps \/ zl zs t0 = Some v)).
Proof.
  induction ps as [|[p v] ps IH]; intros t0 Hinv Hnd Hlen Hfresh; cbn [map fold_left].
  - split; [exact Hinv|]. split; [congruence|]. intros zs v _. cbn [In]. tauto.
  - cbn [map fst] in Hnd. apply NoDup_cons_iff in Hnd. destruct Hnd as [Hnotin Hnd'].
    pose proof (Forall_inv Hlen) as Hp. pose proof (Forall_inv_tail Hlen) as Hlen'. cbn [fst] in Hp.
    assert (Hp0 : zl p t0 = None) by (apply (Hfresh (p, v)); left; reflexivity).
    subst n. destruct (tinsert_spec p v t0 Hinv Hp0) as [W [Same Other]].
    change (tins t0 (vpath (p, v))) with (tinsert (map VInt p) v t0). set (t1 := tinsert (map VInt p) v t0) in *.
    assert (Hfresh1 : forall pv, In pv ps -> zl (fst pv) t1 = None).
    { intros pv Hpv. rewrite Forall_forall in Hlen'. rewrite Other; [apply Hfresh; right; exact Hpv|apply Hlen'; exact Hpv|].
      intros E. apply Hnotin. rewrite <- E. apply in_map. exact Hpv. }
    destruct (IH t1 (or_intror W) Hnd' Hlen' Hfresh1) as [I1 [I2 I3]]. split; [exact I1|]. split.
    + intros _. destruct ps as [|pv ps]; [exact W|]. apply I2. discriminate.
    + intros zs v' Hzs. rewrite (I3 zs v' Hzs). cbn [In]. destruct (list_eq_dec Z.eq_dec zs p) as [->|Hne].
      * rewrite Same, Hp0. split.
        -- intros [H|H]; [tauto|]. injection H as <-. left. left. reflexivity.
        -- intros [[H|H]|H]; [injection H as <-; right; reflexivity|tauto|discriminate].
      * rewrite (Other zs Hzs Hne). split; [tauto|]. intros [[H|H]|H]; [injection H as E _; congruence|tauto|tauto].
Qed.

(* -- integer paths of a well-formed trie -- *)
Fixpoint zpaths (t : trie) : list (list Z * value) :=
  match t with
  | TLeaf v => [([], v)]
  | TNode l => flat_map (fun ct => map (fun pv => (kz ct :: fst pv, snd pv)) (zpaths (snd ct))) l
  end.

Lemma paths_zpaths n : forall t, wft n t -> paths t = map vpath (zpaths t).
Proof.
  induction n as [|n IH]; intros t H; cbn [wft] in H.
  - destruct H as [v ->]. reflexivity.
  - destruct H as [l [-> [[Hk _] [_ Hc]]]]. cbn [paths zpaths].
    induction Hc as [|ct l Hct Hc IHl]; [reflexivity|]. inversion Hk as [|? ? [c Hc0] Hk']; subst.
    cbn [flat_map]. rewrite map_app, IHl by exact Hk'. f_equal. rewrite (IH _ Hct), !map_map. apply map_ext.
    intros pv. unfold vpath, kz. cbn [fst snd map]. rewrite Hc0. reflexivity.
Qed.

Lemma zpaths_length n : forall t, wft n t -> Forall (fun pv => length (fst pv) = n) (zpaths t).
Proof.
  induction n as [|n IH]; intros t H; cbn [wft] in H.
  - destruct H as [v ->]. repeat constructor.
  - destruct H as [l [-> [_ [_ Hc]]]]. cbn [zpaths]. rewrite Forall_forall. intros pv Hpv. apply in_flat_map in Hpv.
    destruct Hpv as [ct [Hct Hpv]]. apply in_map_iff in Hpv. destruct Hpv as [pv' [<- Hpv']]. cbn [fst length].
    rewrite Forall_forall in Hc. specialize (IH _ (Hc _ Hct)). rewrite Forall_forall in IH. rewrite (IH _ Hpv'). reflexivity.
Qed.

Lemma zpaths_lookup n : forall t, wft n t -> forall zs v, In (zs, v) (zpaths t) <-> zl zs t = Some v.
Proof.
  induction n as [|n IH]; intros t H zs v; cbn [wft] in H.
  - destruct H as [w ->]. cbn [zpaths In]. destruct zs; cbn; split; intros H; try discriminate; try tauto.
    + destruct H as [H|[]]. injection H as <-. reflexivity.
    + injection H as <-. left. reflexivity.
    + destruct H as [H|[]]. discriminate.
  - destruct H as [l [-> [Hs [_ Hc]]]]. cbn [zpaths]. rewrite in_flat_map. rewrite Forall_forall in Hc. split.
    + intros [ct [Hct Hpv]]. apply in_map_iff in Hpv. destruct Hpv as [[zs' v'] [E Hpv']]. cbn [fst snd] in E. injection E as <- <-.
      destruct Hs as [Hk Hss]. rewrite Forall_forall in Hk. destruct (Hk _ Hct) as [c Hc0]. destruct ct as [c' s]. cbn [fst] in Hc0. subst c'.
      change (kz (VInt c, s)) with c. rewrite zl_cons, (In_alookup c s l); [|split; [rewrite Forall_forall; exact Hk|exact Hss]|exact Hct].
      apply (IH s (Hc _ Hct)). exact Hpv'.
    + intros H. destruct zs as [|c zs]; [discriminate|]. rewrite zl_cons in H. destruct (alookup (VInt c) l) as [s|] eqn:E; [|discriminate].
      apply alookup_In in E; [|apply Hs]. exists (VInt c, s). split; [exact E|]. apply in_map_iff. exists (zs, v). split; [reflexivity|].
      apply (IH s (Hc _ E)). exact H.
Qed.

Lemma NoDup_app_intro {A} (l1 l2 : list A) : NoDup l1 -> NoDup l2 -> (forall x, In x l1 -> In x l2 -> False) -> NoDup (l1 ++ l2).
Proof.
  induction 1 as [|x l1 Hx Hnd IH]; intros H2 Hd; [exact H2|]. cbn [app]. constructor.
  - intros Hin. apply in_app_or in Hin. destruct Hin as [Hin|Hin]; [contradiction|]. apply (Hd x); [left; reflexivity|exact Hin].
  - apply IH; [exact H2|]. intros y Hy1 Hy2. apply (Hd y); [right; exact Hy1|exact Hy2].
Qed.

Lemma NoDup_map_inj_in {A B} (f : A -> B) l : (forall x y, In x l -> In y l -> f x = f y -> x = y) -> NoDup l -> NoDup (map f l).
Proof.
  intros Hinj. induction 1 as [|x l Hx Hnd IH]; cbn [map]; constructor.
  - intros Hin. apply in_map_iff in Hin. destruct Hin as [y [E Hy]]. apply Hx.
    rewrite (Hinj x y); [exact Hy|left; reflexivity|right; exact Hy|symmetry; exact E].
  - apply IH. intros a b Ha Hb. apply Hinj; right; assumption.
Qed.

Lemma zpaths_nodup n : forall t, wft n t -> NoDup (map fst (zpaths t)).
Proof.
  induction n as [|n IH]; intros t H; cbn [wft] in H.
  - destruct H as [v ->]. cbn. repeat constructor. intros [].
  - destruct H as [l [-> [Hs [_ Hc]]]]. cbn [zpaths]. induction Hc as [|ct l Hct Hc IHl]; [constructor|].
    apply int_sorted_cons_inv in Hs. destruct Hs as [_ [Hs Hlt]]. cbn [flat_map]. rewrite map_app. apply NoDup_app_intro.
    + rewrite map_map. cbn [fst]. rewrite <- (map_map fst (cons (kz ct))). apply NoDup_map_inj_in; [|apply IH; exact Hct].
      intros x y _ _ E. injection E as E. exact E.
    + apply IHl. exact Hs.
    + intros x Hx1 Hx2. apply in_map_iff in Hx1. destruct Hx1 as [pv1 [<- H1]]. apply in_map_iff in H1. destruct H1 as [pv1' [<- _]].
      apply in_map_iff in Hx2. destruct Hx2 as [pv2 [E H2]]. apply in_flat_map in H2. destruct H2 as [ct' [Hct' H2]].
      apply in_map_iff in H2. destruct H2 as [pv2' [<- _]]. cbn [fst] in E. injection E as E _. specialize (Hlt _ Hct'). lia.
Qed.

(* -- permutations of the rank order -- *)
Lemma perm_range perm n : Permutation perm (seq 0 n) -> (forall i, In i perm <-> (i < n)%nat) /\ length perm = n.
Proof.
  intros HP. split.
  - intros i. split; intros H.
    + apply (Permutation_in _ HP) in H. apply in_seq in H. lia.
    + apply (Permutation_in _ (Permutation_sym HP)). apply in_seq. lia.
  - rewrite (Permutation_length HP). apply seq_length.
Qed.

Lemma nth_perm_VInt perm zs : (forall i, In i perm -> (i < length zs)%nat) ->
  nth_perm perm (map VInt zs) VNone = map VInt (nth_perm perm zs 0).
Proof.
  intros H. unfold nth_perm. rewrite map_map. apply map_ext_in. intros i Hi.
  rewrite (nth_indep _ VNone (VInt 0)) by (rewrite map_length; apply H; exact Hi). apply map_nth.
Qed.

Lemma nth_perm_inj perm n (p q : list Z) : Permutation perm (seq 0 n) -> length p = n -> length q = n ->
  nth_perm perm p 0 = nth_perm perm q 0 -> p = q.
Proof.
  intros HP Hp Hq E. destruct (perm_range perm n HP) as [Hr _]. apply (nth_ext p q 0 0); [congruence|].
  intros i Hi. unfold nth_perm in E. assert (Hin : In i perm) by (apply Hr; lia). clear - E Hin.
  induction perm as [|j perm IH]; [destruct Hin|]. cbn [map] in E. injection E as E1 E2. destruct Hin as [<-|Hin]; [exact E1|apply IH; assumption].
Qed.

Definition zswz (perm : list nat) (t : trie) : list (list Z * value) :=
  map (fun pv => (nth_perm perm (fst pv) 0, snd pv)) (zpaths t).

Lemma tswizzle_eq perm n t : Permutation perm (seq 0 n) -> wft n t ->
  tswizzle perm t = fold_left tins (map vpath (zswz perm t)) (TNode []).
Proof.
  intros HP H. unfold tswizzle, zswz. rewrite tbuild_eq, (paths_zpaths n t H), !map_map. f_equal.
  apply map_ext_in. intros pv Hpv. unfold vpath. cbn [fst snd]. f_equal.
  pose proof (zpaths_length n t H) as Hlen. rewrite Forall_forall in Hlen. apply nth_perm_VInt.
  intros i Hi. rewrite (Hlen _ Hpv). apply (perm_range perm n HP). exact Hi.
Qed.

Lemma tswizzle_spec perm n t : Permutation perm (seq 0 n) -> wft n t ->
  wft n (tswizzle perm t) /\
  forall zs v, length zs = n -> (zl zs (tswizzle perm t) = Some v <-> In (zs, v) (zswz perm t)).
Proof.
  intros HP H. rewrite (tswizzle_eq perm n t HP H). destruct (perm_range perm n HP) as [_ Hplen].
  pose proof (zpaths_length n t H) as Hlen. rewrite Forall_forall in Hlen.
  destruct (tfold_spec n (zswz perm t) (TNode [])) as [_ [I2 I3]].
  - left. reflexivity.
  - unfold zswz. rewrite map_map. cbn [fst]. rewrite <- (map_map fst (fun zs => nth_perm perm zs 0)).
    apply NoDup_map_inj_in; [|apply (zpaths_nodup n); exact H].
    intros x y Hx Hy E. apply in_map_iff in Hx. destruct Hx as [pvx [<- Hx]]. apply in_map_iff in Hy. destruct Hy as [pvy [<- Hy]].
    apply (nth_perm_inj perm n); [exact HP|apply Hlen; exact Hx|apply Hlen; exact Hy|exact E].
  - unfold zswz. rewrite Forall_forall. intros pv Hpv. apply in_map_iff in Hpv. destruct Hpv as [pv' [<- _]]. cbn [fst].
    unfold nth_perm. rewrite map_length. exact Hplen.
  - intros pv _. apply zl_empty.
  - split.
    + apply I2. unfold zswz. pose proof (wft_paths_nonempty n t H) as Hne. rewrite (paths_zpaths n t H) in Hne.
      destruct (zpaths t); [exfalso; apply Hne; reflexivity|discriminate].
    + intros zs v Hzs. rewrite (I3 zs v Hzs), zl_empty. split; [intros [X|X]; [exact X|discriminate]|tauto].
Qed.

Lemma option_ext {A} (a b : option A) : (forall v, a = Some v <-> b = Some v) -> a = b.
Proof.
  intros H. destruct a as [x|]; destruct b as [y|]; try reflexivity.
  - symmetry. exact (proj1 (H x) eq_refl).
  - pose proof (proj1 (H x) eq_refl). discriminate.
  - exact (proj2 (H y) eq_refl).
Qed.

(* (g, denotation) the swizzled trie holds at the permuted path what the original holds at the path *)
Theorem tswizzle_lookup perm n t zs : Permutation perm (seq 0 n) -> wft n t -> length zs = n ->
  tlookup (nth_perm perm (map VInt zs) VNone) (tswizzle perm t) = tlookup (map VInt zs) t.
Proof.
  intros HP H Hzs. destruct (perm_range perm n HP) as [Hr Hplen].
  rewrite nth_perm_VInt by (intros i Hi; rewrite Hzs; apply Hr; exact Hi).
  fold (zl (nth_perm perm zs 0) (tswizzle perm t)). fold (zl zs t). apply option_ext. intros v.
  destruct (tswizzle_spec perm n t HP H) as [_ Hsp]. rewrite Hsp by (unfold nth_perm; rewrite map_length; exact Hplen).
  rewrite <- (zpaths_lookup n t H). unfold zswz. rewrite in_map_iff. split.
  - intros [[zs' v'] [E Hin]]. cbn [fst snd] in E. injection E as E <-.
    pose proof (zpaths_length n t H) as Hlen. rewrite Forall_forall in Hlen.
    rewrite <- (nth_perm_inj perm n zs' zs HP (Hlen _ Hin) Hzs E). exact Hin.
  - intros Hin. exists (zs, v). split; [reflexivity|exact Hin].
Qed.

Theorem tswizzle_wft perm n t : Permutation perm (seq 0 n) -> wft n t -> wft n (tswizzle perm t).
Proof. intros HP H. apply (tswizzle_spec perm n t HP H). Qed.

(* ---- canonical form: well-formed tries with the same payload at every path are equal ---- *)
Lemma wft_inhabited n : forall t, wft n t -> exists zs v, length zs = n /\ zl zs t = Some v.
Proof.
  induction n as [|n IH]; intros t H; cbn [wft] in H.
  - destruct H as [v ->]. exists [], v. split; reflexivity.
  - destruct H as [l [-> [Hs [Hne Hc]]]]. destruct l as [|ct l]; [congruence|].
    inversion Hc as [|? ? Hct _]; subst. destruct (IH _ Hct) as [zs [v [Hlen Hz]]].
    pose proof Hs as Hs0. apply int_sorted_cons_inv in Hs0. destruct Hs0 as [[c Hc0] _]. destruct ct as [c' s]. cbn [fst snd] in *. subst c'.
    exists (c :: zs), v. split; [cbn; lia|]. rewrite zl_cons, (In_alookup c s); [exact Hz|exact Hs|left; reflexivity].
Qed.

Lemma alookup_below {A} c (l : list (value * A)) : Forall int_key l -> (forall b, In b l -> c < kz b) -> alookup (VInt c) l = None.
Proof.
  induction l as [|ct l IH]; intros Hk Hlt; [reflexivity|].
  inversion Hk as [|? ? [z Hz] Hk']; subst. destruct ct as [c' y]. cbn [fst] in Hz. subst c'. cbn [alookup]. rewrite veqb_int.
  pose proof (Hlt _ (or_introl eq_refl)) as H. cbn in H. destruct (Z.eqb_spec c z); [lia|].
  apply IH; [exact Hk'|]. intros b Hb. apply Hlt. right. exact Hb.
Qed.

Lemma sorted_fiber_ext {A} (l1 : list (value * A)) : forall l2, int_sorted l1 -> int_sorted l2 ->
  (forall c, alookup (VInt c) l1 = alookup (VInt c) l2) -> l1 = l2.
Proof.
  induction l1 as [|ct1 l1 IH]; intros l2 H1 H2 E.
  - destruct l2 as [|ct2 l2]; [reflexivity|]. apply int_sorted_cons_inv in H2. destruct H2 as [[c2 Hc2] _].
    destruct ct2 as [c' s2]. cbn [fst] in Hc2. subst c'. specialize (E c2). cbn [alookup] in E. rewrite veqb_int, Z.eqb_refl in E. discriminate.
  - apply int_sorted_cons_inv in H1. destruct H1 as [[c1 Hc1] [H1 Hlt1]]. destruct ct1 as [c' s1]. cbn [fst] in Hc1. subst c'.
    change (kz (VInt c1, s1)) with c1 in Hlt1.
    destruct l2 as [|ct2 l2].
    { specialize (E c1). cbn [alookup] in E. rewrite veqb_int, Z.eqb_refl in E. discriminate. }
    apply int_sorted_cons_inv in H2. destruct H2 as [[c2 Hc2] [H2 Hlt2]]. destruct ct2 as [c' s2]. cbn [fst] in Hc2. subst c'.
    change (kz (VInt c2, s2)) with c2 in Hlt2.
    assert (Ec : c1 = c2).
    { destruct (Z.lt_trichotomy c1 c2) as [Hlt|[Heq|Hgt]]; [|exact Heq|].
      - specialize (E c1). cbn [alookup] in E. rewrite !veqb_int, Z.eqb_refl in E. destruct (Z.eqb_spec c1 c2); [lia|].
        rewrite alookup_below in E; [discriminate|apply H2|]. intros b Hb. specialize (Hlt2 b Hb). lia.
      - specialize (E c2). cbn [alookup] in E. rewrite !veqb_int, Z.eqb_refl in E. destruct (Z.eqb_spec c2 c1); [lia|].
        rewrite alookup_below in E; [discriminate|apply H1|]. intros b Hb. specialize (Hlt1 b Hb). lia. }
    subst c2. pose proof (E c1) as E1. cbn [alookup] in E1. rewrite veqb_int, Z.eqb_refl in E1. injection E1 as <-.
    f_equal. apply IH; [exact H1|exact H2|]. intros c. specialize (E c). cbn [alookup] in E. rewrite veqb_int in E.
    destruct (Z.eqb_spec c c1) as [Hcc|Hne]; [|exact E]. rewrite Hcc.
    rewrite !alookup_below; [reflexivity|apply H2|exact Hlt2|apply H1|exact Hlt1].
Qed.

Theorem wft_ext n : forall t1 t2, wft n t1 -> wft n t2 ->
  (forall zs, length zs = n -> zl zs t1 = zl zs t2) -> t1 = t2.
Proof.
  induction n as [|n IH]; intros t1 t2 H1 H2 E; cbn [wft] in H1, H2.
  - destruct H1 as [v1 ->]. destruct H2 as [v2 ->]. specialize (E [] eq_refl). cbn in E. congruence.
  - destruct H1 as [l1 [-> [Hs1 [_ Hc1]]]]. destruct H2 as [l2 [-> [Hs2 [_ Hc2]]]]. f_equal.
    rewrite Forall_forall in Hc1, Hc2. apply sorted_fiber_ext; [exact Hs1|exact Hs2|]. intros c.
    destruct (alookup (VInt c) l1) as [s1|] eqn:E1; destruct (alookup (VInt c) l2) as [s2|] eqn:E2; try reflexivity.
    + f_equal. apply IH.
      * apply alookup_In in E1; [|apply Hs1]. apply (Hc1 _ E1).
      * apply alookup_In in E2; [|apply Hs2]. apply (Hc2 _ E2).
      * intros zs Hzs. specialize (E (c :: zs)). rewrite !zl_cons, E1, E2 in E. apply E. cbn. lia.
    + exfalso. pose proof E1 as E1'. apply alookup_In in E1'; [|apply Hs1]. destruct (wft_inhabited n s1 (Hc1 _ E1')) as [zs [v [Hlen Hz]]].
      specialize (E (c :: zs)). rewrite !zl_cons, E1, E2, Hz in E. discriminate E. cbn. lia.
    + exfalso. pose proof E2 as E2'. apply alookup_In in E2'; [|apply Hs2]. destruct (wft_inhabited n s2 (Hc2 _ E2')) as [zs [v [Hlen Hz]]].
      specialize (E (c :: zs)). rewrite !zl_cons, E1, E2, Hz in E. discriminate E. cbn. lia.
Qed.

(* (g, inverse) swizzling by a permutation and then by its inverse is the identity *)
Theorem tswizzle_inverse perm perm' n t : Permutation perm (seq 0 n) -> Permutation perm' (seq 0 n) ->
  (forall zs : list Z, length zs = n -> nth_perm perm' (nth_perm perm zs 0) 0 = zs) ->
  wft n t -> tswizzle perm' (tswizzle perm t) = t.
Proof.
  intros HP HP' Hinv H. pose proof (tswizzle_wft perm n t HP H) as H1. pose proof (tswizzle_wft perm' n _ HP' H1) as H2.
  apply (wft_ext n); [exact H2|exact H|]. intros zs Hzs.
  destruct (perm_range perm n HP) as [Hr Hplen]. destruct (perm_range perm' n HP') as [Hr' Hplen'].
  assert (Hq : length (nth_perm perm zs 0) = n) by (unfold nth_perm; rewrite map_length; exact Hplen).
  pose proof (tswizzle_lookup perm' n (tswizzle perm t) (nth_perm perm zs 0) HP' H1 Hq) as L1.
  pose proof (tswizzle_lookup perm n t zs HP H Hzs) as L2.
  rewrite nth_perm_VInt in L1 by (intros i Hi; rewrite Hq; apply Hr'; exact Hi).
  rewrite nth_perm_VInt in L2 by (intros i Hi; rewrite Hzs; apply Hr; exact Hi).
  rewrite (Hinv zs Hzs) in L1. unfold zl. rewrite L1. exact L2.
Qed.

(* the two-level transpose is an involution *)
Corollary tswizzle_transpose_involution t : wft 2 t -> tswizzle [1; 0]%nat (tswizzle [1; 0]%nat t) = t.
Proof.
  apply (tswizzle_inverse [1; 0]%nat [1; 0]%nat 2).
  - apply perm_swap.
  - apply perm_swap.
  - intros zs Hzs. destruct zs as [|a [|b [|c zs]]]; try discriminate. reflexivity.
Qed.

Example tswizzle_transpose_ex :
  tswizzle [1; 0]%nat (TNode ex_trie2) =
    TNode [(VInt 0, TNode [(VInt 2, ex_leaf 3); (VInt 3, ex_leaf 4)]); (VInt 1, TNode [(VInt 0, ex_leaf 1)]);
           (VInt 5, TNode [(VInt 0, ex_leaf 2); (VInt 3, ex_leaf 5)])] /\
  tswizzle [1; 0]%nat (tswizzle [1; 0]%nat (TNode ex_trie2)) = TNode ex_trie2 /\
  tlookup (nth_perm [1; 0]%nat (map VInt [3; 5]) VNone) (tswizzle [1; 0]%nat (TNode ex_trie2)) = tlookup (map VInt [3; 5]) (TNode ex_trie2).
Proof.
  split; [vm_compute; reflexivity|]. split; [apply tswizzle_transpose_involution; exact ex_trie2_wft|].
  apply (tswizzle_lookup [1; 0]%nat 2); [apply perm_swap|exact ex_trie2_wft|reflexivity].
Qed.

(* a three-rank rotation and its inverse *)
Definition ex_trie3 : trie :=
  TNode [(VInt 1, TNode ex_trie2); (VInt 4, TNode [(VInt 2, TNode [(VInt 0, ex_leaf 7); (VInt 9, ex_leaf 8)])])].

Example ex_trie3_wft : wft 3 ex_trie3.
Proof.
  eexists. split; [reflexivity|]. split; [prove_int_sorted|]. split; [discriminate|].
  constructor; [exact ex_trie2_wft|]. constructor; [|constructor]. cbn [snd].
  eexists. split; [reflexivity|]. split; [prove_int_sorted|]. split; [discriminate|].
  repeat constructor; cbn [snd]; (eexists; split; [reflexivity|]; split; [prove_int_sorted|]; split; [discriminate|]);
    repeat constructor; eexists; reflexivity.
Qed.

Example tswizzle_rotation_ex : tswizzle [2; 0; 1]%nat (tswizzle [1; 2; 0]%nat ex_trie3) = ex_trie3.
Proof.
  apply (tswizzle_inverse [1; 2; 0]%nat [2; 0; 1]%nat 3).
  - apply perm_trans with [1; 0; 2]%nat; [apply perm_skip; apply perm_swap|apply perm_swap].
  - apply perm_trans with [0; 2; 1]%nat; [apply perm_swap|apply perm_skip; apply perm_swap].
  - intros zs Hzs. destruct zs as [|a [|b [|c [|d zs]]]]; try discriminate. reflexivity.
  - exact ex_trie3_wft.
Qed.

(* ------------------------------------------------------------ the laws at any depth *)
(* the interpreter applies every operation through tmap_depth d (to each fiber at depth d of a tensor):
   a round-trip law of one fiber lifts to the whole trie *)
Fixpoint at_depth (d : nat) (P : trie -> Prop) (t : trie) : Prop :=
  match d with
  | O => P t
  | S d' => exists l, t = TNode l /\ Forall (fun ct => at_depth d' P (snd ct)) l
  end.

Theorem tmap_depth_roundtrip (f g : trie -> option trie) (P : trie -> Prop) :
  (forall t, P t -> exists t', f t = Some t' /\ g t' = Some t) ->
  forall d t, at_depth d P t -> exists t', tmap_depth d f t = Some t' /\ tmap_depth d g t' = Some t.
Proof.
  intros Hfg. induction d as [|d IH]; intros t H; cbn [at_depth] in H; [apply Hfg; exact H|].
  destruct H as [l [-> Hc]].
  enough (G : exists l', tmap_depth (S d) f (TNode l) = Some (TNode l') /\ tmap_depth (S d) g (TNode l') = Some (TNode l))
    by (destruct G as [l' G]; exists (TNode l'); exact G).
  induction Hc as [|ct l Hct Hc IHl]; [exists []; split; reflexivity|].
  destruct IHl as [l' [E1 E2]]. destruct (IH _ Hct) as [s' [F1 F2]]. destruct ct as [c s]. cbn [snd] in *.
  exists ((c, s') :: l'). cbn [tmap_depth] in *. rewrite F1, F2.
  split.
  - destruct ((fix go (l0 : list (value * trie)) : option (list (value * trie)) :=
                 match l0 with [] => Some [] | (c0, s0) :: l'0 =>
                   match tmap_depth d f s0, go l'0 with Some s'0, Some r => Some ((c0, s'0) :: r) | _, _ => None end end) l) as [r|];
      [injection E1 as ->; reflexivity|discriminate].
  - destruct ((fix go (l0 : list (value * trie)) : option (list (value * trie)) :=
                 match l0 with [] => Some [] | (c0, s0) :: l'0 =>
                   match tmap_depth d g s0, go l'0 with Some s'0, Some r => Some ((c0, s'0) :: r) | _, _ => None end end) l') as [r|];
      [injection E2 as ->; reflexivity|discriminate].
Qed.

Definition fiber_ok (P : list (value * trie) -> Prop) (t : trie) : Prop := exists l, t = TNode l /\ P l.

(* splitUniform / splitEqual / splitNonUniform at depth d, then mergeRanks at depth d; flattenRanks then unflattenRanks *)
Theorem split_uniform_merge1_depth d step t : 0 < step ->
  at_depth d (fiber_ok (fun l => int_sorted l /\ nonneg_keys l)) t ->
  exists t', tmap_depth d (split_uniform step 0 0) t = Some t' /\ tmap_depth d merge1 t' = Some t.
Proof.
  intros Hs. apply tmap_depth_roundtrip. intros t0 [l [-> [H1 H2]]]. apply split_uniform_merge1; assumption.
Qed.

Theorem split_equal_merge1_depth d n t : 0 < n -> at_depth d (fiber_ok int_sorted) t ->
  exists t', tmap_depth d (split_equal n) t = Some t' /\ tmap_depth d merge1 t' = Some t.
Proof.
  intros Hn. apply tmap_depth_roundtrip. intros t0 [l [-> H1]]. apply split_equal_merge1; assumption.
Qed.

Theorem split_nonuniform_merge1_depth d zs t : StronglySorted Z.lt zs ->
  at_depth d (fiber_ok (fun l => int_sorted l /\ match zs with b0 :: _ => forall ct, In ct l -> b0 <= kz ct | [] => l = [] end)) t ->
  exists t', tmap_depth d (split_nonuniform (map VInt zs)) t = Some t' /\ tmap_depth d merge1 t' = Some t.
Proof.
  intros Hzs. apply tmap_depth_roundtrip. intros t0 [l [-> [H1 H2]]]. apply split_nonuniform_merge1; assumption.
Qed.

Theorem flatten1_unflatten1_depth d t : at_depth d (fiber_ok wf2) t ->
  exists t', tmap_depth d flatten1 t = Some t' /\ tmap_depth d unflatten1 t' = Some t.
Proof. apply tmap_depth_roundtrip. intros t0 [l [-> H1]]. apply flatten1_unflatten1; assumption. Qed.

Example split_uniform_merge1_depth_ex :
  exists t', tmap_depth 1 (split_uniform 3 0 0) (TNode [(VInt 2, TNode ex_fiber); (VInt 5, TNode [(VInt 8, ex_leaf 1)])]) = Some t' /\
             tmap_depth 1 merge1 t' = Some (TNode [(VInt 2, TNode ex_fiber); (VInt 5, TNode [(VInt 8, ex_leaf 1)])]).
Proof.
  apply split_uniform_merge1_depth; [lia|]. eexists. split; [reflexivity|].
  constructor; [exists ex_fiber; split; [reflexivity|split; [exact ex_fiber_sorted|exact ex_fiber_nonneg]]|].
  constructor; [|constructor]. eexists. split; [reflexivity|]. split; [prove_int_sorted|repeat constructor; cbn; lia].
Qed.
