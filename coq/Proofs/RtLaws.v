(* Algebraic laws of the modelled fibertree runtime (Model/Rt.v), for tries of ANY size:
   partitioning (splitUniform / splitEqual / splitNonUniform) is undone by mergeRanks,
   flattenRanks is undone by unflattenRanks, swizzling by the identity order is the identity.
   All statements are about the very definitions the interpreter runs (C02, C03). *)
From Coq Require Import ZArith List Bool Lia ZifyBool Sorted.
Require Import TV.Model.Rt TV.Proofs.OccLaws TV.Proofs.SplitArith.
Import ListNotations.
Open Scope Z_scope.
Ltac Zify.zify_post_hook ::= Z.to_euclidean_division_equations.

(* ------------------------------------------------------------ comparisons on VInt *)
Lemma veqb_int a b : veqb (VInt a) (VInt b) = (a =? b).
Proof.
  unfold veqb, vcmp, as_num, ncmp. destruct (Z.compare_spec a b); destruct (Z.eqb_spec a b); try reflexivity; lia.
Qed.

Lemma vltb_int a b : vltb (VInt a) (VInt b) = (a <? b).
Proof. reflexivity. Qed.

Lemma vleb_int a b : vleb (VInt a) (VInt b) = (a <=? b).
Proof. unfold vleb, vcmp, as_num, ncmp, Z.leb. destruct (a ?= b); reflexivity. Qed.

Lemma coordZ_int z : coordZ (VInt z) = Some z.
Proof. reflexivity. Qed.

Arguments veqb : simpl never.
Arguments vltb : simpl never.
Arguments vleb : simpl never.
Arguments coordZ : simpl never.

(* ------------------------------------------------------------ well-formed fibers *)
(* the coordinate of an element is an integer ... *)
Definition int_key {A} (ct : value * A) : Prop := exists z, fst ct = VInt z.
(* ... namely this one *)
Definition kz {A} (ct : value * A) : Z := match fst ct with VInt z => z | _ => 0 end.
(* coordinates are VInt z with z strictly increasing *)
Definition int_sorted {A} (l : list (value * A)) : Prop :=
  Forall int_key l /\ StronglySorted (fun a b => kz a < kz b) l.
Definition nonneg_keys {A} (l : list (value * A)) : Prop := Forall (fun ct => 0 <= kz ct) l.

Lemma int_key_eq {A} (ct : value * A) : int_key ct -> ct = (VInt (kz ct), snd ct).
Proof. destruct ct as [c x]. intros [z E]. cbn in E. subst c. reflexivity. Qed.

(* ---- StronglySorted toolkit ---- *)
Lemma SS_app {A} (R : A -> A -> Prop) l1 l2 :
  StronglySorted R (l1 ++ l2) <->
  StronglySorted R l1 /\ StronglySorted R l2 /\ (forall a b, In a l1 -> In b l2 -> R a b).
Proof.
  induction l1 as [|x l1 IH]; cbn [app].
  - split; [intros H; repeat split; [constructor|exact H|intros a b []]|intros [_ [H _]]; exact H].
  - split.
    + intros H. inversion H as [|? ? Hs Hf]; subst. apply IH in Hs. destruct Hs as [H1 [H2 H3]].
      rewrite Forall_app in Hf. destruct Hf as [Hf1 Hf2]. split; [constructor; assumption|]. split; [assumption|].
      intros a b [<-|Ha] Hb; [rewrite Forall_forall in Hf2; apply Hf2; exact Hb|apply H3; assumption].
    + intros [H1 [H2 H3]]. inversion H1 as [|? ? Hs Hf]; subst. constructor.
      * apply IH. split; [assumption|]. split; [assumption|]. intros a b Ha Hb. apply H3; [right; exact Ha|exact Hb].
      * rewrite Forall_app. split; [assumption|]. rewrite Forall_forall. intros b Hb. apply H3; [left; reflexivity|exact Hb].
Qed.

Lemma SS_filter {A} (R : A -> A -> Prop) f l : StronglySorted R l -> StronglySorted R (filter f l).
Proof.
  induction 1 as [|x l Hs IH Hf]; cbn [filter]; [constructor|].
  destruct (f x); [|exact IH]. constructor; [exact IH|].
  rewrite Forall_forall in *. intros y Hy. apply filter_In in Hy. apply Hf. tauto.
Qed.

Lemma SS_impl {A} (R R' : A -> A -> Prop) l : (forall a b, R a b -> R' a b) -> StronglySorted R l -> StronglySorted R' l.
Proof.
  intros HR. induction 1 as [|x l Hs IH Hf]; constructor; [exact IH|].
  rewrite Forall_forall in *. intros y Hy. apply HR, Hf, Hy.
Qed.

Lemma Forall_filter {A} (P : A -> Prop) f l : Forall P l -> Forall P (filter f l).
Proof. rewrite !Forall_forall. intros H x Hx. apply filter_In in Hx. apply H. tauto. Qed.

Lemma int_sorted_app {A} (l1 l2 : list (value * A)) :
  int_sorted (l1 ++ l2) <-> int_sorted l1 /\ int_sorted l2 /\ (forall a b, In a l1 -> In b l2 -> kz a < kz b).
Proof. unfold int_sorted. rewrite Forall_app, SS_app. tauto. Qed.

Lemma int_sorted_filter {A} f (l : list (value * A)) : int_sorted l -> int_sorted (filter f l).
Proof. intros [H1 H2]. split; [apply Forall_filter; exact H1|apply SS_filter; exact H2]. Qed.

Lemma int_sorted_nil {A} : int_sorted (@nil (value * A)).
Proof. split; constructor. Qed.

Lemma int_sorted_cons_inv {A} (ct : value * A) l : int_sorted (ct :: l) ->
  int_key ct /\ int_sorted l /\ forall b, In b l -> kz ct < kz b.
Proof.
  intros [H1 H2]. inversion H1; subst. inversion H2 as [|? ? Hs Hf]; subst.
  split; [assumption|]. split; [split; assumption|]. rewrite Forall_forall in Hf. exact Hf.
Qed.

(* ---- alookup / ainsert / asort on sorted integer fibers ---- *)
Lemma alookup_above {A} c (l : list (value * A)) :
  Forall int_key l -> (forall a, In a l -> kz a < c) -> alookup (VInt c) l = None.
Proof.
  induction l as [|ct l IH]; intros Hk Hlt; [reflexivity|].
  inversion Hk as [|? ? Hk1 Hk2]; subst. rewrite (int_key_eq ct Hk1). cbn [alookup].
  rewrite veqb_int. assert (kz ct < c) by (apply Hlt; left; reflexivity).
  destruct (Z.eqb_spec c (kz ct)); [lia|]. apply IH; [exact Hk2|]. intros a Ha. apply Hlt. right. exact Ha.
Qed.

Lemma ainsert_above {A} c x (l : list (value * A)) :
  Forall int_key l -> (forall a, In a l -> kz a < c) -> ainsert (VInt c) x l = l ++ [(VInt c, x)].
Proof.
  induction l as [|ct l IH]; intros Hk Hlt; [reflexivity|].
  inversion Hk as [|? ? Hk1 Hk2]; subst. rewrite (int_key_eq ct Hk1). cbn [ainsert app].
  rewrite veqb_int, vltb_int. assert (kz ct < c) by (apply Hlt; left; reflexivity).
  destruct (Z.ltb_spec c (kz ct)); [lia|]. destruct (Z.eqb_spec c (kz ct)); [lia|].
  f_equal. apply IH; [exact Hk2|]. intros a Ha. apply Hlt. right. exact Ha.
Qed.

(* the last element of a sorted fiber: lookup finds it, insert replaces it *)
Lemma alookup_last {A} c x (l : list (value * A)) :
  Forall int_key l -> (forall a, In a l -> kz a < c) -> alookup (VInt c) (l ++ [(VInt c, x)]) = Some x.
Proof.
  induction l as [|ct l IH]; intros Hk Hlt; cbn [app alookup].
  - rewrite veqb_int, Z.eqb_refl. reflexivity.
  - inversion Hk as [|? ? Hk1 Hk2]; subst. rewrite (int_key_eq ct Hk1).
    rewrite veqb_int. assert (kz ct < c) by (apply Hlt; left; reflexivity).
    destruct (Z.eqb_spec c (kz ct)); [lia|]. apply IH; [exact Hk2|]. intros a Ha. apply Hlt. right. exact Ha.
Qed.

Lemma ainsert_last {A} c x y (l : list (value * A)) :
  Forall int_key l -> (forall a, In a l -> kz a < c) -> ainsert (VInt c) y (l ++ [(VInt c, x)]) = l ++ [(VInt c, y)].
Proof.
  induction l as [|ct l IH]; intros Hk Hlt; cbn [app ainsert].
  - rewrite veqb_int, vltb_int, Z.eqb_refl, Z.ltb_irrefl. reflexivity.
  - inversion Hk as [|? ? Hk1 Hk2]; subst. rewrite (int_key_eq ct Hk1).
    rewrite veqb_int, vltb_int. assert (kz ct < c) by (apply Hlt; left; reflexivity).
    destruct (Z.ltb_spec c (kz ct)); [lia|]. destruct (Z.eqb_spec c (kz ct)); [lia|].
    f_equal. apply IH; [exact Hk2|]. intros a Ha. apply Hlt. right. exact Ha.
Qed.

Lemma asort_acc {A} (l acc : list (value * A)) : int_sorted (acc ++ l) ->
  fold_left (fun acc cx => ainsert (fst cx) (snd cx) acc) l acc = acc ++ l.
Proof.
  revert acc. induction l as [|ct l IH]; intros acc H; cbn [fold_left]; [rewrite app_nil_r; reflexivity|].
  pose proof H as H0. apply int_sorted_app in H0. destruct H0 as [[Ha _] [Hl Hlt]].
  apply int_sorted_cons_inv in Hl. destruct Hl as [Hk _].
  assert (Hlt' : forall a, In a acc -> kz a < kz ct) by (intros a Hin; apply Hlt; [exact Hin|left; reflexivity]).
  destruct ct as [c x]. destruct Hk as [z Hz]. cbn [fst] in Hz. subst c. cbn [fst snd]. unfold kz in Hlt' at 2. cbn [fst] in Hlt'.
  rewrite ainsert_above by assumption.
  rewrite IH; rewrite <- app_assoc; [reflexivity|exact H].
Qed.

Lemma asort_sorted {A} (l : list (value * A)) : int_sorted l -> asort l = l.
Proof. intros H. unfold asort. rewrite asort_acc; [reflexivity|exact H]. Qed.

(* ---- tmerge / merge1 of consecutive, disjoint, increasing fibers is concatenation ---- *)
Lemma tmerge_append fuel la lb : int_sorted (la ++ lb) ->
  tmerge (S fuel) (TNode la) (TNode lb) = TNode (la ++ lb).
Proof.
  cbn [tmerge]. intros H. f_equal. revert la H.
  induction lb as [|ct lb IH]; intros la H; cbn [fold_left]; [rewrite app_nil_r; reflexivity|].
  pose proof H as H0. apply int_sorted_app in H0. destruct H0 as [[Ha _] [Hl Hlt]].
  apply int_sorted_cons_inv in Hl. destruct Hl as [Hk _].
  assert (Hlt' : forall a, In a la -> kz a < kz ct) by (intros a Hin; apply Hlt; [exact Hin|left; reflexivity]).
  destruct ct as [c x]. destruct Hk as [z Hz]. cbn [fst] in Hz. subst c. cbn [fst snd]. unfold kz in Hlt' at 2. cbn [fst] in Hlt'.
  rewrite alookup_above by assumption. rewrite ainsert_above by assumption.
  rewrite IH; rewrite <- app_assoc; [reflexivity|exact H].
Qed.

Lemma merge_fold_concat ll : forall acc, int_sorted (acc ++ concat ll) ->
  fold_left (fun acc l' => tmerge 64 acc (TNode (asort l'))) ll (TNode acc) = TNode (acc ++ concat ll).
Proof.
  induction ll as [|l' ll IH]; intros acc H; cbn [fold_left concat] in *; [rewrite app_nil_r; reflexivity|].
  rewrite app_assoc in H. pose proof H as H0. apply int_sorted_app in H0. destruct H0 as [H1 _].
  pose proof H1 as H2. apply int_sorted_app in H2. destruct H2 as [_ [H2 _]].
  rewrite asort_sorted by exact H2. rewrite tmerge_append by exact H1.
  rewrite IH by exact H. rewrite <- app_assoc. reflexivity.
Qed.

Lemma all_some_map_Some {A B} (f : A -> B) l : all_some (map (fun x => Some (f x)) l) = Some (map f l).
Proof. induction l as [|x l IH]; cbn [map all_some]; [reflexivity|rewrite IH; reflexivity]. Qed.

(* the lower fibers of a two-level trie *)
Definition lowers (parts : list (value * trie)) : list (list (value * trie)) :=
  map (fun pt => tchildren (snd pt)) parts.
Definition all_nodes (parts : list (value * trie)) : Prop :=
  Forall (fun pt => exists l', snd pt = TNode l') parts.

Lemma merge1_lowers parts : all_nodes parts ->
  all_some (map (fun ct : value * trie => match snd ct with TNode l' => Some l' | TLeaf _ => None end) parts) = Some (lowers parts).
Proof.
  induction 1 as [|pt parts [l' E] Hf IH]; cbn [map all_some lowers]; [reflexivity|].
  rewrite E. fold (lowers parts). rewrite IH. reflexivity.
Qed.

(* KEY LAW: whenever the lower fibers of `parts`, concatenated in order, form a sorted fiber l
   (consecutive disjoint pieces), mergeRanks gives back exactly l *)
Theorem merge1_concat parts : all_nodes parts -> int_sorted (concat (lowers parts)) ->
  merge1 (TNode parts) = Some (TNode (concat (lowers parts))).
Proof.
  intros Hn Hs. unfold merge1. rewrite merge1_lowers by exact Hn.
  rewrite (merge_fold_concat (lowers parts) []); [reflexivity|exact Hs].
Qed.
